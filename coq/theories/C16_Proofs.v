(* C16_Proofs.v — lemmas and proofs for C16. *)
From Coq Require Import Permutation Sorted.
From Verif Require Import Common C16_Model C16_Spec C16_Corr.
Local Open Scope N_scope.

(* ------------------------------------------------------------------ *)
(* 1. association lists                                                *)
(* ------------------------------------------------------------------ *)

Section Assoc.
  Context {K V : Type} (eqb : K -> K -> bool).
  Hypothesis eqb_eq : forall a b, eqb a b = true <-> a = b.

  Lemma eqb_refl' a : eqb a a = true.
  Proof. apply eqb_eq. reflexivity. Qed.

  Lemma eqb_neq a b : eqb a b = false <-> a <> b.
  Proof.
    split.
    - intros H E. apply eqb_eq in E. congruence.
    - intros H. destruct (eqb a b) eqn:E; [apply eqb_eq in E; contradiction | reflexivity].
  Qed.

  Lemma aget_In k (l : list (K * V)) v : aget eqb k l = Some v -> In (k, v) l.
  Proof.
    induction l as [|[k' v'] l IH]; cbn [aget]; [discriminate|].
    destruct (eqb k k') eqn:E.
    - intros H. inversion H; subst. apply eqb_eq in E. subst. left; reflexivity.
    - intros H. right. apply IH. exact H.
  Qed.

  Lemma aget_None k (l : list (K * V)) : aget eqb k l = None -> forall v, ~ In (k, v) l.
  Proof.
    induction l as [|[k' v'] l IH]; cbn [aget]; intros H v Hin; [destruct Hin|].
    destruct (eqb k k') eqn:E; [discriminate|].
    destruct Hin as [Hin|Hin].
    - inversion Hin; subst. rewrite eqb_refl' in E. discriminate.
    - exact (IH H v Hin).
  Qed.

  Lemma In_aget k v (l : list (K * V)) : NoDup (map fst l) -> In (k, v) l -> aget eqb k l = Some v.
  Proof.
    induction l as [|[k' v'] l IH]; cbn [aget map fst]; intros Hn Hin; [destruct Hin|].
    inversion Hn as [|? ? Hni Hn']; subst.
    destruct Hin as [Hin|Hin].
    - inversion Hin; subst. rewrite eqb_refl'. reflexivity.
    - destruct (eqb k k') eqn:E.
      + apply eqb_eq in E. subst k'. exfalso. apply Hni. apply in_map_iff. exists (k, v). split; [reflexivity | exact Hin].
      + apply IH; assumption.
  Qed.

  Lemma In_aset k v (l : list (K * V)) x :
    In x (aset eqb k v l) <-> x = (k, v) \/ (In x l /\ fst x <> k).
  Proof.
    unfold aset. cbn [In]. rewrite filter_In, negb_true_iff, eqb_neq. split.
    - intros [H|[H1 H2]]; [left; symmetry; exact H | right; split; [exact H1 | congruence]].
    - intros [H|[H1 H2]]; [left; symmetry; exact H | right; split; [exact H1 | congruence]].
  Qed.

  Lemma NoDup_filter_keys (f : K * V -> bool) (l : list (K * V)) :
    NoDup (map fst l) -> NoDup (map fst (filter f l)).
  Proof.
    induction l as [|x l IH]; cbn [filter map]; intros Hn; [constructor|].
    inversion Hn as [|? ? Hni Hn']; subst.
    destruct (f x); [|apply IH; exact Hn'].
    cbn [map]. constructor; [|apply IH; exact Hn'].
    intros Hin. apply Hni. apply in_map_iff in Hin as [y [E Hy]]. apply filter_In in Hy as [Hy _].
    apply in_map_iff. exists y. split; assumption.
  Qed.

  Lemma NoDup_aset k v (l : list (K * V)) : NoDup (map fst l) -> NoDup (map fst (aset eqb k v l)).
  Proof.
    intros Hn. unfold aset. cbn [map fst]. constructor; [|apply NoDup_filter_keys; exact Hn].
    intros Hin. apply in_map_iff in Hin as [[k' v'] [E Hy]]. cbn [fst] in E. subst k'.
    apply filter_In in Hy as [_ Hy]. cbn [fst] in Hy. rewrite eqb_refl' in Hy. discriminate.
  Qed.
End Assoc.

Lemma N_eqb_eq a b : N.eqb a b = true <-> a = b.
Proof. apply N.eqb_eq. Qed.

Lemma vals_eqb_eq a b : vals_eqb a b = true <-> a = b.
Proof. apply list_eqb_eq, N_eqb_eq. Qed.

Lemma labels_eqb_eq a b : labels_eqb a b = true <-> a = b.
Proof. apply list_eqb_eq. apply pair_eqb_eq; apply N_eqb_eq. Qed.

Lemma skey_eqb_eq a b : skey_eqb a b = true <-> a = b.
Proof.
  destruct a as [[g1 n1] l1], b as [[g2 n2] l2]. unfold skey_eqb. cbn [fst snd].
  rewrite !andb_true_iff, !N.eqb_eq, labels_eqb_eq. split.
  - intros [[-> ->] ->]. reflexivity.
  - intros E. inversion E. auto.
Qed.

Lemma NoDup_map_inj_on {A B} (f : A -> B) (l : list A) :
  (forall x y, In x l -> In y l -> f x = f y -> x = y) -> NoDup l -> NoDup (map f l).
Proof.
  induction l as [|a l IH]; intros Hinj Hn; cbn [map]; [constructor|].
  inversion Hn as [|? ? Hni Hn']; subst. constructor.
  - intros Hin. apply in_map_iff in Hin as [y [E Hy]]. apply Hni.
    rewrite (Hinj a y (or_introl eq_refl) (or_intror Hy) (eq_sym E)). exact Hy.
  - apply IH; [|exact Hn']. intros x y Hx Hy. apply Hinj; right; assumption.
Qed.

(* ------------------------------------------------------------------ *)
(* 2. labels                                                           *)
(* ------------------------------------------------------------------ *)

Definition ssorted (l : list N) : Prop := StronglySorted N.lt l.
Definition lsorted (l : labels) : Prop := ssorted (map fst l).

Lemma ssorted_NoDup l : ssorted l -> NoDup l.
Proof.
  induction l as [|x l IH]; intros H; [constructor|].
  inversion H as [|? ? Hs Hall]; subst. constructor; [|apply IH; exact Hs].
  intros Hin. rewrite Forall_forall in Hall. specialize (Hall x Hin). lia.
Qed.

Lemma set_label_keys k v l x :
  In x (map fst (set_label k v l)) <-> x = k \/ In x (map fst l).
Proof.
  induction l as [|[k' v'] l IH]; cbn [set_label map fst In].
  - split; [intros [H|[]]; left; auto | intros [H|[]]; left; auto].
  - destruct (N.ltb k k'); [cbn [map fst In]; split; [intros [H|H]; auto | intros [H|H]; auto]|].
    destruct (N.eqb_spec k k') as [E|NE]; cbn [map fst In].
    + subst k'. split; [intros [H|H]; auto | intros [H|[H|H]]; auto].
    + rewrite IH. split; [intros [H|[H|H]]; auto | intros [H|[H|H]]; auto].
Qed.

Lemma set_label_sorted k v l : lsorted l -> lsorted (set_label k v l).
Proof.
  unfold lsorted. induction l as [|[k' v'] l IH]; cbn [set_label map fst]; intros Hs.
  - constructor; constructor.
  - inversion Hs as [|? ? Hs' Hall]; subst.
    destruct (N.ltb_spec k k') as [Hlt|Hge].
    + cbn [map fst]. constructor; [exact Hs|]. constructor; [exact Hlt|].
      eapply Forall_impl; [|exact Hall]. intros a Ha. cbn beta in *. lia.
    + destruct (N.eqb_spec k k') as [E|NE]; cbn [map fst].
      * subst k'. constructor; assumption.
      * constructor; [apply IH; exact Hs'|].
        apply Forall_forall. intros x Hx. apply set_label_keys in Hx as [->|Hx]; [lia|].
        rewrite Forall_forall in Hall. apply Hall. exact Hx.
Qed.

Lemma fold_set_label_sorted l : forall acc, lsorted acc ->
  lsorted (fold_left (fun acc kv => set_label (fst kv) (snd kv) acc) l acc).
Proof.
  induction l as [|kv l IH]; intros acc H; cbn [fold_left]; [exact H|].
  apply IH. apply set_label_sorted. exact H.
Qed.

Lemma merge_labels_sorted a b : lsorted (merge_labels a b).
Proof. unfold merge_labels. apply fold_set_label_sorted. constructor. Qed.

Lemma get_label_notin k l : ~ In k (map fst l) -> get_label k l = 0.
Proof.
  induction l as [|[k' v'] l IH]; cbn [get_label map fst In]; intros H; [reflexivity|].
  destruct (N.eqb_spec k k') as [E|NE]; [exfalso; apply H; left; auto|].
  apply IH. intros Hin. apply H. right; exact Hin.
Qed.

Lemma shown_zero names : shown_labels names (map (fun _ => 0) names) = [].
Proof. unfold shown_labels. induction names as [|n ns IH]; cbn; [reflexivity | exact IH]. Qed.

Lemma shown_keys names vals k v : In (k, v) (shown_labels names vals) -> In k names /\ v <> 0.
Proof.
  unfold shown_labels. rewrite filter_In. cbn [snd]. intros [Hin Hv]. split.
  - eapply in_combine_l. exact Hin.
  - apply negb_true_iff, N.eqb_neq in Hv. exact Hv.
Qed.

(* K: the label values computed against a superset of label names show exactly the
   labels with a non-empty value *)
Lemma shown_label_values names : forall l,
  ssorted names -> lsorted l -> (forall k, In k (map fst l) -> In k names) ->
  shown_labels names (label_values l names) = filter (fun kv => negb (N.eqb (snd kv) 0)) l.
Proof.
  induction names as [|n ns IH]; intros l Hn Hl Hsub.
  - destruct l as [|[k v] l]; [reflexivity|]. exfalso. apply (Hsub k). left; reflexivity.
  - inversion Hn as [|? ? Hns Hall]; subst. rewrite Forall_forall in Hall.
    assert (Hcase : (exists v l', l = (n, v) :: l') \/ ~ In n (map fst l)).
    { destruct l as [|[k v] l']; [right; intros []|].
      destruct (N.eqb_spec k n) as [E|NE]; [left; subst; eauto|]. right.
      unfold lsorted in Hl. cbn [map fst] in Hl. inversion Hl as [|? ? _ Hall']; subst.
      rewrite Forall_forall in Hall'.
      assert (Hk : In k ns). { destruct (Hsub k (or_introl eq_refl)) as [E|Hk]; [congruence | exact Hk]. }
      specialize (Hall k Hk). cbn [map fst In]. intros [E|Hin]; [congruence|]. specialize (Hall' n Hin). lia. }
    destruct Hcase as [[v [l' ->]]|Hnot].
    + unfold lsorted in Hl. cbn [map fst] in Hl. inversion Hl as [|? ? Hl' Hall']; subst.
      rewrite Forall_forall in Hall'.
      unfold label_values. cbn [map].
      assert (Hhd : get_label n ((n, v) :: l') = v) by (cbn [get_label]; rewrite N.eqb_refl; reflexivity).
      rewrite Hhd.
      assert (Hext : map (fun m => get_label m ((n, v) :: l')) ns = label_values l' ns).
      { unfold label_values. apply map_ext_in. intros m Hm. cbn [get_label].
        destruct (N.eqb_spec m n) as [E|NE]; [|reflexivity]. subst. specialize (Hall n Hm). lia. }
      rewrite Hext. unfold shown_labels in *. cbn [combine filter snd].
      rewrite IH; [reflexivity | exact Hns | exact Hl' |].
      intros k Hk. destruct (Hsub k (or_intror Hk)) as [E|Hin]; [|exact Hin].
      subst k. specialize (Hall' n Hk). lia.
    + unfold label_values. cbn [map]. rewrite (get_label_notin _ _ Hnot).
      unfold shown_labels in *. cbn [combine filter snd N.eqb negb].
      apply IH; [exact Hns | exact Hl |].
      intros k Hk. destruct (Hsub k Hk) as [E|Hin]; [subst; contradiction | exact Hin].
Qed.

(* J: on aligned rows the shown labels determine the label values *)
Lemma shown_inj names : forall v1 v2,
  ssorted names -> length v1 = length names -> length v2 = length names ->
  shown_labels names v1 = shown_labels names v2 -> v1 = v2.
Proof.
  induction names as [|n ns IH]; intros v1 v2 Hn H1 H2 E.
  - destruct v1, v2; try discriminate. reflexivity.
  - destruct v1 as [|a r1], v2 as [|b r2]; try discriminate.
    inversion Hn as [|? ? Hns Hall]; subst. rewrite Forall_forall in Hall.
    cbn [length] in H1, H2. injection H1 as H1. injection H2 as H2.
    assert (Hhead : forall r x, In (n, x) (shown_labels ns r) -> False).
    { intros r x Hin. apply shown_keys in Hin as [Hin _]. specialize (Hall n Hin). lia. }
    unfold shown_labels in E. cbn [combine filter snd] in E. fold (shown_labels ns r1) in E. fold (shown_labels ns r2) in E.
    destruct (N.eqb_spec a 0) as [Ea|Na], (N.eqb_spec b 0) as [Eb|Nb]; cbn [negb] in E.
    + subst. f_equal. apply IH; assumption.
    + exfalso. apply (Hhead r1 b). rewrite E. left; reflexivity.
    + exfalso. apply (Hhead r2 a). rewrite <- E. left; reflexivity.
    + inversion E as [[Eab Erest]]. f_equal. apply IH; assumption.
Qed.

(* sorting label names *)
Lemma insert_name_In x l y : In y (insert_name x l) <-> y = x \/ In y l.
Proof.
  induction l as [|z l IH]; cbn [insert_name In].
  - split; [intros [H|[]]; auto | intros [H|[]]; auto].
  - destruct (N.ltb x z); cbn [In]; [split; [intros [H|H]; auto | intros [H|H]; auto]|].
    rewrite IH. split; [intros [H|[H|H]]; auto | intros [H|[H|H]]; auto].
Qed.

Lemma sort_names_In l y : In y (sort_names l) <-> In y l.
Proof.
  unfold sort_names. induction l as [|x l IH]; cbn [fold_right In]; [reflexivity|].
  rewrite insert_name_In, IH. split; [intros [H|H]; auto | intros [H|H]; auto].
Qed.

Lemma insert_name_length x l : length (insert_name x l) = S (length l).
Proof.
  induction l as [|z l IH]; cbn [insert_name length]; [reflexivity|].
  destruct (N.ltb x z); cbn [length]; [reflexivity | rewrite IH; reflexivity].
Qed.

Lemma sort_names_length l : length (sort_names l) = length l.
Proof.
  unfold sort_names. induction l as [|x l IH]; cbn [fold_right length]; [reflexivity|].
  rewrite insert_name_length, IH. reflexivity.
Qed.

Lemma insert_name_sorted x l : ssorted l -> ~ In x l -> ssorted (insert_name x l).
Proof.
  unfold ssorted. induction l as [|z l IH]; cbn [insert_name]; intros Hs Hni.
  - constructor; constructor.
  - inversion Hs as [|? ? Hs' Hall]; subst.
    destruct (N.ltb_spec x z) as [Hlt|Hge].
    + constructor; [exact Hs|]. constructor; [exact Hlt|].
      eapply Forall_impl; [|exact Hall]. intros a Ha. cbn beta in *. lia.
    + constructor; [apply IH; [exact Hs' | intros Hin; apply Hni; right; exact Hin]|].
      apply Forall_forall. intros y Hy. apply insert_name_In in Hy as [->|Hy].
      * assert (x <> z) by (intros ->; apply Hni; left; reflexivity). lia.
      * rewrite Forall_forall in Hall. apply Hall. exact Hy.
Qed.

Lemma sort_names_sorted l : NoDup l -> ssorted (sort_names l).
Proof.
  unfold sort_names. induction l as [|x l IH]; cbn [fold_right]; intros Hn; [constructor|].
  inversion Hn as [|? ? Hni Hn']; subst.
  apply insert_name_sorted; [apply IH; exact Hn'|].
  intros Hin. apply Hni. apply (sort_names_In l x). exact Hin.
Qed.

Lemma combine_keys {A B} (a : list A) (b : list B) : length a = length b -> map fst (combine a b) = a.
Proof.
  revert b. induction a as [|x a IH]; intros [|y b] H; try discriminate; [reflexivity|].
  cbn [combine map fst]. f_equal. apply IH. injection H as H. exact H.
Qed.

Lemma NoDup_app_intro {A} (a b : list A) :
  NoDup a -> NoDup b -> (forall x, In x a -> ~ In x b) -> NoDup (a ++ b).
Proof.
  induction a as [|x a IH]; intros Ha Hb Hd; cbn [app]; [exact Hb|].
  inversion Ha as [|? ? Hni Ha']; subst. constructor.
  - intros Hin. apply in_app_or in Hin as [Hin|Hin]; [contradiction|]. apply (Hd x); [left; reflexivity | exact Hin].
  - apply IH; [exact Ha' | exact Hb|]. intros y Hy. apply Hd. right; exact Hy.
Qed.

Lemma NoDup_filter {A} (f : A -> bool) (l : list A) : NoDup l -> NoDup (filter f l).
Proof.
  induction l as [|x l IH]; cbn [filter]; intros Hn; [constructor|].
  inversion Hn as [|? ? Hni Hn']; subst. destruct (f x); [|apply IH; exact Hn'].
  constructor; [|apply IH; exact Hn']. intros Hin. apply filter_In in Hin as [Hin _]. contradiction.
Qed.

Lemma filter_idem {A} (f : A -> bool) (l : list A) : filter f (filter f l) = filter f l.
Proof.
  induction l as [|x l IH]; cbn [filter]; [reflexivity|].
  destruct (f x) eqn:E; cbn [filter]; [rewrite E, IH; reflexivity | exact IH].
Qed.

(* ------------------------------------------------------------------ *)
(* 3. the registry content of a model state, tagged with the groups    *)
(* ------------------------------------------------------------------ *)

Definition egroup (e : sentry) : N := fst (fst (fst e)).
Definition ename (e : sentry) : N := snd (fst (fst e)).
Definition elabels (e : sentry) : labels := snd (fst e).

Definition tag_coll (nc : N * collector) : list sentry :=
  map (fun row => ((snd (snd row), fst nc, shown_labels (c_names (snd nc)) (fst row)),
                   (kind_code (c_kind (snd nc)), (fst (snd row), @nil N)))) (c_rows (snd nc)).
Definition tag_vec (k : kind) (nv : N * vec) : list sentry :=
  map (fun row => ((0, fst nv, shown_labels (v_names (snd nv)) (fst row)), (kind_code k, snd row)))
      (v_rows (snd nv)).
Definition tag_vault (v : vault) : list sentry := flat_map tag_coll v.
Definition tag_vecs (k : kind) (vs : list (N * vec)) : list sentry := flat_map (tag_vec k) vs.
Definition tag_ungrouped (st : state) : list sentry :=
  tag_vecs KCounter (st_counters st) ++ tag_vecs KGauge (st_gauges st) ++ tag_vecs KHistogram (st_histograms st).
Definition tagged (st : state) : list sentry := tag_vault (st_vault st) ++ tag_ungrouped st.

Lemma map_flat_map {A B C} (f : B -> C) (g : A -> list B) (l : list A) :
  map f (flat_map g l) = flat_map (fun x => map f (g x)) l.
Proof. induction l as [|x l IH]; cbn [flat_map map]; [reflexivity|]. rewrite map_app, IH. reflexivity. Qed.

Lemma gather_project st : gather st = project (tagged st).
Proof.
  unfold gather, project, tagged, tag_ungrouped, tag_vault, tag_vecs.
  rewrite !map_app, !map_flat_map. f_equal; [|f_equal; [|f_equal]].
  all: apply flat_map_ext; intros [n c]; unfold gather_collector, gather_vec, tag_coll, tag_vec;
       rewrite map_map; apply map_ext; intros [vals p]; reflexivity.
Qed.

(* well-formed collectors and vectors *)
Record WFc (c : collector) : Prop := mkWFc {
  wfc_sorted : ssorted (c_names c);
  wfc_len : forall row, In row (c_rows c) -> length (fst row) = length (c_names c);
  wfc_nodup : NoDup (map fst (c_rows c));
  wfc_group : forall row, In row (c_rows c) -> snd (snd row) <> 0
}.
Record WFvec (v : vec) : Prop := mkWFvec {
  wfv_sorted : ssorted (v_names v);
  wfv_len : forall row, In row (v_rows v) -> length (fst row) = length (v_names v);
  wfv_nodup : NoDup (map fst (v_rows v))
}.
Arguments wfc_sorted {c}. Arguments wfc_len {c}. Arguments wfc_nodup {c}. Arguments wfc_group {c}.
Arguments wfv_sorted {v}. Arguments wfv_len {v}. Arguments wfv_nodup {v}.
Definition WFv (v : vault) : Prop := NoDup (map fst v) /\ forall n c, In (n, c) v -> WFc c.
Definition WFvs (vs : list (N * vec)) : Prop := NoDup (map fst vs) /\ forall n v, In (n, v) vs -> WFvec v.

Lemma tag_vault_group v e : WFv v -> In e (tag_vault v) -> egroup e <> 0.
Proof.
  intros [_ Hwf] Hin. apply in_flat_map in Hin as [[n c] [Hc Hin]].
  apply in_map_iff in Hin as [row [<- Hrow]]. cbn. exact (wfc_group (Hwf n c Hc) row Hrow).
Qed.

Lemma tag_vecs_group k vs e : In e (tag_vecs k vs) -> egroup e = 0.
Proof.
  intros Hin. apply in_flat_map in Hin as [[n c] [Hc Hin]].
  apply in_map_iff in Hin as [row [<- Hrow]]. reflexivity.
Qed.

Lemma tag_ungrouped_group st e : In e (tag_ungrouped st) -> egroup e = 0.
Proof.
  unfold tag_ungrouped. intros Hin.
  apply in_app_or in Hin as [Hin|Hin]; [eapply tag_vecs_group; exact Hin|].
  apply in_app_or in Hin as [Hin|Hin]; eapply tag_vecs_group; exact Hin.
Qed.

(* ---- UpdateLabels ---- *)

Lemma label_names_nodup_missing (old names : list N) :
  ssorted old -> ssorted names ->
  NoDup (old ++ filter (fun n => negb (mem_N n old)) names).
Proof.
  intros Ho Hn. apply NoDup_app_intro.
  - apply ssorted_NoDup. exact Ho.
  - apply NoDup_filter, ssorted_NoDup. exact Hn.
  - intros x Hx Hin. apply filter_In in Hin as [_ Hin]. apply negb_true_iff in Hin.
    apply mem_N_In in Hx. congruence.
Qed.

Lemma rekey_vals old new vals :
  ssorted old -> ssorted new -> (forall k, In k old -> In k new) -> length vals = length old ->
  let vals' := map (fun n => if mem_N n old then get_label n (combine old vals) else 0) new in
  shown_labels new vals' = shown_labels old vals /\ length vals' = length new.
Proof.
  intros Ho Hn Hsub Hlen vals'. split; [|unfold vals'; apply map_length].
  assert (E : vals' = label_values (combine old vals) new).
  { unfold vals', label_values. apply map_ext. intros n. destruct (mem_N n old) eqn:Hm; [reflexivity|].
    symmetry. apply get_label_notin. rewrite combine_keys by (symmetry; exact Hlen).
    intros Hin. apply mem_N_In in Hin. congruence. }
  rewrite E. rewrite shown_label_values.
  - reflexivity.
  - exact Hn.
  - unfold lsorted. rewrite combine_keys by (symmetry; exact Hlen). exact Ho.
  - intros k Hk. rewrite combine_keys in Hk by (symmetry; exact Hlen). apply Hsub. exact Hk.
Qed.

Lemma update_labels_spec c names n :
  WFc c -> ssorted names ->
  WFc (update_labels c names)
  /\ tag_coll (n, update_labels c names) = tag_coll (n, c)
  /\ c_kind (update_labels c names) = c_kind c
  /\ (forall k, In k names -> In k (c_names (update_labels c names))).
Proof.
  intros Hwf Hn. unfold update_labels.
  set (old := c_names c).
  set (missing := filter (fun n0 => negb (mem_N n0 old)) names).
  destruct missing as [|m0 mrest] eqn:Hmiss.
  - split; [exact Hwf | split; [reflexivity | split; [reflexivity|]]].
    intros k Hk. destruct (mem_N k old) eqn:Hm; [apply mem_N_In; exact Hm|].
    exfalso. assert (Hin : In k missing) by (apply filter_In; split; [exact Hk | rewrite Hm; reflexivity]).
    rewrite Hmiss in Hin. destruct Hin.
  - rewrite <- Hmiss. set (new := sort_names (old ++ missing)).
    assert (Hnew : ssorted new).
    { apply sort_names_sorted. apply label_names_nodup_missing; [apply (wfc_sorted Hwf) | exact Hn]. }
    assert (Hsub : forall k, In k old -> In k new).
    { intros k Hk. apply sort_names_In. apply in_or_app. left; exact Hk. }
    assert (Hlonger : forall row : list N * (Z * N), In row (c_rows c) -> Nat.eqb (length (fst row)) (length new) = false).
    { intros row Hrow. apply Nat.eqb_neq. rewrite (wfc_len Hwf row Hrow). fold old.
      unfold new. rewrite sort_names_length, app_length, Hmiss. cbn [length]. lia. }
    assert (Hrow : forall row : list N * (Z * N), In row (c_rows c) ->
              let row' := (if Nat.eqb (length (fst row)) (length new) then row
                           else (map (fun n0 => if mem_N n0 old then get_label n0 (combine old (fst row)) else 0) new, snd row)) in
              shown_labels new (fst row') = shown_labels old (fst row) /\ length (fst row') = length new /\ snd row' = snd row).
    { intros row Hr. cbn zeta. rewrite (Hlonger row Hr). cbn [fst snd].
      destruct (rekey_vals old new (fst row) (wfc_sorted Hwf) Hnew Hsub (wfc_len Hwf row Hr)) as [H1 H2].
      split; [exact H1 | split; [exact H2 | reflexivity]]. }
    split; [|split; [|split]].
    + constructor; cbn [c_names c_rows].
      * exact Hnew.
      * intros row' Hin. apply in_map_iff in Hin as [row [<- Hr]]. apply (Hrow row Hr).
      * rewrite map_map. apply NoDup_map_inj_on; [|].
        -- intros x y Hx Hy E.
           destruct (Hrow x Hx) as [Sx [Lx Px]]. destruct (Hrow y Hy) as [Sy [Ly Py]]. cbn zeta in *.
           assert (Evals : fst x = fst y).
           { apply (shown_inj old); [apply (wfc_sorted Hwf) | apply (wfc_len Hwf x Hx) | apply (wfc_len Hwf y Hy)|].
             rewrite <- Sx, <- Sy, E. reflexivity. }
           pose proof (wfc_nodup Hwf) as Hnd.
           destruct x as [kx px], y as [ky py]. cbn [fst] in Evals. subst ky. f_equal.
           assert (Hgx : row_get kx (c_rows c) = Some px) by (apply (In_aget vals_eqb vals_eqb_eq); assumption).
           assert (Hgy : row_get kx (c_rows c) = Some py) by (apply (In_aget vals_eqb vals_eqb_eq); assumption).
           congruence.
        -- assert (Hnd : NoDup (map fst (c_rows c))) by apply (wfc_nodup Hwf).
           clear -Hnd. induction (c_rows c) as [|x l IH]; [constructor|].
           cbn [map] in Hnd. inversion Hnd as [|? ? Hni Hn']; subst. constructor; [|apply IH; exact Hn'].
           intros Hin. apply Hni. apply in_map. exact Hin.
      * intros row' Hin. apply in_map_iff in Hin as [row [<- Hr]].
        destruct (Hrow row Hr) as [_ [_ Hs]]. cbn zeta in Hs. rewrite Hs. apply (wfc_group Hwf row Hr).
    + unfold tag_coll. cbn [snd fst c_names c_rows c_kind]. rewrite map_map. apply map_ext_in.
      intros row Hr. destruct (Hrow row Hr) as [Hs [_ Hp]]. cbn zeta in Hs, Hp.
      cbn beta.
      rewrite Hs, Hp. reflexivity.
    + reflexivity.
    + intros k Hk. cbn [c_names]. apply sort_names_In. destruct (mem_N k old) eqn:Hm.
      * apply in_or_app. left. apply mem_N_In. exact Hm.
      * apply in_or_app. right. apply filter_In. split; [exact Hk | rewrite Hm; reflexivity].
Qed.

(* ------------------------------------------------------------------ *)
(* 4. one grouped update against the reference registry                *)
(* ------------------------------------------------------------------ *)

Definition rest {V} (n : N) (l : list (N * V)) : list (N * V) := filter (fun kv => negb (N.eqb n (fst kv))) l.

Lemma rest_In {V} n (l : list (N * V)) x : In x (rest n l) <-> In x l /\ fst x <> n.
Proof.
  unfold rest. rewrite filter_In, negb_true_iff, N.eqb_neq. split; intros [H1 H2]; split; auto.
Qed.

Lemma name_set_cons {V} n (c : V) l : name_set n c l = (n, c) :: rest n l.
Proof. reflexivity. Qed.

Lemma rest_cons_same {V} n (c : V) l : rest n ((n, c) :: rest n l) = rest n l.
Proof. unfold rest. cbn [filter fst]. rewrite N.eqb_refl. cbn [negb]. apply filter_idem. Qed.

Lemma rest_keys_nodup {V} n (l : list (N * V)) c :
  NoDup (map fst l) -> NoDup (map fst ((n, c) :: rest n l)).
Proof. intros H. apply (NoDup_aset N.eqb N_eqb_eq n c l H). Qed.

Lemma tag_vault_rest_name n v e : In e (tag_vault (rest n v)) -> ename e <> n.
Proof.
  intros Hin. apply in_flat_map in Hin as [[n' c'] [Hc Hin]]. apply rest_In in Hc as [_ Hne].
  apply in_map_iff in Hin as [row [<- _]]. exact Hne.
Qed.

Lemma tag_coll_name n c e : In e (tag_coll (n, c)) -> ename e = n.
Proof. intros Hin. apply in_map_iff in Hin as [row [<- _]]. reflexivity. Qed.

Lemma vault_decomp v n c0 :
  NoDup (map fst v) -> name_get n v = Some c0 ->
  forall e, In e (tag_vault v) <-> In e (tag_coll (n, c0) ++ tag_vault (rest n v)).
Proof.
  intros Hn Hget e. rewrite in_app_iff. unfold tag_vault. rewrite !in_flat_map. split.
  - intros [[n' c'] [Hc Hin]]. destruct (N.eqb_spec n' n) as [E|NE].
    + subst n'. left. assert (Hget' : name_get n v = Some c') by (apply (In_aget N.eqb N_eqb_eq); assumption).
      assert (c' = c0) by congruence. subst. exact Hin.
    + right. exists (n', c'). split; [apply rest_In; split; assumption | exact Hin].
  - intros [Hin|[[n' c'] [Hc Hin]]].
    + exists (n, c0). split; [apply (aget_In N.eqb N_eqb_eq); exact Hget | exact Hin].
    + apply rest_In in Hc as [Hc _]. exists (n', c'). split; assumption.
Qed.

Lemma vault_rest_none v n :
  name_get n v = None -> forall e, In e (tag_vault v) <-> In e (tag_vault (rest n v)).
Proof.
  intros Hget e. unfold tag_vault. rewrite !in_flat_map. split.
  - intros [[n' c'] [Hc Hin]]. exists (n', c'). split; [|exact Hin]. apply rest_In. split; [exact Hc|].
    cbn [fst]. intros ->. exact (aget_None N.eqb N_eqb_eq _ _ Hget c' Hc).
  - intros [[n' c'] [Hc Hin]]. apply rest_In in Hc as [Hc _]. exists (n', c'). split; assumption.
Qed.

Lemma is_subset_In a b : is_subset a b = true -> forall x, In x b -> In x a.
Proof. unfold is_subset. rewrite forallb_forall. intros H x Hx. apply mem_N_In. apply H. exact Hx. Qed.

Lemma kind_eqb_refl k : kind_eqb k k = true.
Proof. destruct k; reflexivity. Qed.

Lemma goc_spec v k n names :
  WFv v -> ssorted names -> (forall c, name_get n v = Some c -> c_kind c = k) ->
  exists c, get_or_create v k n names = ((n, c) :: rest n v, Some c)
            /\ WFc c /\ c_kind c = k /\ (forall x, In x names -> In x (c_names c))
            /\ (forall e, In e (tag_vault v) <-> In e (tag_coll (n, c) ++ tag_vault (rest n v))).
Proof.
  intros [Hnd Hwf] Hnames Hkind. unfold get_or_create.
  destruct (name_get n v) as [c0|] eqn:Hget.
  - assert (Hin0 : In (n, c0) v) by (apply (aget_In N.eqb N_eqb_eq); exact Hget).
    pose proof (Hwf n c0 Hin0) as Hwf0.
    destruct (update_labels_spec c0 names n Hwf0 Hnames) as [U1 [U2 [U3 U4]]].
    set (c' := if is_subset (c_names c0) names then c0 else update_labels c0 names).
    assert (Hc' : WFc c' /\ tag_coll (n, c') = tag_coll (n, c0) /\ c_kind c' = c_kind c0
                  /\ (forall x, In x names -> In x (c_names c'))).
    { unfold c'. destruct (is_subset (c_names c0) names) eqn:Hs.
      - split; [exact Hwf0 | split; [reflexivity | split; [reflexivity | apply is_subset_In; exact Hs]]].
      - split; [exact U1 | split; [exact U2 | split; [exact U3 | exact U4]]]. }
    destruct Hc' as [W1 [W2 [W3 W4]]].
    exists c'. rewrite name_set_cons, W3, (Hkind c0 eq_refl), kind_eqb_refl.
    split; [reflexivity | split; [exact W1 | split; [reflexivity | split; [exact W4|]]]].
    intros e. rewrite W2. apply vault_decomp; assumption.
  - exists (mkColl k names []). rewrite name_set_cons.
    split; [reflexivity | split; [|split; [reflexivity | split; [intros x Hx; exact Hx|]]]].
    + constructor; cbn [c_names c_rows]; [exact Hnames | intros row [] | constructor | intros row []].
    + intros e. cbn [app tag_coll c_rows snd map]. apply vault_rest_none. exact Hget.
Qed.

Definition grouped_upd (v : vault) (k : kind) (g n : N) (l : labels) (newval : option Z -> Z) : vault :=
  match get_or_create v k n (label_names l) with
  | (v', None) => v'
  | (v', Some c) =>
      let vals := label_values l (c_names c) in
      let m := match row_get vals (c_rows c) with
               | None => (newval None, g)
               | Some (x0, g0) => (newval (Some x0), g0)
               end in
      name_set n (mkColl (c_kind c) (c_names c) (row_set vals m (c_rows c))) v'
  end.

Lemma counter_add_upd v g n x l :
  counter_add v g n x l
  = grouped_upd v KCounter g n l (fun o => match o with Some x0 => (x0 + x)%Z | None => x end).
Proof.
  unfold counter_add, grouped_upd. destruct (get_or_create v KCounter n (label_names l)) as [v' [c|]]; [|reflexivity].
  destruct (row_get (label_values l (c_names c)) (c_rows c)) as [[x0 g0]|]; reflexivity.
Qed.

Lemma gauge_set_upd v g n x l :
  gauge_set v g n x l = grouped_upd v KGauge g n l (fun _ => x).
Proof.
  unfold gauge_set, grouped_upd. destruct (get_or_create v KGauge n (label_names l)) as [v' [c|]]; [|reflexivity].
  destruct (row_get (label_values l (c_names c)) (c_rows c)) as [[x0 g0]|]; reflexivity.
Qed.

Definition nonempty (l : labels) : labels := filter (fun kv => negb (N.eqb (snd kv) 0)) l.

Lemma grouped_upd_spec v r k g n l newval :
  WFv v -> NoDup (map fst r) ->
  (forall e, egroup e <> 0 -> (In e (tag_vault v) <-> In e r)) ->
  lsorted l -> g <> 0 ->
  (forall c, name_get n v = Some c -> c_kind c = k) ->
  (forall g' e', In ((g', n, nonempty l), e') r -> g' <> 0 -> g' = g) ->
  let key := (g, n, nonempty l) in
  let v2 := grouped_upd v k g n l newval in
  let new := (kind_code k, (newval (option_map (fun e => fst (snd e)) (sget key r)), @nil N)) in
  WFv v2
  /\ (forall e, egroup e <> 0 -> (In e (tag_vault v2) <-> In e (sset key new r)))
  /\ (forall n' c', In (n', c') v2 -> (n' = n /\ c_kind c' = k) \/ (n' <> n /\ In (n', c') v)).
Proof.
  intros Hwfv Hndr HR Hl Hg Hkind Hnocol key v2 new. subst new v2 key.
  set (key := (g, n, nonempty l)).
  destruct (goc_spec v k n (label_names l) Hwfv Hl Hkind) as [c [Hgoc [Hwfc [Hck [Hsub Hdec]]]]].
  destruct Hwfv as [Hndv Hwfall].
  set (vals := label_values l (c_names c)).
  assert (HL : shown_labels (c_names c) vals = nonempty l).
  { unfold vals. apply shown_label_values; [apply (wfc_sorted Hwfc) | exact Hl | exact Hsub]. }
  assert (Hlenvals : length vals = length (c_names c)) by (unfold vals, label_values; apply map_length).
  assert (HA : forall row, In row (c_rows c) -> shown_labels (c_names c) (fst row) = nonempty l -> fst row = vals).
  { intros row Hrow Hs. apply (shown_inj (c_names c)); [apply (wfc_sorted Hwfc) | apply (wfc_len Hwfc row Hrow) | exact Hlenvals|].
    rewrite Hs, HL. reflexivity. }
  (* the entry the model finds is the one the reference holds *)
  assert (Hm : match row_get vals (c_rows c) with
               | None => (newval None, g)
               | Some (x0, g0) => (newval (Some x0), g0)
               end = (newval (option_map (fun e => fst (snd e)) (sget key r)), g)).
  { destruct (row_get vals (c_rows c)) as [[x0 g0]|] eqn:Hrg.
    - apply (aget_In vals_eqb vals_eqb_eq) in Hrg.
      assert (He0 : In ((g0, n, nonempty l), (kind_code (c_kind c), (x0, @nil N))) (tag_coll (n, c))).
      { apply in_map_iff. exists (vals, (x0, g0)). split; [|exact Hrg]. cbn [fst snd]. rewrite HL. reflexivity. }
      assert (Hg0 : g0 <> 0) by (apply (wfc_group Hwfc _ Hrg)).
      assert (Hr0 : In ((g0, n, nonempty l), (kind_code (c_kind c), (x0, @nil N))) r).
      { apply HR; [exact Hg0|]. apply Hdec. apply in_or_app. left; exact He0. }
      assert (g0 = g) by (eapply Hnocol; eassumption). subst g0.
      unfold sget, key. rewrite (In_aget skey_eqb skey_eqb_eq _ _ r Hndr Hr0). reflexivity.
    - destruct (sget key r) as [e'|] eqn:Hsg; [|reflexivity]. exfalso.
      apply (aget_In skey_eqb skey_eqb_eq) in Hsg.
      assert (Hin : In (key, e') (tag_vault v)) by (apply HR; [exact Hg | exact Hsg]).
      apply Hdec in Hin. apply in_app_or in Hin as [Hin|Hin].
      + apply in_map_iff in Hin as [row [E Hrow]]. inversion E as [[E1 E2 E3]].
        pose proof (HA row Hrow E2) as Hv. destruct row as [kr pr]. cbn [fst] in Hv. subst kr.
        exact (aget_None vals_eqb vals_eqb_eq _ _ Hrg pr Hrow).
      + apply tag_vault_rest_name in Hin. apply Hin. reflexivity. }
  unfold grouped_upd. rewrite Hgoc. fold vals. rewrite Hm.
  set (nv := newval (option_map (fun e => fst (snd e)) (sget key r))).
  set (c2 := mkColl (c_kind c) (c_names c) (row_set vals (nv, g) (c_rows c))).
  rewrite name_set_cons, rest_cons_same.
  assert (Hwfc2 : WFc c2).
  { constructor; cbn [c2 c_names c_rows].
    - apply (wfc_sorted Hwfc).
    - intros row Hrow. apply (In_aset vals_eqb vals_eqb_eq) in Hrow as [->|[Hrow _]]; [exact Hlenvals | apply (wfc_len Hwfc row Hrow)].
    - apply (NoDup_aset vals_eqb vals_eqb_eq). apply (wfc_nodup Hwfc).
    - intros row Hrow. apply (In_aset vals_eqb vals_eqb_eq) in Hrow as [->|[Hrow _]]; [exact Hg | apply (wfc_group Hwfc row Hrow)]. }
  split; [|split].
  - split; [apply rest_keys_nodup; exact Hndv|].
    intros n' c' [E|Hin]; [inversion E; subst; exact Hwfc2|].
    apply rest_In in Hin as [Hin _]. exact (Hwfall n' c' Hin).
  - intros e He. change (tag_vault ((n, c2) :: rest n v)) with (tag_coll (n, c2) ++ tag_vault (rest n v)).
    rewrite in_app_iff. unfold sset. rewrite (In_aset skey_eqb skey_eqb_eq).
    rewrite <- (HR e He). rewrite (Hdec e), in_app_iff.
    split.
    + intros [Hin|Hin].
      * apply in_map_iff in Hin as [row [E Hrow]]. cbn [c2 c_rows c_names c_kind snd fst] in E, Hrow.
        apply (In_aset vals_eqb vals_eqb_eq) in Hrow as [->|[Hrow Hne]].
        -- left. rewrite <- E. cbn [fst snd]. rewrite HL, Hck. reflexivity.
        -- right. split.
           ++ left. apply in_map_iff. exists row. split; [exact E | exact Hrow].
           ++ rewrite <- E. cbn [fst]. intros Ek. inversion Ek as [[E1 E2]]. apply Hne. apply HA; assumption.
      * right. split; [right; exact Hin|]. intros Ek. apply tag_vault_rest_name in Hin.
        apply Hin. unfold ename. rewrite Ek. reflexivity.
    + intros [->|[[Hin|Hin] Hne]].
      * left. apply in_map_iff. exists (vals, (nv, g)). split.
        -- cbn [c2 c_names c_kind fst snd]. rewrite HL, Hck. reflexivity.
        -- cbn [c2 c_rows snd]. apply (In_aset vals_eqb vals_eqb_eq). left; reflexivity.
      * left. pose proof Hin as Hin0. apply in_map_iff in Hin as [row [E Hrow]]. apply in_map_iff. exists row. split; [exact E|].
        cbn [c2 c_rows snd]. apply (In_aset vals_eqb vals_eqb_eq). right. split; [exact Hrow|].
        intros Ev. apply Hne. rewrite <- E. cbn [fst snd]. rewrite Ev, HL.
        assert (Hr : In e r) by (apply HR; [exact He | apply Hdec; apply in_or_app; left; exact Hin0]).
        rewrite <- E in Hr, He. cbn [fst snd] in Hr. rewrite Ev, HL in Hr.
        assert (snd (snd row) = g) by (eapply Hnocol; [exact Hr | exact He]).
        unfold key. congruence.
      * right. exact Hin.
  - intros n' c' [E|Hin].
    + injection E as <- <-. left. split; [reflexivity | exact Hck].
    + apply rest_In in Hin as [Hin Hne]. right. split; assumption.
Qed.

(* ------------------------------------------------------------------ *)
(* 5. expiry, and one grouped operation                                *)
(* ------------------------------------------------------------------ *)

Lemma expire_tag v g e :
  In e (tag_vault (expire_group v g)) <-> In e (tag_vault v) /\ egroup e <> g.
Proof.
  unfold tag_vault, expire_group. rewrite !in_flat_map. split.
  - intros [[n c] [Hc Hin]]. apply in_map_iff in Hc as [[n0 c0] [E Hc0]]. cbn [fst snd] in E. inversion E; subst n c.
    apply in_map_iff in Hin as [row [<- Hrow]]. cbn [snd c_rows] in Hrow. apply filter_In in Hrow as [Hrow Hg].
    apply negb_true_iff, N.eqb_neq in Hg. split.
    + exists (n0, c0). split; [exact Hc0|]. apply in_map_iff. exists row. split; [reflexivity | exact Hrow].
    + exact Hg.
  - intros [[[n c] [Hc Hin]] Hg]. apply in_map_iff in Hin as [row [<- Hrow]].
    eexists. split; [apply in_map_iff; exists (n, c); split; [reflexivity | exact Hc]|].
    apply in_map_iff. exists row. split; [reflexivity|]. cbn [snd c_rows fst]. apply filter_In. split; [exact Hrow|].
    apply negb_true_iff, N.eqb_neq. exact Hg.
Qed.

Lemma expire_wf v g : WFv v -> WFv (expire_group v g).
Proof.
  intros [Hnd Hwf]. split.
  - unfold expire_group. rewrite map_map. cbn [fst]. exact Hnd.
  - intros n c Hin. apply in_map_iff in Hin as [[n0 c0] [E Hc0]]. cbn [fst snd] in E. inversion E; subst n c.
    pose proof (Hwf n0 c0 Hc0) as W. constructor; cbn [c_names c_rows].
    + apply (wfc_sorted W).
    + intros row Hrow. apply filter_In in Hrow as [Hrow _]. apply (wfc_len W row Hrow).
    + apply NoDup_filter_keys. apply (wfc_nodup W).
    + intros row Hrow. apply filter_In in Hrow as [Hrow _]. apply (wfc_group W row Hrow).
Qed.

Lemma expire_kinds v g n c :
  In (n, c) (expire_group v g) -> exists c0, In (n, c0) v /\ c_kind c0 = c_kind c.
Proof.
  intros Hin. apply in_map_iff in Hin as [[n0 c0] [E Hc0]]. cbn [fst snd] in E. inversion E; subst.
  exists c0. split; [exact Hc0 | reflexivity].
Qed.

Lemma sdrop_In g (r : list (N * N * list (N * N) * (N * (Z * list N)))) e :
  In e (sdrop_group g r) <-> In e r /\ egroup e <> g.
Proof. unfold sdrop_group. rewrite filter_In, negb_true_iff, N.eqb_neq. reflexivity. Qed.

(* shortcut = eff *)
Lemma shortcut_eff o :
  (o_action (shortcut o), o_value (shortcut o)) = eff o
  /\ o_group (shortcut o) = o_group o /\ o_name (shortcut o) = o_name o
  /\ o_labels (shortcut o) = o_labels o /\ o_buckets (shortcut o) = o_buckets o
  /\ o_add (shortcut o) = o_add o /\ o_set (shortcut o) = o_set o.
Proof.
  unfold shortcut, eff. destruct (o_set o) as [sv|] eqn:Es, (o_add o) as [av|] eqn:Ea; cbn;
    rewrite ?Es, ?Ea; repeat split; reflexivity.
Qed.

Lemma valid_grouped_cases o :
  spec_valid o = true -> o_group o <> 0 ->
  (exists ov, eff o = (AExpire, ov)) \/ (exists x, eff o = (AAdd, Some x))
  \/ (exists x, eff o = (ASet, Some x) /\ o_add o = None).
Proof.
  unfold spec_valid. intros Hv Hg. apply N.eqb_neq in Hg.
  assert (Hadd : forall x, eff o = (ASet, Some x) -> is_some (o_set o) && is_some (o_add o) = false -> o_add o = None).
  { unfold eff. intros x. destruct (o_set o), (o_add o); cbn; intros; congruence. }
  apply andb_true_iff in Hv as [Hex Hv]. apply negb_true_iff in Hex.
  destruct (eff o) as [a ov] eqn:He. destruct a; try discriminate.
  - apply andb_true_iff in Hv as [_ Hv]. destruct ov as [x|]; [|discriminate].
    right; right. exists x. split; [reflexivity | apply (Hadd x eq_refl Hex)].
  - apply andb_true_iff in Hv as [_ Hv]. destruct ov as [x|]; [|discriminate].
    right; left. exists x. reflexivity.
  - rewrite Hg in Hv. discriminate.
  - left. exists ov. reflexivity.
Qed.

Lemma valid_ungrouped_cases o :
  spec_valid o = true -> o_group o = 0 ->
  (exists x, eff o = (AAdd, Some x)) \/ (exists x, eff o = (ASet, Some x))
  \/ (exists x b, eff o = (AObserve, Some x) /\ o_buckets o = Some b).
Proof.
  unfold spec_valid. intros Hv Hg.
  apply andb_true_iff in Hv as [_ Hv].
  destruct (eff o) as [a ov] eqn:He. destruct a; try discriminate.
  - apply andb_true_iff in Hv as [_ Hv]. destruct ov as [x|]; [|discriminate]. right; left. exists x. reflexivity.
  - apply andb_true_iff in Hv as [_ Hv]. destruct ov as [x|]; [|discriminate]. left. exists x. reflexivity.
  - rewrite !andb_true_iff in Hv. destruct Hv as [[[_ _] Hx] Hb].
    destruct ov as [x|]; [|discriminate]. destruct (o_buckets o) as [b|]; [|discriminate].
    right; right. exists x, b. split; reflexivity.
  - rewrite Hg in Hv. discriminate.
Qed.

Definition hook_labels (h : N) (o : op) : list (N * N) := merge_labels (o_labels o) [(hook_label, h)].

Lemma ago_expire h g v o ov : eff o = (AExpire, ov) -> apply_group_op h g v (shortcut o) = expire_group v g.
Proof.
  intros He. destruct (shortcut_eff o) as [Hav _]. rewrite He in Hav. inversion Hav as [[Ha Hv]].
  unfold apply_group_op. rewrite Ha. reflexivity.
Qed.

Lemma ago_add h g v o x :
  eff o = (AAdd, Some x) -> apply_group_op h g v (shortcut o) = counter_add v g (o_name o) x (hook_labels h o).
Proof.
  intros He. destruct (shortcut_eff o) as [Hav [_ [Hn [Hl _]]]]. rewrite He in Hav. inversion Hav as [[Ha Hv]].
  unfold apply_group_op, hook_labels. rewrite Ha, Hv, Hn, Hl. reflexivity.
Qed.

Lemma ago_set h g v o x :
  eff o = (ASet, Some x) -> o_add o = None ->
  apply_group_op h g v (shortcut o) = gauge_set v g (o_name o) x (hook_labels h o).
Proof.
  intros He Hadd. destruct (shortcut_eff o) as [Hav [_ [Hn [Hl [_ [Hadd' _]]]]]]. rewrite He in Hav. inversion Hav as [[Ha Hv]].
  unfold apply_group_op, hook_labels. rewrite Ha, Hv, Hn, Hl, Hadd', Hadd. reflexivity.
Qed.

(* what the usage table says about an operation *)
Definition op_ok (h : N) (u : usage) (o : op) : Prop :=
  let grouped := negb (N.eqb (o_group o) 0) in
  let names := if grouped then [] else label_names (hook_labels h o) in
  match eff o with
  | (ASet, Some _) => name_get (o_name o) u = Some (2, grouped, names, [])
  | (AAdd, Some _) => name_get (o_name o) u = Some (1, grouped, names, [])
  | (AObserve, Some _) => exists b, o_buckets o = Some b /\ name_get (o_name o) u = Some (3, grouped, names, b)
  | _ => True
  end.

Lemma kind_code_inj a b : kind_code a = kind_code b -> a = b.
Proof. destruct a, b; cbn; intros H; try reflexivity; discriminate. Qed.

(* the vault side of the invariant *)
Record InvV (u : usage) (v : list (N * collector)) (r : list (N * N * list (N * N) * (N * (Z * list N)))) : Prop := mkInvV {
  iv_wf : WFv v;
  iv_nd : NoDup (map fst r);
  iv_r : forall e, egroup e <> 0 -> (In e (tag_vault v) <-> In e r);
  iv_u : forall n c, In (n, c) v -> name_get n u = Some (kind_code (c_kind c), true, [], [])
}.
Arguments iv_wf {u v r}. Arguments iv_nd {u v r}. Arguments iv_r {u v r}. Arguments iv_u {u v r}.

Definition same0 (r r' : list (N * N * list (N * N) * (N * (Z * list N)))) : Prop :=
  forall e, egroup e = 0 -> (In e r' <-> In e r).
Definition sameG (r r' : list (N * N * list (N * N) * (N * (Z * list N)))) : Prop :=
  forall e, egroup e <> 0 -> (In e r' <-> In e r).

Lemma sset_In k x (r : list (N * N * list (N * N) * (N * (Z * list N)))) e :
  In e (sset k x r) <-> e = (k, x) \/ (In e r /\ fst e <> k).
Proof. unfold sset. apply (In_aset skey_eqb skey_eqb_eq). Qed.

Lemma collides_false h r o g :
  o_group o = g -> g <> 0 -> collides h r o = false ->
  (exists x, eff o = (AAdd, Some x)) \/ (exists x, eff o = (ASet, Some x)) ->
  forall g' e', In ((g', o_name o, nonempty (hook_labels h o)), e') r -> g' <> 0 -> g' = g.
Proof.
  intros <- Hg0 Hc Heff g' e' Hin _. unfold collides in Hc.
  assert (Hex : existsb (fun x => N.eqb (snd (fst (fst x))) (o_name o)
                        && labels_eqb (snd (fst x)) (spec_labels h (o_labels o))
                        && negb (N.eqb (fst (fst (fst x))) (o_group o))) r = false).
  { apply N.eqb_neq in Hg0. rewrite Hg0 in Hc. cbn [negb andb] in Hc.
    destruct Heff as [[x He]|[x He]]; rewrite He in Hc; exact Hc. }
  destruct (N.eq_dec g' (o_group o)) as [E|NE]; [exact E|]. exfalso.
  assert (Ht : existsb (fun x => N.eqb (snd (fst (fst x))) (o_name o)
                        && labels_eqb (snd (fst x)) (spec_labels h (o_labels o))
                        && negb (N.eqb (fst (fst (fst x))) (o_group o))) r = true).
  { apply existsb_exists. eexists. split; [exact Hin|]. cbn [fst snd].
    rewrite N.eqb_refl. cbn [andb].
    assert (El : labels_eqb (nonempty (hook_labels h o)) (spec_labels h (o_labels o)) = true) by (apply labels_eqb_eq; reflexivity).
    rewrite El. cbn [andb]. apply negb_true_iff, N.eqb_neq. exact NE. }
  congruence.
Qed.

Lemma apply_group_op_spec h g u v r o :
  InvV u v r -> g <> 0 -> o_group o = g -> spec_valid o = true -> op_ok h u o -> collides h r o = false ->
  InvV u (apply_group_op h g v (shortcut o)) (spec_apply h r o) /\ same0 r (spec_apply h r o).
Proof.
  intros I Hg Hog Hv Hok Hcol.
  assert (Hog' : o_group o <> 0) by (rewrite Hog; exact Hg).
  assert (Hgrouped : negb (N.eqb (o_group o) 0) = true) by (apply negb_true_iff, N.eqb_neq; exact Hog').
  destruct (valid_grouped_cases o Hv Hog') as [[ov He]|[[x He]|[x [He Hadd]]]].
  - (* expire *)
    rewrite (ago_expire h g v o ov He). unfold spec_apply. rewrite He, Hog. split.
    + constructor.
      * apply expire_wf. apply (iv_wf I).
      * apply NoDup_filter_keys. apply (iv_nd I).
      * intros e Hne. rewrite expire_tag, sdrop_In, (iv_r I e Hne). reflexivity.
      * intros n c Hin. apply expire_kinds in Hin as [c0 [Hin Hk]]. rewrite <- Hk. apply (iv_u I n c0 Hin).
    + intros e He0. rewrite sdrop_In. split; [intros [H _]; exact H | intros H; split; [exact H | congruence]].
  - (* add *)
    rewrite (ago_add h g v o x He), counter_add_upd. unfold spec_apply. rewrite He.
    unfold op_ok in Hok. rewrite He, Hgrouped in Hok.
    pose proof (grouped_upd_spec v r KCounter g (o_name o) (hook_labels h o)
                  (fun o0 => match o0 with Some x0 => (x0 + x)%Z | None => x end)
                  (iv_wf I) (iv_nd I) (iv_r I) (merge_labels_sorted _ _) Hg) as Hspec.
    cbn zeta in Hspec.
    destruct Hspec as [W [R K]].
    + intros c Hget. apply (aget_In N.eqb N_eqb_eq) in Hget. pose proof (iv_u I _ _ Hget) as Hu.
      rewrite Hok in Hu. inversion Hu as [Hk]. apply kind_code_inj. symmetry. exact Hk.
    + eapply collides_false; [exact Hog | exact Hg | exact Hcol | left; exists x; exact He].
    + assert (Enew : (kind_code KCounter,
                     (match option_map (fun e => fst (snd e)) (sget (g, o_name o, nonempty (hook_labels h o)) r) with
                      | Some x0 => (x0 + x)%Z | None => x end, @nil N))
                    = (1, ((spec_num (sget (o_group o, o_name o, spec_labels h (o_labels o)) r) + x)%Z, @nil N))).
      { rewrite Hog. change (spec_labels h (o_labels o)) with (nonempty (hook_labels h o)).
        destruct (sget (g, o_name o, nonempty (hook_labels h o)) r) as [[kc [x0 hs]]|]; cbn; reflexivity. }
      rewrite Enew in R. rewrite Hog in *. change (spec_labels h (o_labels o)) with (nonempty (hook_labels h o)).
      split.
      * constructor; [exact W | apply (NoDup_aset skey_eqb skey_eqb_eq); apply (iv_nd I) | exact R|].
        intros n c Hin. destruct (K n c Hin) as [[-> Hk]|[_ Hin0]]; [rewrite Hk; exact Hok | apply (iv_u I n c Hin0)].
      * intros e He0. rewrite sset_In. split.
        -- intros [->|[H _]]; [cbn in He0; congruence | exact H].
        -- intros H. right. split; [exact H|]. intros Ek. unfold egroup in He0. rewrite Ek in He0. cbn in He0. congruence.
  - (* set *)
    rewrite (ago_set h g v o x He Hadd), gauge_set_upd. unfold spec_apply. rewrite He.
    unfold op_ok in Hok. rewrite He, Hgrouped in Hok.
    pose proof (grouped_upd_spec v r KGauge g (o_name o) (hook_labels h o) (fun _ => x)
                  (iv_wf I) (iv_nd I) (iv_r I) (merge_labels_sorted _ _) Hg) as Hspec.
    cbn zeta in Hspec.
    destruct Hspec as [W [R K]].
    + intros c Hget. apply (aget_In N.eqb N_eqb_eq) in Hget. pose proof (iv_u I _ _ Hget) as Hu.
      rewrite Hok in Hu. inversion Hu as [Hk]. apply kind_code_inj. symmetry. exact Hk.
    + eapply collides_false; [exact Hog | exact Hg | exact Hcol | right; exists x; exact He].
    + rewrite Hog in *. change (spec_labels h (o_labels o)) with (nonempty (hook_labels h o)).
      split.
      * constructor; [exact W | apply (NoDup_aset skey_eqb skey_eqb_eq); apply (iv_nd I) | exact R|].
        intros n c Hin. destruct (K n c Hin) as [[-> Hk]|[_ Hin0]]; [rewrite Hk; exact Hok | apply (iv_u I n c Hin0)].
      * intros e He0. rewrite sset_In. split.
        -- intros [->|[H _]]; [cbn in He0; congruence | exact H].
        -- intros H. right. split; [exact H|]. intros Ek. unfold egroup in He0. rewrite Ek in He0. cbn in He0. congruence.
Qed.

(* ------------------------------------------------------------------ *)
(* 6. the groups of a batch                                            *)
(* ------------------------------------------------------------------ *)

(* the reference run in the model's order of groups, noting collisions at the moment
   of each operation *)
Definition apply_t (hook : N) (rt : list (N * N * list (N * N) * (N * (Z * list N))) * bool) (o : op) :=
  (spec_apply hook (fst rt) o, snd rt || collides hook (fst rt) o).
Definition group_t (hook : N) (ops : list op) (rt : list (N * N * list (N * N) * (N * (Z * list N))) * bool) (g : N) :=
  fold_left (apply_t hook) (in_group g ops) (sdrop_group g (fst rt), snd rt).

Lemma snd_fold_apply_t_true h ops : forall r, snd (fold_left (apply_t h) ops (r, true)) = true.
Proof. induction ops as [|o ops IH]; intros r; cbn [fold_left]; [reflexivity|]. unfold apply_t at 2. cbn [fst snd orb]. apply IH. Qed.

Lemma fst_fold_apply_t h ops : forall r t, fst (fold_left (apply_t h) ops (r, t)) = fold_left (spec_apply h) ops r.
Proof. induction ops as [|o ops IH]; intros r t; cbn [fold_left]; [reflexivity|]. unfold apply_t at 2. cbn [fst snd]. apply IH. Qed.

Lemma same0_refl r : same0 r r.
Proof. intros e _. reflexivity. Qed.
Lemma same0_trans r1 r2 r3 : same0 r1 r2 -> same0 r2 r3 -> same0 r1 r3.
Proof. intros H1 H2 e He. rewrite (H2 e He). apply H1. exact He. Qed.
Lemma sameG_refl r : sameG r r.
Proof. intros e _. reflexivity. Qed.
Lemma sameG_trans r1 r2 r3 : sameG r1 r2 -> sameG r2 r3 -> sameG r1 r3.
Proof. intros H1 H2 e He. rewrite (H2 e He). apply H1. exact He. Qed.

Definition op_fine (h : N) (u : usage) (o : op) : Prop := spec_valid o = true /\ op_ok h u o.

Lemma group_ops_sim h g u ops : forall v r t,
  InvV u v r -> g <> 0 -> Forall (fun o => o_group o = g /\ op_fine h u o) ops ->
  snd (fold_left (apply_t h) ops (r, t)) = false ->
  InvV u (fold_left (apply_group_op h g) (map shortcut ops) v) (fold_left (spec_apply h) ops r)
  /\ same0 r (fold_left (spec_apply h) ops r) /\ t = false.
Proof.
  induction ops as [|o ops IH]; intros v r t I Hg Hall Hsnd; cbn [fold_left map] in *.
  - split; [exact I | split; [apply same0_refl | exact Hsnd]].
  - inversion Hall as [|? ? [Hog [Hv Hok]] Hall']; subst.
    unfold apply_t at 2 in Hsnd. cbn [fst snd] in Hsnd.
    assert (Htc : t || collides h r o = false).
    { destruct (t || collides h r o) eqn:E; [|reflexivity]. rewrite snd_fold_apply_t_true in Hsnd. discriminate. }
    apply orb_false_iff in Htc as [Ht Hc].
    destruct (apply_group_op_spec h (o_group o) u v r o I Hg eq_refl Hv Hok Hc) as [I' S0].
    destruct (IH _ _ _ I' Hg Hall' Hsnd) as [I'' [S0' _]].
    split; [exact I'' | split; [eapply same0_trans; eassumption | exact Ht]].
Qed.

Lemma ops_of_group_shortcut g ops : ops_of_group g (map shortcut ops) = map shortcut (in_group g ops).
Proof.
  unfold ops_of_group, in_group. induction ops as [|o ops IH]; cbn [map filter]; [reflexivity|].
  destruct (shortcut_eff o) as [_ [Hg _]]. rewrite Hg. destruct (N.eqb (o_group o) g); cbn [map]; rewrite IH; reflexivity.
Qed.

Lemma groups_of_shortcut ops : forall seen, groups_of (map shortcut ops) seen = mentioned ops seen.
Proof.
  induction ops as [|o ops IH]; intros seen; cbn [map groups_of mentioned]; [reflexivity|].
  destruct (shortcut_eff o) as [_ [Hg _]]. rewrite Hg.
  destruct (N.eqb (o_group o) 0 || mem_N (o_group o) seen); rewrite IH; reflexivity.
Qed.

Lemma mentioned_nonzero ops : forall seen g, In g (mentioned ops seen) -> g <> 0.
Proof.
  induction ops as [|o ops IH]; intros seen g Hin; cbn [mentioned] in Hin; [destruct Hin|].
  destruct (N.eqb_spec (o_group o) 0) as [E|NE]; cbn [orb] in Hin; [eapply IH; exact Hin|].
  destruct (mem_N (o_group o) seen); [eapply IH; exact Hin|].
  destruct Hin as [<-|Hin]; [exact NE | eapply IH; exact Hin].
Qed.

Lemma in_group_all g ops P : Forall P ops -> Forall (fun o => o_group o = g /\ P o) (in_group g ops).
Proof.
  intros H. apply Forall_forall. intros o Hin. unfold in_group in Hin. apply filter_In in Hin as [Hin Hg].
  apply N.eqb_eq in Hg. rewrite Forall_forall in H. split; [exact Hg | apply H; exact Hin].
Qed.

Lemma expire_inv u v r g : InvV u v r -> g <> 0 -> InvV u (expire_group v g) (sdrop_group g r) /\ same0 r (sdrop_group g r).
Proof.
  intros I Hg. split.
  - constructor.
    + apply expire_wf. apply (iv_wf I).
    + apply NoDup_filter_keys. apply (iv_nd I).
    + intros e Hne. rewrite expire_tag, sdrop_In, (iv_r I e Hne). reflexivity.
    + intros n c Hin. apply expire_kinds in Hin as [c0 [Hin Hk]]. rewrite <- Hk. apply (iv_u I n c0 Hin).
  - intros e He0. rewrite sdrop_In. split; [intros [H _]; exact H | intros H; split; [exact H | congruence]].
Qed.

Lemma snd_fold_group_t_true h ops gs : forall r, snd (fold_left (group_t h ops) gs (r, true)) = true.
Proof.
  induction gs as [|g gs IH]; intros r; cbn [fold_left]; [reflexivity|].
  unfold group_t at 2. cbn [fst snd].
  destruct (fold_left (apply_t h) (in_group g ops) (sdrop_group g r, true)) as [r' t'] eqn:E.
  assert (t' = true) by (change t' with (snd (r', t')); rewrite <- E; apply snd_fold_apply_t_true). subst. apply IH.
Qed.

Lemma groups_sim h u ops gs : forall v r t,
  InvV u v r -> Forall (fun g => g <> 0) gs -> Forall (op_fine h u) ops ->
  snd (fold_left (group_t h ops) gs (r, t)) = false ->
  InvV u (fold_left (fun v g => apply_group_operations h v g (ops_of_group g (map shortcut ops))) gs v)
         (fold_left (spec_group h ops) gs r)
  /\ same0 r (fold_left (spec_group h ops) gs r) /\ t = false.
Proof.
  induction gs as [|g gs IH]; intros v r t I Hgs Hall Hsnd; cbn [fold_left] in *.
  - split; [exact I | split; [apply same0_refl | exact Hsnd]].
  - inversion Hgs as [|? ? Hg Hgs']; subst.
    unfold group_t at 2 in Hsnd. cbn [fst snd] in Hsnd.
    destruct (fold_left (apply_t h) (in_group g ops) (sdrop_group g r, t)) as [r' t'] eqn:E.
    assert (Ht' : t' = false).
    { destruct t'; [|reflexivity]. rewrite snd_fold_group_t_true in Hsnd. discriminate. }
    subst t'.
    destruct (expire_inv u v r g I Hg) as [Ie S0e].
    assert (Hsnd' : snd (fold_left (apply_t h) (in_group g ops) (sdrop_group g r, t)) = false) by (rewrite E; reflexivity).
    destruct (group_ops_sim h g u (in_group g ops) _ _ _ Ie Hg (in_group_all g ops _ Hall) Hsnd') as [I' [S0' Ht]].
    assert (Er' : r' = spec_group h ops r g).
    { unfold spec_group. rewrite <- (fst_fold_apply_t h (in_group g ops) (sdrop_group g r) t), E. reflexivity. }
    unfold apply_group_operations. rewrite ops_of_group_shortcut. fold (spec_group h ops r g) in I', S0'.
    rewrite Er' in Hsnd.
    destruct (IH _ _ _ I' Hgs' Hall Hsnd) as [I'' [S0'' _]].
    split; [exact I'' | split; [|exact Ht]].
    eapply same0_trans; [|exact S0'']. eapply same0_trans; eassumption.
Qed.

(* ------------------------------------------------------------------ *)
(* 7. ungrouped operations                                             *)
(* ------------------------------------------------------------------ *)

Lemma vecs_decomp k vs n vc :
  NoDup (map fst vs) -> name_get n vs = Some vc ->
  forall e, In e (tag_vecs k vs) <-> In e (tag_vec k (n, vc) ++ tag_vecs k (rest n vs)).
Proof.
  intros Hn Hget e. rewrite in_app_iff. unfold tag_vecs. rewrite !in_flat_map. split.
  - intros [[n' c'] [Hc Hin]]. destruct (N.eqb_spec n' n) as [E|NE].
    + subst n'. left. assert (Hget' : name_get n vs = Some c') by (apply (In_aget N.eqb N_eqb_eq); assumption).
      assert (c' = vc) by congruence. subst. exact Hin.
    + right. exists (n', c'). split; [apply rest_In; split; assumption | exact Hin].
  - intros [Hin|[[n' c'] [Hc Hin]]].
    + exists (n, vc). split; [apply (aget_In N.eqb N_eqb_eq); exact Hget | exact Hin].
    + apply rest_In in Hc as [Hc _]. exists (n', c'). split; assumption.
Qed.

Lemma vecs_rest_none k vs n :
  name_get n vs = None -> forall e, In e (tag_vecs k vs) <-> In e (tag_vecs k (rest n vs)).
Proof.
  intros Hget e. unfold tag_vecs. rewrite !in_flat_map. split.
  - intros [[n' c'] [Hc Hin]]. exists (n', c'). split; [|exact Hin]. apply rest_In. split; [exact Hc|].
    cbn [fst]. intros ->. exact (aget_None N.eqb N_eqb_eq _ _ Hget c' Hc).
  - intros [[n' c'] [Hc Hin]]. apply rest_In in Hc as [Hc _]. exists (n', c'). split; assumption.
Qed.

Lemma tag_vecs_rest_name k n vs e : In e (tag_vecs k (rest n vs)) -> ename e <> n.
Proof.
  intros Hin. apply in_flat_map in Hin as [[n' c'] [Hc Hin]]. apply rest_In in Hc as [_ Hne].
  apply in_map_iff in Hin as [row [<- _]]. exact Hne.
Qed.

Lemma tag_vecs_member k vs e : In e (tag_vecs k vs) -> exists vc, In (ename e, vc) vs /\ fst (snd e) = kind_code k.
Proof.
  intros Hin. apply in_flat_map in Hin as [[n' c'] [Hc Hin]].
  apply in_map_iff in Hin as [row [<- _]]. exists c'. split; [exact Hc | reflexivity].
Qed.

Lemma names_eqb_refl l : names_eqb l l = true.
Proof. apply list_eqb_refl. apply N.eqb_refl. Qed.

Lemma vec_update_spec kd vs n l bk f :
  WFvs vs -> lsorted l ->
  (forall vc, name_get n vs = Some vc -> v_names vc = label_names l) ->
  let key := (0, n, nonempty l) in
  let bused := match name_get n vs with Some vc => v_buckets vc | None => bk end in
  let vs2 := vec_update vs n l bk f in
  exists old,
    (forall x, old = Some x <-> In (key, (kind_code kd, x)) (tag_vecs kd vs))
    /\ WFvs vs2
    /\ (forall e, In e (tag_vecs kd vs2) <-> e = (key, (kind_code kd, f bused old)) \/ (In e (tag_vecs kd vs) /\ fst e <> key))
    /\ (forall n' vc', In (n', vc') vs2 ->
          (n' = n /\ v_names vc' = label_names l /\ v_buckets vc' = bused) \/ (n' <> n /\ In (n', vc') vs)).
Proof.
  intros [Hnd Hwf] Hl Hnames key bused vs2.
  set (vc := match name_get n vs with Some vc => vc | None => mkVec (label_names l) bk [] end).
  assert (Hvc : WFvec vc /\ v_names vc = label_names l /\ v_buckets vc = bused
                /\ (forall e, In e (tag_vecs kd vs) <-> In e (tag_vec kd (n, vc) ++ tag_vecs kd (rest n vs)))).
  { unfold vc, bused. destruct (name_get n vs) as [vc0|] eqn:Hget.
    - split; [apply (Hwf n vc0); apply (aget_In N.eqb N_eqb_eq); exact Hget|].
      split; [apply Hnames; reflexivity | split; [reflexivity | apply vecs_decomp; assumption]].
    - split; [constructor; cbn; [exact Hl | intros row [] | constructor]|].
      split; [reflexivity | split; [reflexivity|]].
      intros e. cbn [app tag_vec v_rows snd map]. apply vecs_rest_none. exact Hget. }
  destruct Hvc as [Wvc [Hvn [Hvb Hdec]]].
  set (vals := label_values l (v_names vc)).
  assert (HL : shown_labels (v_names vc) vals = nonempty l).
  { unfold vals. apply shown_label_values; [apply (wfv_sorted Wvc) | exact Hl | rewrite Hvn; intros k Hk; exact Hk]. }
  assert (Hlenvals : length vals = length (v_names vc)) by (unfold vals, label_values; apply map_length).
  assert (HA : forall row, In row (v_rows vc) -> shown_labels (v_names vc) (fst row) = nonempty l -> fst row = vals).
  { intros row Hrow Hs. apply (shown_inj (v_names vc)); [apply (wfv_sorted Wvc) | apply (wfv_len Wvc row Hrow) | exact Hlenvals|].
    rewrite Hs, HL. reflexivity. }
  set (old := row_get vals (v_rows vc)).
  set (vc2 := mkVec (v_names vc) (v_buckets vc) (row_set vals (f (v_buckets vc) old) (v_rows vc))).
  assert (Hvs2 : vs2 = (n, vc2) :: rest n vs).
  { unfold vs2, vec_update. fold vc. rewrite Hvn, names_eqb_refl. rewrite <- Hvn. fold vals. fold old. reflexivity. }
  exists old. split; [|split; [|split]].
  - intros x. split.
    + intros Ho. unfold old in Ho. apply (aget_In vals_eqb vals_eqb_eq) in Ho.
      apply Hdec. apply in_or_app. left. apply in_map_iff. exists (vals, x). split; [|exact Ho].
      cbn [fst snd]. rewrite HL. reflexivity.
    + intros Hin. apply Hdec in Hin. apply in_app_or in Hin as [Hin|Hin].
      * apply in_map_iff in Hin as [row [E Hrow]]. inversion E as [[E1 E2]].
        pose proof (HA row Hrow E1) as Hv. destruct row as [kr pr]. cbn [fst snd] in *. subst kr pr.
        unfold old. apply (In_aget vals_eqb vals_eqb_eq); [apply (wfv_nodup Wvc) | exact Hrow].
      * apply tag_vecs_rest_name in Hin. exfalso. apply Hin. reflexivity.
  - rewrite Hvs2. split; [apply rest_keys_nodup; exact Hnd|].
    intros n' c' [E|Hin].
    + injection E as <- <-. constructor; cbn [vc2 v_names v_rows].
      * apply (wfv_sorted Wvc).
      * intros row Hrow. apply (In_aset vals_eqb vals_eqb_eq) in Hrow as [->|[Hrow _]]; [exact Hlenvals | apply (wfv_len Wvc row Hrow)].
      * apply (NoDup_aset vals_eqb vals_eqb_eq). apply (wfv_nodup Wvc).
    + apply rest_In in Hin as [Hin _]. exact (Hwf n' c' Hin).
  - intros e. rewrite Hvs2. change (tag_vecs kd ((n, vc2) :: rest n vs)) with (tag_vec kd (n, vc2) ++ tag_vecs kd (rest n vs)).
    rewrite in_app_iff, (Hdec e), in_app_iff. rewrite <- Hvb. split.
    + intros [Hin|Hin].
      * apply in_map_iff in Hin as [row [E Hrow]]. cbn [vc2 v_rows v_names snd fst] in E, Hrow.
        apply (In_aset vals_eqb vals_eqb_eq) in Hrow as [->|[Hrow Hne]].
        -- left. rewrite <- E. cbn [fst snd]. rewrite HL. reflexivity.
        -- right. split.
           ++ left. apply in_map_iff. exists row. split; [exact E | exact Hrow].
           ++ rewrite <- E. cbn [fst]. intros Ek. inversion Ek as [E1]. apply Hne. apply HA; assumption.
      * right. split; [right; exact Hin|]. intros Ek. apply tag_vecs_rest_name in Hin.
        apply Hin. unfold ename. rewrite Ek. reflexivity.
    + intros [->|[[Hin|Hin] Hne]].
      * left. apply in_map_iff. exists (vals, f (v_buckets vc) old). split.
        -- cbn [vc2 v_names fst snd]. rewrite HL. reflexivity.
        -- cbn [vc2 v_rows snd]. apply (In_aset vals_eqb vals_eqb_eq). left; reflexivity.
      * left. apply in_map_iff in Hin as [row [E Hrow]]. apply in_map_iff. exists row. split; [exact E|].
        cbn [vc2 v_rows snd]. apply (In_aset vals_eqb vals_eqb_eq). right. split; [exact Hrow|].
        intros Ev. apply Hne. rewrite <- E. cbn [fst snd]. rewrite Ev, HL. reflexivity.
      * right. exact Hin.
  - intros n' vc' Hin. rewrite Hvs2 in Hin. destruct Hin as [E|Hin].
    + injection E as <- <-. left. split; [reflexivity | split; [exact Hvn | exact Hvb]].
    + apply rest_In in Hin as [Hin Hne]. right. split; assumption.
Qed.

(* the ungrouped side of the invariant *)
Record InvU (u : usage) (cs gs hs : list (N * vec)) (r : list (N * N * list (N * N) * (N * (Z * list N)))) : Prop := mkInvU {
  iu_wfc : WFvs cs; iu_wfg : WFvs gs; iu_wfh : WFvs hs;
  iu_r : forall e, egroup e = 0 ->
           (In e (tag_vecs KCounter cs ++ tag_vecs KGauge gs ++ tag_vecs KHistogram hs) <-> In e r);
  iu_uc : forall n vc, In (n, vc) cs -> name_get n u = Some (1, false, v_names vc, []);
  iu_ug : forall n vc, In (n, vc) gs -> name_get n u = Some (2, false, v_names vc, []);
  iu_uh : forall n vc, In (n, vc) hs -> name_get n u = Some (3, false, v_names vc, v_buckets vc)
}.
Arguments iu_wfc {u cs gs hs r}. Arguments iu_wfg {u cs gs hs r}. Arguments iu_wfh {u cs gs hs r}.
Arguments iu_r {u cs gs hs r}. Arguments iu_uc {u cs gs hs r}. Arguments iu_ug {u cs gs hs r}. Arguments iu_uh {u cs gs hs r}.

Lemma spec_observe_hist x b o : spec_observe x b o = hist_observe x b (option_map snd o).
Proof. unfold spec_observe, hist_observe. destruct o as [[k [s cs]]|]; reflexivity. Qed.

Lemma ungrouped_step kd vs n l bk f r (Oth : N * N * list (N * N) * (N * (Z * list N)) -> Prop) :
  WFvs vs -> lsorted l -> NoDup (map fst r) ->
  (forall vc, name_get n vs = Some vc -> v_names vc = label_names l) ->
  (forall e, egroup e = 0 -> (In e (tag_vecs kd vs) \/ Oth e <-> In e r)) ->
  (forall e, Oth e -> fst e <> (0, n, nonempty l)) ->
  let key := (0, n, nonempty l) in
  let bused := match name_get n vs with Some vc => v_buckets vc | None => bk end in
  let vs2 := vec_update vs n l bk f in
  let new := (kind_code kd, f bused (option_map snd (sget key r))) in
  WFvs vs2
  /\ (forall e, egroup e = 0 -> (In e (tag_vecs kd vs2) \/ Oth e <-> In e (sset key new r)))
  /\ (forall n' vc', In (n', vc') vs2 ->
        (n' = n /\ v_names vc' = label_names l /\ v_buckets vc' = bused) \/ (n' <> n /\ In (n', vc') vs)).
Proof.
  intros Hwf Hl Hndr Hnames HR Hoth key bused vs2 new.
  destruct (vec_update_spec kd vs n l bk f Hwf Hl Hnames) as [old [Hold [W [Hin2 Hmem]]]].
  fold key in Hold, Hin2. fold bused in Hin2, Hmem. fold vs2 in W, Hin2, Hmem.
  assert (Hsg : option_map snd (sget key r) = old).
  { destruct old as [x|] eqn:Eo.
    - assert (Hx : In (key, (kind_code kd, x)) r).
      { apply HR; [reflexivity|]. left. apply Hold. reflexivity. }
      unfold sget. rewrite (In_aget skey_eqb skey_eqb_eq _ _ r Hndr Hx). reflexivity.
    - destruct (sget key r) as [e'|] eqn:Hs; [|reflexivity]. exfalso.
      apply (aget_In skey_eqb skey_eqb_eq) in Hs.
      apply HR in Hs; [|reflexivity]. destruct Hs as [Hs|Hs].
      + destruct (tag_vecs_member _ _ _ Hs) as [_ [_ Hk]]. cbn [snd fst] in Hk.
        destruct e' as [kc x']. cbn [fst] in Hk. subst kc.
        assert (None = Some x') by (apply Hold; exact Hs). discriminate.
      + apply (Hoth _ Hs). reflexivity. }
  unfold new. rewrite Hsg.
  split; [exact W | split; [|exact Hmem]].
  intros e He. rewrite sset_In, Hin2. rewrite <- (HR e He). split.
  - intros [[->|[H1 H2]]|H].
    + left; reflexivity.
    + right. split; [left; exact H1 | exact H2].
    + right. split; [right; exact H | apply Hoth; exact H].
  - intros [->|[[H1|H1] H2]].
    + left; left; reflexivity.
    + left; right. split; assumption.
    + right; exact H1.
Qed.

Lemma other_map_key (u : usage) kd' cd (vs' : list (N * vec)) n L names b e :
  (forall n' vc, In (n', vc) vs' -> exists nm bk, name_get n' u = Some (kind_code kd', false, nm, bk)) ->
  name_get n u = Some (cd, false, names, b) -> cd <> kind_code kd' ->
  In e (tag_vecs kd' vs') -> fst e <> (0, n, L).
Proof.
  intros Hu Hn Hne Hin Ek. destruct (tag_vecs_member _ _ _ Hin) as [vc [Hm _]].
  unfold ename in Hm. rewrite Ek in Hm. cbn [fst snd] in Hm.
  destruct (Hu _ _ Hm) as [nm [bk Hu']]. rewrite Hn in Hu'. inversion Hu'. contradiction.
Qed.

Lemma send_v0_op_spec h u v cs gs hs r o :
  InvU u cs gs hs r -> NoDup (map fst r) -> o_group o = 0 -> op_fine h u o ->
  exists cs' gs' hs',
    send_v0_op h (mkState v cs gs hs) (shortcut o) = Some (mkState v cs' gs' hs')
    /\ InvU u cs' gs' hs' (spec_apply h r o) /\ NoDup (map fst (spec_apply h r o))
    /\ sameG r (spec_apply h r o).
Proof.
  intros I Hndr Hg [Hv Hok].
  assert (Hgrouped : negb (N.eqb (o_group o) 0) = false) by (rewrite Hg; reflexivity).
  destruct (shortcut_eff o) as [Hav [_ [Hn [Hl [Hb _]]]]].
  assert (HsameG : forall k x, fst (fst k) = 0 -> sameG r (sset k x r)).
  { intros k x Hk e He. rewrite sset_In. split.
    - intros [->|[H _]]; [unfold egroup in He; cbn in He; congruence | exact H].
    - intros H. right. split; [exact H|]. intros Ek. apply He. unfold egroup. rewrite Ek. exact Hk. }
  assert (Huc : forall n' vc, In (n', vc) cs -> exists nm bk, name_get n' u = Some (kind_code KCounter, false, nm, bk))
    by (intros n' vc H; eexists; eexists; apply (iu_uc I n' vc H)).
  assert (Hug : forall n' vc, In (n', vc) gs -> exists nm bk, name_get n' u = Some (kind_code KGauge, false, nm, bk))
    by (intros n' vc H; eexists; eexists; apply (iu_ug I n' vc H)).
  assert (Huh : forall n' vc, In (n', vc) hs -> exists nm bk, name_get n' u = Some (kind_code KHistogram, false, nm, bk))
    by (intros n' vc H; eexists; eexists; apply (iu_uh I n' vc H)).
  unfold op_ok in Hok. rewrite Hgrouped in Hok.
  destruct (valid_ungrouped_cases o Hv Hg) as [[x He]|[[x He]|[x [b [He Hbk]]]]];
    rewrite He in Hav; inversion Hav as [[Ha Hval]]; rewrite He in Hok;
    unfold send_v0_op, spec_apply; rewrite Ha, Hval, Hn, Hl, ?Hb, He, Hg; fold (hook_labels h o);
    change (spec_labels h (o_labels o)) with (nonempty (hook_labels h o)).
  - (* add: counter *)
    cbn [st_vault st_counters st_gauges st_histograms].
    destruct (ungrouped_step KCounter cs (o_name o) (hook_labels h o) [] (fun _ old => ((num_of old + x)%Z, @nil N)) r
                (fun e => In e (tag_vecs KGauge gs) \/ In e (tag_vecs KHistogram hs))
                (iu_wfc I) (merge_labels_sorted _ _) Hndr) as [W [R M]].
    + intros vc Hget. apply (aget_In N.eqb N_eqb_eq) in Hget. pose proof (iu_uc I _ _ Hget) as Hu. rewrite Hok in Hu. inversion Hu. reflexivity.
    + intros e He0. rewrite <- (iu_r I e He0), !in_app_iff. reflexivity.
    + intros e [Hin|Hin]; [eapply (other_map_key u KGauge 1 gs); eauto; discriminate | eapply (other_map_key u KHistogram 1 hs); eauto; discriminate].
    + cbn zeta in W, R, M. exists (vec_update cs (o_name o) (hook_labels h o) [] (fun _ old => ((num_of old + x)%Z, @nil N))), gs, hs.
      assert (Enew : (kind_code KCounter, ((num_of (option_map snd (sget (0%N, o_name o, nonempty (hook_labels h o)) r)) + x)%Z, @nil N))
                     = (1, ((spec_num (sget (0%N, o_name o, nonempty (hook_labels h o)) r) + x)%Z, @nil N))).
      { destruct (sget (0, o_name o, nonempty (hook_labels h o)) r) as [[kc [x0 hs0]]|]; reflexivity. }
      rewrite Enew in R.
      split; [reflexivity | split; [|split; [apply (NoDup_aset skey_eqb skey_eqb_eq); exact Hndr | apply HsameG; reflexivity]]].
      constructor; [exact W | apply (iu_wfg I) | apply (iu_wfh I) | | | apply (iu_ug I) | apply (iu_uh I)].
      * intros e He0. rewrite <- (R e He0), !in_app_iff. reflexivity.
      * intros n' vc' Hin. destruct (M n' vc' Hin) as [[-> [Hnm _]]|[_ Hin0]]; [rewrite Hnm; exact Hok | apply (iu_uc I n' vc' Hin0)].
  - (* set: gauge *)
    cbn [st_vault st_counters st_gauges st_histograms].
    destruct (ungrouped_step KGauge gs (o_name o) (hook_labels h o) [] (fun _ _ => (x, @nil N)) r
                (fun e => In e (tag_vecs KCounter cs) \/ In e (tag_vecs KHistogram hs))
                (iu_wfg I) (merge_labels_sorted _ _) Hndr) as [W [R M]].
    + intros vc Hget. apply (aget_In N.eqb N_eqb_eq) in Hget. pose proof (iu_ug I _ _ Hget) as Hu. rewrite Hok in Hu. inversion Hu. reflexivity.
    + intros e He0. rewrite <- (iu_r I e He0), !in_app_iff. tauto.
    + intros e [Hin|Hin]; [eapply (other_map_key u KCounter 2 cs); eauto; discriminate | eapply (other_map_key u KHistogram 2 hs); eauto; discriminate].
    + cbn zeta in W, R, M. exists cs, (vec_update gs (o_name o) (hook_labels h o) [] (fun _ _ => (x, @nil N))), hs.
      split; [reflexivity | split; [|split; [apply (NoDup_aset skey_eqb skey_eqb_eq); exact Hndr | apply HsameG; reflexivity]]].
      constructor; [apply (iu_wfc I) | exact W | apply (iu_wfh I) | | apply (iu_uc I) | | apply (iu_uh I)].
      * intros e He0. rewrite <- (R e He0), !in_app_iff. tauto.
      * intros n' vc' Hin. destruct (M n' vc' Hin) as [[-> [Hnm _]]|[_ Hin0]]; [rewrite Hnm; exact Hok | apply (iu_ug I n' vc' Hin0)].
  - (* observe: histogram *)
    destruct Hok as [b' [Hb' Hok]]. rewrite Hbk in Hb'. injection Hb' as <-.
    rewrite Hbk. cbn [st_vault st_counters st_gauges st_histograms].
    destruct (ungrouped_step KHistogram hs (o_name o) (hook_labels h o) b (fun bs old => hist_observe x bs old) r
                (fun e => In e (tag_vecs KCounter cs) \/ In e (tag_vecs KGauge gs))
                (iu_wfh I) (merge_labels_sorted _ _) Hndr) as [W [R M]].
    + intros vc Hget. apply (aget_In N.eqb N_eqb_eq) in Hget. pose proof (iu_uh I _ _ Hget) as Hu. rewrite Hok in Hu. inversion Hu. reflexivity.
    + intros e He0. rewrite <- (iu_r I e He0), !in_app_iff. tauto.
    + intros e [Hin|Hin]; [eapply (other_map_key u KCounter 3 cs); eauto; discriminate | eapply (other_map_key u KGauge 3 gs); eauto; discriminate].
    + cbn zeta in W, R, M. exists cs, gs, (vec_update hs (o_name o) (hook_labels h o) b (fun bs old => hist_observe x bs old)).
      assert (Hbused : match name_get (o_name o) hs with Some vc => v_buckets vc | None => b end = b).
      { destruct (name_get (o_name o) hs) as [vc|] eqn:Hget; [|reflexivity].
        apply (aget_In N.eqb N_eqb_eq) in Hget. pose proof (iu_uh I _ _ Hget) as Hu. rewrite Hok in Hu. inversion Hu. reflexivity. }
      rewrite Hbused in R, M. rewrite <- spec_observe_hist in R.
      split; [reflexivity | split; [|split; [apply (NoDup_aset skey_eqb skey_eqb_eq); exact Hndr | apply HsameG; reflexivity]]].
      constructor; [apply (iu_wfc I) | apply (iu_wfg I) | exact W | | apply (iu_uc I) | apply (iu_ug I) |].
      * intros e He0. rewrite <- (R e He0), !in_app_iff. tauto.
      * intros n' vc' Hin. destruct (M n' vc' Hin) as [[-> [Hnm Hbk']]|[_ Hin0]]; [rewrite Hnm, Hbk'; exact Hok | apply (iu_uh I n' vc' Hin0)].
Qed.

(* ------------------------------------------------------------------ *)
(* 8. a whole batch, and histories                                     *)
(* ------------------------------------------------------------------ *)

Lemma validate_shortcut o : validate_op (shortcut o) = spec_valid o.
Proof.
  destruct o as [g n a v ad st b l]. unfold validate_op, spec_valid, shortcut, eff.
  cbn [o_group o_name o_action o_value o_add o_set o_buckets o_labels].
  destruct st, ad; cbn [o_group o_name o_action o_value o_add o_set o_buckets o_labels is_some];
    destruct a, v, b, (N.eqb g 0), (N.eqb n 0); reflexivity.
Qed.

Lemma forallb_validate ops : forallb validate_op (map shortcut ops) = forallb spec_valid ops.
Proof. induction ops as [|o ops IH]; cbn [map forallb]; [reflexivity|]. rewrite validate_shortcut, IH. reflexivity. Qed.

Lemma v0_sim h u v ops : forall cs gs hs r,
  InvU u cs gs hs r -> NoDup (map fst r) -> Forall (fun o => o_group o = 0 /\ op_fine h u o) ops ->
  exists cs' gs' hs',
    send_batch_v0 h (mkState v cs gs hs) (map shortcut ops) = (mkState v cs' gs' hs', false)
    /\ InvU u cs' gs' hs' (fold_left (spec_apply h) ops r)
    /\ NoDup (map fst (fold_left (spec_apply h) ops r))
    /\ sameG r (fold_left (spec_apply h) ops r).
Proof.
  induction ops as [|o ops IH]; intros cs gs hs r I Hnd Hall; cbn [map send_batch_v0 fold_left].
  - exists cs, gs, hs. split; [reflexivity | split; [exact I | split; [exact Hnd | apply sameG_refl]]].
  - inversion Hall as [|? ? [Hg Hf] Hall']; subst.
    destruct (send_v0_op_spec h u v cs gs hs r o I Hnd Hg Hf) as [cs1 [gs1 [hs1 [E [I1 [Hnd1 S1]]]]]].
    rewrite E. destruct (IH cs1 gs1 hs1 _ I1 Hnd1 Hall') as [cs2 [gs2 [hs2 [E2 [I2 [Hnd2 S2]]]]]].
    exists cs2, gs2, hs2. split; [exact E2 | split; [exact I2 | split; [exact Hnd2 | eapply sameG_trans; eassumption]]].
Qed.

Definition Inv (u : usage) (st : state) (r : list (N * N * list (N * N) * (N * (Z * list N)))) : Prop :=
  InvV u (st_vault st) r /\ InvU u (st_counters st) (st_gauges st) (st_histograms st) r.

Lemma batch_sim h u st r ops :
  Inv u st r -> forallb spec_valid ops = true -> Forall (op_ok h u) ops ->
  snd (fold_left (group_t h ops) (mentioned ops []) (r, false)) = false ->
  exists st', hook_batch st h ops = (st', false) /\ Inv u st' (fst (spec_batch r h ops)).
Proof.
  intros [IV IU] Hvalid Hok Hsnd.
  assert (Hfine : Forall (op_fine h u) ops).
  { apply Forall_forall. intros o Hin. split; [rewrite forallb_forall in Hvalid; apply Hvalid; exact Hin | rewrite Forall_forall in Hok; apply Hok; exact Hin]. }
  unfold hook_batch, send_batch, send_batch_ordered, spec_batch. rewrite forallb_validate, Hvalid. cbn [negb fst].
  rewrite groups_of_shortcut.
  assert (Hgs : Forall (fun g => g <> 0) (mentioned ops [])).
  { apply Forall_forall. intros g Hg. eapply mentioned_nonzero. exact Hg. }
  destruct (groups_sim h u ops (mentioned ops []) (st_vault st) r false IV Hgs Hfine Hsnd) as [IV1 [S0 _]].
  set (v1 := fold_left (fun v g => apply_group_operations h v g (ops_of_group g (map shortcut ops))) (mentioned ops []) (st_vault st)) in *.
  set (r1 := fold_left (spec_group h ops) (mentioned ops []) r) in *.
  assert (IU1 : InvU u (st_counters st) (st_gauges st) (st_histograms st) r1).
  { constructor; [apply (iu_wfc IU) | apply (iu_wfg IU) | apply (iu_wfh IU) | | apply (iu_uc IU) | apply (iu_ug IU) | apply (iu_uh IU)].
    intros e He. rewrite (S0 e He). apply (iu_r IU e He). }
  rewrite ops_of_group_shortcut.
  destruct (v0_sim h u v1 (in_group 0 ops) _ _ _ r1 IU1 (iv_nd IV1) (in_group_all 0 ops _ Hfine))
    as [cs2 [gs2 [hs2 [E2 [IU2 [Hnd2 SG]]]]]].
  rewrite E2. eexists. split; [reflexivity|]. split; [|exact IU2].
  cbn [st_vault]. constructor; [apply (iv_wf IV1) | exact Hnd2 | | apply (iv_u IV1)].
  intros e He. rewrite (SG e He). apply (iv_r IV1 e He).
Qed.

(* the usage table only grows *)
Definition ext (u u' : usage) : Prop := forall n rec, name_get n u = Some rec -> name_get n u' = Some rec.

Lemma use_eqb_eq a b : use_eqb a b = true -> a = b.
Proof.
  destruct a as [[[k1 g1] n1] b1], b as [[[k2 g2] n2] b2]. unfold use_eqb.
  rewrite !andb_true_iff. intros [[[Hk Hg] Hn] Hb].
  apply N.eqb_eq in Hk. apply Bool.eqb_prop in Hg. apply (list_eqb_eq N.eqb N_eqb_eq) in Hn.
  apply (list_eqb_eq Z.eqb) in Hb; [|intros x y; apply Z.eqb_eq]. subst. reflexivity.
Qed.

Lemma dom_use_spec u n rec u' : dom_use u n rec = Some u' -> ext u u' /\ name_get n u' = Some rec.
Proof.
  unfold dom_use. destruct (name_get n u) as [rec'|] eqn:Hget.
  - destruct (use_eqb rec rec') eqn:E; [|discriminate]. intros H; inversion H; subst u'.
    apply use_eqb_eq in E. subst rec'. split; [intros n' r' Hr'; exact Hr' | exact Hget].
  - intros H; inversion H; subst u'. split.
    + intros n' r' Hr'. unfold name_get. cbn [aget]. destruct (N.eqb_spec n' n) as [->|NE]; [|exact Hr'].
      rewrite Hget in Hr'. discriminate.
    + unfold name_get. cbn [aget]. rewrite N.eqb_refl. reflexivity.
Qed.

Lemma ext_refl u : ext u u.
Proof. intros n rec H; exact H. Qed.
Lemma ext_trans a b c : ext a b -> ext b c -> ext a c.
Proof. intros H1 H2 n rec H. apply H2, H1, H. Qed.

Lemma op_ok_ext h u u' o : ext u u' -> op_ok h u o -> op_ok h u' o.
Proof.
  intros He. unfold op_ok. destruct (eff o) as [a [x|]]; destruct a; try (intros H; exact H).
  - apply He.
  - apply He.
  - intros [b [Hb H]]. exists b. split; [exact Hb | apply He; exact H].
Qed.

Lemma dom_op_spec h u o u' : dom_op h u o = Some u' -> ext u u' /\ op_ok h u' o.
Proof.
  unfold dom_op, op_ok. fold (hook_labels h o).
  destruct (eff o) as [a [x|]]; destruct a;
    try (intros H; inversion H; subst; split; [apply ext_refl | exact I]).
  - intros H. apply dom_use_spec in H. exact H.
  - destruct (Z.leb 0 x); [|discriminate]. intros H. apply dom_use_spec in H. exact H.
  - destruct (o_buckets o) as [[|b0 b]|]; try discriminate.
    destruct (increasing (b0 :: b)); [|discriminate]. intros H. apply dom_use_spec in H as [H1 H2].
    split; [exact H1 | exists (b0 :: b); split; [reflexivity | exact H2]].
Qed.

Lemma dom_ops_spec h ops : forall u u', dom_ops h u ops = Some u' -> ext u u' /\ Forall (op_ok h u') ops.
Proof.
  induction ops as [|o ops IH]; intros u u' H; cbn [dom_ops] in H.
  - inversion H; subst. split; [apply ext_refl | constructor].
  - destruct (dom_op h u o) as [u1|] eqn:E; [|discriminate].
    apply dom_op_spec in E as [E1 Ok1]. destruct (IH _ _ H) as [E2 Ok2].
    split; [eapply ext_trans; eassumption|]. constructor; [eapply op_ok_ext; eassumption | exact Ok2].
Qed.

Lemma Inv_ext u u' st r : ext u u' -> Inv u st r -> Inv u' st r.
Proof.
  intros He [IV IU]. split.
  - constructor; [apply (iv_wf IV) | apply (iv_nd IV) | apply (iv_r IV)|]. intros n c H. apply He, (iv_u IV n c H).
  - constructor; [apply (iu_wfc IU) | apply (iu_wfg IU) | apply (iu_wfh IU) | apply (iu_r IU) | | |].
    + intros n vc H. apply He, (iu_uc IU n vc H).
    + intros n vc H. apply He, (iu_ug IU n vc H).
    + intros n vc H. apply He, (iu_uh IU n vc H).
Qed.

Lemma Inv_init : Inv [] init_state [].
Proof.
  split.
  - constructor; cbn; [split; [constructor | intros n c []] | constructor | intros e _; reflexivity | intros n c []].
  - constructor; cbn; try (split; [constructor | intros n c []]); try (intros n vc []).
    intros e _. reflexivity.
Qed.

(* the model's registry content is the reference registry *)
Lemma Inv_tagged u st r : Inv u st r -> forall e, In e (tagged st) <-> In e r.
Proof.
  intros [IV IU] e. unfold tagged. rewrite in_app_iff. split.
  - intros [H|H].
    + apply (iv_r IV); [eapply tag_vault_group; [apply (iv_wf IV) | exact H] | exact H].
    + apply (iu_r IU); [eapply tag_ungrouped_group; exact H | exact H].
  - intros H. destruct (N.eq_dec (egroup e) 0) as [E|NE].
    + right. apply (iu_r IU e E). exact H.
    + left. apply (iv_r IV e NE). exact H.
Qed.

Lemma series_eqb_refl s : series_eqb s s = true.
Proof.
  destruct s as [[[k n] l] [x hs]]. unfold series_eqb, sval_eqb. cbn [fst snd].
  rewrite !N.eqb_refl, Z.eqb_refl. cbn [andb].
  assert (Hl : labels_eqb l l = true) by (apply labels_eqb_eq; reflexivity).
  assert (Hh : list_eqb N.eqb hs hs = true) by (apply list_eqb_refl; apply N.eqb_refl).
  rewrite Hl, Hh. reflexivity.
Qed.

Lemma series_subset_In a b : (forall x, In x a -> In x b) -> series_subset a b = true.
Proof.
  intros H. unfold series_subset. apply forallb_forall. intros x Hx. unfold series_mem.
  apply existsb_exists. exists x. split; [apply H; exact Hx | apply series_eqb_refl].
Qed.

Lemma Inv_same_series u st r : Inv u st r -> same_series (gather st) (project r) = true.
Proof.
  intros I. rewrite gather_project. unfold same_series, project. apply andb_true_iff. split; apply series_subset_In.
  - intros x Hx. apply in_map_iff in Hx as [e [<- He]]. apply in_map_iff. exists e. split; [reflexivity|]. apply (Inv_tagged u st r I). exact He.
  - intros x Hx. apply in_map_iff in Hx as [e [<- He]]. apply in_map_iff. exists e. split; [reflexivity|]. apply (Inv_tagged u st r I). exact He.
Qed.

Lemma invalid_batch st h ops : forallb spec_valid ops = false -> hook_batch st h ops = (st, true).
Proof. intros H. unfold hook_batch, send_batch, send_batch_ordered. rewrite forallb_validate, H. reflexivity. Qed.


(* ------------------------------------------------------------------ *)
(* 9. what the reference registry says about one batch                 *)
(* ------------------------------------------------------------------ *)

Notation reg := (list (N * N * list (N * N) * (N * (Z * list N)))) (only parsing).

Definition agree_on (g : N) (r1 r2 : reg) : Prop := forall e, egroup e = g -> (In e r1 <-> In e r2).

Lemma spec_apply_nodup h (r : reg) o : NoDup (map fst r) -> NoDup (map fst (spec_apply h r o)).
Proof.
  intros Hn. unfold spec_apply. destruct (eff o) as [a [x|]]; destruct a; try exact Hn;
    try (apply NoDup_filter_keys; exact Hn); try (apply (NoDup_aset skey_eqb skey_eqb_eq); exact Hn).
  destruct (o_buckets o); [apply (NoDup_aset skey_eqb skey_eqb_eq); exact Hn | exact Hn].
Qed.

Lemma fold_spec_apply_nodup h ops : forall (r : reg), NoDup (map fst r) -> NoDup (map fst (fold_left (spec_apply h) ops r)).
Proof. induction ops as [|o ops IH]; intros r Hn; cbn [fold_left]; [exact Hn | apply IH, spec_apply_nodup, Hn]. Qed.

Lemma sset_other_group k x (r : reg) g : fst (fst k) <> g -> agree_on g (sset k x r) r.
Proof.
  intros Hk e He. rewrite sset_In. split.
  - intros [->|[H _]]; [unfold egroup in He; cbn in He; congruence | exact H].
  - intros H. right. split; [exact H|]. intros Ek. apply Hk. unfold egroup in He. rewrite Ek in He. exact He.
Qed.

(* an operation of another group leaves the series of group g alone *)
Lemma spec_apply_frame h (r : reg) o g : o_group o <> g -> agree_on g (spec_apply h r o) r.
Proof.
  intros Hg. unfold spec_apply. destruct (eff o) as [a [x|]]; destruct a; try (intros e _; reflexivity);
    try (apply sset_other_group; exact Hg);
    try (intros e He; rewrite sdrop_In; split; [intros [H _]; exact H | intros H; split; [exact H | congruence]]).
  destruct (o_buckets o); [apply sset_other_group; exact Hg | intros e _; reflexivity].
Qed.

Lemma fold_frame h ops g : forall (r : reg),
  Forall (fun o => o_group o <> g) ops -> agree_on g (fold_left (spec_apply h) ops r) r.
Proof.
  induction ops as [|o ops IH]; intros r Hall; cbn [fold_left]; [intros e _; reflexivity|].
  inversion Hall as [|? ? Ho Hall']; subst. intros e He. rewrite (IH _ Hall' e He). exact (spec_apply_frame h r o g Ho e He).
Qed.

Lemma in_group_other g g' ops : g' <> g -> Forall (fun o => o_group o <> g) (in_group g' ops).
Proof.
  intros Hne. apply Forall_forall. intros o Hin. apply filter_In in Hin as [_ Hg]. apply N.eqb_eq in Hg. congruence.
Qed.

Lemma spec_group_frame h ops (r : reg) g g' : g' <> g -> agree_on g (spec_group h ops r g') r.
Proof.
  intros Hne e He. unfold spec_group. rewrite (fold_frame h _ g _ (in_group_other g g' ops Hne) e He).
  rewrite sdrop_In. split; [intros [H _]; exact H | intros H; split; [exact H | congruence]].
Qed.

Lemma groups_frame h ops gs g : forall (r : reg), ~ In g gs -> agree_on g (fold_left (spec_group h ops) gs r) r.
Proof.
  induction gs as [|g0 gs IH]; intros r Hni; cbn [fold_left]; [intros e _; reflexivity|].
  intros e He. rewrite (IH _ (fun H => Hni (or_intror H)) e He).
  assert (Hne : g0 <> g) by (intros ->; apply Hni; left; reflexivity).
  exact (spec_group_frame h ops r g g0 Hne e He).
Qed.

Lemma sget_agree g (r1 r2 : reg) k :
  agree_on g r1 r2 -> NoDup (map fst r1) -> NoDup (map fst r2) -> fst (fst k) = g -> sget k r1 = sget k r2.
Proof.
  intros Ha H1 H2 Hk. unfold sget. destruct (aget skey_eqb k r1) as [e|] eqn:E1.
  - apply (aget_In skey_eqb skey_eqb_eq) in E1. apply (Ha (k, e) Hk) in E1.
    symmetry. apply (In_aget skey_eqb skey_eqb_eq); assumption.
  - destruct (aget skey_eqb k r2) as [e|] eqn:E2; [|reflexivity]. exfalso.
    apply (aget_In skey_eqb skey_eqb_eq) in E2. apply (Ha (k, e) Hk) in E2.
    exact (aget_None skey_eqb skey_eqb_eq _ _ E1 e E2).
Qed.

Lemma sset_agree g k x (r1 r2 : reg) : agree_on g r1 r2 -> agree_on g (sset k x r1) (sset k x r2).
Proof. intros Ha e He. rewrite !sset_In, (Ha e He). reflexivity. Qed.

Lemma spec_apply_agree h g (r1 r2 : reg) o :
  o_group o = g -> agree_on g r1 r2 -> NoDup (map fst r1) -> NoDup (map fst r2) ->
  agree_on g (spec_apply h r1 o) (spec_apply h r2 o).
Proof.
  intros Hg Ha H1 H2. unfold spec_apply.
  rewrite (sget_agree g r1 r2 (o_group o, o_name o, spec_labels h (o_labels o)) Ha H1 H2 Hg).
  destruct (eff o) as [a [x|]]; destruct a; try exact Ha; try (apply sset_agree; exact Ha);
    try (intros e He; rewrite !sdrop_In, (Ha e He); reflexivity).
  destruct (o_buckets o); [apply sset_agree; exact Ha | exact Ha].
Qed.

Lemma fold_agree h g ops : forall (r1 r2 : reg),
  Forall (fun o => o_group o = g) ops -> agree_on g r1 r2 -> NoDup (map fst r1) -> NoDup (map fst r2) ->
  agree_on g (fold_left (spec_apply h) ops r1) (fold_left (spec_apply h) ops r2).
Proof.
  induction ops as [|o ops IH]; intros r1 r2 Hall Ha H1 H2; cbn [fold_left]; [exact Ha|].
  inversion Hall as [|? ? Ho Hall']; subst.
  apply IH; [exact Hall' | apply spec_apply_agree; auto | apply spec_apply_nodup; exact H1 | apply spec_apply_nodup; exact H2].
Qed.

Lemma in_group_same g ops : Forall (fun o => o_group o = g) (in_group g ops).
Proof. apply Forall_forall. intros o Hin. apply filter_In in Hin as [_ Hg]. apply N.eqb_eq in Hg. exact Hg. Qed.

Lemma spec_group_nodup h ops (r : reg) g : NoDup (map fst r) -> NoDup (map fst (spec_group h ops r g)).
Proof. intros Hn. unfold spec_group. apply fold_spec_apply_nodup, NoDup_filter_keys, Hn. Qed.

(* the group's content after the batch is what the batch's operations build from nothing *)
Lemma spec_group_fresh h ops (r : reg) g :
  NoDup (map fst r) -> agree_on g (spec_group h ops r g) (fold_left (spec_apply h) (in_group g ops) []).
Proof.
  intros Hn. unfold spec_group. apply fold_agree; [apply in_group_same | | apply NoDup_filter_keys; exact Hn | constructor].
  intros e He. rewrite sdrop_In. split; [intros [_ H]; congruence | intros []].
Qed.

Lemma groups_replaced h ops g gs : forall (r : reg),
  NoDup gs -> In g gs -> NoDup (map fst r) ->
  agree_on g (fold_left (spec_group h ops) gs r) (fold_left (spec_apply h) (in_group g ops) []).
Proof.
  induction gs as [|g0 gs IH]; intros r Hnd Hin Hn; [destruct Hin|]. cbn [fold_left].
  inversion Hnd as [|? ? Hni Hnd']; subst.
  destruct (N.eq_dec g0 g) as [->|NE].
  - intros e He. rewrite (groups_frame h ops gs g _ Hni e He). exact (spec_group_fresh h ops r g Hn e He).
  - destruct Hin as [E|Hin]; [contradiction|]. apply IH; [exact Hnd' | exact Hin | apply spec_group_nodup; exact Hn].
Qed.

Lemma mentioned_spec ops : forall seen,
  NoDup (mentioned ops seen)
  /\ (forall g, In g (mentioned ops seen) <-> (g <> 0 /\ ~ In g seen /\ exists o, In o ops /\ o_group o = g)).
Proof.
  induction ops as [|o ops IH]; intros seen; cbn [mentioned].
  - split; [constructor|]. intros g. split; [intros [] | intros [_ [_ [o [[] _]]]]].
  - destruct (N.eqb_spec (o_group o) 0) as [E0|N0]; cbn [orb].
    + destruct (IH seen) as [Hn Hi]. split; [exact Hn|]. intros g. rewrite Hi. split.
      * intros [H1 [H2 [o' [Ho' Hg]]]]. split; [exact H1 | split; [exact H2 | exists o'; split; [right; exact Ho' | exact Hg]]].
      * intros [H1 [H2 [o' [[->|Ho'] Hg]]]]; [congruence|]. split; [exact H1 | split; [exact H2 | exists o'; split; assumption]].
    + destruct (mem_N (o_group o) seen) eqn:Hm.
      * apply mem_N_In in Hm. destruct (IH seen) as [Hn Hi]. split; [exact Hn|]. intros g. rewrite Hi. split.
        -- intros [H1 [H2 [o' [Ho' Hg]]]]. split; [exact H1 | split; [exact H2 | exists o'; split; [right; exact Ho' | exact Hg]]].
        -- intros [H1 [H2 [o' [[->|Ho'] Hg]]]]; [subst; contradiction|]. split; [exact H1 | split; [exact H2 | exists o'; split; assumption]].
      * assert (Hns : ~ In (o_group o) seen) by (intros H; apply mem_N_In in H; congruence).
        destruct (IH (o_group o :: seen)) as [Hn Hi]. split.
        -- constructor; [|exact Hn]. intros H. apply Hi in H as [_ [H _]]. apply H. left; reflexivity.
        -- intros g. cbn [In]. rewrite Hi. split.
           ++ intros [<-|[H1 [H2 [o' [Ho' Hg]]]]].
              ** split; [exact N0 | split; [exact Hns | exists o; split; [left; reflexivity | reflexivity]]].
              ** split; [exact H1 | split; [intros H; apply H2; right; exact H | exists o'; split; [right; exact Ho' | exact Hg]]].
           ++ intros [H1 [H2 [o' [Ho' Hg]]]]. destruct (N.eq_dec (o_group o) g) as [E|NE]; [left; exact E|]. right.
              split; [exact H1 | split; [intros [H|H]; [contradiction | apply H2; exact H]|]].
              destruct Ho' as [->|Ho']; [contradiction|]. exists o'. split; assumption.
Qed.

Lemma spec_group_replaced h ops (r : reg) g :
  forallb spec_valid ops = true -> NoDup (map fst r) -> In g (mentioned ops []) ->
  agree_on g (fst (spec_batch r h ops)) (fold_left (spec_apply h) (in_group g ops) []).
Proof.
  intros Hv Hn Hin. unfold spec_batch. rewrite Hv. cbn [fst]. intros e He.
  assert (Hg0 : g <> 0) by (eapply mentioned_nonzero; exact Hin).
  rewrite (fold_frame h (in_group 0 ops) g _ (in_group_other g 0 ops (fun E => Hg0 (eq_sym E))) e He).
  exact (groups_replaced h ops g (mentioned ops []) r (proj1 (mentioned_spec ops [])) Hin Hn e He).
Qed.

Lemma spec_others_untouched h ops (r : reg) g :
  g <> 0 -> ~ In g (mentioned ops []) -> agree_on g (fst (spec_batch r h ops)) r.
Proof.
  intros Hg0 Hni. unfold spec_batch. destruct (forallb spec_valid ops); cbn [fst]; [|intros e _; reflexivity].
  intros e He.
  rewrite (fold_frame h (in_group 0 ops) g _ (in_group_other g 0 ops (fun E => Hg0 (eq_sym E))) e He).
  exact (groups_frame h ops (mentioned ops []) g r Hni e He).
Qed.

(* an ungrouped series not named by the batch's ungrouped operations stays as it is *)
Lemma spec_ungrouped_untouched h ops (r : reg) e :
  egroup e = 0 -> forallb spec_valid ops = true ->
  (forall o, In o ops -> o_group o = 0 -> (0, o_name o, spec_labels h (o_labels o)) <> fst e) ->
  (In e (fst (spec_batch r h ops)) <-> In e r).
Proof.
  intros He Hv Hkeys. unfold spec_batch. rewrite Hv. cbn [fst].
  set (r1 := fold_left (spec_group h ops) (mentioned ops []) r).
  assert (H1 : In e r1 <-> In e r).
  { unfold r1. apply (groups_frame h ops (mentioned ops []) 0 r); [|exact He]. intros Hin. eapply mentioned_nonzero; [exact Hin | reflexivity]. }
  rewrite <- H1. clear H1. clearbody r1.
  assert (Hall : Forall (fun o => In o ops /\ o_group o = 0) (in_group 0 ops)).
  { apply Forall_forall. intros o Hin. apply filter_In in Hin as [Hin Hg]. apply N.eqb_eq in Hg. split; assumption. }
  revert r1. induction (in_group 0 ops) as [|o l IH]; intros r1; cbn [fold_left]; [reflexivity|].
  inversion Hall as [|? ? [Ho Hg] Hall']; subst. rewrite (IH Hall').
  assert (Hs : forall x, In e (sset (o_group o, o_name o, spec_labels h (o_labels o)) x r1) <-> In e r1).
  { intros x. rewrite sset_In, Hg. split.
    - intros [->|[H _]]; [exfalso; apply (Hkeys o Ho Hg); reflexivity | exact H].
    - intros H. right. split; [exact H|]. intros E. apply (Hkeys o Ho Hg). symmetry. exact E. }
  assert (Hvo : spec_valid o = true) by (rewrite forallb_forall in Hv; apply Hv; exact Ho).
  unfold spec_valid in Hvo. unfold spec_apply.
  destruct (eff o) as [a ov] eqn:Heff. destruct a; try reflexivity.
  - destruct ov; [apply Hs | reflexivity].
  - destruct ov; [apply Hs | reflexivity].
  - destruct ov; [|reflexivity]. destruct (o_buckets o); [apply Hs | reflexivity].
  - rewrite Hg in Hvo. cbn in Hvo. rewrite andb_false_r in Hvo. discriminate.
Qed.


(* ------------------------------------------------------------------ *)
(* 9b. no collision before or after the batch => none in the model's    *)
(*     order of processing                                             *)
(* ------------------------------------------------------------------ *)

Definition is_write (o : op) : bool :=
  match eff o with
  | (ASet, Some _) | (AAdd, Some _) => true
  | _ => false
  end.

Definition hits (h : N) (o : op) (x : N * N * list (N * N) * (N * (Z * list N))) : bool :=
  N.eqb (snd (fst (fst x))) (o_name o)
  && labels_eqb (snd (fst x)) (spec_labels h (o_labels o))
  && negb (N.eqb (fst (fst (fst x))) (o_group o)).

Lemma collides_unfold h (r : reg) o :
  collides h r o = is_write o && negb (N.eqb (o_group o) 0) && existsb (hits h o) r.
Proof.
  unfold collides, is_write, hits. destruct (eff o) as [a [x|]]; destruct a; cbn [andb]; reflexivity.
Qed.

Lemma collides_transport h (r1 r2 : reg) o :
  collides h r1 o = true ->
  (forall e, In e r1 -> egroup e <> o_group o -> In e r2) ->
  collides h r2 o = true.
Proof.
  rewrite !collides_unfold. intros H Ht. rewrite !andb_true_iff in *. destruct H as [Hw Hex].
  split; [exact Hw|]. apply existsb_exists in Hex as [e [He Hh]]. apply existsb_exists. exists e. split; [|exact Hh].
  apply Ht; [exact He|]. unfold hits in Hh. rewrite !andb_true_iff in Hh. destruct Hh as [_ Hg].
  apply negb_true_iff, N.eqb_neq in Hg. exact Hg.
Qed.

(* where an entry of the registry reached after processing the groups Gp comes from *)
Lemma entry_origin h ops Gp gs (r : reg) e :
  NoDup (Gp ++ gs) -> Forall (fun g => g <> 0) (Gp ++ gs) ->
  In e (fold_left (spec_group h ops) Gp r) ->
  (In (egroup e) Gp ->
     In e (fold_left (spec_apply h) (in_group 0 ops) (fold_left (spec_group h ops) gs (fold_left (spec_group h ops) Gp r))))
  /\ (~ In (egroup e) Gp -> In e r).
Proof.
  intros Hnd Hnz Hin. split.
  - intros Hg.
    assert (Hg0 : egroup e <> 0).
    { rewrite Forall_forall in Hnz. apply Hnz. apply in_or_app. left; exact Hg. }
    assert (Hngs : ~ In (egroup e) gs).
    { clear -Hnd Hg. induction Gp as [|a Gp IH]; [destruct Hg|]. cbn [app] in Hnd. inversion Hnd as [|? ? Hni Hnd']; subst.
      destruct Hg as [->|Hg]; [intros H; apply Hni; apply in_or_app; right; exact H | apply IH; assumption]. }
    apply (fold_frame h (in_group 0 ops) (egroup e) _ (in_group_other (egroup e) 0 ops (fun E => Hg0 (eq_sym E))) e eq_refl).
    apply (groups_frame h ops gs (egroup e) _ Hngs e eq_refl). exact Hin.
  - intros Hng. apply (groups_frame h ops Gp (egroup e) r Hng e eq_refl). exact Hin.
Qed.

Lemma group_ops_no_collision h ops g (rc r0 rend : reg) opsg : forall rc',
  (forall o, In o opsg -> In o ops /\ o_group o = g) ->
  (forall o, In o ops -> collides h r0 o = false /\ collides h rend o = false) ->
  (forall e, In e rc -> egroup e <> g -> In e r0 \/ In e rend) ->
  (forall e, In e rc' -> egroup e <> g -> In e rc) ->
  snd (fold_left (apply_t h) opsg (rc', false)) = false.
Proof.
  induction opsg as [|o opsg IH]; intros rc' Hsub Hno Horigin Hfr; cbn [fold_left]; [reflexivity|].
  unfold apply_t at 2. cbn [fst snd orb].
  destruct (Hsub o (or_introl eq_refl)) as [Hoin Hog].
  assert (Hc : collides h rc' o = false).
  { destruct (collides h rc' o) eqn:Ec; [|reflexivity]. exfalso.
    destruct (Hno o Hoin) as [H0 Hend].
    rewrite collides_unfold in Ec, H0, Hend. rewrite !andb_true_iff in Ec. destruct Ec as [Hw Hex].
    apply existsb_exists in Hex as [e [He Hh]].
    assert (Hg : egroup e <> g).
    { unfold hits in Hh. rewrite !andb_true_iff in Hh. destruct Hh as [_ Hg]. apply negb_true_iff, N.eqb_neq in Hg. rewrite Hog in Hg. exact Hg. }
    destruct (Horigin e (Hfr e He Hg) Hg) as [Hin|Hin].
    - assert (Ht : existsb (hits h o) r0 = true) by (apply existsb_exists; exists e; split; assumption).
      destruct Hw as [Hw1 Hw2]. rewrite Ht, Hw1, Hw2 in H0. discriminate.
    - assert (Ht : existsb (hits h o) rend = true) by (apply existsb_exists; exists e; split; assumption).
      destruct Hw as [Hw1 Hw2]. rewrite Ht, Hw1, Hw2 in Hend. discriminate. }
  rewrite Hc. apply IH; [intros o' Ho'; apply Hsub; right; exact Ho' | exact Hno | exact Horigin|].
  intros e He Hg. apply Hfr; [|exact Hg].
  apply (spec_apply_frame h rc' o (egroup e) (fun E => Hg (eq_trans (eq_sym E) Hog)) e eq_refl). exact He.
Qed.

Lemma groups_no_collision h ops (r : reg) gs : forall Gp,
  mentioned ops [] = Gp ++ gs ->
  (forall o, In o ops -> collides h r o = false /\ collides h (fst (spec_batch r h ops)) o = false) ->
  forallb spec_valid ops = true ->
  snd (fold_left (group_t h ops) gs (fold_left (spec_group h ops) Gp r, false)) = false.
Proof.
  induction gs as [|g gs IH]; intros Gp Hm Hno Hv; cbn [fold_left]; [reflexivity|].
  unfold group_t at 2. cbn [fst snd].
  pose proof (proj1 (mentioned_spec ops [])) as Hnd. rewrite Hm in Hnd.
  assert (Hnz : Forall (fun g0 => g0 <> 0) (Gp ++ g :: gs)).
  { rewrite <- Hm. apply Forall_forall. intros g0 Hg0. eapply mentioned_nonzero; exact Hg0. }
  set (rc := fold_left (spec_group h ops) Gp r).
  assert (Hrend : fst (spec_batch r h ops)
                  = fold_left (spec_apply h) (in_group 0 ops) (fold_left (spec_group h ops) (g :: gs) rc)).
  { unfold spec_batch. rewrite Hv. cbn [fst]. rewrite Hm, fold_left_app. reflexivity. }
  assert (Hsnd : snd (fold_left (apply_t h) (in_group g ops) (sdrop_group g rc, false)) = false).
  { apply (group_ops_no_collision h ops g rc r (fst (spec_batch r h ops))).
    - intros o Ho. apply filter_In in Ho as [Ho Hg]. apply N.eqb_eq in Hg. split; assumption.
    - exact Hno.
    - intros e He Hg.
      destruct (entry_origin h ops Gp (g :: gs) r e Hnd Hnz He) as [H1 H2].
      destruct (in_dec N.eq_dec (egroup e) Gp) as [Hin|Hnin].
      + right. rewrite Hrend. apply H1. exact Hin.
      + left. apply H2. exact Hnin.
    - intros e He _. apply sdrop_In in He as [He _]. exact He. }
  destruct (fold_left (apply_t h) (in_group g ops) (sdrop_group g rc, false)) as [r' t'] eqn:E.
  cbn [snd] in Hsnd. subst t'.
  assert (Er' : r' = spec_group h ops rc g).
  { unfold spec_group. rewrite <- (fst_fold_apply_t h (in_group g ops) (sdrop_group g rc) false), E. reflexivity. }
  rewrite Er'.
  assert (Efold : spec_group h ops rc g = fold_left (spec_group h ops) (Gp ++ [g]) r).
  { rewrite fold_left_app. reflexivity. }
  rewrite Efold. apply IH; [rewrite Hm, <- app_assoc; reflexivity | exact Hno | exact Hv].
Qed.

Lemma batch_no_collision h (r : reg) ops :
  forallb spec_valid ops = true -> batch_collides h r ops = false ->
  snd (fold_left (group_t h ops) (mentioned ops []) (r, false)) = false.
Proof.
  intros Hv Hb. apply (groups_no_collision h ops r (mentioned ops []) []); [reflexivity | | exact Hv].
  intros o Ho. unfold batch_collides in Hb.
  assert (Hf : collides h r o || collides h (fst (spec_batch r h ops)) o = false).
  { destruct (collides h r o || collides h (fst (spec_batch r h ops)) o) eqn:E; [|reflexivity].
    assert (Ht : existsb (fun o0 => collides h r o0 || collides h (fst (spec_batch r h ops)) o0) ops = true)
      by (apply existsb_exists; exists o; split; assumption).
    congruence. }
  apply orb_false_iff in Hf. exact Hf.
Qed.

Lemma run_sim bs : forall st r u,
  Inv u st r -> dom_from u bs = true -> T_F5a_from r bs = false -> P_from r bs (run_from st bs) = true.
Proof.
  induction bs as [|[h ops] bs IH]; intros st r u I Hdom HT; cbn [run_from P_from]; [reflexivity|].
  cbn [dom_from T_F5a_from] in Hdom, HT.
  destruct (forallb spec_valid ops) eqn:Hvalid.
  - destruct (dom_ops h u ops) as [u'|] eqn:Hd; [|discriminate].
    apply dom_ops_spec in Hd as [Hext Hok].
    apply orb_false_iff in HT as [HT1 HT2].
    destruct (batch_sim h u' st r ops (Inv_ext _ _ _ _ Hext I) Hvalid Hok (batch_no_collision h r ops Hvalid HT1)) as [st' [E I']].
    rewrite E. destruct (spec_batch r h ops) as [r' e] eqn:Es.
    assert (e = false) by (unfold spec_batch in Es; rewrite Hvalid in Es; inversion Es; reflexivity). subst e.
    cbn [fst] in I', HT2. cbn [Bool.eqb andb].
    rewrite (Inv_same_series u' st' r' I'). cbn [andb]. eapply IH; eassumption.
  - rewrite (invalid_batch st h ops Hvalid).
    assert (Es : spec_batch r h ops = (r, true)) by (unfold spec_batch; rewrite Hvalid; reflexivity).
    rewrite Es. cbn [Bool.eqb andb]. rewrite (Inv_same_series u st r I). cbn [andb]. eapply IH; eassumption.
Qed.

Theorem refines_partial bs : in_domain bs = true -> T_F5a bs = false -> P bs (run bs) = true.
Proof. intros Hd HT. unfold P, run. eapply run_sim; [apply Inv_init | exact Hd | exact HT]. Qed.

(* ------------------------------------------------------------------ *)
(* 10. reachable states                                                *)
(* ------------------------------------------------------------------ *)

Definition step_state (st : state) (b : batch) : state := fst (hook_batch st (fst b) (snd b)).
Definition step_reg (r : reg) (b : batch) : reg := fst (spec_batch r (fst b) (snd b)).
Definition final_state (bs : list batch) : state := fold_left step_state bs init_state.
Definition final_reg (bs : list batch) : reg := fold_left step_reg bs [].

Lemma reach_split bs : forall st r u bs',
  Inv u st r -> dom_from u (bs ++ bs') = true -> T_F5a_from r (bs ++ bs') = false ->
  exists u', Inv u' (fold_left step_state bs st) (fold_left step_reg bs r)
             /\ dom_from u' bs' = true /\ T_F5a_from (fold_left step_reg bs r) bs' = false.
Proof.
  induction bs as [|[h ops] bs IH]; intros st r u bs' I Hdom HT; cbn [app fold_left] in *.
  - exists u. split; [exact I | split; assumption].
  - cbn [dom_from T_F5a_from] in Hdom, HT. unfold step_state at 2, step_reg at 2 4. cbn [fst snd].
    destruct (forallb spec_valid ops) eqn:Hvalid.
    + destruct (dom_ops h u ops) as [u1|] eqn:Hd; [|discriminate].
      apply dom_ops_spec in Hd as [Hext Hok]. apply orb_false_iff in HT as [HT1 HT2].
      destruct (batch_sim h u1 st r ops (Inv_ext _ _ _ _ Hext I) Hvalid Hok (batch_no_collision h r ops Hvalid HT1)) as [st' [E I']].
      rewrite E. cbn [fst]. eapply IH; eassumption.
    + rewrite (invalid_batch st h ops Hvalid). cbn [fst].
      assert (Es : fst (spec_batch r h ops) = r) by (unfold spec_batch; rewrite Hvalid; reflexivity).
      rewrite Es. eapply IH; eassumption.
Qed.

Lemma values_as_given bs :
  in_domain bs = true -> T_F5a bs = false ->
  forall e, In e (tagged (final_state bs)) <-> In e (final_reg bs).
Proof.
  intros Hd HT. unfold in_domain, T_F5a in *.
  rewrite <- (app_nil_r bs) in Hd, HT.
  destruct (reach_split bs init_state [] [] [] Inv_init Hd HT) as [u' [I _]].
  eapply Inv_tagged. exact I.
Qed.

Lemma last_batch bs h ops :
  in_domain (bs ++ [(h, ops)]) = true -> T_F5a (bs ++ [(h, ops)]) = false ->
  exists u u', Inv u (final_state bs) (final_reg bs)
               /\ Inv u' (final_state (bs ++ [(h, ops)])) (final_reg (bs ++ [(h, ops)]))
               /\ final_state (bs ++ [(h, ops)]) = fst (hook_batch (final_state bs) h ops)
               /\ final_reg (bs ++ [(h, ops)]) = fst (spec_batch (final_reg bs) h ops).
Proof.
  intros Hd HT. unfold in_domain, T_F5a in *.
  destruct (reach_split bs init_state [] [] [(h, ops)] Inv_init Hd HT) as [u [I _]].
  rewrite <- (app_nil_r (bs ++ [(h, ops)])) in Hd, HT.
  destruct (reach_split (bs ++ [(h, ops)]) init_state [] [] [] Inv_init Hd HT) as [u' [I' _]].
  exists u, u'. split; [exact I | split; [exact I'|]].
  unfold final_state, final_reg. rewrite !fold_left_app. split; reflexivity.
Qed.

Lemma group_replaced bs h ops g :
  in_domain (bs ++ [(h, ops)]) = true -> T_F5a (bs ++ [(h, ops)]) = false ->
  forallb spec_valid ops = true -> In g (mentioned ops []) ->
  forall e, egroup e = g ->
    (In e (tagged (final_state (bs ++ [(h, ops)]))) <-> In e (fold_left (spec_apply h) (in_group g ops) [])).
Proof.
  intros Hd HT Hv Hg e He. destruct (last_batch bs h ops Hd HT) as [u [u' [I [I' [_ Er]]]]].
  rewrite (Inv_tagged _ _ _ I' e), Er.
  exact (spec_group_replaced h ops (final_reg bs) g Hv (iv_nd (proj1 I)) Hg e He).
Qed.

Lemma others_untouched bs h ops g :
  in_domain (bs ++ [(h, ops)]) = true -> T_F5a (bs ++ [(h, ops)]) = false ->
  g <> 0 -> ~ In g (mentioned ops []) ->
  forall e, egroup e = g ->
    (In e (tagged (final_state (bs ++ [(h, ops)]))) <-> In e (tagged (final_state bs))).
Proof.
  intros Hd HT Hg Hni e He. destruct (last_batch bs h ops Hd HT) as [u [u' [I [I' [_ Er]]]]].
  rewrite (Inv_tagged _ _ _ I' e), (Inv_tagged _ _ _ I e), Er.
  exact (spec_others_untouched h ops (final_reg bs) g Hg Hni e He).
Qed.

Lemma ungrouped_untouched bs h ops e :
  in_domain (bs ++ [(h, ops)]) = true -> T_F5a (bs ++ [(h, ops)]) = false ->
  egroup e = 0 -> forallb spec_valid ops = true ->
  (forall o, In o ops -> o_group o = 0 -> (0, o_name o, spec_labels h (o_labels o)) <> fst e) ->
  (In e (tagged (final_state (bs ++ [(h, ops)]))) <-> In e (tagged (final_state bs))).
Proof.
  intros Hd HT He Hv Hk. destruct (last_batch bs h ops Hd HT) as [u [u' [I [I' [_ Er]]]]].
  rewrite (Inv_tagged _ _ _ I' e), (Inv_tagged _ _ _ I e), Er.
  apply spec_ungrouped_untouched; assumption.
Qed.

(* the witness of F5a: two groups report the same (name, labels); expiring the first
   group removes the second group's series *)
Definition F5a_witness : list batch :=
  [ (1, [mkOp 2 1 ASet (Some 8%Z) None None None [(1, 1)]]);
    (1, [mkOp 3 1 ASet (Some 16%Z) None None None [(1, 1)]]);
    (1, [mkOp 2 0 AExpire None None None None []]) ].

Lemma refuted : exists bs, in_domain bs = true /\ T_F5a bs = true /\ P bs (run bs) = false.
Proof. exists F5a_witness. repeat split; vm_compute; reflexivity. Qed.
