(* C11_HmProofs.v — proofs about the operator-level path of C11 (C11_Hm / C11_HmSpec): the
   tasks the hook manager makes of a firing are those of the bindings enabled at the moment
   of the firing, after any interleaving of enable / disable / add / remove / firings. *)
From Coq Require Import Permutation.
From Verif Require Import Common C11_Model C11_Spec C11_Proofs C11_Hm C11_HmSpec.

(* ------------------------------------------------------------------ task multisets *)

Lemma stask_eqb_refl x : stask_eqb x x = true.
Proof. unfold stask_eqb. now rewrite !N.eqb_refl, !ns_eqb_refl, !Bool.eqb_reflx. Qed.

Lemma stask_eqb_eq x y : stask_eqb x y = true <-> x = y.
Proof.
  split; [|intros ->; apply stask_eqb_refl].
  destruct x, y. unfold stask_eqb. cbn.
  rewrite !andb_true_iff. intros [[[[[[[H1 H2] H3] H4] H5] H6] H7] H8].
  apply N.eqb_eq in H1, H2, H3, H4, H6, H8. apply Bool.eqb_prop in H5.
  apply (list_eqb_eq N.eqb N_eqb_iff) in H7. now subst.
Qed.

Lemma t_remove_first_In x l : In x l ->
  exists l1 l2, l = l1 ++ x :: l2 /\ t_remove_first x l = Some (l1 ++ l2).
Proof.
  induction l as [|y l IH]; [contradiction|]. intros Hin. cbn [t_remove_first].
  destruct (stask_eqb x y) eqn:E.
  - apply stask_eqb_eq in E. subst y. exists [], l. split; reflexivity.
  - destruct Hin as [->|Hin]; [rewrite stask_eqb_refl in E; discriminate|].
    destruct (IH Hin) as (l1 & l2 & -> & R). rewrite R. exists (y :: l1), l2. split; reflexivity.
Qed.

Lemma is_tperm_complete a : forall b, Permutation a b -> is_tperm a b = true.
Proof.
  induction a as [|x a IH]; intros b Hp.
  - apply Permutation_nil in Hp. now subst.
  - cbn [is_tperm].
    assert (Hin : In x b) by (eapply Permutation_in; [exact Hp | now left]).
    destruct (t_remove_first_In x b Hin) as (l1 & l2 & -> & R). rewrite R.
    apply IH. eapply Permutation_cons_app_inv. exact Hp.
Qed.

Lemma t_remove_first_perm x : forall l r, t_remove_first x l = Some r -> Permutation l (x :: r).
Proof.
  induction l as [|y l IH]; intros r H; cbn [t_remove_first] in H; [discriminate|].
  destruct (stask_eqb x y) eqn:E.
  - apply stask_eqb_eq in E. inversion H; subst. apply Permutation_refl.
  - destruct (t_remove_first x l) as [r'|] eqn:R; inversion H; subst.
    eapply Permutation_trans; [apply perm_skip, (IH _ eq_refl)|]. apply perm_swap.
Qed.

(* the decision procedure is sound as well: it accepts permutations only *)
Lemma is_tperm_sound a : forall b, is_tperm a b = true -> Permutation a b.
Proof.
  induction a as [|x a IH]; intros b H; cbn [is_tperm] in H.
  - destruct b; [constructor | discriminate].
  - destruct (t_remove_first x b) as [b'|] eqn:R; [|discriminate].
    apply Permutation_sym. eapply Permutation_trans; [apply (t_remove_first_perm _ _ _ R)|].
    apply perm_skip, Permutation_sym, IH, H.
Qed.

Lemma check_tasks_iff hooks en cs ts :
  check_tasks hooks en cs ts = true <-> Permutation ts (expected_tasks hooks en cs).
Proof. split; [apply is_tperm_sound | apply is_tperm_complete]. Qed.

(* ------------------------------------------------------------------ one firing *)

Lemma ids_distinct_cons bs hr :
  ids_distinct (bs :: hr) = true -> NoDup (map b_id bs) /\ ids_distinct hr = true.
Proof.
  unfold ids_distinct. cbn [forallb]. intros H. apply andb_true_iff in H as [H1 H2].
  split; [now apply nodupb_NoDup | exact H2].
Qed.

Lemma task_of_info_binding h b : task_of_info h (info_of_binding b) = task_of_binding h b.
Proof. reflexivity. Qed.

(* asking CanHandleScheduleEvent first changes nothing *)
Lemma can_then_handle h c m :
  (if can_handle c m then map (task_of_info h) (handle_event c m) else [])
  = map (task_of_info h) (handle_event c m).
Proof.
  destruct (can_handle c m) eqn:E; [reflexivity|]. now rewrite (handle_event_cannot _ _ E).
Qed.

(* the hook manager's answer to a firing, when the links of every hook are those of its
   bindings if enabled and none otherwise: exactly what the Spec expects *)
Lemma hm_from_expected c hooks : forall h en ls,
  ids_distinct hooks = true -> links_ok hooks en ls ->
  hm_from h c hooks ls = expected_from h c hooks en.
Proof.
  induction hooks as [|bs hr IH]; intros h [|e er] [|m lr] Hd HL; simpl in HL; try contradiction; [reflexivity|].
  destruct HL as [H1 H2]. apply ids_distinct_cons in Hd as [Hn Hd].
  cbn [hm_from expected_from]. rewrite (IH _ _ _ Hd H2). f_equal.
  rewrite (H1 Hn), can_then_handle, handle_event_links. unfold expected_infos.
  destruct bs as [|b bs']; cbn [is_nilb].
  - destruct e; reflexivity.
  - destruct e; [|reflexivity]. rewrite map_map. reflexivity.
Qed.

Lemma hm_tasks_expected hooks en ls cs :
  ids_distinct hooks = true -> links_ok hooks en ls ->
  hm_tasks hooks ls cs = expected_tasks hooks en cs.
Proof.
  intros Hd HL. unfold hm_tasks, expected_tasks, hm_handle. apply flat_map_ext. intros c.
  now apply hm_from_expected.
Qed.

Lemma expected_tasks_perm hooks en cs cs' :
  Permutation cs cs' -> Permutation (expected_tasks hooks en cs) (expected_tasks hooks en cs').
Proof. intros H. unfold expected_tasks. now apply Permutation_flat_map. Qed.

(* the strings [cs'] are received in any order *)
Lemma check_tasks_ok hooks en ls cs cs' :
  ids_distinct hooks = true -> links_ok hooks en ls -> Permutation cs cs' ->
  check_tasks hooks en cs (hm_tasks hooks ls cs') = true.
Proof.
  intros Hd HL Hp. unfold check_tasks. rewrite (hm_tasks_expected _ _ _ _ Hd HL).
  apply is_tperm_complete, expected_tasks_perm, Permutation_sym, Hp.
Qed.

(* ------------------------------------------------------------------ along the operations *)

(* only OTick / OTickAll / ODrain make the consumer receive *)
Lemma step_recv i s o :
  match o with
  | OTick _ | OTickAll | ODrain => True
  | _ => snd (snd (sys_step i s o)) = []
  end.
Proof.
  destruct o as [c id|c id|h|h|c|n| |ns| | |]; cbn [sys_step]; try exact I; try reflexivity.
  - destruct (enable _ _ _) as [m s']. reflexivity.
  - destruct (disable _ _) as [m s']. reflexivity.
Qed.

Lemma hm_tasks_nil hooks ls : hm_tasks hooks ls [] = [].
Proof. reflexivity. Qed.

Lemma T_from_holds i : ids_distinct (i_hooks i) = true ->
  forall ops s st pend dirty stopped,
  Rel i s st -> Permutation pend (ch_pending (s_ch s)) ->
  T_from i st pend dirty stopped ops (run_hm_from i s ops) = true.
Proof.
  intros Hd. induction ops as [|o ops IH]; intros s st pend dirty stopped HR HP; [reflexivity|].
  cbn [run_hm_from]. pose proof (step_rel i s st o HR) as HR'. pose proof (step_ch i s o) as HC.
  pose proof (step_sm_links i s o) as HS. pose proof (step_recv i s o) as HV.
  destruct (sys_step i s o) as [s' f] eqn:Es. cbn [fst snd] in HR', HC, HS, HV.
  cbn [T_from h_obs h_tasks]. pose proof HR' as [HI' HL'].
  rewrite ?o_cron_observe.
  destruct o as [c id|c id|h|h|c|n| |ns| | |].
  - cbn [hm_fired]. rewrite HV, hm_tasks_nil. cbn [is_nil andb]. apply IH; [exact HR' | now rewrite HC].
  - cbn [hm_fired]. rewrite HV, hm_tasks_nil. cbn [is_nil andb]. apply IH; [exact HR' | now rewrite HC].
  - cbn [hm_fired]. rewrite HV, hm_tasks_nil. cbn [is_nil andb]. apply IH; [exact HR' | now rewrite HC].
  - cbn [hm_fired]. rewrite HV, hm_tasks_nil. cbn [is_nil andb]. apply IH; [exact HR' | now rewrite HC].
  - (* OFire *)
    cbn [hm_fired].
    rewrite (check_tasks_ok _ _ _ [c] [c] Hd HL' (Permutation_refl _)). cbn [andb].
    apply IH; [exact HR' | now rewrite HC].
  - (* OTick *)
    destruct HS as [S1 S2]. rewrite S1. cbn [sys_step] in Es.
    destruct (nth_error (cron (s_sm s)) (N.to_nat n)) as [[e c]|] eqn:En.
    + destruct (ch_drain_all (s_ch s)) as [r k] eqn:D. inversion Es; subst s' f. cbn [fst snd hm_fired] in *.
      destruct (ch_drain_all_spec _ _ _ D) as [Hr Hk].
      rewrite (check_tasks_ok _ _ _ (pend ++ [c]) (r ++ [c]) Hd HL'), !orb_true_r.
      * cbn [andb]. apply IH; [exact HR'|]. cbn [with_ch s_ch]. subst k. constructor.
      * apply Permutation_app_tail. eapply Permutation_trans; [exact HP | apply Permutation_sym, Hr].
    + inversion Es; subst s' f. cbn [fst snd hm_fired]. rewrite hm_tasks_nil. cbn [is_nil andb].
      apply IH; [exact HR' | exact HP].
  - (* OTickAll *)
    destruct HS as [S1 S2]. rewrite S1. cbn [sys_step] in Es.
    destruct (ch_drain_all (s_ch s)) as [r k] eqn:D. inversion Es; subst s' f. cbn [fst snd hm_fired] in *.
    destruct (ch_drain_all_spec _ _ _ D) as [Hr Hk].
    rewrite (check_tasks_ok _ _ _ (pend ++ map snd (cron (s_sm s))) (r ++ map snd (cron (s_sm s))) Hd HL'), !orb_true_r.
    + cbn [andb]. apply IH; [exact HR'|]. cbn [with_ch s_ch]. subst k. constructor.
    + apply Permutation_app_tail. eapply Permutation_trans; [exact HP | apply Permutation_sym, Hr].
  - (* OStart *)
    destruct HS as [S1 S2]. rewrite S1. cbn [hm_fired]. rewrite HV, hm_tasks_nil. cbn [is_nil andb].
    apply IH; [exact HR'|].
    rewrite HC, fired_of_strings. apply Permutation_sym.
    eapply Permutation_trans; [apply ch_start_pending|]. apply Permutation_app_tail, Permutation_sym, HP.
  - (* ODrain *)
    cbn [sys_step] in Es.
    destruct (ch_drain_all (s_ch s)) as [r k] eqn:D. inversion Es; subst s' f. cbn [fst snd hm_fired] in *.
    destruct (ch_drain_all_spec _ _ _ D) as [Hr Hk].
    rewrite (check_tasks_ok _ _ _ pend r Hd HL'), !orb_true_r.
    + cbn [andb]. apply IH; [exact HR'|]. cbn [with_ch s_ch]. subst k. constructor.
    + eapply Permutation_trans; [exact HP | apply Permutation_sym, Hr].
  - (* OStop *)
    cbn [hm_fired]. rewrite HV, hm_tasks_nil. cbn [is_nil andb]. apply IH; [exact HR' | now rewrite HC].
  - (* OSmStart *)
    cbn [hm_fired]. rewrite HV, hm_tasks_nil. cbn [is_nil andb]. apply IH; [exact HR' | now rewrite HC].
Qed.

(* the operator-level run observes everything the controller-level run observes *)
Lemma map_h_obs_run i : forall ops s, map h_obs (run_hm_from i s ops) = run_from i s ops.
Proof.
  induction ops as [|o ops IH]; intros s; [reflexivity|]. cbn [run_hm_from run_from].
  destruct (sys_step i s o) as [s' f]. cbn [map h_obs]. now rewrite IH.
Qed.

Lemma P_hm_holds i : P_hm i (run_hm i) = true.
Proof.
  unfold P_hm, run_hm. rewrite map_h_obs_run. fold (run_model i). rewrite P_holds. cbn [andb].
  destruct (ids_distinct (i_hooks i)) eqn:Hd; [|reflexivity]. cbn [negb orb].
  apply (T_from_holds i Hd); [apply rel_init | constructor].
Qed.

(* ------------------------------------------------------------------ the statements in words *)

(* after ANY sequence of operations - firings before, between and after the moments the
   hooks are enabled and disabled - a firing of c yields exactly the tasks of the bindings
   with crontab c of the hooks that are enabled NOW *)
Lemma hm_firing_now i ops c :
  let s := fold_left (fun s o => fst (sys_step i s o)) ops (sys_init i) in
  let st := fold_left (spec_step (i_hooks i)) ops (spec_init (i_hooks i)) in
  ids_distinct (i_hooks i) = true ->
  hm_handle c (i_hooks i) (s_links s) = expected_from 0 c (i_hooks i) (snd st).
Proof.
  cbv zeta. intros Hd. destruct (rel_fold i ops _ _ (rel_init i)) as [_ HL].
  unfold hm_handle. now apply hm_from_expected.
Qed.

(* two histories after which the same hooks are enabled: every firing yields the same
   tasks, whatever fired (or not) on the way - the hook manager remembers nothing *)
Lemma hm_history_independent i ops1 ops2 c :
  let s1 := fold_left (fun s o => fst (sys_step i s o)) ops1 (sys_init i) in
  let s2 := fold_left (fun s o => fst (sys_step i s o)) ops2 (sys_init i) in
  ids_distinct (i_hooks i) = true ->
  snd (fold_left (spec_step (i_hooks i)) ops1 (spec_init (i_hooks i)))
  = snd (fold_left (spec_step (i_hooks i)) ops2 (spec_init (i_hooks i))) ->
  hm_handle c (i_hooks i) (s_links s1) = hm_handle c (i_hooks i) (s_links s2).
Proof.
  cbv zeta. intros Hd E. rewrite (hm_firing_now i ops1 c Hd), (hm_firing_now i ops2 c Hd). now rewrite E.
Qed.

(* what [expected_from] contains: one task per (enabled hook, binding with that crontab),
   nothing else *)
Lemma expected_from_In c hooks : forall h0 en h b,
  nth h en false = true -> In b (nth h hooks []) -> b_crontab b = c ->
  In (task_of_binding (h0 + N.of_nat h) b) (expected_from h0 c hooks en).
Proof.
  induction hooks as [|bs hr IH]; intros h0 en h b He Hb Hc.
  - destruct h; contradiction.
  - destruct en as [|e er]; [destruct h; discriminate|]. cbn [expected_from]. apply in_or_app.
    destruct h as [|h'].
    + left. cbn [nth] in He, Hb. subst e. cbn [Nat2N.inj_succ]. rewrite N.add_0_r.
      apply in_map, filter_In. split; [exact Hb|]. subst c. apply ct_eqb_refl.
    + right. cbn [nth] in He, Hb.
      replace (h0 + N.of_nat (S h'))%N with (N.succ h0 + N.of_nat h')%N by lia.
      now apply IH.
Qed.

Lemma expected_from_inv c hooks : forall h0 en t,
  In t (expected_from h0 c hooks en) ->
  exists h b, t = task_of_binding (h0 + N.of_nat h) b
              /\ nth h en false = true /\ In b (nth h hooks []) /\ b_crontab b = c.
Proof.
  induction hooks as [|bs hr IH]; intros h0 en t Ht; [contradiction|].
  destruct en as [|e er]; [contradiction|]. cbn [expected_from] in Ht. apply in_app_or in Ht as [Ht|Ht].
  - destruct e; [|contradiction]. apply in_map_iff in Ht as [b [<- Hb]]. apply filter_In in Hb as [Hb Hc].
    apply ct_eqb_eq in Hc. exists O, b. rewrite N.add_0_r. repeat split; assumption.
  - destruct (IH _ _ _ Ht) as (h & b & -> & He & Hb & Hc). exists (S h), b.
    split; [f_equal; lia|]. repeat split; assumption.
Qed.

Lemma hm_task_iff i ops c t :
  let s := fold_left (fun s o => fst (sys_step i s o)) ops (sys_init i) in
  let st := fold_left (spec_step (i_hooks i)) ops (spec_init (i_hooks i)) in
  ids_distinct (i_hooks i) = true ->
  (In t (hm_handle c (i_hooks i) (s_links s))
   <-> exists h b, t = task_of_binding (N.of_nat h) b
                   /\ nth h (snd st) false = true /\ In b (nth h (i_hooks i) []) /\ b_crontab b = c).
Proof.
  cbv zeta. intros Hd. rewrite (hm_firing_now i ops c Hd). split.
  - intros H. apply expected_from_inv in H as (h & b & -> & H). exists h, b. now rewrite N.add_0_l.
  - intros (h & b & -> & He & Hb & Hc).
    pose proof (expected_from_In c (i_hooks i) 0%N _ h b He Hb Hc) as X. now rewrite N.add_0_l in X.
Qed.

(* "a crontab keeps firing while at least one binding is registered for it": an enabled
   binding whose crontab is parsable and still has a registered id has exactly one cron
   entry, and a round in which every cron entry fires once yields its task - after any
   history, in particular when the hooks that shared its crontab were disabled meanwhile *)
Lemma hm_keeps_firing i ops h b :
  let s := fold_left (fun s o => fst (sys_step i s o)) ops (sys_init i) in
  let st := fold_left (spec_step (i_hooks i)) ops (spec_init (i_hooks i)) in
  ids_distinct (i_hooks i) = true ->
  nth h (snd st) false = true -> In b (nth h (i_hooks i) []) ->
  fires (valid_of (i_invalid i)) (fst st) (b_crontab b) = true ->
  cron_count (b_crontab b) (s_sm s) = 1%nat
  /\ In (task_of_binding (N.of_nat h) b) (hm_tasks (i_hooks i) (s_links s) (map snd (cron (s_sm s)))).
Proof.
  cbv zeta. intros Hd He Hb Hf.
  destruct (rel_fold i ops _ _ (rel_init i)) as [HI HL].
  set (s := fold_left (fun s o => fst (sys_step i s o)) ops (sys_init i)) in *.
  set (st := fold_left (spec_step (i_hooks i)) ops (spec_init (i_hooks i))) in *.
  split.
  - rewrite (inv_count_exact _ _ _ (b_crontab b) HI). unfold fires in Hf. now rewrite Hf.
  - unfold fires in Hf. apply andb_true_iff in Hf as [Hv Hr]. apply has_binding_In in Hr.
    destruct (proj2 (inv_refcount _ _ _ (b_crontab b) HI) (conj Hv Hr)) as [e Hin].
    unfold hm_tasks. apply in_flat_map. exists (b_crontab b). split.
    + change (b_crontab b) with (snd (e, b_crontab b)). now apply in_map.
    + unfold hm_handle. rewrite (hm_from_expected _ _ _ _ _ Hd HL).
      pose proof (expected_from_In (b_crontab b) (i_hooks i) 0%N _ h b He Hb eq_refl) as X.
      now rewrite N.add_0_l in X.
Qed.
