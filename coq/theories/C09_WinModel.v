(* C09_WinModel.v — the WINDOW between a binding's start and its unlock.

     pkg/kube_events_manager/resource_informer.go  handleWatchEvent, last part: under eventBufLock,
                                                   eventCbEnabled ? putEvent(kubeEvent)
                                                                  : eventBuf = append(eventBuf, kubeEvent)
                                                   getCachedObjects: copies the cache and, while the events are
                                                   still locked, drops eventBuf (the copy shows those changes)
                                                   enableKubeEventCb: eventCbEnabled = true, putEvent for every
                                                   saved event in order, eventBuf = nil
     pkg/hook/controller/hook_controller.go        UpdateSnapshots: SnapshotsFor -> monitor.Snapshot() ->
                                                   getCachedObjects (the run of the Synchronization hook)
     pkg/hook/controller/kubernetes_bindings_controller.go  UnlockEvents -> EnableKubeEventCb

   A binding is started (loadExistedObjects, informer running) with its events LOCKED.  Every delivery goes
   through handleWatchEvent as ever (cache, checksum comparison, executeHookOnEvent); a KubeEvent that would
   be fired is SAVED instead.  A saved entry is the KubeEvent built from that ONE delivery - the
   ObjectAndFilterResult struct of that delivery, by value - and the code as it is never touches it again.
   The Synchronization hook's run renders its context through UpdateSnapshots, which takes the snapshot and
   thereby drops what was saved so far.  The unlock hands the saved events over in order; from then on a
   fired event is handed over at once.  Each handed-over KubeEvent becomes one execution, rendered as
   Hook.Run does ([file_of], C09_Model) when it runs - for the saved ones: after the unlock, i.e. with the
   snapshots as they are then.

   A buffer entry carries, as a ghost, the delivery (event type, object with the jq oracle's answer) it was
   built from: the model never reads it to build a context; it is what the theorems speak about and the
   answer to "what does jq say about the object rendered in this file" ([wf_rejq]).
   No proofs in this file. *)
From Verif Require Import Common Json C09_Model.

Inductive wop :=
| WDeliver (t : wevent) (w : wobj)      (* one delivery of the informer *)
| WSync                                 (* the Synchronization hook runs: its context is rendered now *)
| WUnlock.                              (* UnlockEvents (the first one counts) *)

Record win := mkWin {
  wn_version : version;
  wn_bind : binding;
  wn_initial : list wobj;               (* the cluster when the monitor is created *)
  wn_ops : list wop }.                  (* what happens then; the driver unlocks at the end if no WUnlock is listed *)

(* one rendered file: Synchronization or Event; for a v1 Event file that shows `object` and `filterResult`:
   the output stream of jq JQFILTER on the object shown (asked again, about the rendered object) *)
Record wfile := mkWfile {
  wf_sync : bool;
  wf_rejq : option (list json);
  wf_file : fobs }.

Definition saved := (wevent * wobj * kube_event)%type.

Record wstate := mkWst {
  ws_cache : cache;                     (* cachedObjects *)
  ws_buf : list saved;                  (* eventBuf, every entry with the delivery it was built from *)
  ws_enabled : bool;                    (* eventCbEnabled *)
  ws_step : N }.                        (* deliveries handled so far *)

Definition shows_object_and_result (v : version) (b : binding) : bool :=
  match v with V1 => b_jq b && b_keep b && is_nil (b_group b) | _ => false end.

Definition event_rejq (v : version) (b : binding) (w : wobj) : option (list json) :=
  if shows_object_and_result v b then Some (w_outs w) else None.

(* the execution of one handed-over KubeEvent, rendered when the cache is [c] *)
Definition event_file (v : version) (b : binding) (c : cache) (step : N) (d : saved) : wfile :=
  match d with (t, w, ev) => mkWfile false (event_rejq v b w) (file_of v b c step ev) end.

Definition win_step (v : version) (b : binding) (st : wstate) (op : wop) : wstate * list wfile :=
  match op with
  | WDeliver t w =>
      let (c', ev) := handle b (ws_cache st) t w in
      let n := N.succ (ws_step st) in
      match ev with
      | None => (mkWst c' (ws_buf st) (ws_enabled st) n, [])
      | Some ev =>
          if ws_enabled st
          then (mkWst c' (ws_buf st) true n, [event_file v b c' n (t, w, ev)])     (* putEvent *)
          else (mkWst c' (ws_buf st ++ [(t, w, ev)]) false n, [])                  (* append(eventBuf, kubeEvent) *)
      end
  | WSync =>
      if b_sync b then
        (mkWst (ws_cache st) (if ws_enabled st then ws_buf st else []) (ws_enabled st) (ws_step st),
         [mkWfile true None (file_of v b (ws_cache st) (ws_step st) (mkKev KSync [] []))])
      else (st, [])                     (* executeHookOnSynchronization: false - no run, no snapshot *)
  | WUnlock =>
      if ws_enabled st then (st, [])
      else (mkWst (ws_cache st) [] true (ws_step st),
            map (event_file v b (ws_cache st) (ws_step st)) (ws_buf st))
  end.

Fixpoint win_run (v : version) (b : binding) (st : wstate) (ops : list wop) : list wfile :=
  match ops with
  | [] => []
  | op :: r => let (st', fs) := win_step v b st op in fs ++ win_run v b st' r
  end.

Definition win_init (b : binding) (ws : list wobj) : wstate :=
  mkWst (load_existing b ws []) [] false 0.

Definition run_win (w : win) : list wfile :=
  win_run (wn_version w) (wn_bind w) (win_init (wn_bind w) (wn_initial w)) (wn_ops w ++ [WUnlock]).

(* the KubeEvent handleWatchEvent builds from the delivery (t, w) - and from nothing else *)
Definition event_of (b : binding) (t : wevent) (w : wobj) : kube_event :=
  mkKev KEvent [t] [(w_id w, apply_filter (if b_jq b then Some (w_outs w) else None) (b_keep b) (w_obj w))].

(* ---- the case evaluated through jq.ApplyFilter's copy (C09_Model, last part) ---- *)
Definition wop_run (op : wop) : wop :=
  match op with WDeliver t w => WDeliver t (wobj_run w) | o => o end.

Definition win_via (w : win) : win :=
  mkWin (wn_version w) (wn_bind w) (map wobj_run (wn_initial w)) (map wop_run (wn_ops w)).
