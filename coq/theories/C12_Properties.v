(* C12_Properties.v — the property theorems of C12 and nothing else.
   PARTIAL: that the hook runs in its own directory, that the context file holds exactly the
   task's contexts, that the output files are EMPTY and their names unique per execution (also
   across concurrent executions) are facts about the OS process; they are observed by the
   scripted hook on every case (C12_Spec.P_os) and not proved.
   PROVED since the environment is in the model: how the hook's environment is assembled from the
   operator's own environment and the six per-execution variables (hook.go, executor.go,
   os/exec's last-duplicate-wins) - for EVERY environment of the operator the six variables
   point to this execution's own files, everything else is inherited, the outputs the hook writes
   are the ones read back (C12_env_*, C12_outputs_read_back, C12_model_P_env).
   The CONTENT of the metrics, admission-response and conversion-response files is part of the
   input (any byte string, [FText s]); the model reads it with the RFC 8259 reader of JsonText
   and decodes it the way encoding/json fills the Go structs.  "Malformed" is defined on the text
   side (C12_Spec: v_metrics / v_admission / v_conversion, three-valued); the theorems tie the two
   together for ALL byte strings.  The patch file is YAML: one of four kinds, as before.
   A conversion response followed by other data used to be accepted (found here, repaired by
   1bbc0df): the model follows the repaired code and the full statement is a theorem.
   EXECUTIONS RUNNING CONCURRENTLY IN DIFFERENT QUEUES (theorems C12_conc_...): a transition system of any number
   of executions of Hook.Run whose statements (take a buffer, encode the contexts one by one, write
   the context file, create the four output files, start the hook, read the outputs back, remove the
   files) are interleaved arbitrarily (C12_ConcModel).  Proved for EVERY list of tasks and EVERY
   schedule: what an execution's hook process reads is the document of its own task and a function of
   that task alone, buffers in use are never shared, a finished execution has left no file; the
   observation of every complete schedule satisfies the predicate of C12_ConcSpec and agrees with the
   closed form the correspondence compares the implementation with.  PARTIAL there as for one
   execution: own directory, existing files under the variables, names unique per execution are
   observed, not proved (the model numbers the path of file f of execution e 5e+f: uuid oracle).
   HOW THE HOOK WRITES ITS OUTPUTS (theorems C12_fs_... and C12_ways_...): the contract is by PATH.  A small file
   system (names, inodes, symbolic links; write/append/rename/unlink/link/symlink) says what a reader
   opening a name finds after ANY sequence of operations by the hook (C12_FsModel); the operator reads the
   four outputs by path after the hook has exited and removes its five names.  Proved: the outcome is a
   function of what is AT THE PATHS at exit (for all hook behaviours); for every way of writing (in place,
   append only, scratch file renamed onto the path, removed and created again, through a second hard link,
   a symbolic link put at the path), every split of the content into chunks and every order of the outputs
   that content is the concatenation of the chunks, the execution is C12_Model.run on these contents, the temp
   directory ends empty, and the predicate of C12_FsSpec (C12_Spec.P for the contents at exit) holds of the
   model.  The patch file's YAML stays an oracle (any classification of byte strings into the four kinds).
   WHERE THE HOOK IS STARTED (theorems C12_place_...): "a hook is started in its own directory" over HOW the hook
   file is present in the hooks tree.  A tree of directories, files and symbolic links (absolute / relative
   targets with "..", chains, links to directories) with namei as the operating system does it (C12_PlaceModel);
   Hook.Run starts the process with chdir(directory part of the path the hook manager holds), execve(that
   path).  Proved for EVERY tree, every hooks root (reached through links or not) and every hook found below
   it through real directories: a started hook runs in the directory it was found in, whatever its entry is
   bound to (a regular file, a link into another directory, out of the tree, a chain, a double link); hooks
   in different directories linked to one script run in different directories; the entry point is the path
   itself; the model's observation satisfies the predicate of C12_PlaceSpec (working directory and the
   ./settings the process finds).  That the real process does what chdir/execve are modelled to do stays
   observed (the PLACE cases of the correspondence), as every OS fact. *)
From Verif Require Import Common Json JsonText JsonText_Proofs C12_Model C12_Spec C12_Corr C12_Proofs.
From Verif Require Import C12_ConcModel C12_ConcSpec C12_ConcProofs.
From Verif Require Import C12_FsModel C12_FsSpec C12_FsProofs.
From Verif Require Import C12_PlaceModel C12_PlaceSpec C12_PlaceProofs.
From Verif Require Import C12_BoundModel C12_BoundSpec C12_BoundProofs.
Open Scope N_scope.

(* all temporary files of an execution are deleted when it ends, whatever the outcome —
   including the case where not all of them could be created (after fix 50765e2) *)
Theorem C12_tmp_removed : forall i, o_remaining (run i) = 0.
Proof. exact run_remaining. Qed.
Print Assumptions C12_tmp_removed.

(* where the text side decides (all_wf i = Some b): a started execution
   succeeds iff the exit code is zero and all four outputs are well-formed *)
Theorem C12_success_iff : forall i b,
  o_started (run i) = true -> all_wf i = Some b ->
  (o_success (run i) = true <-> (i_exit i = 0%Z /\ b = true)).
Proof. exact run_success_spec. Qed.
Print Assumptions C12_success_iff.

(* the same in the model's own terms, for every input: the five tests of Hook.Run / handleRunHook *)
Theorem C12_success_iff_model : forall i,
  o_started (run i) = true ->
  (o_success (run i) = true <-> (i_exit i = 0%Z /\ model_ok i = true)).
Proof. exact run_success_iff. Qed.
Print Assumptions C12_success_iff_model.

(* a non-zero exit is a failure and nothing is applied *)
Theorem C12_nonzero_exit_fails : forall i, i_exit i <> 0%Z ->
  o_success (run i) = false /\ o_metric_applied (run i) = false /\ o_metric_unknown (run i) = false
  /\ o_patch_applied (run i) = false.
Proof. exact run_nonzero_exit. Qed.
Print Assumptions C12_nonzero_exit_fails.

(* metrics are applied only by a successful execution; the patch only after a zero exit with a
   readable metrics file (it is applied before SendBatch validates the operations); a successful
   execution applies exactly the outputs that have content *)
Theorem C12_applied_iff : forall i,
  (o_metric_applied (run i) = true -> o_success (run i) = true /\ metrics_effect (i_metrics i) = TYes) /\
  (o_metric_unknown (run i) = true -> o_success (run i) = true /\ metrics_effect (i_metrics i) = TMaybe) /\
  (o_patch_applied (run i) = true -> i_exit i = 0%Z /\ i_patch i = FValid /\ metrics_decodes (i_metrics i) = true) /\
  (o_success (run i) = true ->
     o_patch_applied (run i) = patch_has_content (i_patch i)
     /\ o_metric_applied (run i) = (match metrics_effect (i_metrics i) with TYes => true | _ => false end)
     /\ o_metric_unknown (run i) = (match metrics_effect (i_metrics i) with TMaybe => true | _ => false end)).
Proof. exact run_applied. Qed.
Print Assumptions C12_applied_iff.

(* ---- text side = code side, per file, for every byte string ---- *)

(* metrics: where the text-side verdict decides, it is the answer of MetricOperationsFromFile + ValidateOperations *)
Theorem C12_metrics_wellformed_iff : forall k b,
  v_metrics k = Some b -> (metrics_decodes k && metrics_valid k) = b.
Proof. exact metrics_agree. Qed.
Print Assumptions C12_metrics_wellformed_iff.

(* one metric operation: the documented rules are ValidateMetricOperation's (on documents whose
   keys are exact, unique and non-null) *)
Theorem C12_metric_rules_agree : forall d b,
  doc_verdict metric_doc metric_rules d = Some b -> metric_doc_ok d = b.
Proof. exact metric_doc_agree. Qed.
Print Assumptions C12_metric_rules_agree.

Theorem C12_admission_wellformed_iff : forall k b, v_admission k = Some b -> admission_parses k = b.
Proof. exact admission_agree. Qed.
Print Assumptions C12_admission_wellformed_iff.

Theorem C12_conversion_wellformed_iff : forall k b, v_conversion k = Some b -> conversion_parses k = b.
Proof. exact conversion_agree. Qed.
Print Assumptions C12_conversion_wellformed_iff.

(* what the harness can see of "applied": where the text side says the probe metric must / must
   not exist after a successful run, the model says the same and is sure of it *)
Theorem C12_metric_applied_expected : forall k b,
  expect_metric k = Some b -> metrics_decodes k = true -> metrics_effect k = if b then TYes else TNo.
Proof. exact expect_agree. Qed.
Print Assumptions C12_metric_applied_expected.

(* ---- "a malformed output fails the execution" for whole classes of texts ---- *)

(* ANY accepted stream of documents, then optional whitespace, then a stray } ] , or : (and
   whatever follows): malformed, the execution fails, nothing is applied *)
Theorem C12_metrics_stray_fails : forall i a js w c rest,
  i_metrics i = FText (a ++ w ++ c :: rest) -> parse_stream a = Some js -> all_ws w = true -> stray c = true ->
  v_metrics (i_metrics i) = Some false /\ nothing_done i.
Proof. exact metrics_stray_fails. Qed.
Print Assumptions C12_metrics_stray_fails.

(* a file that ends anywhere inside an object or array *)
Theorem C12_metrics_truncated_fails : forall i j p q,
  i_metrics i = FText p -> wf_json j = true -> is_scalar j = false -> print_value j = p ++ q -> p <> [] -> q <> [] ->
  v_metrics (i_metrics i) = Some false /\ nothing_done i.
Proof. exact metrics_truncated_fails. Qed.
Print Assumptions C12_metrics_truncated_fails.

Theorem C12_admission_stray_fails : forall i a j w c rest,
  i_admission i = FText (a ++ w ++ c :: rest) -> parse_single a = Some j -> all_ws w = true -> stray c = true ->
  v_admission (i_admission i) = Some false /\ o_success (run i) = false.
Proof. exact admission_stray_fails. Qed.
Print Assumptions C12_admission_stray_fails.

Theorem C12_admission_truncated_fails : forall i j p q,
  i_admission i = FText p -> wf_json j = true -> is_scalar j = false -> print_value j = p ++ q -> p <> [] -> q <> [] ->
  v_admission (i_admission i) = Some false /\ o_success (run i) = false.
Proof. exact admission_truncated_fails. Qed.
Print Assumptions C12_admission_truncated_fails.

Theorem C12_conversion_truncated_fails : forall i j p q,
  i_conversion i = FText p -> wf_json j = true -> is_scalar j = false -> print_value j = p ++ q -> p <> [] -> q <> [] ->
  v_conversion (i_conversion i) = Some false /\ o_success (run i) = false.
Proof. exact conversion_truncated_fails. Qed.
Print Assumptions C12_conversion_truncated_fails.

Theorem C12_conversion_stray_fails : forall i a j w c rest,
  i_conversion i = FText (a ++ w ++ c :: rest) -> parse_single a = Some j -> all_ws w = true -> stray c = true ->
  v_conversion (i_conversion i) = Some false /\ o_success (run i) = false.
Proof. exact conversion_stray_fails. Qed.
Print Assumptions C12_conversion_stray_fails.

Theorem C12_conversion_leading_stray_fails : forall i w c rest,
  i_conversion i = FText (w ++ c :: rest) -> all_ws w = true -> stray c = true ->
  v_conversion (i_conversion i) = Some false /\ o_success (run i) = false.
Proof. exact conversion_leading_stray_fails. Qed.
Print Assumptions C12_conversion_leading_stray_fails.

(* the other direction: documents the schema accepts, printed one per line, are well-formed and
   pass both the decoder and the validation *)
Theorem C12_metrics_printed_succeeds : forall i js,
  i_metrics i = FText (print_docs js) -> forallb wf_json js = true ->
  (forall d, In d js -> doc_verdict metric_doc metric_rules d = Some true) ->
  v_metrics (i_metrics i) = Some true
  /\ metrics_decodes (i_metrics i) = true /\ metrics_valid (i_metrics i) = true.
Proof. exact metrics_printed_succeeds. Qed.
Print Assumptions C12_metrics_printed_succeeds.

(* ---- the JSON reader itself (JsonText_Proofs), restated here so that they are obligations of C12 ---- *)
Theorem C12_json_no_out_of_fuel : forall s,
  parse_single_res s <> OutOfFuel /\ parse_stream_res s <> OutOfFuel.
Proof. intros s. split; [apply parse_single_fuel | apply parse_stream_fuel]. Qed.
Print Assumptions C12_json_no_out_of_fuel.

Theorem C12_json_roundtrip : forall j, wf_json j = true -> parse_single (print_value j) = Some j.
Proof. exact roundtrip_single. Qed.
Print Assumptions C12_json_roundtrip.

Theorem C12_json_roundtrip_stream : forall js, forallb wf_json js = true -> parse_stream (print_docs js) = Some js.
Proof. exact roundtrip_stream. Qed.
Print Assumptions C12_json_roundtrip_stream.

Theorem C12_json_stray_rejected : forall a js w c rest,
  parse_stream a = Some js -> all_ws w = true -> stray c = true -> parse_stream (a ++ w ++ c :: rest) = None.
Proof. exact stream_stray_rejected. Qed.
Print Assumptions C12_json_stray_rejected.

Theorem C12_json_truncation_rejected : forall j p q, wf_json j = true -> is_scalar j = false ->
  print_value j = p ++ q -> p <> [] -> q <> [] ->
  parse_single p = None /\ parse_stream p = None /\ parse_first p = None.
Proof.
  intros j p q WF SC E NP NQ. destruct (truncation_rejected j p q WF SC E NP NQ) as [H1 H2].
  repeat split; auto. apply (truncation_first_rejected j p q WF SC E NP NQ).
Qed.
Print Assumptions C12_json_truncation_rejected.

Theorem C12_json_whitespace_only : forall s, all_ws s = true -> parse_stream s = Some [] /\ parse_single s = None.
Proof. intros s H. split; [now apply stream_ws | now apply single_ws]. Qed.
Print Assumptions C12_json_whitespace_only.

(* ---- the hook's environment ---- *)

(* whatever the operator's own environment holds (any variables, any values, duplicates, the six
   names themselves): each of the six variables, as the hook process finds it, is the path of
   this execution's own file of that kind *)
Theorem C12_env_points_to_own_files : forall e k f,
  In (k, Own f) per_exec_vars -> getenv (child_env e) k = Some (Own f).
Proof. exact child_env_own. Qed.
Print Assumptions C12_env_points_to_own_files.

(* every other variable is inherited from the operator with its (last) value; nothing is invented *)
Theorem C12_env_inherits_rest : forall e k,
  is_contract_var k = false -> getenv (child_env e) k = lookup_last (os_environ e) k.
Proof. exact child_env_inherits. Qed.
Print Assumptions C12_env_inherits_rest.

(* the hook finds one value per variable *)
Theorem C12_env_one_value_per_variable : forall e, NoDup (map fst (child_env e)).
Proof. exact child_env_nodup. Qed.
Print Assumptions C12_env_one_value_per_variable.

(* the `--config` call gets the operator's environment and nothing else *)
Theorem C12_config_env_inherits : forall e k, getenv (config_env e) k = lookup_last (os_environ e) k.
Proof. exact config_env_inherits. Qed.
Print Assumptions C12_config_env_inherits.

(* the outputs the hook writes through its variables are the ones the operator reads back, so an
   execution is [run] on the hook's outputs and the operator's environment has no influence on it *)
Theorem C12_outputs_read_back : forall i, readback i = i /\ exec i = run i /\ foreign_written i = false.
Proof. intros i. split; [apply readback_id | split; [apply exec_is_run | apply no_foreign_written]]. Qed.
Print Assumptions C12_outputs_read_back.

Theorem C12_operator_env_irrelevant : forall i e,
  exec (mkIn (i_exit i) (i_metrics i) (i_patch i) (i_admission i) (i_conversion i) (i_concurrent i) (i_namelen i) e)
  = exec i.
Proof. exact exec_env_irrelevant. Qed.
Print Assumptions C12_operator_env_irrelevant.

(* the environment clause of the predicate holds of the model on every input *)
Theorem C12_model_P_env : forall i o, P_env (model_run_obs (i, o)) = true.
Proof. exact model_P_env. Qed.
Print Assumptions C12_model_P_env.

(* ---- the whole predicate ---- *)

(* the full statement: the logic half of P holds of the model on every input *)
Definition C12_full_statement : Prop := forall i o, P_logic i (model_run_obs (i, o)) = true.

Theorem C12_model_P_logic : C12_full_statement.
Proof. exact model_P_logic. Qed.
Print Assumptions C12_model_P_logic.

(* ---- executions running concurrently in different queues ---- *)

(* for any number of executions and any interleaving of their steps (any schedule, complete or not):
   what the hook process of execution e read under $BINDING_CONTEXT_PATH is the document of the contexts
   of ITS task *)
Theorem C12_conc_content_own_task : forall ts s e c,
  e < N.of_nat (length ts) -> e_seen (w_exec (conc_run ts s) e) = Some c -> c = CDoc (task_doc (nth_task ts e)).
Proof. exact content_own_task. Qed.
Print Assumptions C12_conc_content_own_task.

(* the content handed to an execution is a function of its own task only: other tasks beside it, another
   number of executions, another interleaving - the same task reads the same *)
Theorem C12_conc_content_function_of_task : forall ts ts' s s' e c c',
  e < N.of_nat (length ts) -> e < N.of_nat (length ts') -> nth_task ts e = nth_task ts' e ->
  e_seen (w_exec (conc_run ts s) e) = Some c -> e_seen (w_exec (conc_run ts' s') e) = Some c' -> c = c'.
Proof. exact content_function_of_task. Qed.
Print Assumptions C12_conc_content_function_of_task.

(* from the moment its hook process runs an execution has seen that document and four empty output files;
   before, nothing *)
Theorem C12_conc_started_saw_own : forall ts s e, e < N.of_nat (length ts) ->
  match e_pc (w_exec (conc_run ts s) e) with
  | PHook | PRead | PRemove | PDone =>
      e_seen (w_exec (conc_run ts s) e) = Some (CDoc (task_doc (nth_task ts e))) /\ e_empty (w_exec (conc_run ts s) e) = true
  | _ => e_seen (w_exec (conc_run ts s) e) = None
  end.
Proof. exact started_saw_own. Qed.
Print Assumptions C12_conc_started_saw_own.

(* what this rests on: in every reachable world, two executions that are encoding or about to write hold
   different buffers *)
Theorem C12_conc_buffers_never_shared : forall ts s e e',
  e < N.of_nat (length ts) -> e' < N.of_nat (length ts) -> e <> e' ->
  uses_buf (w_exec (conc_run ts s) e) = true -> uses_buf (w_exec (conc_run ts s) e') = true ->
  e_buf (w_exec (conc_run ts s) e) <> e_buf (w_exec (conc_run ts s) e').
Proof. intros ts s. exact (inv_bufs ts _ (run_inv ts s)). Qed.
Print Assumptions C12_conc_buffers_never_shared.

(* an execution that has ended, whatever went on beside it: outputs read back unless its hook failed, its
   five temp files gone *)
Theorem C12_conc_ended_clean : forall ts s e, e < N.of_nat (length ts) -> e_pc (w_exec (conc_run ts s) e) = PDone ->
  e_seen (w_exec (conc_run ts s) e) = Some (CDoc (task_doc (nth_task ts e)))
  /\ e_empty (w_exec (conc_run ts s) e) = true
  /\ e_back (w_exec (conc_run ts s) e) = (if fails_of ts e then None else Some (token e))
  /\ files_of (conc_run ts s) e = 0.
Proof. exact done_exec. Qed.
Print Assumptions C12_conc_ended_clean.

(* the predicate of C12_ConcSpec holds of the transition system's observation for every case and every
   complete schedule *)
Theorem C12_conc_model_P : forall ci s,
  complete (ci_tasks ci) (conc_run (ci_tasks ci) s) = true ->
  P_conc ci (lts_obs ci (conc_run (ci_tasks ci) s)) = true.
Proof. exact lts_P_conc. Qed.
Print Assumptions C12_conc_model_P.

(* ... and that observation does not depend on the schedule: it agrees (C12_Corr.agrees_conc) with the closed
   form C12_Corr.model_conc_obs the implementation is compared with *)
Theorem C12_conc_obs_schedule_independent : forall ci s,
  complete (ci_tasks ci) (conc_run (ci_tasks ci) s) = true ->
  agrees_conc ci (lts_obs ci (conc_run (ci_tasks ci) s)) = true.
Proof. exact lts_agrees_closed. Qed.
Print Assumptions C12_conc_obs_schedule_independent.

Theorem C12_conc_closed_form_P : forall ci, P_conc ci (model_conc_obs ci) = true.
Proof. exact closed_P_conc. Qed.
Print Assumptions C12_conc_closed_form_P.

(* complete schedules exist for every case (one queue: the executions one after the other), and whatever is
   appended to a complete schedule changes nothing *)
Theorem C12_conc_complete_schedules : forall ts,
  complete ts (conc_run ts (seq_sched ts)) = true
  /\ forall s s', complete ts (conc_run ts s) = true -> complete ts (conc_run ts (s ++ s')) = true.
Proof. intros ts. split; [apply seq_sched_complete | apply complete_extends]. Qed.
Print Assumptions C12_conc_complete_schedules.

(* ---- how the hook writes its output files ---- *)

(* one output, produced at the name p in any way but removal, in any chunks, in any well-formed file system in
   which p names an empty file of its own and the scratch names are free: a reader opening p afterwards
   finds the concatenation of the chunks; the scratch name beside p is free again *)
Theorem C12_fs_way_content_at_path : forall w p st so cs s i,
  w <> WRemove -> wf s -> dir s p = Some (NFile i) -> ino s i = [] -> dir s st = None -> dir s so = None ->
  p <> st -> p <> so -> st <> so ->
  read_path (run_ops (script w p st so cs) s) p = Some (concat cs) /\ dir (run_ops (script w p st so cs) s) st = None.
Proof.
  intros w p st so cs s i Hw W Hp He Hst Hso N1 N2 N3.
  destruct (script_post w p st so cs s i Hw W Hp He Hst Hso N1 N2 N3) as ((j & HC & _) & S & _).
  split; [exact (holds_content_read _ _ _ _ _ HC) | exact S].
Qed.
Print Assumptions C12_fs_way_content_at_path.

(* several outputs (each file at most once), each in its way and its chunks, in ANY order, from the start
   of an execution: at every one of the five paths a reader finds what [content_of] says - the chunks of
   the job for that file, joined; nothing if the job removed it; the empty file if there is no job *)
Theorem C12_ways_content_at_paths : forall js s g,
  good_start s -> NoDup (job_files js) -> (forall x, In x (job_files js) -> x < 5) -> g < 5 ->
  read_path (run_ops (jobs_ops js) s) g = content_of js g.
Proof. exact jobs_content. Qed.
Print Assumptions C12_ways_content_at_paths.

(* the start the model builds (five os.WriteFile in an empty directory) and the start the text describes
   (five names, five empty files) are the same file system, and both are good starts *)
Theorem C12_fs_start_is_contract_start :
  fs_equiv (create_all fs_empty) contract_start /\ good_start (create_all fs_empty) /\ good_start contract_start.
Proof. split; [exact start_equiv | split; [exact good_start_created | exact good_start_contract]]. Qed.
Print Assumptions C12_fs_start_is_contract_start.

(* whatever the operator's own environment: outputs written through the four output variables reach the
   files the contract names *)
Theorem C12_ways_reach_contract_files : forall e vs, wf_jobs vs = true -> hook_jobs e vs = spec_jobs vs.
Proof. exact hook_jobs_spec. Qed.
Print Assumptions C12_ways_reach_contract_files.

(* FOR ALL HOOK BEHAVIOURS (any operations on any names): the outcome of the execution is a function of
   what a reader finds at the four output paths when the hook exits *)
Theorem C12_fs_outcome_function_of_path_content : forall cls i i',
  fi_exit i = fi_exit i' -> fi_concurrent i = fi_concurrent i' -> fi_namelen i = fi_namelen i' -> fi_env i = fi_env i' ->
  (forall f, In f [file_metrics; file_patch; file_admission; file_conversion] ->
             read_path (hook_fs i) f = read_path (hook_fs i') f) ->
  tidy i -> tidy i' -> exec_fs cls i = exec_fs cls i'.
Proof. exact outcome_function_of_path_content. Qed.
Print Assumptions C12_fs_outcome_function_of_path_content.

(* ... it is C12_Model.run on what is read back by path, so every theorem about [run] above applies *)
Theorem C12_fs_exec_is_run_on_path_content : forall cls i, tidy i -> exec_fs cls i = run (read_back cls i).
Proof. exact exec_fs_run. Qed.
Print Assumptions C12_fs_exec_is_run_on_path_content.

(* whatever the hook did to the file system (renamed, replaced, linked): the five names of the execution
   are gone when it has ended *)
Theorem C12_fs_own_files_removed : forall i f, In f own_files -> dir (remove_all (hook_fs i)) f = None.
Proof. exact own_files_removed. Qed.
Print Assumptions C12_fs_own_files_removed.

(* every way of writing, every chunking, every order: the execution is [run] on the contents, the hook has
   left nothing in the temp directory, and nothing is left of the execution's own files *)
Theorem C12_ways_exec_closed_form : forall cls w, wf_jobs (wi_jobs w) = true ->
  exec_fs cls (finput_of w) = run (closed_input cls w)
  /\ tidy (finput_of w) /\ o_remaining (exec_fs cls (finput_of w)) = 0.
Proof.
  intros cls w H. split; [now apply ways_exec|]. split; [now apply ways_tidy|].
  apply exec_fs_remaining. now apply ways_tidy.
Qed.
Print Assumptions C12_ways_exec_closed_form.

(* the way does not matter: the same contents at the paths by other ways, other chunks, in another order,
   under another environment of the operator give the same outcome *)
Theorem C12_ways_irrelevant : forall cls w w',
  wf_jobs (wi_jobs w) = true -> wf_jobs (wi_jobs w') = true ->
  wi_exit w = wi_exit w' -> wi_namelen w = wi_namelen w' ->
  (forall g, content_of (spec_jobs (wi_jobs w)) g = content_of (spec_jobs (wi_jobs w')) g) ->
  exec_fs cls (finput_of w) = exec_fs cls (finput_of w').
Proof. exact ways_irrelevant. Qed.
Print Assumptions C12_ways_irrelevant.

(* the predicate of C12_FsSpec (C12_Spec.P_logic for the contents at the paths at exit) holds of the model
   for every tidy hook behaviour, every oracle for the patch file, every input ... *)
Theorem C12_fs_model_P_logic : forall cls i o, tidy i -> P_fs_logic cls i (model_fs_obs cls i o) = true.
Proof. exact model_P_fs_logic. Qed.
Print Assumptions C12_fs_model_P_logic.

(* ... in particular for every case of the ways class *)
Theorem C12_ways_model_P_logic : forall cls w o, wf_jobs (wi_jobs w) = true ->
  P_ways_logic cls w (model_fs_obs cls (finput_of w) o) = true.
Proof. exact ways_P_logic. Qed.
Print Assumptions C12_ways_model_P_logic.

Theorem C12_fs_model_P_env : forall cls i o, P_env (model_fs_obs cls i o) = true.
Proof. exact model_P_fs_env. Qed.
Print Assumptions C12_fs_model_P_env.

(* ---- non-vacuity ---- *)
(* a hook that moves a valid patch (written to a scratch file in two steps) onto $KUBERNETES_PATCH_PATH,
   appends its metrics in three steps, puts a symbolic link at $ADMISSION_RESPONSE_PATH and writes the
   conversion response through a second hard link *)
Definition ex_ways_metrics : bytes :=      (* {"name":"verif_c12_metric","set":1}\n *)
  [123; 34; 110; 97; 109; 101; 34; 58; 34; 118; 101; 114; 105; 102; 95; 99; 49; 50; 95; 109; 101; 116; 114; 105; 99; 34; 44;
   34; 115; 101; 116; 34; 58; 49; 125; 10].
Definition ex_ways : winput :=
  mkWI 0 false 0 [(var_patch, 7)]
       [(WRename, var_patch, [firstn 40 patch_valid_bytes; skipn 40 patch_valid_bytes]);
        (WAppend, var_metrics, [firstn 9 ex_ways_metrics; firstn 20 (skipn 9 ex_ways_metrics); skipn 29 ex_ways_metrics]);
        (WSymlink, var_admission, [[123; 125]]);
        (WHardLink, var_conversion, [[123]; [125]])].
Definition ex_ways_obs (success patch_applied : bool) : observation :=
  mkOb true true true true true true 5 (if success then 0 else 1) 0 true patch_applied false
       [[(var_context, Some (Own file_context)); (var_metrics, Some (Own file_metrics)); (var_patch, Some (Own file_patch));
         (var_admission, Some (Own file_admission)); (var_validating, Some (Own file_admission));
         (var_conversion, Some (Own file_conversion))]] false.
Example C12_ways_hyp_met :
  wf_jobs (wi_jobs ex_ways) = true
  /\ tidy (finput_of ex_ways)
  /\ good_start (create_all fs_empty)
  /\ NoDup (job_files (spec_jobs (wi_jobs ex_ways)))
  (* what is at the paths at exit *)
  /\ read_path (hook_fs (finput_of ex_ways)) file_patch = Some patch_valid_bytes
  /\ read_path (hook_fs (finput_of ex_ways)) file_metrics = Some ex_ways_metrics
  /\ read_path (hook_fs (finput_of ex_ways)) file_admission = Some [123; 125]
  /\ read_path (hook_fs (finput_of ex_ways)) file_conversion = Some [123; 125]
  (* the file created before the hook ran is NOT what is at the patch path any more: it is still empty *)
  /\ read_inode_created (finput_of ex_ways) file_patch = Some []
  /\ read_inode_created (finput_of ex_ways) file_conversion = Some [123; 125]
  /\ exec_fs cls_patch (finput_of ex_ways) = mkOut true true 0 true false true
  (* the predicate: success with the patch applied satisfies it; a success that drops the patch, or a failure, does not *)
  /\ P_ways cls_patch ex_ways (ex_ways_obs true true) = true
  /\ P_ways cls_patch ex_ways (ex_ways_obs true false) = false
  /\ P_ways cls_patch ex_ways (ex_ways_obs false false) = false
  (* a truncated patch moved onto the path must fail the execution *)
  /\ P_ways cls_patch (mkWI 0 false 0 [] [(WRename, var_patch, [patch_truncated_bytes])]) (ex_ways_obs true false) = false
  /\ agrees_ways ex_ways (ex_ways_obs true true) = true
  (* a hook that removes the patch file: unreadable, the model fails the execution, the text does not decide *)
  /\ exec_fs cls_patch (finput_of (mkWI 0 false 0 [] [(WRemove, var_patch, [])])) = mkOut true false 0 false false false
  /\ exit_input cls_patch (spec_finput (mkWI 0 false 0 [] [(WRemove, var_patch, [])])) = None
  (* an untidy hook (leaves a scratch file in the temp directory) is outside the hypothesis *)
  /\ o_remaining (exec_fs cls_patch (mkFI 0 false 0 [] [OWrite 10 [1]])) = 1.
Proof.
  split; [reflexivity|]. split; [apply ways_tidy; reflexivity|]. split; [exact good_start_created|].
  split; [apply spec_jobs_files; reflexivity|].
  vm_compute. repeat split; reflexivity.
Qed.

(* the operator's environment holds METRICS_PATH twice, BINDING_CONTEXT_PATH and two unrelated variables *)
Definition ex_env : list (N * N) := [(var_metrics, 7); (9, 1); (var_context, 3); (var_metrics, 8); (9, 2); (11, 5)].
Example C12_env_hyp_met :
  In (var_metrics, Own file_metrics) per_exec_vars
  /\ lookup_last (os_environ ex_env) var_metrics = Some (Foreign 8)          (* a foreign value is there to be overridden *)
  /\ getenv (child_env ex_env) var_metrics = Some (Own file_metrics)
  /\ is_contract_var 9 = false /\ getenv (child_env ex_env) 9 = Some (Foreign 2)
  /\ getenv (child_env ex_env) 12 = None
  /\ length (child_env ex_env) = 8%nat
  /\ getenv (config_env ex_env) var_metrics = Some (Foreign 8)
  (* if the order of the two halves were inverted, the foreign value would win and the output be lost *)
  /\ getenv (dedup_env (per_exec_vars ++ os_environ ex_env)) var_metrics = Some (Foreign 8)
  /\ written (dedup_env (per_exec_vars ++ os_environ ex_env)) var_metrics file_metrics FValid = FEmpty
  /\ P_env (mkOb true true true true true true 5 0 0 false false false
                  [[(var_context, Some (Foreign 3)); (var_metrics, Some (Own file_metrics)); (var_patch, Some (Own file_patch));
                    (var_admission, Some (Own file_admission)); (var_conversion, Some (Own file_conversion))]] false) = false.
Proof. cbn. repeat split; try reflexivity; tauto. Qed.

Definition ex_metrics_ok : bytes :=      (* {"name":"verif_c12_metric","set":1}\n{"group":"g","action":"expire"}\n *)
  [123; 34; 110; 97; 109; 101; 34; 58; 34; 118; 101; 114; 105; 102; 95; 99; 49; 50; 95; 109; 101; 116; 114; 105; 99; 34; 44;
   34; 115; 101; 116; 34; 58; 49; 125; 10;
   123; 34; 103; 114; 111; 117; 112; 34; 58; 34; 103; 34; 44; 34; 97; 99; 116; 105; 111; 110; 34; 58; 34; 101; 120; 112; 105; 114; 101; 34; 125; 10].
Definition ex_docs : list json :=
  [JObj [(k_name, JStr probe_name); (k_set, JFlt [49])]; JObj [(k_group, JStr [103]); (k_action, JStr s_expire)]].

Example C12_hyp_met :
  o_started (run (mkIn 0 FValid FValid FEmpty FEmpty false 0 [])) = true
  /\ o_success (run (mkIn 0 FValid FTruncated FEmpty FEmpty false 0 [])) = false
  /\ o_started (run (mkIn 0 FEmpty FEmpty FEmpty FEmpty false 190 [])) = false
  (* a text input on which the text side decides "well-formed", the run succeeds and the metric is expected *)
  /\ print_docs ex_docs = ex_metrics_ok /\ forallb wf_json ex_docs = true
  /\ (forall d, In d ex_docs -> doc_verdict metric_doc metric_rules d = Some true)
  /\ all_wf (mkIn 0 (FText ex_metrics_ok) FValid FEmpty FEmpty false 0 []) = Some true
  /\ o_success (run (mkIn 0 (FText ex_metrics_ok) FValid FEmpty FEmpty false 0 [])) = true
  /\ expect_metric (FText ex_metrics_ok) = Some true
  (* the stray-closer class: ex_metrics_ok ++ "" ++ "}" :: "\n{...}" *)
  /\ parse_stream ex_metrics_ok = Some ex_docs /\ stray 125 = true
  /\ all_wf (mkIn 0 (FText (ex_metrics_ok ++ [] ++ 125 :: ex_metrics_ok)) FEmpty FEmpty FEmpty false 0 []) = Some false
  (* the truncation class: the first 20 bytes of the first document *)
  /\ print_value (nth 0 ex_docs JNull) = firstn 20 ex_metrics_ok ++ skipn 20 (print_value (nth 0 ex_docs JNull))
  (* a conversion response followed by other data: malformed, fails ({"convertedObjects":[]} x) *)
  /\ parse_single [123; 34; 99; 111; 110; 118; 101; 114; 116; 101; 100; 79; 98; 106; 101; 99; 116; 115; 34; 58; 91; 93; 125] <> None
  /\ all_wf (mkIn 0 FEmpty FEmpty FEmpty (FText [123; 34; 99; 111; 110; 118; 101; 114; 116; 101; 100; 79; 98; 106; 101; 99; 116; 115; 34; 58; 91; 93; 125; 32; 120]) false 0 []) = Some false
  /\ o_success (run (mkIn 0 FEmpty FEmpty FEmpty (FText [123; 34; 99; 111; 110; 118; 101; 114; 116; 101; 100; 79; 98; 106; 101; 99; 116; 115; 34; 58; 91; 93; 125; 32; 120]) false 0 [])) = false
  (* verdicts that do not decide: a key in another letter case *)
  /\ v_metrics (FText [123; 34; 78; 65; 77; 69; 34; 58; 34; 109; 34; 44; 34; 115; 101; 116; 34; 58; 49; 125]) = None.
Proof.
  repeat (split; [vm_compute; reflexivity|]).
  split; [intros d [<-|[<-|[]]]; vm_compute; reflexivity|].
  repeat (split; [vm_compute; reflexivity|]).
  split; [vm_compute; discriminate|].
  repeat (split; [vm_compute; reflexivity|]). vm_compute; reflexivity.
Qed.

(* three executions - a document of three contexts, an empty one, a failing hook with two kinds of
   contexts - under an interleaved schedule (round robin) that is complete, and under one cut short in
   which execution 0 is between Json() and os.WriteFile while execution 1 encodes *)
Definition ex_tasks : list ctask :=
  [mkCT 0 1 false [(0, 7, 0, 3)]; mkCT 1 1 false []; mkCT 2 3 true [(1, 8, 4, 1); (2, 9, 0, 2)]].
Definition ex_round_robin : list N := concat (repeat [0; 1; 2] 15).
Example C12_conc_hyp_met :
  complete ex_tasks (conc_run ex_tasks ex_round_robin) = true
  /\ complete ex_tasks (conc_run ex_tasks (firstn 20 ex_round_robin)) = false
  /\ e_seen (w_exec (conc_run ex_tasks ex_round_robin) 0) = Some (CDoc [(0, 7, 0); (0, 7, 1); (0, 7, 2)])
  /\ e_seen (w_exec (conc_run ex_tasks ex_round_robin) 1) = Some (CDoc [])
  /\ e_back (w_exec (conc_run ex_tasks ex_round_robin) 0) = Some (token 0)
  /\ e_back (w_exec (conc_run ex_tasks ex_round_robin) 2) = None
  /\ files_left ex_tasks (conc_run ex_tasks (firstn 30 ex_round_robin)) = 15
  /\ files_left ex_tasks (conc_run ex_tasks ex_round_robin) = 0
  (* both in the window: 0 holds the slice and has not written yet, 1 is encoding - different buffers *)
  /\ e_pc (w_exec (conc_run ex_tasks [0; 0; 0; 0; 0; 1]) 0) = PWriteCtx
  /\ e_pc (w_exec (conc_run ex_tasks [0; 0; 0; 0; 0; 1]) 1) = PEncode
  /\ e_buf (w_exec (conc_run ex_tasks [0; 0; 0; 0; 0; 1]) 0) = 0 /\ e_buf (w_exec (conc_run ex_tasks [0; 0; 0; 0; 0; 1]) 1) = 1
  (* the bytes of the first document: [\n  {\n    "binding": "t7-0",\n    "type": "Schedule"\n  },\n ... *)
  /\ firstn 30 (render_doc (task_doc (nth_task ex_tasks 0)))
     = [91; 10; 32; 32; 123; 10; 32; 32; 32; 32; 34; 98; 105; 110; 100; 105; 110; 103; 34; 58; 32; 34; 116; 55; 45; 48; 34; 44; 10; 32]
  /\ render_doc (task_doc (nth_task ex_tasks 1)) = [91; 93]
  /\ P_conc (mkCI false ex_tasks) (lts_obs (mkCI false ex_tasks) (conc_run ex_tasks ex_round_robin)) = true
  (* the predicate is not vacuous: an execution that read the document of another task violates it *)
  /\ P_conc (mkCI false ex_tasks)
       (mkCO [mkCE true true true true [0; 1; 2; 3; 4] true (mkSeen true [] true None) 0 true;
              mkCE true true true true [5; 6; 7; 8; 9] true (mkSeen true [] true None) 0 true;
              mkCE true true true true [10; 11; 12; 13; 14] true (mkSeen true [(1, 8, 4, 1); (2, 9, 0, 2)] true None) 1 false]
             0 [] false) = false.
Proof. vm_compute. repeat split; reflexivity. Qed.

(* ------------------------------------------------------------------ where the hook is started *)

(* for every tree s, every hooks root R (resolving to directory r, through links or not), every hook found
   below it through the real directories ns as the entry n of directory d: if the hook starts, it runs in d -
   whatever n is bound to *)
Theorem C12_place_cwd_is_own_dir : forall s R r ns d n,
  resolve s R = Some (RDir r) -> descend s r ns = Some d ->
  l_started (launch s (R ++ ns ++ [n])) = true ->
  l_cwd (launch s (R ++ ns ++ [n])) = d.
Proof. exact place_cwd_is_own_dir. Qed.
Print Assumptions C12_place_cwd_is_own_dir.

(* two trees that differ in what the hook's entry is bound to (or in anything else that leaves the
   directories on the way alone): the same working directory *)
Theorem C12_place_cwd_target_irrelevant : forall s s' R r r' ns d n,
  resolve s R = Some (RDir r) -> descend s r ns = Some d ->
  resolve s' R = Some (RDir r') -> descend s' r' ns = Some d ->
  l_started (launch s (R ++ ns ++ [n])) = true -> l_started (launch s' (R ++ ns ++ [n])) = true ->
  l_cwd (launch s (R ++ ns ++ [n])) = l_cwd (launch s' (R ++ ns ++ [n])).
Proof. exact place_cwd_target_irrelevant. Qed.
Print Assumptions C12_place_cwd_target_irrelevant.

(* hooks found in different directories run in different directories, also when both are links to one script *)
Theorem C12_place_shared_script_own_dirs : forall s R r ns1 ns2 d1 d2 n1 n2,
  resolve s R = Some (RDir r) -> descend s r ns1 = Some d1 -> descend s r ns2 = Some d2 -> d1 <> d2 ->
  l_started (launch s (R ++ ns1 ++ [n1])) = true -> l_started (launch s (R ++ ns2 ++ [n2])) = true ->
  l_cwd (launch s (R ++ ns1 ++ [n1])) <> l_cwd (launch s (R ++ ns2 ++ [n2])).
Proof. exact place_shared_script_own_dirs. Qed.
Print Assumptions C12_place_shared_script_own_dirs.

(* a hook starts iff the directory part of its path is a directory and the path leads (through any links) to
   an executable regular file *)
Theorem C12_place_started_iff : forall s p,
  l_started (launch s p) = true <->
  (exists d i, resolve s (dir_part p) = Some (RDir d) /\ resolve s p = Some (RFile true i)).
Proof. exact launch_started_iff. Qed.
Print Assumptions C12_place_started_iff.

(* the entry point the process sees is the path the hook manager holds, not what it resolves to *)
Theorem C12_place_entry_point_is_path : forall s p, l_started (launch s p) = true -> l_argv0 (launch s p) = p.
Proof. exact launch_argv0. Qed.
Print Assumptions C12_place_entry_point_is_path.

(* the model's observation of a hook with an own directory satisfies the predicate: for all trees *)
Theorem C12_place_model_P : forall i o d,
  po_rel o <> [] -> own_dir i (po_rel o) = Some d -> P_place1 i (C12_Corr.model_pobs i o) = true.
Proof. exact place_corr_model_P. Qed.
Print Assumptions C12_place_model_P.

(* no hypothesis about the hook: EVERY entry a walk below the hooks root through real directories can report
   (to any depth k; the filters of the real discovery only take entries away) *)
Theorem C12_place_found_model_P : forall k i r o,
  hooks_root_dir i = Some r -> In (po_rel o) (found k (pi_fs i) r) -> P_place1 i (C12_Corr.model_pobs i o) = true.
Proof. exact place_corr_found_model_P. Qed.
Print Assumptions C12_place_found_model_P.

(* and every such entry has an own directory *)
Theorem C12_place_found_has_own_dir : forall k s d rel,
  In rel (found k s d) -> rel <> [] /\ exists d', descend s d (removelast rel) = Some d'.
Proof. exact found_has_own_dir. Qed.
Print Assumptions C12_place_found_has_own_dir.

Theorem C12_place_model_agrees_itself : forall i o, agrees_place1 i (C12_Corr.model_pobs i o) = true.
Proof. exact place_corr_agrees_model. Qed.
Print Assumptions C12_place_model_agrees_itself.

(* one script real/shared/report.sh (content 10) linked into two hook directories, once by a relative and
   once by an absolute target, settings files 11 / 12 beside the links and 13 beside the script; the hooks
   root mnt/hooks is reached through the link mnt -> real.
   names: 0 settings, 1 hooks, 2 shared, 3 010-first, 4 020-second, 5 hook.sh, 6 report.sh, 7 mnt, 8 real;
   directories: 0 sandbox, 1 real, 2 real/hooks, 3 real/hooks/010-first, 4 real/hooks/020-second, 5 real/shared *)
Definition ex_tree : tfs :=
  mkT [(0, 8, TDir 1); (0, 7, TLink false [CName 8]); (1, 1, TDir 2); (1, 2, TDir 5); (2, 3, TDir 3); (2, 4, TDir 4);
       (3, 5, TLink false [CUp; CUp; CName 2; CName 6]); (3, 0, TFile false 11);
       (4, 5, TLink true [CName 8; CName 2; CName 6]); (4, 0, TFile false 12);
       (5, 6, TFile true 10); (5, 0, TFile false 13)]
      [(1, 0); (2, 1); (3, 2); (4, 2); (5, 1)].
Definition ex_place : pinput := mkPI ex_tree [7; 1] 0.
Example C12_place_hyp_met :
  resolve ex_tree [7; 1] = Some (RDir 2)
  /\ descend ex_tree 2 [3] = Some 3 /\ descend ex_tree 2 [4] = Some 4
  /\ resolve ex_tree [7; 1; 3; 5] = Some (RFile true 10) /\ resolve ex_tree [7; 1; 4; 5] = Some (RFile true 10)
  /\ launch ex_tree ([7; 1] ++ [3] ++ [5]) = mkL true [7; 1; 3; 5] 10 3
  /\ launch ex_tree ([7; 1] ++ [4] ++ [5]) = mkL true [7; 1; 4; 5] 10 4
  /\ own_dir ex_place [3; 5] = Some 3
  /\ hooks_root_dir ex_place = Some 2
  /\ found 4 ex_tree 2 = [[3; 5]; [3; 0]; [4; 5]; [4; 0]]
  /\ model_settings ex_place [3; 5] = Some 11 /\ model_settings ex_place [4; 5] = Some 12
  (* the predicate is not vacuous: a process started beside the script (directory 5, ./settings = 13) violates
     it, and so does one started in the right directory that finds another settings file *)
  /\ P_place1 ex_place (mkPO [3; 5] true [7; 1; 3; 5] 10 3 (Some 11) false 0) = true
  /\ P_place1 ex_place (mkPO [3; 5] true [8; 2; 6] 10 5 (Some 13) false 0) = false
  /\ P_place1 ex_place (mkPO [3; 5] true [7; 1; 3; 5] 10 3 (Some 13) false 0) = false
  /\ P_place1 ex_place (mkPO [3; 5] false [] 0 0 None false 0) = false
  (* a dangling entry and a link to a directory do not start *)
  /\ l_started (launch ex_tree [7; 1; 3; 9]) = false /\ l_started (launch ex_tree [7; 1; 3]) = false.
Proof. vm_compute. repeat split; reflexivity. Qed.

(* ------------------------------------------------------------------------------------------------------------ *)
(* WHERE in an output file a malformation sits relative to how the parsers read: files  first document ++ tail,
   the first document of ANY length (encoding/json's Decoder reads 512 bytes, then 1024, 2048 ... more: what
   follows the document may or may not have been read when the document ends), ANY tail.
   C12_BoundModel / C12_BoundSpec / C12_BoundProofs. *)

(* JSON reader: exactly one document (an object), then t: one document iff t is white space only *)
Theorem C12_json_object_then_tail : forall d j t, parse_single d = Some j -> is_obj j = true ->
  parse_single (d ++ t) = (if all_ws t then Some j else None)
  /\ parse_stream (d ++ t) = option_map (cons j) (parse_stream t).
Proof. exact (fun d j t H O => conj (single_app d j t H O) (stream_app d j t H O)). Qed.
Print Assumptions C12_json_object_then_tail.

(* admission.ResponseFromFile / conversion.ResponseFromFile (code side alone): first document of any length,
   any tail: accepted iff the document alone is accepted and the tail is white space only *)
Theorem C12_admission_first_then_tail : forall d j t, parse_single d = Some j -> is_obj j = true ->
  admission_ok (d ++ t) = admission_ok d && all_ws t.
Proof. exact admission_ok_app. Qed.
Print Assumptions C12_admission_first_then_tail.

Theorem C12_conversion_first_then_tail : forall d j t, parse_single d = Some j -> is_obj j = true ->
  conversion_ok (d ++ t) = conversion_ok d && all_ws t.
Proof. exact conversion_ok_app. Qed.
Print Assumptions C12_conversion_first_then_tail.

(* MetricOperationsFromFile: the operation of the first document, then the operations of the tail (the tail
   must itself be a metrics file) *)
Theorem C12_metrics_first_then_tail : forall d j t, parse_single d = Some j -> is_obj j = true ->
  metrics_ops (d ++ t) =
    match option_map op_of_state (decode_struct metric_schema j), metrics_ops t with
    | Some o, Some os => Some (o :: os)
    | _, _ => None
    end.
Proof. exact metrics_ops_app. Qed.
Print Assumptions C12_metrics_first_then_tail.

(* the object-patch file (JSON path): a documented first operation, then t: the kind is decided by t alone *)
Theorem C12_patch_first_then_tail : forall d j t, parse_single d = Some j -> patch_documented j = true ->
  patch_text_kind (d ++ t) =
    match parse_stream t with
    | Some docs => if forallb patch_doc_ok docs then FValid else FWrongType
    | None => FTruncated
    end.
Proof. exact patch_kind_app. Qed.
Print Assumptions C12_patch_first_then_tail.

(* the execution: an admission / conversion response file holding a well-formed first document of ANY length and
   then t, exit code 0: the execution succeeds iff t is white space only *)
Theorem C12_bound_response_accepted_iff_ws_tail : forall b,
  single_file (bi_file b) = true -> first_wf b = Some true -> bi_exit b = 0%Z ->
  (o_success (exec_bound b) = true <-> all_ws (b_tail b) = true).
Proof. exact bound_single_accepted_iff. Qed.
Print Assumptions C12_bound_response_accepted_iff_ws_tail.

(* all four files: the execution succeeds iff the tail is an acceptable continuation (text side) *)
Theorem C12_bound_accepted_iff_tail : forall b v,
  first_wf b = Some true -> tail_verdict b = Some v -> bi_exit b = 0%Z ->
  (o_success (exec_bound b) = true <-> v = true).
Proof. exact bound_stream_accepted_iff. Qed.
Print Assumptions C12_bound_accepted_iff_tail.

(* trailing white space is no malformation: the outcome is that of the first document alone *)
Theorem C12_bound_ws_tail_irrelevant : forall b,
  first_wf b = Some true -> all_ws (b_tail b) = true ->
  o_success (exec_bound b) = o_success (exec_bound (first_only b)).
Proof. exact bound_ws_tail_irrelevant. Qed.
Print Assumptions C12_bound_ws_tail_irrelevant.

(* the model satisfies the clause of the class for EVERY first document and tail (no hypotheses) *)
Theorem C12_bound_model_P : forall b o, P_bound b (model_bound_obs b o) = true.
Proof. exact bound_model_P. Qed.
Print Assumptions C12_bound_model_P.

(* {"allowed":true + 496 spaces + } = 512 bytes (one read of the Decoder, to the byte), then \n{"allowed":false} *)
Definition ex_bound_first : list bseg :=
  [([123; 34; 97; 108; 108; 111; 119; 101; 100; 34; 58; 116; 114; 117; 101], 1); ([32], 496); ([125], 1)].
Definition ex_bound_tail : list bseg :=
  [([10; 123; 34; 97; 108; 108; 111; 119; 101; 100; 34; 58; 102; 97; 108; 115; 101; 125], 1)].
Definition ex_bound : binput := mkBI file_admission ex_bound_first ex_bound_tail 0.
Definition ex_bound_ws : binput := mkBI file_admission ex_bound_first [([10; 32; 9; 13], 3)] 0.
Definition ex_bound_obs (ok : bool) : observation :=
  mkOb true true true true true true 5 (if ok then 0 else 1) 0 false false false
       [[(var_context, Some (Own file_context)); (var_metrics, Some (Own file_metrics)); (var_patch, Some (Own file_patch));
         (var_admission, Some (Own file_admission)); (var_conversion, Some (Own file_conversion))]] false.
Example C12_bound_hyp_met :
  N.of_nat (length (b_first ex_bound)) = 512
  /\ single_file (bi_file ex_bound) = true /\ first_wf ex_bound = Some true /\ bi_exit ex_bound = 0%Z
  /\ all_ws (b_tail ex_bound) = false /\ tail_verdict ex_bound = Some false
  /\ o_success (exec_bound ex_bound) = false
  /\ all_ws (b_tail ex_bound_ws) = true /\ tail_verdict ex_bound_ws = Some true
  /\ o_success (exec_bound ex_bound_ws) = true
  (* the clause is not vacuous: a successful run on the two-verdict file violates it, a failed one on the
     file with trailing white space as well *)
  /\ P_bound ex_bound (ex_bound_obs false) = true /\ P_bound ex_bound (ex_bound_obs true) = false
  /\ P_bound ex_bound_ws (ex_bound_obs true) = true /\ P_bound ex_bound_ws (ex_bound_obs false) = false
  (* the other three files *)
  /\ first_wf (mkBI file_patch [(patch_valid_bytes, 1)] [] 0) = Some true
  /\ tail_verdict (mkBI file_patch [(patch_valid_bytes, 1)] [([32], 700); ([125], 1)] 0) = Some false
  /\ tail_verdict (mkBI file_patch [(patch_valid_bytes, 1)] [(patch_valid_bytes, 2)] 0) = Some true
  /\ o_success (exec_bound (mkBI file_patch [(patch_valid_bytes, 1)] [([32], 700); ([125], 1)] 0)) = false
  /\ o_patch_applied (exec_bound (mkBI file_patch [(patch_valid_bytes, 1)] [(patch_valid_bytes, 2)] 0)) = true.
Proof. vm_compute. repeat split; reflexivity. Qed.
