(* C12_Properties.v — the property theorems of C12 and nothing else.
   PARTIAL: that the hook runs in its own directory, that the environment variables point
   to a context file with exactly the task's contexts and to EMPTY output files whose names
   are unique per execution (also across concurrent executions) are facts about the OS
   process; they are observed by the scripted hook on every case (C12_Spec.P_os) and not
   proved.  Validity of each output file's content is the subject of C13/C14/C15/C16; here
   a file is empty, valid, or malformed. *)
From Verif Require Import Common C12_Model C12_Spec C12_Corr C12_Proofs.
Open Scope N_scope.

(* all temporary files of an execution are deleted when it ends, whatever the outcome —
   including the case where not all of them could be created (after fix 50765e2) *)
Theorem C12_tmp_removed : forall i, o_remaining (run i) = 0.
Proof. exact run_remaining. Qed.
Print Assumptions C12_tmp_removed.

(* a started execution succeeds iff the exit code is zero and all four outputs parse *)
Theorem C12_success_iff : forall i,
  o_started (run i) = true ->
  (o_success (run i) = true <-> (i_exit i = 0%Z /\ all_parse i = true)).
Proof. exact run_success_iff. Qed.
Print Assumptions C12_success_iff.

(* a non-zero exit is a failure and nothing is applied *)
Theorem C12_nonzero_exit_fails : forall i, i_exit i <> 0%Z ->
  o_success (run i) = false /\ o_metric_applied (run i) = false /\ o_patch_applied (run i) = false.
Proof. exact run_nonzero_exit. Qed.
Print Assumptions C12_nonzero_exit_fails.

(* outputs are applied only by a successful execution, and a successful one applies exactly
   the non-empty ones *)
Theorem C12_applied_iff : forall i,
  (o_metric_applied (run i) = true -> o_success (run i) = true /\ i_metrics i = FValid) /\
  (o_patch_applied (run i) = true -> o_success (run i) = true /\ i_patch i = FValid) /\
  (o_success (run i) = true -> o_metric_applied (run i) = has_content (i_metrics i)
                               /\ o_patch_applied (run i) = has_content (i_patch i)).
Proof. exact run_applied. Qed.
Print Assumptions C12_applied_iff.

(* the logic half of the property's predicate holds of the model on every input *)
Theorem C12_model_P_logic : forall i o, P_logic i (model_obs (i, o)) = true.
Proof. exact model_P_logic. Qed.
Print Assumptions C12_model_P_logic.

Example C12_hyp_met :
  o_started (run (mkIn 0 FValid FValid FEmpty FEmpty false 0)) = true
  /\ o_success (run (mkIn 0 FValid FTruncated FEmpty FEmpty false 0)) = false
  /\ o_started (run (mkIn 0 FEmpty FEmpty FEmpty FEmpty false 190)) = false.
Proof. vm_compute. repeat split. Qed.
