(* C17_Proofs.v — the decidable predicate C17_Spec.P holds of the model's own observations,
   for every configuration and every action sequence. *)
From Verif Require Import Common Op_Model Op_Corr Op_Spec Op_Proofs C17_Spec.
From Coq Require Import Permutation.
Open Scope N_scope.

Lemma insert_q_perm q l : Permutation (insert_q q l) (q :: l).
Proof.
  induction l as [|x r IH]; simpl; [reflexivity|].
  destruct (N.leb (q_name q) (q_name x)); [reflexivity|]. rewrite IH. apply perm_swap.
Qed.
Lemma sort_queues_perm l : Permutation (sort_queues l) l.
Proof. induction l as [|x l IH]; simpl; [reflexivity|]. rewrite insert_q_perm. now constructor. Qed.

Lemma in_execs cfg s e :
  In e (so_execs (observe cfg s)) ->
  exists q, In q (queues s) /\ q_name q = eo_queue e /\ in_handler q = true.
Proof.
  unfold observe. cbn [so_execs]. intros H. apply in_flat_map in H as [q [Hq He]].
  apply (Permutation_in _ (sort_queues_perm _)) in Hq.
  unfold in_handler, is_running. destruct (q_running q) eqn:R; [|destruct He].
  destruct (q_items q); [destruct He|]. destruct (q_delay q) eqn:D; [destruct He|].
  destruct He as [<-|[]]. exists q. simpl. rewrite R, D. auto.
Qed.

Lemma execs_of_running cfg s q :
  In q (queues s) -> in_handler q = true -> q_items q <> [] ->
  exists e, In e (so_execs (observe cfg s)) /\ eo_queue e = q_name q.
Proof.
  intros Hq R I. unfold observe. cbn [so_execs]. unfold in_handler, is_running in R.
  destruct (q_running q) eqn:Rq; [|discriminate]. destruct (q_items q) as [|t r] eqn:Iq; [contradiction|].
  destruct (q_delay q) eqn:Dq; [discriminate|].
  eexists. split.
  - apply in_flat_map. exists q. split; [apply (Permutation_in _ (Permutation_sym (sort_queues_perm _))), Hq|].
    rewrite Rq, Iq, Dq. left. reflexivity.
  - reflexivity.
Qed.

Lemma find_e_some n es e : In e es -> eo_queue e = n -> exists e', find_e n es = Some e'.
Proof.
  unfold find_e. intros H E. destruct (find (fun x => N.eqb (eo_queue x) n) es) eqn:F; [eauto|].
  exfalso. apply (find_none _ _ F) in H. subst n. now rewrite N.eqb_refl in H.
Qed.

Lemma filter_none {A} (f : A -> bool) l : (forall x, In x l -> f x = false) -> filter f l = [].
Proof.
  induction l as [|x r IH]; intros H; [reflexivity|]. simpl. rewrite (H x (or_introl eq_refl)). apply IH. intros y Hy. apply H. now right.
Qed.

(* after shutdown was requested, an open execution was open before and the action did not end it *)
Lemma no_new_execs cfg s a :
  Inv s -> queues s <> [] -> stopped s = true \/ a = Stop ->
  new_execs a (observe cfg s) (observe cfg (step cfg s a)) = [].
Proof.
  intros HI Hne Hs. unfold new_execs.
  assert (G : forall e, In e (so_execs (observe cfg (step cfg s a))) ->
              (match find_e (eo_queue e) (so_execs (observe cfg s)) with
               | None => true
               | Some _ => match ended_queue a with Some q => N.eqb q (eo_queue e) | None => false end
               end) = false).
  { intros e He. apply in_execs in He as [q' [Hq' [Hn R']]].
    rewrite (step_queue_local cfg s a (inv_names s HI) Hne) in Hq'.
    apply in_map_iff in Hq' as [q [Eq Hq]].
    pose proof (no_new_execution_after_stop cfg s a q HI Hq Hs) as NN. cbv zeta in NN. rewrite Eq in NN.
    destruct (NN R') as (_ & _ & Rq).
    assert (Hname : q_name q' = q_name q).
    { rewrite <- Eq. unfold step_q.
      assert (F1 : forall ok stp w, q_name (finish_one ok stp w q) = q_name q) by (intros; apply finish_one_name).
      assert (F2 : forall x, q_name (adv_one cfg (has_queue (queues s)) x) = q_name x).
      { intros x. unfold adv_one. destruct (is_running x); [reflexivity|].
        destruct (advance_q _ _ _ _ _) as [[it ru] sh]. reflexivity. }
      destruct a; cbn [is_stop]; rewrite ?orb_false_r, ?orb_true_r;
        try (destruct (stopped s); [reflexivity | rewrite F2; reflexivity]); try reflexivity.
      - destruct (stopped s); [|rewrite F2]; destruct (N.eqb (q_name q) q0); rewrite ?F1; reflexivity.
      - destruct (stopped s); [|rewrite F2]; destruct (N.eqb (q_name q) q0); rewrite ?F1; reflexivity.
      - destruct (stopped s); [|rewrite F2]; destruct (N.eqb (q_name q) q0); rewrite ?elapse_one_name; reflexivity. }
    assert (B : q_items q <> []).
    { destruct HI as [_ I2 _ _]. rewrite Forall_forall in I2. apply (I2 q Hq).
      unfold in_handler in Rq. now apply andb_true_iff in Rq as [Rq _]. }
    destruct (execs_of_running cfg s q Hq Rq B) as [e0 [He0 En0]].
    destruct (find_e_some (eo_queue e) _ e0 He0) as [e1 F]; [congruence|]. rewrite F.
    destruct a; cbn [ended_queue]; try reflexivity.
    - (* Finish q0: had it been this queue, the queue would not be in a handler any more *)
      destruct (N.eqb q0 (eo_queue e)) eqn:E0; [|reflexivity]. exfalso.
      apply N.eqb_eq in E0. destruct Hs as [St|Hx]; [|discriminate].
      assert (Eq0 : q0 = q_name q) by congruence. subst q0.
      destruct (handler_return_stops_worker cfg s q ok HI Hq St) as [Rn _]. cbv zeta in Rn.
      rewrite <- Eq0, Eq in Rn. congruence.
    - (* FinishWait q0 *)
      destruct (N.eqb q0 (eo_queue e)) eqn:E0; [|reflexivity]. exfalso.
      apply N.eqb_eq in E0. destruct Hs as [St|Hx]; [|discriminate].
      assert (Eq0 : q0 = q_name q) by congruence. subst q0.
      assert (Rn : in_handler q' = false).
      { rewrite <- Eq, Eq0. unfold step_q. rewrite St, N.eqb_refl. cbn [orb]. unfold finish_one.
        unfold in_handler, is_running in Rq. destruct (q_running q) eqn:R1; [|discriminate].
        destruct (q_items q) eqn:I1; [contradiction|]. destruct (q_delay q) eqn:D1; [discriminate|]. reflexivity. }
      congruence. }
  apply filter_none. exact G.
Qed.

Lemma worker_flags cfg s :
  forallb (fun q => if stopped s then Bool.eqb (qo_worker_stopped q) (negb (qo_running q)) && negb (qo_delayed q)
                    else negb (qo_worker_stopped q)) (so_queues (observe cfg s)) = true.
Proof.
  unfold observe. cbn [so_queues]. apply forallb_forall. intros q Hq. apply in_map_iff in Hq as [x [<- _]].
  cbn [qo_worker_stopped qo_running qo_delayed]. destruct (stopped s); cbn; [|reflexivity].
  now rewrite Bool.eqb_reflx, andb_false_r.
Qed.

Lemma no_delay_shown_after_stop cfg s : stopped s = true ->
  forallb (fun q => negb (qo_delayed q)) (so_queues (observe cfg s)) = true.
Proof.
  intros St. unfold observe. cbn [so_queues]. apply forallb_forall. intros q Hq. apply in_map_iff in Hq as [x [<- _]].
  cbn [qo_delayed]. rewrite St. now rewrite andb_false_r.
Qed.

Lemma step_keeps_queues cfg s a : queues s <> [] -> queues (step cfg s a) <> [].
Proof.
  intros H. pose proof (step_inv cfg s a) as _. unfold step.
  assert (G : forall s1, queues s1 <> [] -> queues (advance cfg s1) <> []).
  { intros s1 H1. unfold advance. destruct (stopped s1); [exact H1|].
    pose proof (advance_all_names cfg (has_queue (queues s1)) (queues s1) (mkSh (sched_on s1) (unlocked s1) (mon_started s1))) as N.
    destruct (advance_all _ _ _ _) as [qs sh]. simpl in *. intros E. rewrite E in N. simpl in N.
    destruct (queues s1); [contradiction | discriminate]. }
  apply G. destruct a; simpl.
  - destruct (queues s) eqn:E; [contradiction | simpl; rewrite E; discriminate].
  - intros E. pose proof (append_tasks_names (queues s) (sched_tasks cfg (sched_on s) c)) as N. rewrite E in N.
    destruct (queues s); [contradiction | discriminate].
  - intros E. pose proof (append_tasks_names (queues s) (kube_tasks cfg (unlocked s) mon obj)) as N. rewrite E in N.
    destruct (queues s); [contradiction | discriminate].
  - pose proof (finish_in_names (queues s) q ok (stopped s) false (unlocked s)) as N.
    destruct (finish_in _ _ _ _ _ _) as [qs unl]. simpl in *. intros E. rewrite E in N.
    destruct (queues s); [contradiction | discriminate].
  - exact H.
  - pose proof (finish_in_names (queues s) q false (stopped s) true (unlocked s)) as N.
    destruct (finish_in _ _ _ _ _ _) as [qs unl]. simpl in *. intros E. rewrite E in N.
    destruct (queues s); [contradiction | discriminate].
  - intros E. pose proof (elapse_in_names (queues s) q) as N. rewrite E in N.
    destruct (queues s); [contradiction | discriminate].
Qed.

(* states without queues (before Boot): nothing runs, whatever happens *)
Lemma preboot_execs cfg s : queues s = [] -> so_execs (observe cfg s) = [].
Proof. intros H. unfold observe. rewrite H. reflexivity. Qed.

Lemma boot_queues_idle cfg : forall q, In q (boot_queues cfg) -> q_running q = None.
Proof.
  assert (K : forall l qs, (forall q, In q qs -> q_running q = None) ->
              forall q, In q (fold_left add_queue l qs) -> q_running q = None).
  { induction l as [|n l IHl]; intros qs H q0 H0; [now apply H|]. simpl in H0. apply (IHl (add_queue qs n)); [|exact H0].
    intros x Hx. unfold add_queue in Hx. destruct (has_queue qs n); [now apply H|].
    apply in_app_or in Hx as [Hx|[<-|[]]]; [now apply H | reflexivity]. }
  intros q Hq. unfold boot_queues in Hq. eapply K; [|exact Hq]. intros x Hx. eapply K; [|exact Hx].
  intros y [<-|[]]. reflexivity.
Qed.

Lemma idle_no_execs cfg s : (forall q, In q (queues s) -> q_running q = None) -> so_execs (observe cfg s) = [].
Proof.
  intros H. unfold observe. cbn [so_execs].
  assert (G : forall l, (forall q, In q l -> q_running q = None) ->
              flat_map (fun q => match q_running q, q_items q, q_delay q with
                                 | Some _, t :: _, false => [mkEO (q_name q) (t_hook t) (map (render_ctx (hook_v0 cfg (t_hook t))) (t_ctxs t))]
                                 | _, _, _ => [] end) l = []).
  { induction l as [|x l IHl]; intros Hl; [reflexivity|]. simpl. rewrite (Hl x (or_introl eq_refl)). apply IHl.
    intros q Hq. apply Hl. now right. }
  apply G. intros q Hq. apply H. apply (Permutation_in _ (sort_queues_perm _)), Hq.
Qed.

(* before Boot, or a Boot under shutdown: nothing is in a handler afterwards *)
Lemma preboot_step_execs cfg s a :
  queues s = [] -> stopped (step cfg s a) = true -> so_execs (observe cfg (step cfg s a)) = [].
Proof.
  intros Q St. apply idle_no_execs. intros q Hq. revert Hq St. unfold step. destruct a; simpl; rewrite ?Q.
  - (* Boot *) rewrite advance_stopped. simpl. intros Hq St. unfold advance in Hq. simpl in Hq. rewrite St in Hq.
    simpl in Hq. now apply (boot_queues_idle cfg).
  - assert (E : append_tasks [] (sched_tasks cfg (sched_on s) c) = []).
    { unfold append_tasks. induction (sched_tasks cfg (sched_on s) c); [reflexivity | exact IHl]. }
    rewrite E. unfold advance. simpl. destruct (stopped s); simpl; intros [].
  - assert (E : append_tasks [] (kube_tasks cfg (unlocked s) mon obj) = []).
    { unfold append_tasks. induction (kube_tasks cfg (unlocked s) mon obj); [reflexivity | exact IHl]. }
    rewrite E. unfold advance. simpl. destruct (stopped s); simpl; intros [].
  - unfold advance. simpl. destruct (stopped s); simpl; intros [].
  - unfold advance. simpl. intros [].
  - unfold advance. simpl. destruct (stopped s); simpl; intros [].
  - unfold advance. simpl. destruct (stopped s); simpl; intros [].
Qed.

Lemma steps_ok_from cfg : forall acts s,
  Inv s ->
  steps_ok (stopped s) (observe cfg s) acts (map (observe cfg) (trace_from cfg s acts)) = true.
Proof.
  induction acts as [|a acts IH]; intros s HI; [reflexivity|].
  cbn [trace_from map steps_ok].
  assert (Hst : stopped (step cfg s a) = stopped s || C17_Spec.is_stop a).
  { rewrite step_stopped. destruct a; reflexivity. }
  rewrite <- Hst.
  rewrite (IH (step cfg s a) (step_inv cfg s a HI)), andb_true_r.
  cbn [so_bad observe negb andb].
  pose proof (worker_flags cfg (step cfg s a)) as W.
  destruct (stopped (step cfg s a)) eqn:S'; [|exact W].
  rewrite W, andb_true_r.
  assert (NE : new_execs a (observe cfg s) (observe cfg (step cfg s a)) = []).
  { destruct (queues s) eqn:Q.
    - unfold new_execs. rewrite (preboot_step_execs cfg s a Q S'). reflexivity.
    - apply no_new_execs; [exact HI | rewrite Q; discriminate|].
      rewrite step_stopped in S'. destruct (stopped s); [now left|]. right. destruct a; try discriminate. reflexivity. }
  rewrite NE. reflexivity.
Qed.

(* The whole property predicate holds of the model for every configuration and every
   sequence of actions (ticks, events, ends of executions, shutdown at any point). *)
Theorem P_holds cfg acts : P (cfg, acts, Op_Corr.model_obs (cfg, acts, [])) = true.
Proof.
  unfold P, Op_Corr.model_obs, c_cfg, c_acts, c_obs, trace. cbn [fst snd].
  pose proof (steps_ok_from cfg acts init init_inv) as H. exact H.
Qed.

(* ---- time passing ----
   Between two actions any amount of time may pass: every worker polls its empty queue, waits
   in its handler or in its back-off delay; nothing in the state changes.  The harness renders
   "the operator is left alone for a while" as a tick of a crontab no enabled binding uses;
   this is a stutter step of every reachable state (and so is a whole idle period made of them):
   what an idle period may or may not do is exactly what the other theorems say about the state. *)
Lemma advance_all_quiet cfg qok : forall qs sh,
  Forall quiescent_q qs -> Forall delay_running qs -> advance_all cfg qok qs sh = (qs, sh).
Proof.
  induction qs as [|q r IH]; intros sh Hq Hd; [reflexivity|].
  inversion Hq as [|? ? Q1 Q2]; inversion Hd as [|? ? D1 D2]; subst. cbn [advance_all].
  destruct (is_running q) eqn:R.
  - now rewrite (IH sh Q2 D2).
  - destruct Q1 as [Q1|Q1]; [congruence|]. rewrite Q1. unfold fuel_for. cbn [fold_right]. change (advance_q 1 cfg qok [] sh) with (@nil task, @None bool, sh).
    cbv iota beta. rewrite (IH sh Q2 D2). f_equal. f_equal.
    destruct q as [nm items run dl]. cbn in *. subst items.
    unfold is_running in R. cbn in R. destruct run; [discriminate|].
    destruct dl; [|reflexivity]. unfold delay_running, is_running in D1. cbn in D1. specialize (D1 eq_refl). discriminate.
Qed.

Lemma advance_quiet cfg s : Inv s -> advance cfg s = s.
Proof.
  intros [_ _ Hq Hd]. unfold advance. destruct (stopped s) eqn:St; [reflexivity|].
  rewrite (advance_all_quiet cfg _ (queues s) _ (Hq eq_refl) Hd).
  destruct s; cbn in *. now subst.
Qed.

Theorem time_is_stutter cfg s c : Inv s -> sched_tasks cfg (sched_on s) c = [] -> step cfg s (Tick c) = s.
Proof.
  intros HI E. unfold step. rewrite E. cbn [append_tasks fold_left].
  replace (mkSt (queues s) (sched_on s) (unlocked s) (mon_started s) (stopped s)) with s by (now destruct s).
  apply advance_quiet, HI.
Qed.

(* an idle period of any length, after any history *)
Theorem idle_period_is_stutter cfg acts c n :
  let s := exec cfg acts init in
  sched_tasks cfg (sched_on s) c = [] -> exec cfg (repeat (Tick c) n) s = s.
Proof.
  intros s E. induction n as [|n IH]; [reflexivity|]. cbn [repeat exec fold_left].
  rewrite (time_is_stutter cfg s c (reachable_inv cfg acts) E). exact IH.
Qed.
