(* Op_Spec.v — vocabulary shared by the specification predicates of C03, C04, C06, C17.
   Everything here is computed from the configuration, the actions issued by the
   harness and the observations; nothing refers to the model's step function. *)
From Verif Require Import Common Op_Model Op_Corr.
Open Scope N_scope.

(* configured queue / allowFailure / exec-on-sync of a binding, looked up by name *)
Definition kube_bindings (cfg : config) : list (hook * kbinding) :=
  flat_map (fun h => map (fun b => (h, b)) (h_kube h)) cfg.
Definition sched_bindings (cfg : config) : list (hook * sbinding) :=
  flat_map (fun h => map (fun b => (h, b)) (h_sched h)) cfg.

Definition binding_queue (cfg : config) (b : N) : option N :=
  match find (fun hb => N.eqb (kb_name (snd hb)) b) (kube_bindings cfg) with
  | Some hb => Some (kb_queue (snd hb))
  | None => match find (fun hb => N.eqb (sb_name (snd hb)) b) (sched_bindings cfg) with
            | Some hb => Some (sb_queue (snd hb))
            | None => None
            end
  end.

Definition binding_allow (cfg : config) (b : N) : bool :=
  match find (fun hb => N.eqb (kb_name (snd hb)) b) (kube_bindings cfg) with
  | Some hb => kb_allow (snd hb)
  | None => match find (fun hb => N.eqb (sb_name (snd hb)) b) (sched_bindings cfg) with
            | Some hb => sb_allow (snd hb)
            | None => false
            end
  end.

(* a kubernetes binding whose Synchronization must not be delivered *)
Definition sync_exempt (cfg : config) (b : N) : bool :=
  match find (fun hb => N.eqb (kb_name (snd hb)) b) (kube_bindings cfg) with
  | Some hb => h_v0 (fst hb) || negb (kb_execsync (snd hb))
  | None => false
  end.

Definition find_q (n : N) (qs : list qobs) : option qobs := find (fun q => N.eqb (qo_name q) n) qs.
Definition find_e (n : N) (es : list eobs) : option eobs := find (fun e => N.eqb (eo_queue e) n) es.

Fixpoint nodup_N (l : list N) : bool :=
  match l with [] => true | x :: r => negb (mem_N x r) && nodup_N r end.

Fixpoint increasing (l : list N) : bool :=
  match l with
  | [] => true
  | x :: r => match r with [] => true | y :: _ => N.ltb x y && increasing r end
  end.

(* executions that are new in [cur]: their queue had none in [prev], or the action ended
   the one it had *)
Definition ended_queue (a : action) : option N :=
  match a with Finish q _ | FinishWait q => Some q | _ => None end.
Definition new_execs (a : action) (prev cur : sobs) : list eobs :=
  filter (fun e => match find_e (eo_queue e) (so_execs prev) with
                   | None => true
                   | Some _ => match ended_queue a with Some q => N.eqb q (eo_queue e) | None => false end
                   end) (so_execs cur).

Definition empty_obs : sobs := mkSO [] [] [] [] false.

(* fold a step predicate over the run, threading the previous observation *)
Fixpoint all_steps (f : action -> sobs -> sobs -> bool) (prev : sobs) (acts : list action) (obs : list sobs) : bool :=
  match acts, obs with
  | [], [] => true
  | a :: acts', o :: obs' => f a prev o && all_steps f o acts' obs'
  | _, _ => false
  end.

(* well-formed configurations: binding names are unique and non-zero, a monitor is named
   after its binding, hook ids unique, at most one schedule binding per crontab in a hook
   (the code iterates a Go map there, so the task order would not be determined) *)
Definition binding_names (cfg : config) : list N :=
  map (fun hb => kb_name (snd hb)) (kube_bindings cfg) ++ map (fun hb => sb_name (snd hb)) (sched_bindings cfg).
Definition wf_config (cfg : config) : bool :=
  nodup_N (binding_names cfg) && negb (mem_N 0 (binding_names cfg))
  && nodup_N (map h_id cfg)
  && forallb (fun hb => N.eqb (kb_mon (snd hb)) (kb_name (snd hb))) (kube_bindings cfg)
  && forallb (fun h => nodup_N (map sb_cron (h_sched h))) cfg
  && forallb (fun h => if h_v0 h then forallb (fun b => N.eqb (kb_queue b) 0 && N.eqb (kb_group b) 0) (h_kube h)
                                   && forallb (fun b => N.eqb (sb_queue b) 0 && N.eqb (sb_group b) 0) (h_sched h)
                       else true) cfg.
