(* C18_Corr.v — correspondence vocabulary for C18.  Kinds of cases (see [case] at the
   end): limiter level, operator level, operator level timed, operator level timed with a
   shared queue that is held ([hcase], near the end), operator level timed with hooks of every
   shape - start-up Synchronization runs, idle periods, single events ([scase], at the end).  A limiter-level case is: the `settings:` block the
   harness wrote into a hook configuration (values known to the generator: the interval
   in ns and the integer burst; None = key absent), a list of synthetic request instants
   (ns), a RateLimitWait probe (n calls with a deadline [budget] ns away), and what the
   real code did: whether LoadAndValidate accepted the configuration, the limiter built
   by CreateRateLimiter (Limit() == Inf, Burst()), the act instants ReserveN(t,1) granted,
   the probe's results and the wall-clock time the probe took.
   Concurrent waiters (c_conc_n > 0, short intervals): that many goroutines call
   Hook.RateLimitWait(context.Background()) of a freshly loaded hook at once, as the workers of
   several queues do for one hook; [o_conc] lists, in the order they were observed, the
   instants (ns after the instant [0] taken before the goroutines were launched) at which
   the calls returned nil. *)
From Coq Require Export Uint63.
From Verif Require Import Common C18_Model C18_Spec C18_Proofs C18_Shared C18_ShapeProofs.
Open Scope Z_scope.

(* Number literals: elaborating a 14-digit Z literal costs about 1 ms in Coq 8.16 and a
   case holds ~100 instants, so the generated cases files carry instants as primitive
   63-bit integers (parsed natively) and convert them here, inside vm_compute.
   [zp n] = n, [zn n] = -n, [zl] a list of instants, [ol] a list of granted instants in
   which the sentinel 2^63-1 stands for "refused" (None). *)
Definition zp (i : Uint63.int) : Z := Uint63.to_Z i.
Definition zn (i : Uint63.int) : Z := - Uint63.to_Z i.
Definition zl (l : list Uint63.int) : list Z := map zp l.
Definition refused : Uint63.int := Uint63.max_int.
Definition ol (l : list Uint63.int) : list (option Z) :=
  map (fun i => if Uint63.eqb i refused then None else Some (zp i)) l.

Record obs := mkObs {
  o_loaded : bool;
  o_inf : bool;
  o_burst : Z;
  o_acts : list (option Z);
  o_probe : list bool;
  o_wall : Z;
  o_conc : list Z
}.

Record lcase := mkCase {
  c_raw : option raw_settings;
  c_arrivals : list Z;
  c_probe_n : N;
  c_budget : Z;
  c_conc_n : N;
  c_obs : obs
}.

Definition is_none {A} (o : option A) : bool := match o with None => true | Some _ => false end.

Definition model_obs_l (c : lcase) : obs :=
  match limiter_of_config (c_raw c) with
  | None => mkObs false false 0 [] [] 0 []
  | Some b =>
      mkObs true (is_none (b_limit b)) (b_burst b) (grants b (c_arrivals c))
            (wait_probe b 0 (c_budget c) (N.to_nat (c_probe_n c))) 0
            (* all requests at the earliest possible instant: the anchor (C18_concurrent_waiters) *)
            (somes (grants b (repeat 0 (N.to_nat (c_conc_n c)))))
  end.

(* float rounding + truncation in the Go limiter: 1 ns per act time; exact when unlimited *)
Definition close (tol : Z) (a b : option Z) : bool :=
  match a, b with
  | Some x, Some y => (Z.abs (x - y) <=? tol)
  | None, None => true
  | _, _ => false
  end.

Fixpoint never_earlier (model impl : list Z) : bool :=
  match model, impl with
  | m :: mr, i :: ir => (m <=? i) && never_earlier mr ir
  | _, _ => true
  end.

Definition agrees_l (c : lcase) : bool :=
  let m := model_obs_l c in
  let o := c_obs c in
  Bool.eqb (o_loaded m) (o_loaded o)
  && Bool.eqb (o_inf m) (o_inf o)
  && Z.eqb (o_burst m) (o_burst o)
  && list_eqb (close (if o_inf m then 0 else 1)) (o_acts m) (o_acts o)
  && list_eqb Bool.eqb (o_probe m) (o_probe o)
  (* concurrent waiters: as many returns as the model grants, the k-th of them not earlier than
     the model's k-th grant (the real requests come at or after the anchor: C18_grants_monotone) *)
  && Nat.eqb (length (o_conc m)) (length (o_conc o))
  && never_earlier (o_conc m) (o_conc o).


(* the (I, B) the user configured, as the property text reads them *)
Definition configured (c : lcase) : option (option settings) :=
  match c_raw c with
  | None => Some None
  | Some r => match r_interval r, r_burst r with
              | Some i, Some b => Some (Some (mkSettings i b))
              | _, _ => None
              end
  end.

(* P on the implementation's observations: the window bound on the granted instants, the
   wall-clock bound on the RateLimitWait probe, and "not throttled" without settings.
   A configuration that was rejected runs nothing. *)
Definition P_case_l (c : lcase) : bool :=
  let o := c_obs c in
  if negb (o_loaded o) then true else
  match configured c with
  | None => true
  | Some cfg =>
      P cfg (c_arrivals c) (o_acts o)
      && P_wall cfg (count_true (o_probe o)) (o_wall o)
      && match cfg with None => forallb (fun x => x) (o_probe o) | Some _ => true end
      (* concurrent waiters: the window bound for the windows that begin at the anchor *)
      && P_hook_anchored cfg [0] (o_conc o)
  end.


(* ======================================================================================
   Operator level.  A case is: the hooks (bindings, queues, allowFailure ...) and the
   settings each hook's configuration carried (I in ns, B), a script of actions with the
   instant (ns since the start of the scenario, one monotonic clock) at which the harness
   issued each of them, and what the REAL operator (assembled in-process on a fake cluster,
   hooks = scripted stubs, the queues' back-off shortened through TaskQueue.ExponentialBackoffFn)
   showed at the quiescent point after every action: the content of every queue, the open
   executions, the unlocked monitors, the queues whose worker was sleeping in
   Hook.RateLimitWait (positively observed: queue status "run first task", no execution
   open, and the limiter of the head task's hook holds a reservation for the future), and
   every execution start with the hook and the measured instant.

   The observation vocabulary below is the one of the shared operator harness (Op_Corr.v as
   of commit a93bce0), copied for the same reason as the task-flow model in C18_Model. *)
Close Scope Z_scope.
Open Scope N_scope.
(* what a hook is shown of one context: (binding, kind code, group, object) *)
Definition hookctx := (N * N * N * N)%type.
Definition K_Startup : N := 0.  Definition K_Sync : N := 1.  Definition K_Event : N := 2.
Definition K_Schedule : N := 3. Definition K_Group : N := 4. Definition K_V0 : N := 5.

Definition kind_code (k : ckind) : N :=
  match k with KStartup => K_Startup | KSync => K_Sync | KEvent => K_Event | KSchedule => K_Schedule end.

(* MapV1 / MapV0 reduced to what the harness reads back *)
Definition render_ctx (v0 : bool) (c : ctx) : hookctx :=
  if v0 then (c_binding c, K_V0, 0, c_obj c)
  else match c_kind c with
       | KStartup => (c_binding c, K_Startup, 0, 0)
       | k => if N.eqb (c_group c) 0 then (c_binding c, kind_code k, 0, c_obj c)
              else (c_binding c, K_Group, c_group c, 0)
       end.

Record qobs := mkQO { qo_name : N; qo_items : list task; qo_running : bool; qo_worker_stopped : bool }.
Record eobs := mkEO { eo_queue : N; eo_hook : N; eo_ctxs : list hookctx }.
Record sobs := mkSO {
  so_queues : list qobs;       (* sorted by queue number *)
  so_execs : list eobs;        (* open executions, sorted by queue number *)
  so_unlocked : list N;        (* unlocked monitors, sorted, no duplicates *)
  so_started : list eobs;      (* executions that started during the step (implementation only; order of starts) *)
  so_bad : bool                (* the harness saw something impossible in any model (second execution in a
                                  queue, no quiescence) *)
}.

Fixpoint insert_q (q : qstate) (l : list qstate) : list qstate :=
  match l with
  | [] => [q]
  | x :: r => if N.leb (q_name q) (q_name x) then q :: x :: r else x :: insert_q q r
  end.
Definition sort_queues (l : list qstate) : list qstate := fold_right insert_q [] l.

Fixpoint insert_N (n : N) (l : list N) : list N :=
  match l with
  | [] => [n]
  | x :: r => if N.eqb n x then l else if N.ltb n x then n :: l else x :: insert_N n r
  end.
Definition sort_dedup (l : list N) : list N := fold_right insert_N [] l.


Definition hook_v0 (cfg : config) (h : N) : bool :=
  match find_hook cfg h with Some x => h_v0 x | None => false end.

Definition observe (cfg : config) (s : state) : sobs :=
  let qs := sort_queues (queues s) in
  mkSO (map (fun q => mkQO (q_name q) (q_items q) (is_running q) (stopped s && negb (is_running q))) qs)
       (flat_map (fun q => match q_running q, q_items q with
                           | Some _, t :: _ => [mkEO (q_name q) (t_hook t)
                                                     (map (render_ctx (hook_v0 cfg (t_hook t))) (t_ctxs t))]
                           | _, _ => []
                           end) qs)
       (sort_dedup (unlocked s))
       [] false.

(* ---- equality of observations ---- *)
Definition btype_eqb (a b : btype) : bool :=
  match a, b with BOnStartup, BOnStartup | BKube, BKube | BSchedule, BSchedule => true | _, _ => false end.
Definition ckind_eqb (a b : ckind) : bool :=
  match a, b with KStartup, KStartup | KSync, KSync | KEvent, KEvent | KSchedule, KSchedule => true | _, _ => false end.
Definition ttype_eqb (a b : ttype) : bool :=
  match a, b with HookRun, HookRun | EnableKube, EnableKube | EnableSched, EnableSched => true | _, _ => false end.
Definition ctx_eqb (a b : ctx) : bool :=
  N.eqb (c_binding a) (c_binding b) && ckind_eqb (c_kind a) (c_kind b)
  && N.eqb (c_group a) (c_group b) && N.eqb (c_obj a) (c_obj b).
Definition task_eqb (a b : task) : bool :=
  ttype_eqb (t_type a) (t_type b) && N.eqb (t_hook a) (t_hook b) && btype_eqb (t_btype a) (t_btype b)
  && list_eqb ctx_eqb (t_ctxs a) (t_ctxs b) && Bool.eqb (t_allow a) (t_allow b)
  && N.eqb (t_group a) (t_group b) && list_eqb N.eqb (t_mids a) (t_mids b)
  && Bool.eqb (t_execsync a) (t_execsync b) && N.eqb (t_queue a) (t_queue b) && N.eqb (t_fail a) (t_fail b).
Definition hookctx_eqb (a b : hookctx) : bool :=
  match a, b with (a1, a2, a3, a4), (b1, b2, b3, b4) => N.eqb a1 b1 && N.eqb a2 b2 && N.eqb a3 b3 && N.eqb a4 b4 end.
Definition qobs_eqb (a b : qobs) : bool :=
  N.eqb (qo_name a) (qo_name b) && list_eqb task_eqb (qo_items a) (qo_items b)
  && Bool.eqb (qo_running a) (qo_running b) && Bool.eqb (qo_worker_stopped a) (qo_worker_stopped b).
Definition eobs_eqb (a b : eobs) : bool :=
  N.eqb (eo_queue a) (eo_queue b) && N.eqb (eo_hook a) (eo_hook b) && list_eqb hookctx_eqb (eo_ctxs a) (eo_ctxs b).
(* [so_started] is an implementation-side record only; [so_bad] must be false *)
Definition sobs_eqb (m i : sobs) : bool :=
  list_eqb qobs_eqb (so_queues m) (so_queues i) && list_eqb eobs_eqb (so_execs m) (so_execs i)
  && list_eqb N.eqb (so_unlocked m) (so_unlocked i) && negb (so_bad i).

Close Scope N_scope.
Open Scope Z_scope.

Record opcase := mkOpCase {
  oc_cfg : config;
  oc_settings : hook_settings;
  oc_times : list Z;               (* instant of every action *)
  oc_acts : list action;
  oc_steps : list sobs;            (* implementation: observation after every action *)
  oc_waiting : list (list N);      (* implementation: queues seen waiting in RateLimitWait, sorted *)
  oc_starts : list (N * Z)         (* implementation: every execution start (hook, instant), in order *)
}.

Definition op_script (c : opcase) : list (Z * action) := List.combine (oc_times c) (oc_acts c).
Definition op_trace (c : opcase) : list lstate := trace_lim (oc_cfg c) (oc_settings c) (op_script c).
Definition op_final (c : opcase) : lstate := run_lim (oc_cfg c) (init_lim (oc_settings c)) (op_script c).

Definition op_model_steps (c : opcase) : list (sobs * list N) :=
  map (fun ls => (observe (oc_cfg c) (l_op ls), sort_dedup (map we_queue (l_waiting ls)))) (op_trace c).

Definition step_eqb (m i : sobs * list N) : bool :=
  sobs_eqb (fst m) (fst i) && list_eqb N.eqb (snd m) (snd i).

Definition agrees_op (c : opcase) : bool :=
  Nat.eqb (length (oc_times c)) (length (oc_acts c))
  && Nat.eqb (length (oc_steps c)) (length (oc_waiting c))
  && sortedb (oc_times c)
  && list_eqb step_eqb (op_model_steps c) (List.combine (oc_steps c) (oc_waiting c))
  (* as many executions of every hook as the model starts *)
  && forallb (fun h => Nat.eqb (length (starts_in (h_id h) (l_log (op_final c))))
                               (length (starts_of (h_id h) (oc_starts c)))) (oc_cfg c)
  (* inside the model's domain: no action at or after a pending wake-up *)
  && negb (l_overrun (op_final c)).

(* the hooks a worker was seen waiting for: head task of every queue seen waiting *)
Definition head_hook (s : sobs) (q : N) : list N :=
  match find (fun qo => N.eqb (qo_name qo) q) (so_queues s) with
  | Some qo => match qo_items qo with t :: _ => [t_hook t] | [] => [] end
  | None => []
  end.
Definition observed_throttled (c : opcase) : list N :=
  flat_map (fun p => flat_map (head_hook (fst p)) (snd p)) (List.combine (oc_steps c) (oc_waiting c)).

(* P on the implementation's observations: the window bound on the measured start
   instants of every hook with settings, no waiting for hooks without; a crash, a hook that
   could not be loaded or a scenario that never became quiescent violates P *)
Definition P_case_op (c : opcase) : bool :=
  forallb (fun s => negb (so_bad s)) (oc_steps c)
  && P_op (oc_settings c) (oc_starts c) (observed_throttled c).

(* ======================================================================================
   Operator level, TIMED: short intervals (100-300 ms), the sleepers wake up during the
   scenario.  The hooks have schedule bindings only, in main and named queues, several
   bindings of one hook in DIFFERENT queues; every execution ends successfully as soon as the
   harness sees it.  A case is: the hooks and their settings, the instant of Boot, the
   instant at which each Tick was issued (taken BEFORE it was issued), the instant at which
   the harness saw all queues empty again at the end, every execution start with the instant
   at which the harness SAW it (some time after it happened, never before), and the anchors:
   instants, taken by the harness, at which no execution was under way (all queues empty
   when looked at afterwards), so that a start seen at or after an anchor happened after it.

   P is judged on the observed instants in the anchored form (C18_Spec.P_timed): a delay
   between a start and its observation cannot make it fail (C18_late_observation_sound).

   Comparison with the model, [tc_exact] cases only: the harness issued a Tick only when
   every queue it feeds was empty, so each task is executed on its own, whatever the timing,
   and model and implementation start the same number of executions.  The model runs the
   ticks with hooks that end at the very instant they start ([auto_run]: a script of Tick,
   Idle and Finish actions built from the model's own wake-up instants): all its requests
   happen at the earliest possible instants, so the implementation's k-th start of a hook must
   not be seen EARLIER than the model's k-th start (C18_grants_monotone); later is fine.
   Cases that are not exact (ticks pile up behind sleepers and are combined when the sleeper
   wakes up - how many executions that makes depends on the timing) are judged by P only. *)
Definition sim := (lstate * list (Z * action))%type.
Definition sim_step (cfg : config) (s : sim) (ta : Z * action) : sim :=
  (step_lim cfg (fst s) ta, snd s ++ [ta]).

Definition running_queues (ls : lstate) : list N := map q_name (filter is_running (queues (l_op ls))).

(* hooks that end at once: every open execution ends (successfully) at instant t *)
Fixpoint finish_all (fuel : nat) (cfg : config) (t : Z) (s : sim) : sim :=
  match fuel with
  | O => s
  | S fuel' =>
      match running_queues (fst s) with
      | [] => s
      | q :: _ => finish_all fuel' cfg t (sim_step cfg s (t, Finish q true))
      end
  end.

Definition sim_fuel (cfg : config) (s : sim) : nat := wake_fuel cfg (fst s).

(* time passes up to [limit]: the sleepers wake up one instant after the other *)
Fixpoint drain_until (fuel : nat) (cfg : config) (limit : Z) (s : sim) : sim :=
  match fuel with
  | O => s
  | S fuel' =>
      match earliest_due limit (l_waiting (fst s)) with
      | Some (_, u) =>
          let s1 := sim_step cfg s (u, Idle) in
          drain_until fuel' cfg limit (finish_all (sim_fuel cfg s1) cfg u s1)
      | None => s
      end
  end.

Definition sim_act (cfg : config) (s : sim) (ta : Z * action) : sim :=
  let s0 := drain_until (sim_fuel cfg s) cfg (fst ta) s in
  let s1 := sim_step cfg s0 ta in
  finish_all (sim_fuel cfg s1) cfg (fst ta) s1.

Definition auto_run (cfg : config) (hs : hook_settings) (script : list (Z * action)) : sim :=
  fold_left (sim_act cfg) script (init_lim hs, []).

(* everything [auto_run] does is a run of the model on the script it hands back *)
Lemma sim_step_ok cfg ls0 s ta : fst s = run_lim cfg ls0 (snd s) ->
  fst (sim_step cfg s ta) = run_lim cfg ls0 (snd (sim_step cfg s ta)).
Proof. intros H. unfold sim_step, run_lim in *. cbn [fst snd]. rewrite fold_left_app, <- H. reflexivity. Qed.

Lemma finish_all_ok cfg ls0 t : forall fuel s, fst s = run_lim cfg ls0 (snd s) ->
  fst (finish_all fuel cfg t s) = run_lim cfg ls0 (snd (finish_all fuel cfg t s)).
Proof.
  induction fuel as [|fuel IH]; intros s H; [exact H|].
  cbn [finish_all]. destruct (running_queues (fst s)) as [|q r]; [exact H|].
  apply IH. apply sim_step_ok. exact H.
Qed.

Lemma drain_until_ok cfg ls0 limit : forall fuel s, fst s = run_lim cfg ls0 (snd s) ->
  fst (drain_until fuel cfg limit s) = run_lim cfg ls0 (snd (drain_until fuel cfg limit s)).
Proof.
  induction fuel as [|fuel IH]; intros s H; [exact H|].
  cbn [drain_until]. destruct (earliest_due limit (l_waiting (fst s))) as [[e u]|]; [|exact H].
  apply IH. apply finish_all_ok. apply sim_step_ok. exact H.
Qed.

Lemma auto_run_is_run cfg hs : forall script,
  fst (auto_run cfg hs script) = run_lim cfg (init_lim hs) (snd (auto_run cfg hs script)).
Proof.
  intros script. unfold auto_run.
  assert (G : forall script s, fst s = run_lim cfg (init_lim hs) (snd s) ->
              fst (fold_left (sim_act cfg) script s)
              = run_lim cfg (init_lim hs) (snd (fold_left (sim_act cfg) script s))).
  { clear script. induction script as [|ta r IH]; intros s H; [exact H|].
    cbn [fold_left]. apply IH. unfold sim_act.
    apply finish_all_ok. apply sim_step_ok. apply drain_until_ok. exact H. }
  apply G. reflexivity.
Qed.

(* hence, when the script it built is in time order, the model's starts satisfy the
   predicate that is used on the implementation's observations *)
Lemma auto_run_P_timed cfg hs script anchors :
  sortedb (map fst (snd (auto_run cfg hs script))) = true ->
  P_timed hs anchors (starts_all (l_log (fst (auto_run cfg hs script)))) = true.
Proof. intros Hs. rewrite auto_run_is_run. exact (op_P_timed_holds cfg hs _ anchors Hs). Qed.

Record tcase := mkTCase {
  tc_cfg : config;
  tc_settings : hook_settings;
  tc_boot : Z;
  tc_ticks : list (Z * N);         (* instant, crontab *)
  tc_end : Z;
  tc_starts : list (N * Z);        (* implementation: (hook, instant at which the start was seen), in order *)
  tc_anchors : list Z;
  tc_exact : bool;
  tc_bad : bool                    (* the harness saw something impossible in any model, or the
                                      queues never became empty *)
}.

Definition t_script (c : tcase) : list (Z * action) :=
  (tc_boot c, Boot) :: map (fun p => (fst p, Tick (snd p))) (tc_ticks c) ++ [(tc_end c, Idle)].
Definition t_sim (c : tcase) : sim := auto_run (tc_cfg c) (tc_settings c) (t_script c).
Definition t_model_starts (c : tcase) : list (N * Z) := starts_all (l_log (fst (t_sim c))).

Definition drained (ls : lstate) : bool :=
  forallb (fun q => match q_items q with [] => negb (is_running q) | _ => false end) (queues (l_op ls))
  && match l_waiting ls with [] => true | _ => false end.

Definition agrees_t (c : tcase) : bool :=
  negb (tc_exact c) ||
  (sortedb (map fst (t_script c))
   && sortedb (map fst (snd (t_sim c)))
   && drained (fst (t_sim c))
   && forallb (fun h =>
        let m := starts_of (h_id h) (t_model_starts c) in
        let i := starts_of (h_id h) (tc_starts c) in
        Nat.eqb (length m) (length i) && never_earlier m i) (tc_cfg c)).

Definition P_case_t (c : tcase) : bool :=
  negb (tc_bad c) && P_timed (tc_settings c) (tc_anchors c) (tc_starts c).

(* ======================================================================================
   Operator level, TIMED, a queue SHARED by several hooks and HELD: the real operator, short
   intervals (100-200 ms); a hook with settings shares a queue with other hooks (same crontab:
   their tasks alternate in the queue and are not combined); the executions of the hooks listed
   as slow are held open by the harness (the scripted hook does not exit) for longer than the
   interval - or fail first, so that the queue sits in a back-off - while ticks keep arriving;
   then the harness lets the execution end ("release").  Every other execution ends as soon as
   it is seen.

   A case is: the hooks and their settings and, for every execution the harness saw, in the
   order it saw them: the queue, the hook, the REAL task.GetQueuedAt() of the task at the head
   of that queue (ns on the harness' clock), the instant at which the harness SAW the start
   (after it happened, never before) and the instant, taken BEFORE the reply was sent, at which
   the harness let it end (before the handler can have returned, never after).  Anchors: instants
   taken by the harness at which, for each hook listed with the anchor, every queue that carries a
   binding of the hook was found empty or blocked inside an execution that the harness had seen
   and not yet released - so a start of that hook seen at or after the anchor happened after it.
   The instant just before a release is such an anchor.

   P: the anchored window bound (C18_Spec.P_timed_for) on the seen instants; sound whatever the
   delays (C18_late_observation_sound_for).

   Comparison with the model, cases in which all bindings are in ONE queue: [serve] run on the
   observed sequence of executions with the real queued-at instants and the release instants as
   ends - lower bounds of what the implementation had - must grant every request, and no start
   may be SEEN earlier than the model starts it (C18_shared_queue_monotone); later is fine.  No
   exactness of the tick timing is needed: what was combined or retried is read off the
   observation, the model decides only WHEN the limiter lets each execution start. *)
Record hrun := mkHR { hr_queue : N; hr_hook : N; hr_queued : Z; hr_seen : Z; hr_replied : Z }.

Record hcase := mkHCase {
  hc_cfg : config;
  hc_settings : hook_settings;
  hc_runs : list hrun;
  hc_anchors : list (Z * list N);
  hc_bad : bool                    (* the harness saw something impossible in any model, or the
                                      queues never became empty *)
}.

Definition cfg_queues (cfg : config) : list N :=
  flat_map (fun h => map sb_queue (h_sched h)) cfg.
Definition single_queue (cfg : config) : bool :=
  forallb (fun h => match h_kube h, h_startup h with [], None => negb (h_v0 h) | _, _ => false end) cfg
  && match cfg_queues cfg with [] => false | q :: r => forallb (N.eqb q) r end.

Definition h_tasks (c : hcase) : list qtask :=
  map (fun r => mkQT (hr_hook r) (hr_queued r) (hr_replied r)) (hc_runs c).
Definition h_model (c : hcase) : list srun := serve (init_limiters (hc_settings c)) 0 (h_tasks c).
Definition h_starts (c : hcase) : list (N * Z) := map (fun r => (hr_hook r, hr_seen r)) (hc_runs c).

Fixpoint seen_not_earlier (m : list srun) (i : list hrun) : bool :=
  match m, i with
  | x :: mr, r :: ir => match sr_start x with Some s => s <=? hr_seen r | None => false end
                        && seen_not_earlier mr ir
  | [], [] => true
  | _, _ => false
  end.

Definition agrees_h (c : hcase) : bool :=
  (* what every observation must look like: queued, then seen, then released; one observer *)
  forallb (fun r => (hr_queued r <=? hr_seen r) && (hr_seen r <=? hr_replied r)) (hc_runs c)
  && sortedb (map hr_seen (hc_runs c))
  && (negb (single_queue (hc_cfg c)) || seen_not_earlier (h_model c) (hc_runs c)).

Definition P_case_h (c : hcase) : bool :=
  negb (hc_bad c) && P_timed_for (hc_settings c) (hc_anchors c) (h_starts c).

(* the model's own starts meet the predicate used on the observations, whatever was observed *)
Lemma h_model_P c anchors : P_timed_for (hc_settings c) anchors (sr_all (h_model c)) = true.
Proof. apply shared_P_timed_for_holds. Qed.

(* ======================================================================================
   Operator level, TIMED, hooks of every SHAPE: the real operator, started through its real
   Start(), short intervals (100-300 ms, B 1-3).  A limited hook declares 1..6 kubernetes
   bindings (grouped / ungrouped, executeHookOnSynchronization on / off, main or named queues),
   schedule bindings, perhaps onStartup; other hooks (with or without settings, with bindings of
   their own) may be loaded beside it.  Phase 1, start-up: Boot; the Synchronization runs (one
   per binding, one per group, none for exempt bindings - every one of them passes the limiter)
   start back to back as fast as the limiter lets them; every execution ends successfully as
   soon as the harness sees it.  Phase 2: idle periods (nothing happens for N intervals: long
   enough to refill a bucket of any size up to N) followed by SINGLE events - a kubernetes event
   of one monitor or a tick of one crontab, each issued only when the operator was found idle
   (all queues empty), so every event is one task executed on its own.

   A case is: the hook configurations (shape and settings, as written into the hooks' --config
   output), the instant taken BEFORE Start() was called, every event with the instant taken
   before it was issued, the instant at which the harness saw all queues empty at the end, every
   execution start with the instant at which the harness SAW it (late, never early), the
   anchors (instants, taken first, at which the operator was then found idle), and the limiter
   each loaded hook carries (Limit() == Inf, Burst()).

   P: C18_Spec.P_shape on the seen instants - the anchored window bound with the CONFIGURED
   (I, B) for the window that begins before the start-up and for every window that begins at an
   idle instant; sound whatever the delays (C18_late_observation_sound).

   Comparison with the model: the model ([run_shape]: limiters made from the settings alone) runs
   Boot and the events at the observed instants with hooks that end the moment they start: the
   same number of executions per hook (events are single), no start SEEN earlier than the model
   starts it (C18_grants_monotone), and every hook's limiter is the one the model loads. *)
Record scase := mkSCase {
  sc_hooks : list hook_config;
  sc_boot : Z;
  sc_events : list (Z * action);     (* Tick c / KubeEv mon obj, with the instant taken before it was issued *)
  sc_end : Z;
  sc_starts : list (N * Z);          (* implementation: (hook, instant at which the start was seen), in order *)
  sc_anchors : list Z;
  sc_lims : list (N * bool * Z);     (* implementation: hook, Limit() == Inf, Burst() *)
  sc_bad : bool                      (* the harness saw something impossible in any model, or the
                                        queues never became empty *)
}.

Definition s_cfg (c : scase) : config := shape_config (sc_hooks c).
Definition s_script (c : scase) : list (Z * action) :=
  (sc_boot c, Boot) :: sc_events c ++ [(sc_end c, Idle)].
Definition s_sim (c : scase) : sim := fold_left (sim_act (s_cfg c)) (s_script c) (init_shape (sc_hooks c), []).
Definition s_model_starts (c : scase) : list (N * Z) := starts_all (l_log (fst (s_sim c))).
Definition s_model_lims (c : scase) : list (N * bool * Z) :=
  map (fun hc => let b := load_limiters (sc_hooks c) (hc_id hc) in (hc_id hc, is_none (b_limit b), b_burst b)) (sc_hooks c).

Definition lim_eqb (a b : N * bool * Z) : bool :=
  N.eqb (fst (fst a)) (fst (fst b)) && Bool.eqb (snd (fst a)) (snd (fst b))
  && (* Burst() of an unlimited limiter is irrelevant: nothing ever waits on it *)
     (snd (fst a) || Z.eqb (snd a) (snd b)).

Definition agrees_s (c : scase) : bool :=
  sortedb (map fst (s_script c))
  && sortedb (map fst (snd (s_sim c)))
  && drained (fst (s_sim c))
  && forallb (fun hc =>
       let m := starts_of (hc_id hc) (s_model_starts c) in
       let i := starts_of (hc_id hc) (sc_starts c) in
       Nat.eqb (length m) (length i) && never_earlier m i) (sc_hooks c)
  && list_eqb lim_eqb (s_model_lims c) (sc_lims c).

Definition P_case_s (c : scase) : bool :=
  negb (sc_bad c) && P_shape (configured_settings (sc_hooks c)) (sc_boot c) (sc_anchors c) (sc_starts c).

(* everything the simulation does is a run of the shape model on the script it hands back ... *)
Lemma s_sim_is_run c : fst (s_sim c) = run_shape (sc_hooks c) (snd (s_sim c)).
Proof.
  unfold s_sim, run_shape. fold (s_cfg c).
  assert (G : forall script s, fst s = run_lim (s_cfg c) (init_shape (sc_hooks c)) (snd s) ->
              fst (fold_left (sim_act (s_cfg c)) script s)
              = run_lim (s_cfg c) (init_shape (sc_hooks c)) (snd (fold_left (sim_act (s_cfg c)) script s))).
  { induction script as [|ta r IH]; intros s H; [exact H|].
    cbn [fold_left]. apply IH. unfold sim_act.
    apply finish_all_ok. apply sim_step_ok. apply drain_until_ok. exact H. }
  apply G. reflexivity.
Qed.

(* ... hence the model's starts satisfy the predicate used on the observations, for every
   case (every shape, every list of events, every boot instant and every list of anchors) *)
Lemma s_model_P c boot anchors :
  sortedb (map fst (snd (s_sim c))) = true ->
  P_shape (configured_settings (sc_hooks c)) boot anchors (s_model_starts c) = true.
Proof.
  intros Hs. unfold s_model_starts. rewrite s_sim_is_run.
  exact (shape_P_holds (sc_hooks c) _ boot anchors Hs).
Qed.

(* ---- all kinds ---- *)
Inductive case := CLim (c : lcase) | COp (c : opcase) | CTimed (c : tcase) | CHeld (c : hcase) | CShape (c : scase).

Inductive mobs :=
| MLim (o : obs)
| MOp (steps : list (sobs * list N)) (starts : list (N * Z)) (throttled : list N) (overrun : bool)
| MTimed (script : list (Z * action)) (starts : list (N * Z)) (drained : bool)
| MHeld (single : bool) (runs : list srun)
| MShape (script : list (Z * action)) (starts : list (N * Z)) (drained : bool) (lims : list (N * bool * Z)).

Definition model_obs (c : case) : mobs :=
  match c with
  | CLim c => MLim (model_obs_l c)
  | COp c => MOp (op_model_steps c) (starts_all (l_log (op_final c))) (throttled_in (l_log (op_final c)))
                 (l_overrun (op_final c))
  | CTimed c => MTimed (snd (t_sim c)) (t_model_starts c) (drained (fst (t_sim c)))
  | CHeld c => MHeld (single_queue (hc_cfg c)) (h_model c)
  | CShape c => MShape (snd (s_sim c)) (s_model_starts c) (drained (fst (s_sim c))) (s_model_lims c)
  end.

Definition agrees (c : case) : bool :=
  match c with CLim c => agrees_l c | COp c => agrees_op c | CTimed c => agrees_t c | CHeld c => agrees_h c | CShape c => agrees_s c end.
Definition P_case (c : case) : bool :=
  match c with CLim c => P_case_l c | COp c => P_case_op c | CTimed c => P_case_t c | CHeld c => P_case_h c | CShape c => P_case_s c end.

Definition mismatches (cs : list case) : list N := indices_where (fun c => negb (agrees c)) cs.
Definition spec_violations (cs : list case) : list N := indices_where (fun c => negb (P_case c)) cs.
