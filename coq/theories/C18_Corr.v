(* C18_Corr.v — correspondence vocabulary for C18.  A case is: the `settings:` block the
   harness wrote into a hook configuration (values known to the generator: the interval
   in ns and the integer burst; None = key absent), a list of synthetic request instants
   (ns), a RateLimitWait probe (n calls with a deadline [budget] ns away), and what the
   real code did: whether LoadAndValidate accepted the configuration, the limiter built
   by CreateRateLimiter (Limit() == Inf, Burst()), the act instants ReserveN(t,1) granted,
   the probe's results and the wall-clock time the probe took. *)
From Coq Require Export Uint63.
From Verif Require Import Common C18_Model C18_Spec C18_Proofs.
Open Scope Z_scope.

(* Number literals: elaborating a 14-digit Z literal costs about 1 ms in Coq 8.16 and a
   case holds ~100 instants, so the generated cases files carry instants as primitive
   63-bit integers (parsed natively) and convert them here, inside vm_compute.
   [zp n] = n, [zn n] = -n, [zl] a list of instants, [ol] a list of granted instants in
   which the sentinel 2^63-1 stands for "refused" (None). *)
Definition zp (i : Uint63.int) : Z := Uint63.to_Z i.
Definition zn (i : Uint63.int) : Z := - Uint63.to_Z i.
Definition zl (l : list Uint63.int) : list Z := map zp l.
Definition refused : Uint63.int := Uint63.max_int.
Definition ol (l : list Uint63.int) : list (option Z) :=
  map (fun i => if Uint63.eqb i refused then None else Some (zp i)) l.

Record obs := mkObs {
  o_loaded : bool;
  o_inf : bool;
  o_burst : Z;
  o_acts : list (option Z);
  o_probe : list bool;
  o_wall : Z
}.

Record case := mkCase {
  c_raw : option raw_settings;
  c_arrivals : list Z;
  c_probe_n : N;
  c_budget : Z;
  c_obs : obs
}.

Definition is_none {A} (o : option A) : bool := match o with None => true | Some _ => false end.

Definition model_obs (c : case) : obs :=
  match limiter_of_config (c_raw c) with
  | None => mkObs false false 0 [] [] 0
  | Some b =>
      mkObs true (is_none (b_limit b)) (b_burst b) (grants b (c_arrivals c))
            (wait_probe b 0 (c_budget c) (N.to_nat (c_probe_n c))) 0
  end.

(* float rounding + truncation in the Go limiter: 1 ns per act time; exact when unlimited *)
Definition close (tol : Z) (a b : option Z) : bool :=
  match a, b with
  | Some x, Some y => (Z.abs (x - y) <=? tol)
  | None, None => true
  | _, _ => false
  end.

Definition agrees (c : case) : bool :=
  let m := model_obs c in
  let o := c_obs c in
  Bool.eqb (o_loaded m) (o_loaded o)
  && Bool.eqb (o_inf m) (o_inf o)
  && Z.eqb (o_burst m) (o_burst o)
  && list_eqb (close (if o_inf m then 0 else 1)) (o_acts m) (o_acts o)
  && list_eqb Bool.eqb (o_probe m) (o_probe o).

Definition mismatches (cs : list case) : list N := indices_where (fun c => negb (agrees c)) cs.

(* the (I, B) the user configured, as the property text reads them *)
Definition configured (c : case) : option (option settings) :=
  match c_raw c with
  | None => Some None
  | Some r => match r_interval r, r_burst r with
              | Some i, Some b => Some (Some (mkSettings i b))
              | _, _ => None
              end
  end.

(* P on the implementation's observations: the window bound on the granted instants, the
   wall-clock bound on the RateLimitWait probe, and "not throttled" without settings.
   A configuration that was rejected runs nothing. *)
Definition P_case (c : case) : bool :=
  let o := c_obs c in
  if negb (o_loaded o) then true else
  match configured c with
  | None => true
  | Some cfg =>
      P cfg (c_arrivals c) (o_acts o)
      && P_wall cfg (count_true (o_probe o)) (o_wall o)
      && match cfg with None => forallb (fun x => x) (o_probe o) | Some _ => true end
  end.

Definition spec_violations (cs : list case) : list N := indices_where (fun c => negb (P_case c)) cs.
