(* C13_Proofs.v — lemmas and proofs for C13. *)
From Verif Require Import Common Json C13_Model C13_Spec.

(* ---------- finite-map facts (no sortedness needed) ---------- *)

Lemma beq_refl k : bytes_eqb k k = true.
Proof. apply bytes_eqb_eq; reflexivity. Qed.

Lemma beq_false k k' : k <> k' -> bytes_eqb k k' = false.
Proof. intros H. destruct (bytes_eqb k k') eqn:E; [apply bytes_eqb_eq in E; contradiction | reflexivity]. Qed.

Lemma beq_sym k k' : bytes_eqb k k' = bytes_eqb k' k.
Proof.
  destruct (bytes_eqb k k') eqn:E.
  - apply bytes_eqb_eq in E; subst. symmetry; apply beq_refl.
  - destruct (bytes_eqb k' k) eqn:E'; [|reflexivity]. apply bytes_eqb_eq in E'; subst. now rewrite beq_refl in E.
Qed.

Lemma get_set_eq k v c : cl_get k (cl_set k v c) = Some v.
Proof.
  unfold cl_get, cl_set. induction c as [|[k' v'] r IH]; simpl.
  - now rewrite beq_refl.
  - destruct (bytes_eqb k k') eqn:E; simpl.
    + now rewrite beq_refl.
    + destruct (bytes_ltb k k'); simpl; [now rewrite beq_refl | now rewrite E].
Qed.

Lemma get_set_neq k k0 v c : k0 <> k -> cl_get k0 (cl_set k v c) = cl_get k0 c.
Proof.
  intros Hne. unfold cl_get, cl_set. induction c as [|[k' v'] r IH]; simpl.
  - now rewrite (beq_false k0 k Hne).
  - destruct (bytes_eqb k k') eqn:E; simpl.
    + apply bytes_eqb_eq in E; subst k'. now rewrite (beq_false k0 k Hne).
    + destruct (bytes_ltb k k'); simpl.
      * now rewrite (beq_false k0 k Hne).
      * destruct (bytes_eqb k0 k'); [reflexivity | exact IH].
Qed.

Lemma get_del_eq k c : cl_get k (cl_del k c) = None.
Proof.
  unfold cl_get, cl_del. induction c as [|[k' v'] r IH]; simpl; [reflexivity|].
  destruct (bytes_eqb k k') eqn:E; simpl; [exact IH | now rewrite E].
Qed.

Lemma get_del_neq k k0 c : k0 <> k -> cl_get k0 (cl_del k c) = cl_get k0 c.
Proof.
  intros Hne. unfold cl_get, cl_del. induction c as [|[k' v'] r IH]; simpl; [reflexivity|].
  destruct (bytes_eqb k k') eqn:E; simpl.
  - apply bytes_eqb_eq in E; subst k'. now rewrite (beq_false k0 k Hne).
  - destruct (bytes_eqb k0 k'); [reflexivity | exact IH].
Qed.

Lemma del_absent k c : cl_get k c = None -> cl_del k c = c.
Proof.
  unfold cl_get, cl_del. induction c as [|[k' v'] r IH]; simpl; [reflexivity|].
  destruct (bytes_eqb k k') eqn:E; [discriminate|]. intros H. now rewrite IH.
Qed.

(* ---------- extensional equality of clusters ---------- *)

Definition cl_equiv (a b : cluster) : Prop := forall k, cl_get k a = cl_get k b.

Lemma equiv_refl a : cl_equiv a a.
Proof. intros k; reflexivity. Qed.

Lemma equiv_set a b k v : cl_equiv a b -> cl_equiv (cl_set k v a) (cl_set k v b).
Proof.
  intros H k0. destruct (bytes_eqb k0 k) eqn:E.
  - apply bytes_eqb_eq in E; subst. now rewrite !get_set_eq.
  - assert (k0 <> k) by (intros ->; now rewrite beq_refl in E). now rewrite !get_set_neq.
Qed.

Lemma equiv_del a b k : cl_equiv a b -> cl_equiv (cl_del k a) (cl_del k b).
Proof.
  intros H k0. destruct (bytes_eqb k0 k) eqn:E.
  - apply bytes_eqb_eq in E; subst. now rewrite !get_del_eq.
  - assert (k0 <> k) by (intros ->; now rewrite beq_refl in E). now rewrite !get_del_neq.
Qed.

(* writing back what is already there changes nothing (extensionally) *)
Lemma equiv_set_same a b k v : cl_equiv a b -> cl_get k b = Some v -> cl_equiv a (cl_set k v b).
Proof.
  intros H Hg k0. destruct (bytes_eqb k0 k) eqn:E.
  - apply bytes_eqb_eq in E; subst. now rewrite get_set_eq, H.
  - assert (k0 <> k) by (intros ->; now rewrite beq_refl in E). now rewrite get_set_neq.
Qed.

Lemma equiv_del_absent a b k : cl_equiv a b -> cl_get k b = None -> cl_equiv a (cl_del k b).
Proof. intros H Hg. now rewrite (del_absent k b Hg). Qed.

(* ---------- parsing ---------- *)

Lemma parse_valid ds : all_valid ds = true -> parse ds = Some (ops_of ds).
Proof.
  induction ds as [|[o|] r IH]; simpl; intros H; [reflexivity | | discriminate].
  now rewrite (IH H).
Qed.

Lemma parse_invalid ds : all_valid ds = false -> parse ds = None.
Proof.
  induction ds as [|[o|] r IH]; simpl; intros H; [discriminate | | reflexivity].
  now rewrite (IH H).
Qed.

Lemma all_valid_false_iff ds : all_valid ds = false <-> In DBad ds.
Proof.
  induction ds as [|[o|] r IH]; simpl.
  - split; [discriminate | intros []].
  - rewrite IH. split; [intros H; now right | intros [H|H]; [discriminate | exact H]].
  - split; [intros _; now left | reflexivity].
Qed.

Lemma all_or_nothing c ds :
  In DBad ds -> handle_run c ds = mkOutcome false c [] [].
Proof. intros H. apply all_valid_false_iff in H. unfold handle_run. now rewrite (parse_invalid ds H). Qed.

(* ---------- in order, once each ---------- *)

Lemma exec_app c a : forall b,
  exec c (a ++ b) =
  match exec c a with
  | (c1, k1, e1) => match exec c1 b with (c2, k2, e2) => (c2, k1 ++ k2, e1 ++ e2) end
  end.
Proof.
  revert c. induction a as [|o r IH]; intros c b.
  - simpl. destruct (exec c b) as [[c2 k2] e2]. reflexivity.
  - simpl. destruct (exec_op c o) as [[c1 k1] e1]. rewrite IH.
    destruct (exec c1 r) as [[c2 k2] e2]. destruct (exec c2 b) as [[c3 k3] e3].
    now rewrite <- !app_assoc.
Qed.

Lemma exec_one c o :
  exec c [o] = match exec_op c o with (c1, k1, e1) => (c1, k1, opt_list e1) end.
Proof. simpl. destruct (exec_op c o) as [[c1 k1] e1]. now rewrite !app_nil_r. Qed.

Lemma effects_app c a : forall b,
  effects c (a ++ b) =
  let (c1, e1) := effects c a in let (c2, e2) := effects c1 b in (c2, e1 ++ e2).
Proof.
  revert c. induction a as [|o r IH]; intros c b.
  - simpl. destruct (effects c b). reflexivity.
  - simpl. destruct (effect c o) as [c1 e1]. rewrite IH.
    destruct (effects c1 r) as [c2 e2]. destruct (effects c2 b) as [c3 e3]. now rewrite <- app_assoc.
Qed.

(* ---------- the code's way of doing one operation has the documented effect ---------- *)

Lemma create_refines c d m k obj :
  cl_equiv c d ->
  match exec_create_at c m k obj, effect_create d m k obj with
  | (c1, _, e1), (d1, f1) => cl_equiv c1 d1 /\ e1 = f1
  end.
Proof.
  intros H. unfold exec_create_at, effect_create, api_create, api_update. rewrite <- (H k).
  destruct (cl_get k c) as [old|] eqn:Eg.
  - destruct m; cbn; (split; [first [exact H | now apply equiv_set] | reflexivity]).
  - destruct m; cbn; (split; [now apply equiv_set | reflexivity]).
Qed.

Lemma step_refines c d o :
  cl_equiv c d ->
  match exec_op c o, effect d o with
  | (c1, _, e1), (d1, f1) => cl_equiv c1 d1 /\ e1 = f1
  end.
Proof.
  intros H. destruct o as [m obj | m k | k body sub im]; cbn [exec_op effect].
  - (* create *)
    apply create_refines, H.
  - (* delete *)
    unfold exec_delete, api_delete.
    destruct (cl_get k c) as [old|] eqn:Eg.
    + destruct m; cbn; (split; [now apply equiv_del | reflexivity]).
    + cbn. split; [|reflexivity]. apply equiv_del_absent; [exact H | now rewrite <- (H k)].
  - (* patch *)
    unfold exec_patch, api_patch, api_update. rewrite <- (H k).
    destruct body as [p | ops | f]; cbn [patched patch_err].
    + destruct (cl_get k c) as [o|] eqn:Eg; cbn.
      * split; [now apply equiv_set | reflexivity].
      * split; [exact H | reflexivity].
    + destruct (cl_get k c) as [o|] eqn:Eg; cbn.
      * destruct (apply_jps ops o) as [o'|]; cbn; [split; [now apply equiv_set | reflexivity] | split; [exact H | reflexivity]].
      * split; [exact H | reflexivity].
    + destruct (cl_get k c) as [o|] eqn:Eg; cbn.
      * destruct (apply_jq f o) as [o'|]; cbn; [|split; [exact H | reflexivity]].
        destruct (json_eqb o o' && negb (has_int o)) eqn:Esame; cbn.
        -- apply andb_true_iff in Esame as [Esame _]. apply json_eqb_eq in Esame; subst o'.
           split; [|reflexivity]. apply equiv_set_same; [exact H | now rewrite <- (H k)].
        -- try rewrite Eg. cbn. split; [now apply equiv_set | reflexivity].
      * split; [exact H | reflexivity].
Qed.

Lemma exec_refines os : forall c d,
  cl_equiv c d ->
  match exec c os, effects d os with
  | (c1, _, es), (d1, fs) => cl_equiv c1 d1 /\ es = fs
  end.
Proof.
  induction os as [|o r IH]; intros c d H; cbn [exec effects].
  - split; [exact H | reflexivity].
  - pose proof (step_refines c d o H) as Hs.
    destruct (exec_op c o) as [[c1 k1] e1]. destruct (effect d o) as [d1 f1]. destruct Hs as [H1 ->].
    specialize (IH c1 d1 H1).
    destruct (exec c1 r) as [[c2 k2] es]. destruct (effects d1 r) as [d2 fs]. destruct IH as [H2 ->].
    split; [exact H2 | reflexivity].
Qed.

(* ---------- the predicate holds of the model ---------- *)

Lemma view_get proj k c : cl_get k (view proj c) = option_map proj (cl_get k c).
Proof.
  unfold cl_get, view. induction c as [|[k' v] r IH]; simpl; [reflexivity|].
  destruct (bytes_eqb k k'); [reflexivity | exact IH].
Qed.

Lemma option_json_eqb_refl o : option_eqb json_eqb o o = true.
Proof. destruct o; simpl; [apply json_eqb_refl | reflexivity]. Qed.

Lemma sameb_of_equiv proj a b : cl_equiv a b -> cluster_sameb (view proj a) (view proj b) = true.
Proof.
  intros H. unfold cluster_sameb. apply forallb_forall. intros k _.
  rewrite !view_get, (H k). apply option_json_eqb_refl.
Qed.

Lemma err_eqb_refl e : err_eqb e e = true.
Proof. destruct e; reflexivity. Qed.

Lemma handle_run_meets_spec proj c ds : P_run proj c ds (handle_run c ds) = true.
Proof.
  unfold P_run, handle_run. destruct (all_valid ds) eqn:Ev.
  - rewrite (parse_valid ds Ev).
    pose proof (exec_refines (ops_of ds) c c (equiv_refl c)) as H.
    destruct (exec c (ops_of ds)) as [[c1 k1] es]. destruct (effects c (ops_of ds)) as [d1 fs].
    destruct H as [H1 ->]. cbn [r_parse_ok r_cluster r_errors andb].
    rewrite (sameb_of_equiv proj c1 d1 H1). cbn [andb]. apply list_eqb_refl, err_eqb_refl.
  - rewrite (parse_invalid ds Ev). unfold failed. cbn [r_parse_ok r_cluster r_calls negb orb andb].
    now rewrite (sameb_of_equiv proj c c (equiv_refl c)).
Qed.

Lemma hook_run_meets_spec proj c ds :
  let r := handle_run c ds in P_hook_run proj c ds (failed r) (r_cluster r) (r_calls r) = true.
Proof.
  cbv zeta. unfold P_hook_run, handle_run. destruct (all_valid ds) eqn:Ev.
  - rewrite (parse_valid ds Ev).
    pose proof (exec_refines (ops_of ds) c c (equiv_refl c)) as H.
    destruct (exec c (ops_of ds)) as [[c1 k1] es]. destruct (effects c (ops_of ds)) as [d1 fs].
    destruct H as [H1 ->]. unfold failed. cbn [r_parse_ok r_cluster r_errors negb orb].
    rewrite (sameb_of_equiv proj c1 d1 H1). destruct fs; reflexivity.
  - rewrite (parse_invalid ds Ev). unfold failed. cbn [r_parse_ok r_cluster r_calls negb orb andb].
    now rewrite (sameb_of_equiv proj c c (equiv_refl c)).
Qed.

(* ---------- named corollaries ---------- *)

Definition cluster_of (r : result) : cluster := fst (fst r).
Definition error_of (r : result) : option err := snd r.

Lemma create_variants c obj :
  let k := key_of_object obj in
  (cl_get k c = None ->
     forall m, cluster_of (exec_create c m obj) = cl_set k obj c /\ error_of (exec_create c m obj) = None) /\
  (forall old, cl_get k c = Some old ->
     (cluster_of (exec_create c CPlain obj) = c /\ error_of (exec_create c CPlain obj) = Some EAlreadyExists) /\
     (cluster_of (exec_create c CIfNotExists obj) = c /\ error_of (exec_create c CIfNotExists obj) = None) /\
     (cluster_of (exec_create c COrUpdate obj) = cl_set k obj c /\ error_of (exec_create c COrUpdate obj) = None)) /\
  cl_get k (cl_set k obj c) = Some obj /\
  (forall k', k' <> k -> cl_get k' (cl_set k obj c) = cl_get k' c).
Proof.
  cbv zeta. split; [|split; [|split]].
  - intros Hg m. unfold exec_create, exec_create_at, api_create. rewrite Hg. destruct m; split; reflexivity.
  - intros old Hg. unfold exec_create, exec_create_at, api_create, api_update. rewrite Hg. cbn. try rewrite Hg. repeat split.
  - apply get_set_eq.
  - intros k' Hne. now apply get_set_neq.
Qed.

Lemma delete_idempotent c m k :
  cluster_of (exec_delete c m k) = cl_del k c /\
  error_of (exec_delete c m k) = None /\
  cl_get k (cl_del k c) = None /\
  (forall k', k' <> k -> cl_get k' (cl_del k c) = cl_get k' c) /\
  (forall m', cluster_of (exec_delete (cl_del k c) m' k) = cl_del k c /\
              error_of (exec_delete (cl_del k c) m' k) = None).
Proof.
  assert (Hfirst : forall c, cluster_of (exec_delete c m k) = cl_del k c /\ error_of (exec_delete c m k) = None).
  { intros c0. unfold exec_delete, api_delete. destruct (cl_get k c0) eqn:Eg.
    - destruct m; split; reflexivity.
    - split; [cbn; symmetry; now apply del_absent | reflexivity]. }
  destruct (Hfirst c) as [H1 H2]. split; [exact H1|]. split; [exact H2|].
  split; [apply get_del_eq|]. split; [intros k' Hne; now apply get_del_neq|].
  intros m'. unfold exec_delete, api_delete. rewrite get_del_eq. split; reflexivity.
Qed.

Lemma ignore_missing c k body sub im :
  cl_get k c = None ->
  cluster_of (exec_patch c k body sub im) = c /\
  error_of (exec_patch c k body sub im) = (if im then None else Some ENotFound).
Proof.
  intros Hg. unfold exec_patch, api_patch. rewrite Hg. destruct body; split; reflexivity.
Qed.

(* the subresource never changes which object is patched, how, or the error *)
Lemma subresource_same_effect c k body sub sub' im :
  cluster_of (exec_patch c k body sub im) = cluster_of (exec_patch c k body sub' im) /\
  error_of (exec_patch c k body sub im) = error_of (exec_patch c k body sub' im).
Proof.
  unfold exec_patch, api_patch, api_update. destruct body as [p|ops|f].
  - destruct (cl_get k c); cbn; split; reflexivity.
  - destruct (cl_get k c) as [o|]; cbn; [destruct (apply_jps ops o); cbn|]; split; reflexivity.
  - destruct (cl_get k c) as [o|] eqn:Eg; [|split; reflexivity].
    destruct (apply_jq f o) as [o'|]; [|split; reflexivity].
    destruct (json_eqb o o' && negb (has_int o)); [split; reflexivity|]. try rewrite Eg. split; reflexivity.
Qed.
