(* C09_Corr.v — correspondence vocabulary for C09.  Three kinds of cases:

     CList  the config version, a list of binding contexts handed to
            ConvertBindingContextList and what ConvertBindingContextList(version,
            contexts).Json() produced, parsed (None = panic);
     CFlow  a hook with one kubernetes binding on a cluster: the binding's options, the
            objects that exist when the monitor is created, the watch events afterwards,
            and the files the real KubeEventsManager + HookController + rendering produced
            (None = crash), each with the step after which it appeared and the ResourceIds
            behind its `objects` and `snapshots` elements;
     CHook  a hook with several kubernetes bindings and schedule / validating / mutating /
            conversion bindings (names shared across the binding types), the events whose
            contexts were appended to ONE array, and what the real controllers +
            HookController.UpdateSnapshots + rendering produced for that array (None = crash):
            per item the event it stands for and the ResourceIds behind its `objects` and
            `snapshots` elements, and the file.

     CWin   a hook with one kubernetes binding whose events are still LOCKED when the deliveries begin
            (C09_WinModel): deliveries, runs of the Synchronization hook and the unlock in the order the
            driver chose, and every file the real KubeEventsManager + HookController + rendering produced,
            with jq's answer for the object an Event file shows.

   The model is evaluated THROUGH jq.ApplyFilter's copy (C09_Model, last part): every object of a
   case is deep-copied, the jq oracle of the case ([asked]: the answer of /usr/bin/jq for the object
   as it was created in the cluster / handed to applyFilter) is asked about the copy.  The Spec
   predicates judge the case as it is: the oracle's answer for that very object.

   Evaluated by vm_compute in the generated cases files. *)
From Verif Require Import Common Json C09_Model C09_Spec C09_WinModel C09_WinSpec.

Inductive case :=
| CList (v : version) (cs : list ctx) (out : option json)
| CFlow (f : flow) (obs : option (list fobs))
| CHook (hc : hcase) (obs : option hobs)
| CWin (w : win) (obs : option (list wfile)).

Inductive mobs := MList (out : option json) | MFlow (files : list fobs) | MHook (o : hobs) | MWin (files : list wfile).

Definition model_obs (c : case) : mobs :=
  match c with
  | CList v cs _ => MList (render_list v (map ctx_run cs))
  | CFlow f _ => MFlow (run_flow (flow_run f))
  | CHook hc _ => MHook (run_hook (hcase_run hc))
  | CWin w _ => MWin (run_win (win_via w))
  end.

Definition ids_eqb : list bytes -> list bytes -> bool := list_eqb bytes_eqb.

Definition fobs_eqb (a b : fobs) : bool :=
  N.eqb (fo_step a) (fo_step b)
  && ids_eqb (fo_ids a) (fo_ids b)
  && list_eqb (pair_eqb bytes_eqb ids_eqb) (fo_snaps a) (fo_snaps b)
  && option_eqb json_eqb (fo_out a) (fo_out b).

Definition wfile_eqb (a b : wfile) : bool :=
  Bool.eqb (wf_sync a) (wf_sync b)
  && option_eqb (list_eqb json_eqb) (wf_rejq a) (wf_rejq b)
  && fobs_eqb (wf_file a) (wf_file b).

Definition hitem_eqb (a b : hitem) : bool :=
  N.eqb (hi_ev a) (hi_ev b)
  && ids_eqb (hi_ids a) (hi_ids b)
  && list_eqb (pair_eqb bytes_eqb ids_eqb) (hi_snaps a) (hi_snaps b).

Definition hobs_eqb (a b : hobs) : bool :=
  list_eqb hitem_eqb (ho_items a) (ho_items b)
  && option_eqb json_eqb (ho_out a) (ho_out b).

(* the objects of the case stand for Go map trees (one value per key, keys printed sorted): the
   domain of the `_via_copy` theorems; the harness prints every object so *)
Definition canonical (c : case) : bool :=
  match c with
  | CList _ cs _ => forallb ctx_canon cs
  | CFlow f _ => flow_canon f
  | CHook hc _ => hcase_canon hc
  | CWin w _ => win_canon w
  end.

Definition agrees (c : case) : bool :=
  canonical c &&
  match c with
  | CList v cs out => option_eqb json_eqb (render_list v (map ctx_run cs)) out
  | CFlow f (Some files) => list_eqb fobs_eqb (run_flow (flow_run f)) files
  | CFlow f None => false
  | CHook hc (Some o) => hobs_eqb (run_hook (hcase_run hc)) o
  | CHook hc None => false
  | CWin w (Some files) => list_eqb wfile_eqb (run_win (win_via w)) files
  | CWin w None => false
  end.


Definition holds (c : case) : bool :=
  match c with
  | CList v cs out => P v cs out
  | CFlow f obs => P_flow f obs
  | CHook hc obs => P_hook hc obs
  | CWin w obs => P_win w obs
  end.

Definition triggered (c : case) : bool :=
  match c with
  | CList v cs _ => T v cs
  | CFlow f _ => T_flow f
  | CHook hc _ => T_hook hc
  | CWin w _ => T_win w
  end.

Definition mismatches (cs : list case) : list N := indices_where (fun c => negb (agrees c)) cs.
Definition spec_violations (cs : list case) : list N := indices_where (fun c => negb (holds c)) cs.
Definition trigger_F8 (cs : list case) : list N := indices_where triggered cs.

(* F30: two bindings of one type with the same name; F31: a validating and a mutating binding
   (or two mutating ones) with the same name *)
Definition trigger_F30 (cs : list case) : list N :=
  indices_where (fun c => match c with CHook hc _ => T_same_type_name hc | _ => false end) cs.
Definition trigger_F31 (cs : list case) : list N :=
  indices_where (fun c => match c with CHook hc _ => T_admission_same_name hc | _ => false end) cs.
