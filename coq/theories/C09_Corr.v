(* C09_Corr.v — correspondence vocabulary for C09.  A case is the config version, the
   list of binding contexts handed to ConvertBindingContextList and what
   ConvertBindingContextList(version, contexts).Json() produced, parsed (None = panic).
   Evaluated by vm_compute in the generated cases files. *)
From Verif Require Import Common Json C09_Model C09_Spec.

Definition case := (version * list ctx * option json)%type.

Definition c_version (c : case) : version := fst (fst c).
Definition c_ctxs (c : case) : list ctx := snd (fst c).
Definition c_out (c : case) : option json := snd c.

Definition model_obs (c : case) : option json := render_list (c_version c) (c_ctxs c).
Definition agrees (c : case) : bool := option_eqb json_eqb (model_obs c) (c_out c).

Definition mismatches (cs : list case) : list N := indices_where (fun c => negb (agrees c)) cs.
Definition spec_violations (cs : list case) : list N :=
  indices_where (fun c => negb (P (c_version c) (c_ctxs c) (c_out c))) cs.
Definition trigger_F8 (cs : list case) : list N :=
  indices_where (fun c => T (c_version c) (c_ctxs c)) cs.
