(* C01_CompSpec.v — C01 for the companion binding (static namespaces) of C01_Comp, written from
   the property text against the cluster's OBJECTS alone: an object matches the binding when
   its namespace is one of the named ones and its name is selected - whatever labels namespaces
   carry, whether a Namespace object exists, whatever other bindings watch.  Every change of a
   matching object is exactly one Event (Added when it appears, Modified when the part the
   change filter looks at differs, Deleted when it goes) if that type is listed; per object in
   order; nothing else; none before the unlock. *)
From Verif Require Import Common C01_Model C02_Model C02_Spec C01_Hist C01_HistSpec C01_Comp.
Open Scope N_scope.

Definition comp_match (k : comp_in) (o : obj) : bool :=
  mem_N (o_ns o) (k_nss k) && name_sel (k_names k) (o_name o).

Definition cexp_change (k : comp_in) (objs : list obj) (op : hop) : list hevent :=
  match op with
  | HSet o =>
      if comp_match k o then
        match lookup o objs with
        | None => listed (k_types k) Added o
        | Some old => if N.eqb (csum (k_filter k) (snd old)) (csum (k_filter k) (snd o)) then []
                      else listed (k_types k) Modified o
        end
      else []
  | HDel ns name =>
      match lookup (ns, name, 0) objs with
      | Some old => if comp_match k old then listed (k_types k) Deleted old else []
      | None => []
      end
  | HNs _ _ | HNsDel _ => []
  end.

(* the cluster's objects after a step *)
Definition obj_apply (objs : list obj) (op : hop) : list obj :=
  match op with
  | HSet o => cl_apply objs (OModify, o)
  | HDel ns name => cl_apply objs (ODelete, (ns, name, 0))
  | HNs _ _ | HNsDel _ => objs
  end.

Fixpoint cexpected_from (k : comp_in) (objs : list obj) (ops : list hop) : list hevent :=
  match ops with
  | [] => []
  | op :: r => cexp_change k objs op ++ cexpected_from k (obj_apply objs op) r
  end.
Definition cexpected (i : hist_in) (k : comp_in) : list hevent :=
  cexpected_from k (fst (hcluster0 i)) (h_ops i).

Definition CP (i : hist_in) (k : comp_in) (o : hobs) : bool :=
  negb (ho_bad o)
  && N.eqb (ho_before o) 0
  && same_per_object (cexpected i k) (ho_out o).

(* both bindings of the case *)
Definition HP2 (i : hist_in) (k : comp_in) (o oc : hobs) : bool := HP i o && CP i k oc.
