(* C02_DynProofs.v — bindings with namespace.labelSelector (dynamic namespaces): at every
   quiet point of every history the snapshot is exactly the matching objects of the
   namespaces that match NOW. *)
From Verif Require Import Common C02_Model C02_Spec C02_Proofs.
From Coq Require Import Permutation.
Open Scope N_scope.

(* ================================================================== caches follow the cluster *)

Lemma in_scope_same_key s x o : same_key x o = true -> in_scope s x = in_scope s o.
Proof.
  unfold same_key, in_scope. intros H. apply andb_true_iff in H as [H1 H2].
  apply N.eqb_eq in H1, H2. now rewrite H1, H2.
Qed.

Lemma filter_cl_set s o : forall c,
  filter (in_scope s) (cl_set o c) = if in_scope s o then cl_set o (filter (in_scope s) c) else filter (in_scope s) c.
Proof.
  induction c as [|x r IH].
  - cbn [cl_set filter]. destruct (in_scope s o); reflexivity.
  - cbn [cl_set]. destruct (same_key x o) eqn:K.
    + pose proof (in_scope_same_key s x o K) as E. cbn [filter]. rewrite E.
      destruct (in_scope s o); [|reflexivity]. cbn [cl_set]. now rewrite K.
    + cbn [filter]. rewrite IH. destruct (in_scope s x) eqn:Ix; destruct (in_scope s o) eqn:Io; try reflexivity.
      cbn [cl_set]. now rewrite K.
Qed.

Lemma filter_cl_del s o : forall c,
  filter (in_scope s) (cl_del o c) = if in_scope s o then cl_del o (filter (in_scope s) c) else filter (in_scope s) c.
Proof.
  induction c as [|x r IH].
  - cbn [cl_del filter]. destruct (in_scope s o); reflexivity.
  - cbn [cl_del]. destruct (same_key x o) eqn:K.
    + pose proof (in_scope_same_key s x o K) as E. cbn [filter]. rewrite E.
      destruct (in_scope s o); [|reflexivity]. cbn [cl_del]. now rewrite K.
    + cbn [filter]. rewrite IH. destruct (in_scope s x) eqn:Ix; destruct (in_scope s o) eqn:Io; try reflexivity.
      cbn [cl_del]. now rewrite K.
Qed.

Lemma filter_cl_apply s op c :
  filter (in_scope s) (cl_apply c op) = if in_scope s (snd op) then cl_apply (filter (in_scope s) c) op else filter (in_scope s) c.
Proof.
  unfold cl_apply. destruct (fst op); [apply filter_cl_set | apply filter_cl_set | apply filter_cl_del].
Qed.

Lemma cl_apply_keys c op : keys_distinct c -> keys_distinct (cl_apply c op).
Proof.
  intros H. unfold cl_apply. destruct (fst op); [apply cl_set_keys | apply cl_set_keys | apply cl_del_keys]; exact H.
Qed.

(* ================================================================== the cluster's namespaces *)

Lemma ns_lab_set ns lab x : forall l, ns_lab x (ns_set ns lab l) = if N.eqb x ns then lab else ns_lab x l.
Proof.
  induction l as [|e r IH].
  - cbn [ns_set ns_lab fst snd]. now rewrite (N.eqb_sym ns x).
  - cbn [ns_set]. destruct (N.eqb (fst e) ns) eqn:E.
    + apply N.eqb_eq in E. cbn [ns_lab fst snd]. rewrite E. rewrite (N.eqb_sym ns x). destruct (N.eqb x ns); reflexivity.
    + cbn [ns_lab]. rewrite IH. destruct (N.eqb (fst e) x) eqn:Ex; [|reflexivity].
      apply N.eqb_eq in Ex. subst x. now rewrite E.
Qed.

Lemma ns_set_keys ns lab : forall l k, In k (map fst (ns_set ns lab l)) -> k = ns \/ In k (map fst l).
Proof.
  induction l as [|e r IH]; intros k H.
  - cbn in H. destruct H as [H|[]]. now left.
  - cbn [ns_set] in H. destruct (N.eqb (fst e) ns) eqn:E.
    + cbn [map fst] in H. destruct H as [H|H]; [now left | right; now right].
    + cbn [map] in H. destruct H as [H|H]; [right; now left|].
      destruct (IH k H) as [Q|Q]; [now left | right; now right].
Qed.

Lemma ns_set_nodup ns lab : forall l, NoDup (map fst l) -> NoDup (map fst (ns_set ns lab l)).
Proof.
  induction l as [|e r IH]; intros H.
  - cbn. constructor; [intros [] | constructor].
  - cbn [ns_set]. inversion H as [|? ? Hn Hr]; subst. destruct (N.eqb (fst e) ns) eqn:E.
    + apply N.eqb_eq in E. cbn [map fst]. rewrite <- E. constructor; assumption.
    + cbn [map]. constructor; [|now apply IH].
      intros Hin. destruct (ns_set_keys ns lab r _ Hin) as [Q|Q]; [|contradiction].
      rewrite Q, N.eqb_refl in E. discriminate.
Qed.

Lemma ns_del_keys ns : forall l k, In k (map fst (ns_del ns l)) -> In k (map fst l).
Proof.
  induction l as [|e r IH]; intros k H; [exact H|].
  cbn [ns_del] in H. destruct (N.eqb (fst e) ns).
  - now right.
  - cbn [map] in H. destruct H as [H|H]; [now left | right; now apply IH].
Qed.

Lemma ns_del_nodup ns : forall l, NoDup (map fst l) -> NoDup (map fst (ns_del ns l)).
Proof.
  induction l as [|e r IH]; intros H; [exact H|].
  cbn [ns_del]. inversion H as [|? ? Hn Hr]; subst. destruct (N.eqb (fst e) ns); [exact Hr|].
  cbn [map]. constructor; [|now apply IH]. intros Hin. apply Hn. now apply (ns_del_keys ns).
Qed.

Lemma ns_lab_notin k : forall l, ~ In k (map fst l) -> ns_lab k l = false.
Proof.
  induction l as [|e r IH]; intros H; [reflexivity|].
  cbn [ns_lab]. destruct (N.eqb (fst e) k) eqn:E.
  - apply N.eqb_eq in E. exfalso. apply H. now left.
  - apply IH. intros Hin. apply H. now right.
Qed.

Lemma ns_lab_del ns x : forall l, NoDup (map fst l) ->
  ns_lab x (ns_del ns l) = if N.eqb x ns then false else ns_lab x l.
Proof.
  induction l as [|e r IH]; intros H.
  - cbn. now destruct (N.eqb x ns).
  - inversion H as [|? ? Hn Hr]; subst. cbn [ns_del]. destruct (N.eqb (fst e) ns) eqn:E.
    + apply N.eqb_eq in E. destruct (N.eqb x ns) eqn:Ex.
      * apply N.eqb_eq in Ex. subst x. apply ns_lab_notin. now rewrite <- E.
      * cbn [ns_lab]. rewrite E, (N.eqb_sym ns x), Ex. reflexivity.
    + cbn [ns_lab]. rewrite (IH Hr). destruct (N.eqb (fst e) x) eqn:Ee; [|reflexivity].
      apply N.eqb_eq in Ee. subst x. now rewrite E.
Qed.

Lemma matching_sub : forall l k, In k (matching_nss l) -> In k (map fst l).
Proof.
  unfold matching_nss. intros l k H. apply in_map_iff in H as [e [E H]]. apply filter_In in H as [H _].
  apply in_map_iff. exists e. auto.
Qed.

Lemma matching_in : forall l, NoDup (map fst l) -> forall ns, In ns (matching_nss l) <-> ns_lab ns l = true.
Proof.
  induction l as [|e r IH]; intros H ns.
  - cbn. split; [intros [] | discriminate].
  - inversion H as [|? ? Hn Hr]; subst. unfold matching_nss. cbn [filter ns_lab].
    fold (matching_nss r). destruct (N.eqb (fst e) ns) eqn:E.
    + apply N.eqb_eq in E. destruct (snd e); cbn [map].
      * split; [reflexivity | intros _; now left].
      * split; [|discriminate]. intros Hin. exfalso. apply Hn. rewrite E. now apply matching_sub.
    + apply N.eqb_neq in E. rewrite <- (IH Hr ns). destruct (snd e); cbn [map In]; [|tauto].
      split; [intros [Q|Q]; [contradiction | exact Q] | intros Q; now right].
Qed.

Lemma matching_nodup : forall l, NoDup (map fst l) -> NoDup (matching_nss l).
Proof.
  induction l as [|e r IH]; intros H; [constructor|].
  inversion H as [|? ? Hn Hr]; subst. unfold matching_nss. cbn [filter]. fold (matching_nss r).
  destruct (snd e); [|now apply IH]. cbn [map]. constructor; [|now apply IH].
  intros Hin. apply Hn. now apply matching_sub.
Qed.

(* ================================================================== the monitor's informer set *)

Definition mkeys (m : dmon) : list N := map fst (dm_vary m).

(* every informer's cache holds the cluster's objects of its scope *)
Definition caches_ok (names : list N) (objs : list obj) (v : list (N * list informer)) : Prop :=
  Forall (fun e => snd e = informers_for names objs (fst e)) v.

(* cancelForNs has a function for exactly the namespaces in VaryingInformers *)
Definition W (names : list N) (objs : list obj) (m : dmon) : Prop :=
  dm_cancel m = mkeys m /\ NoDup (mkeys m) /\ caches_ok names objs (dm_vary m).

Lemma add_ns_W names objs m ns : W names objs m ->
  W names objs (add_ns names objs m ns) /\ (forall k, In k (mkeys (add_ns names objs m ns)) <-> In k (mkeys m) \/ k = ns).
Proof.
  intros (W1 & W2 & W3). unfold add_ns. fold (mkeys m). destruct (mem_N ns (mkeys m)) eqn:M.
  - apply mem_N_In in M. split; [exact (conj W1 (conj W2 W3))|]. intros k. split; [now left | intros [Q|Q]; [exact Q | now subst]].
  - assert (Hn : ~ In ns (mkeys m)) by (intros X; apply mem_N_In in X; congruence).
    assert (K : mkeys (mkDM (dm_vary m ++ [(ns, informers_for names objs ns)]) (dm_cancel m ++ [ns])) = mkeys m ++ [ns]).
    { unfold mkeys. cbn [dm_vary]. now rewrite map_app. }
    split.
    + split; [cbn [dm_cancel]; now rewrite K, W1|]. split.
      * rewrite K. apply nodup_app_intro; [exact W2 | constructor; [intros [] | constructor] |].
        intros x Hx [Q|[]]. subst. contradiction.
      * cbn [dm_vary]. apply Forall_app. split; [exact W3|]. constructor; [reflexivity | constructor].
    + intros k. rewrite K, in_app_iff. cbn [In]. intuition.
Qed.

Lemma map_fst_filter {A} (ns : N) (v : list (N * A)) :
  map fst (filter (fun e => negb (N.eqb (fst e) ns)) v) = filter (fun x => negb (N.eqb x ns)) (map fst v).
Proof.
  induction v as [|e r IH]; [reflexivity|]. cbn [filter map]. destruct (negb (N.eqb (fst e) ns)); cbn [map]; now rewrite IH.
Qed.

Lemma nodup_filter {A} (p : A -> bool) : forall l, NoDup l -> NoDup (filter p l).
Proof.
  induction l as [|x r IH]; intros H; [constructor|]. inversion H; subst. cbn [filter].
  destruct (p x); [|now apply IH]. constructor; [|now apply IH]. intros Hin. apply filter_In in Hin as [Hin _]. contradiction.
Qed.

Lemma forall_filter {A} (P : A -> Prop) (p : A -> bool) : forall l, Forall P l -> Forall P (filter p l).
Proof.
  induction l as [|x r IH]; intros H; [constructor|]. inversion H; subst. cbn [filter].
  destruct (p x); [constructor; auto | auto].
Qed.

Lemma del_ns_W names objs m ns : W names objs m ->
  W names objs (del_ns m ns) /\ (forall k, In k (mkeys (del_ns m ns)) <-> In k (mkeys m) /\ k <> ns).
Proof.
  intros (W1 & W2 & W3). unfold del_ns. rewrite W1. destruct (mem_N ns (mkeys m)) eqn:M.
  - assert (K : mkeys (mkDM (filter (fun e => negb (N.eqb (fst e) ns)) (dm_vary m)) (filter (fun x => negb (N.eqb x ns)) (mkeys m)))
                = filter (fun x => negb (N.eqb x ns)) (mkeys m)).
    { unfold mkeys. cbn [dm_vary]. apply map_fst_filter. }
    split.
    + split; [cbn [dm_cancel]; now rewrite K|]. split; [rewrite K; now apply nodup_filter|].
      cbn [dm_vary]. now apply forall_filter.
    + intros k. rewrite K, filter_In, negb_true_iff, N.eqb_neq. tauto.
  - assert (Hn : ~ In ns (mkeys m)) by (intros X; apply mem_N_In in X; congruence).
    split; [exact (conj W1 (conj W2 W3))|]. intros k. split; [|tauto].
    intros Q. split; [exact Q | intros ->; contradiction].
Qed.

Lemma deliver_W names objs m op : W names objs m ->
  W names (cl_apply objs op) (deliver op m) /\ mkeys (deliver op m) = mkeys m.
Proof.
  intros (W1 & W2 & W3).
  assert (K : mkeys (deliver op m) = mkeys m).
  { unfold mkeys, deliver. cbn [dm_vary]. rewrite map_map. cbn [fst]. reflexivity. }
  split; [|exact K]. split; [unfold deliver at 1; cbn [dm_cancel]; now rewrite K|]. split; [now rewrite K|].
  unfold deliver. cbn [dm_vary]. unfold caches_ok in *. rewrite Forall_forall in *. intros e' He'.
  apply in_map_iff in He' as [e [<- He]]. cbn [fst snd]. rewrite (W3 e He).
  unfold informers_for. rewrite map_map. apply map_ext. intros nm. cbn [fst snd].
  rewrite filter_cl_apply. destruct (in_scope (Some (fst e), nm) (snd op)); reflexivity.
Qed.

Lemma fold_add_W names objs : forall l m, W names objs m ->
  W names objs (fold_left (add_ns names objs) l m)
  /\ (forall k, In k (mkeys (fold_left (add_ns names objs) l m)) <-> In k (mkeys m) \/ In k l).
Proof.
  induction l as [|ns r IH]; intros m Hw; cbn [fold_left].
  - split; [exact Hw|]. intros k. cbn [In]. tauto.
  - destruct (add_ns_W names objs m ns Hw) as [A1 A2]. destruct (IH _ A1) as [B1 B2].
    split; [exact B1|]. intros k. rewrite B2, A2. cbn [In]. intuition.
Qed.

Lemma create_mon_spec names c : NoDup (map fst (snd c)) ->
  mkeys (create_mon names c) = matching_nss (snd c)
  /\ NoDup (mkeys (create_mon names c)) /\ caches_ok names (fst c) (dm_vary (create_mon names c)).
Proof.
  intros H.
  assert (K : mkeys (create_mon names c) = matching_nss (snd c)).
  { unfold mkeys, create_mon. cbn [dm_vary]. rewrite map_map. cbn [fst]. apply map_id. }
  split; [exact K|]. split; [rewrite K; now apply matching_nodup|].
  unfold create_mon, caches_ok. cbn [dm_vary]. apply Forall_forall. intros e He.
  apply in_map_iff in He as [ns [<- _]]. reflexivity.
Qed.

(* Start on a monitor whose VaryingInformers hold only namespaces that match (now): afterwards
   the informer set is exactly the set of matching namespaces *)
Lemma start_mon_spec names c m :
  NoDup (map fst (snd c)) -> NoDup (mkeys m) -> caches_ok names (fst c) (dm_vary m) ->
  (forall k, In k (mkeys m) -> ns_lab k (snd c) = true) ->
  W names (fst c) (start_mon names c m)
  /\ (forall k, In k (mkeys (start_mon names c m)) <-> ns_lab k (snd c) = true).
Proof.
  intros Hc Hn Hk Hsub. unfold start_mon.
  assert (W0 : W names (fst c) (mkDM (dm_vary m) (map fst (dm_vary m)))).
  { split; [reflexivity|]. split; [exact Hn | exact Hk]. }
  destruct (fold_add_W names (fst c) (matching_nss (snd c)) _ W0) as [F1 F2].
  split; [exact F1|]. intros k. rewrite F2. rewrite (matching_in _ Hc k).
  split; [intros [Q|Q]; [now apply Hsub | exact Q] | intros Q; now right].
Qed.

(* ================================================================== the invariant of a history *)

Definition DInv (names : list N) (st : dcl * dmon) : Prop :=
  keys_distinct (fst (fst st)) /\ NoDup (map fst (snd (fst st)))
  /\ W names (fst (fst st)) (snd st)
  /\ (forall k, In k (mkeys (snd st)) <-> ns_lab k (snd (fst st)) = true).

Lemma dstep_fst names st op : fst (dstep names st op) = dcl_apply (fst st) op.
Proof. destruct op; reflexivity. Qed.

Lemma dstep_inv names st op : DInv names st -> DInv names (dstep names st op).
Proof.
  destruct st as [[objs nss] m]. intros (I1 & I2 & I3 & I4). cbn [fst snd] in *.
  destruct op as [k o|ns lab|ns| |].
  - (* an object changes *)
    destruct (deliver_W names objs m (k, o) I3) as [D1 D2].
    unfold DInv. cbn [dstep dcl_apply fst snd]. split; [now apply cl_apply_keys|]. split; [exact I2|].
    split; [exact D1|]. intros x. rewrite D2. apply I4.
  - (* a namespace is created / relabelled *)
    unfold DInv. cbn [dstep dcl_apply fst snd]. split; [exact I1|]. split; [now apply ns_set_nodup|].
    assert (L : forall x, ns_lab x (ns_set ns lab nss) = if N.eqb x ns then lab else ns_lab x nss) by (intros x; apply ns_lab_set).
    destruct (ns_lab ns nss) eqn:Was; destruct lab; cbn [negb andb].
    + (* still matching *)
      split; [exact I3|]. intros x. rewrite L, I4. destruct (N.eqb x ns) eqn:E; [|tauto].
      apply N.eqb_eq in E. subst x. rewrite Was. tauto.
    + (* stops matching *)
      destruct (del_ns_W names objs m ns I3) as [D1 D2]. split; [exact D1|].
      intros x. rewrite D2, L, I4. destruct (N.eqb x ns) eqn:E.
      * apply N.eqb_eq in E. split; [intros [_ Q]; contradiction | discriminate].
      * apply N.eqb_neq in E. tauto.
    + (* starts matching *)
      destruct (add_ns_W names objs m ns I3) as [A1 A2]. split; [exact A1|].
      intros x. rewrite A2, L, I4. destruct (N.eqb x ns) eqn:E.
      * apply N.eqb_eq in E. split; [reflexivity | intros _; now right].
      * apply N.eqb_neq in E. split; [intros [Q|Q]; [exact Q | contradiction] | intros Q; now left].
    + (* still not matching *)
      split; [exact I3|]. intros x. rewrite L, I4. destruct (N.eqb x ns) eqn:E; [|tauto].
      apply N.eqb_eq in E. subst x. rewrite Was. tauto.
  - (* a namespace is deleted *)
    unfold DInv. cbn [dstep dcl_apply fst snd]. split; [exact I1|]. split; [now apply ns_del_nodup|].
    assert (L : forall x, ns_lab x (ns_del ns nss) = if N.eqb x ns then false else ns_lab x nss) by (intros x; now apply ns_lab_del).
    destruct (ns_lab ns nss) eqn:Was.
    + destruct (del_ns_W names objs m ns I3) as [D1 D2]. split; [exact D1|].
      intros x. rewrite D2, L, I4. destruct (N.eqb x ns) eqn:E.
      * apply N.eqb_eq in E. split; [intros [_ Q]; contradiction | discriminate].
      * apply N.eqb_neq in E. tauto.
    + split; [exact I3|]. intros x. rewrite L, I4. destruct (N.eqb x ns) eqn:E; [|tauto].
      apply N.eqb_eq in E. subst x. rewrite Was. tauto.
  - (* restart *)
    unfold DInv. cbn [dstep fst snd]. split; [exact I1|]. split; [exact I2|].
    destruct (create_mon_spec names (objs, nss) I2) as (C1 & C2 & C3).
    apply (start_mon_spec names (objs, nss) (create_mon names (objs, nss)) I2 C2 C3).
    intros x Hx. rewrite C1 in Hx. now apply (matching_in nss I2).
  - (* read *)
    exact (conj I1 (conj I2 (conj I3 I4))).
Qed.

Lemma fold_cl_set_keys : forall l c, keys_distinct c -> keys_distinct (fold_left (fun c o => cl_set o c) l c).
Proof. induction l as [|o r IH]; intros c H; [exact H|]. cbn [fold_left]. apply IH, cl_set_keys, H. Qed.

Lemma fold_ns_set_nodup : forall (l : list (N * bool)) c, NoDup (map fst c) ->
  NoDup (map fst (fold_left (fun l p => ns_set (fst p) (snd p) l) l c)).
Proof. induction l as [|p r IH]; intros c H; [exact H|]. cbn [fold_left]. apply IH, ns_set_nodup, H. Qed.

Lemma init_inv i : T_nsghost i = false -> DInv (dn_names i) (dyn_init i).
Proof.
  intros HT. unfold dyn_init.
  assert (K0 : keys_distinct (fst (dyn_cluster0 i))) by (apply fold_cl_set_keys; constructor).
  assert (N0 : NoDup (map fst (snd (dyn_cluster0 i)))) by (apply fold_ns_set_nodup; constructor).
  destruct (create_mon_spec (dn_names i) (dyn_cluster0 i) N0) as (C1 & C2 & C3).
  assert (E1 : fst (dyn_cluster1 i) = fst (dyn_cluster0 i)) by (unfold dyn_cluster1; destruct (dn_ghost_ns i); reflexivity).
  assert (N1 : NoDup (map fst (snd (dyn_cluster1 i)))).
  { unfold dyn_cluster1. destruct (dn_ghost_ns i); [cbn [snd]; now apply ns_set_nodup | exact N0]. }
  assert (Sub : forall k, In k (mkeys (create_mon (dn_names i) (dyn_cluster0 i))) -> ns_lab k (snd (dyn_cluster1 i)) = true).
  { intros k Hk. rewrite C1 in Hk. apply (matching_in _ N0) in Hk.
    unfold dyn_cluster1. unfold T_nsghost in HT. destruct (dn_ghost_ns i) as [g|]; [|exact Hk].
    cbn [snd]. rewrite ns_lab_set. destruct (N.eqb k g) eqn:E; [|exact Hk].
    apply N.eqb_eq in E. subst k. congruence. }
  rewrite <- E1 in C3.
  destruct (start_mon_spec (dn_names i) (dyn_cluster1 i) _ N1 C2 C3 Sub) as [S1 S2].
  unfold DInv. cbn [fst snd]. split; [now rewrite E1|]. split; [exact N1|]. split; [exact S1 | exact S2].
Qed.

(* ================================================================== the snapshot under the invariant *)

Definition dscopes (keys : list N) (names : list N) : list (option N * option N) :=
  flat_map (fun ns => map (fun nm => (Some ns, nm)) (name_scopes names)) keys.
Definition caches_of (scs : list (option N * option N)) (objs : list obj) : list obj :=
  flat_map (fun s => filter (in_scope s) objs) scs.

Lemma mon_caches_of names objs v : caches_ok names objs v ->
  flat_map (fun e : N * list informer => flat_map (fun inf : informer => snd inf) (snd e)) v
  = caches_of (dscopes (map fst v) names) objs.
Proof.
  unfold caches_ok, caches_of, dscopes. induction v as [|e r IH]; intros H; [reflexivity|].
  inversion H as [|? ? He Hr]; subst. cbn [flat_map map]. rewrite flat_map_app. rewrite (IH Hr). f_equal.
  rewrite He. unfold informers_for. generalize (name_scopes names). intros l.
  induction l as [|nm l IHl]; [reflexivity|]. cbn [map flat_map snd]. now rewrite IHl.
Qed.

Lemma name_scopes_nodup names : NoDup (name_scopes names).
Proof.
  unfold name_scopes. destruct (uniq_spec names []) as [U _]. destruct (uniq names []) eqn:E.
  - constructor; [intros [] | constructor].
  - rewrite <- E in *. apply FinFun.Injective_map_NoDup; [intros x y H; now inversion H | exact U].
Qed.

Lemma dscopes_in keys names s :
  In s (dscopes keys names) <-> exists ns, In ns keys /\ fst s = Some ns /\ In (snd s) (name_scopes names).
Proof.
  unfold dscopes. rewrite in_flat_map. split.
  - intros [ns [H1 H2]]. apply in_map_iff in H2 as [nm [<- H2]]. exists ns. cbn. auto.
  - intros [ns [H1 [H2 H3]]]. exists ns. split; [exact H1|]. apply in_map_iff. exists (snd s).
    split; [destruct s; cbn in *; now subst | exact H3].
Qed.

Lemma dscopes_nodup names : forall keys, NoDup keys -> NoDup (dscopes keys names).
Proof.
  pose proof (name_scopes_nodup names) as N2. unfold dscopes.
  induction keys as [|a r IH]; intros H; [constructor|]. inversion H as [|? ? Ha Hr]; subst. cbn [flat_map].
  apply nodup_app_intro.
  - apply FinFun.Injective_map_NoDup; [intros x y Q; now inversion Q | exact N2].
  - now apply IH.
  - intros x Hx Hin. apply in_map_iff in Hx as [nm [<- _]]. apply in_flat_map in Hin as [ns [Hns Hin]].
    apply in_map_iff in Hin as [nm' [E _]]. inversion E; subst. contradiction.
Qed.

Lemma dscope_unique keys names o s s' :
  In s (dscopes keys names) -> In s' (dscopes keys names) -> in_scope s o = true -> in_scope s' o = true -> s = s'.
Proof.
  intros Hs Hs' I1 I2. apply dscopes_in in Hs as [a [_ [A1 A2]]]. apply dscopes_in in Hs' as [b [_ [B1 B2]]].
  rewrite in_scope_split in I1, I2. apply andb_true_iff in I1 as [I1a I1b]. apply andb_true_iff in I2 as [I2a I2b].
  destruct s as [sa sb], s' as [sa' sb']. cbn [fst snd] in *. subst sa sa'. cbn [opt_ok] in I1a, I2a.
  apply N.eqb_eq in I1a, I2a. f_equal; [congruence|].
  eapply (opt_scope_unique names (name_scopes names)); eauto.
Qed.

Lemma caches_of_keys objs : keys_distinct objs -> forall scs, NoDup scs ->
  (forall o s s', In s scs -> In s' scs -> in_scope s o = true -> in_scope s' o = true -> s = s') ->
  keys_distinct (caches_of scs objs).
Proof.
  intros K. unfold caches_of. induction scs as [|s r IH]; intros Hn Hu; [constructor|].
  inversion Hn as [|? ? Hs Hr]; subst. cbn [flat_map]. unfold keys_distinct. rewrite map_app. apply nodup_app_intro.
  - now apply filter_keys_distinct.
  - apply IH; [exact Hr|]. intros o a b Ha Hb. apply Hu; now right.
  - intros k Hk Hk'. apply in_map_iff in Hk as [a [Ka Ha]]. apply in_map_iff in Hk' as [b [Kb Hb]].
    apply filter_In in Ha as [Ha Ia]. apply in_flat_map in Hb as [s' [Hs' Hb]]. apply filter_In in Hb as [Hb Ib].
    assert (a = b) by (apply (key_inj_in _ a b K); congruence). subst b.
    assert (s = s') by (apply (Hu a); [now left | now right | exact Ia | exact Ib]). subst s'. contradiction.
Qed.

Lemma caches_of_in keys names objs o :
  In o (caches_of (dscopes keys names) objs)
  <-> In o objs /\ In (o_ns o) keys
      /\ (match names with [] => true | l => mem_N (o_name o) l end) = true.
Proof.
  assert (E2 : (exists s, In s (name_scopes names) /\ opt_ok s (o_name o) = true)
               <-> (match names with [] => true | l => mem_N (o_name o) l end) = true).
  { pose proof (opt_scope_exists names (o_name o)) as E. fold (name_scopes names) in E. destruct names; exact E. }
  unfold caches_of. rewrite in_flat_map. split.
  - intros [s [Hs Ho]]. apply filter_In in Ho as [H1 H2]. apply dscopes_in in Hs as [ns [K1 [K2 K3]]].
    rewrite in_scope_split in H2. apply andb_true_iff in H2 as [H2a H2b]. rewrite K2 in H2a. cbn [opt_ok] in H2a.
    apply N.eqb_eq in H2a. split; [exact H1|]. split; [now rewrite H2a|]. apply E2. exists (snd s). auto.
  - intros [H1 [H2 H3]]. apply E2 in H3 as [nm [Hn On]]. exists (Some (o_ns o), nm). split.
    + apply dscopes_in. exists (o_ns o). cbn. auto.
    + apply filter_In. split; [exact H1|]. rewrite in_scope_split. cbn [fst snd opt_ok]. now rewrite N.eqb_refl, On.
Qed.

(* under the invariant the snapshot is exactly the matching objects of the cluster, each once,
   ordered by namespace and name *)
Lemma snapshot_ok names st : DInv names st -> P_dsnap_list names (fst st) (mon_snapshot (snd st)) = true.
Proof.
  destruct st as [[objs nss] m]. intros (I1 & I2 & (W1 & W2 & W3) & I4). cbn [fst snd] in *.
  unfold mon_snapshot, mon_caches. rewrite (mon_caches_of names objs _ W3). fold (mkeys m).
  assert (Kd : keys_distinct (caches_of (dscopes (mkeys m) names) objs)).
  { apply caches_of_keys; [exact I1 | now apply dscopes_nodup |]. intros o s s'. apply dscope_unique. }
  assert (Mem : forall o, In o (caches_of (dscopes (mkeys m) names) objs) <-> In o objs /\ dmatching names (objs, nss) o = true).
  { intros o. rewrite caches_of_in. unfold dmatching. cbn [snd]. rewrite andb_true_iff, <- I4. tauto. }
  unfold P_dsnap_list. rewrite (sort_objs_sorted _ Kd). cbn [andb fst]. apply andb_true_iff. split.
  - apply forallb_forall. intros o Ho. apply (Permutation_in _ (sort_objs_perm _)) in Ho.
    apply Mem in Ho as [H1 H2]. rewrite H2. cbn [andb]. now apply mem_obj_in.
  - apply forallb_forall. intros o Ho. destruct (dmatching names (objs, nss) o) eqn:M; [|reflexivity].
    apply mem_obj_in. apply (Permutation_in _ (Permutation_sym (sort_objs_perm _))). apply Mem. auto.
Qed.

Lemma drun_ok names : forall ops st, DInv names st ->
  all2 (P_dsnap_list names) (read_clusters (fst st) ops) (drun names st ops) = true.
Proof.
  induction ops as [|op r IH]; intros st Hinv; [reflexivity|].
  pose proof (dstep_inv names st op Hinv) as H'. pose proof (dstep_fst names st op) as Ef.
  cbn [read_clusters drun]. rewrite <- Ef.
  destruct op; try (apply IH; exact H').
  cbn [all2]. rewrite (snapshot_ok names _ H'). cbn [andb]. apply IH. exact H'.
Qed.

(* For every configuration of names, every initial cluster (objects, namespaces with and
   without the label) and every history of object changes, namespaces created / relabelled /
   deleted and operator restarts: the snapshot read at each quiet point is exactly the objects
   matching the binding THEN.  The one exception is the namespace-level ghost (T_nsghost). *)
Theorem dyn_snapshots_are_matching i : T_nsghost i = false -> P_dsnaps i (dyn_snapshots i) = true.
Proof.
  intros HT. unfold P_dsnaps, dyn_snapshots, dyn_read_clusters.
  pose proof (drun_ok (dn_names i) (dn_ops i) (dyn_init i) (init_inv i HT)) as H. exact H.
Qed.

(* ---- what the entries show ---- *)
Lemma dshown_expected i o : dshown i o = dexpected_view i o.
Proof. reflexivity. Qed.

Lemma dv_sorted_map i l : v_strictly_sorted (map (dshown i) l) = strictly_sorted l.
Proof.
  induction l as [|x r IH]; [reflexivity|]. destruct r as [|y r']; [reflexivity|].
  change (map (dshown i) (x :: y :: r')) with (dshown i x :: dshown i y :: map (dshown i) r').
  cbn [v_strictly_sorted strictly_sorted]. change (v_key_ltb (dshown i x) (dshown i y)) with (key_ltb x y). f_equal. exact IH.
Qed.

Lemma dview_of_matching i c l : P_dsnap_list (dn_names i) c l = true -> P_dview_list i c (map (dshown i) l) = true.
Proof.
  unfold P_dsnap_list, P_dview_list. intros H. apply andb_true_iff in H as [H H3]. apply andb_true_iff in H as [H1 H2].
  rewrite dv_sorted_map, H1. cbn [andb]. apply andb_true_iff. split.
  - apply forallb_forall. intros v Hv. apply in_map_iff in Hv as [o [<- Ho]].
    rewrite forallb_forall in H2. specialize (H2 o Ho). apply andb_true_iff in H2 as [M Hin].
    apply existsb_exists. exists o. split; [now apply mem_obj_in|]. rewrite M. cbn [andb]. apply view_eqb_refl.
  - apply forallb_forall. intros o Ho. rewrite forallb_forall in H3. specialize (H3 o Ho).
    destruct (dmatching (dn_names i) c o); [|reflexivity]. apply mem_obj_in in H3.
    unfold mem_view. apply existsb_exists. exists (dshown i o). split; [now apply in_map|]. apply view_eqb_refl.
Qed.

Lemma all2_map {A B C} (p : A -> B -> bool) (q : A -> C -> bool) (f : B -> C) :
  (forall a b, p a b = true -> q a (f b) = true) ->
  forall l m, all2 p l m = true -> all2 q l (map f m) = true.
Proof.
  intros Hpq. induction l as [|a l IH]; intros [|b m] H; cbn [all2 map] in *; try discriminate; [reflexivity|].
  apply andb_true_iff in H as [H1 H2]. rewrite (Hpq a b H1). cbn [andb]. now apply IH.
Qed.

Theorem dyn_views_are_matching i : T_nsghost i = false -> P_dyn i (dyn_views i) false = true.
Proof.
  intros HT. unfold P_dyn, dyn_views. cbn [negb andb].
  apply (all2_map (P_dsnap_list (dn_names i)) (P_dview_list i) (map (dshown i))).
  - intros c l. apply dview_of_matching.
  - apply (dyn_snapshots_are_matching i HT).
Qed.

(* the informer set follows the matching namespaces: a namespace that matched when the operator
   started and stopped matching later is not shown any more, one that started matching later is *)
Example dyn_initial_ns_stops :
  dyn_views (mkDynIn [] [(1, 1, 1); (2, 1, 5)] [(1, true); (2, false)] None
                     [DRead; DNs 1 false; DObj OCreate (1, 2, 2); DRead; DNs 2 true; DRead; DRestart; DNsDel 2; DRead] false true)
  = [[(1, 1, None, Some 1)]; []; [(2, 1, None, Some 5)]; []].
Proof. vm_compute. reflexivity. Qed.

(* the namespace-level ghost: a namespace of the initial namespace list (CreateInformers) that
   stops matching before Start is never reported as Deleted by the namespace informer, its
   informers stay in VaryingInformers: the snapshot keeps showing its objects *)
Theorem nsghost_refuted : exists i, T_nsghost i = true /\ P_dyn i (dyn_views i) false = false.
Proof.
  exists (mkDynIn [] [(1, 1, 1)] [(1, true)] (Some 1) [DRead] false true). split; vm_compute; reflexivity.
Qed.
