(* C08_Text.v — WHEN two projections "differ": the checksum of a projection as the code computes
   it, over the VALUE DOMAIN of JSON.  Model and specification clause, NO proofs (C08_TextProofs.v).

   Go anchors:
     pkg/kube_events_manager/filter.go  applyFilter:
         bytes, err := json.Marshal(filtered)          (jq branch)     | json.Marshal(obj) (no filter)
         res.Metadata.Checksum = utils_checksum.CalculateChecksum(string(bytes))
     pkg/utils/checksum/checksum.go     CalculateChecksum = hex(md5(text))
     pkg/kube_events_manager/resource_informer.go  handleWatchEvent:
         skipEvent = cachedObject.Metadata.Checksum == objFilterRes.Metadata.Checksum

   [json_text v] is the canonical JSON text of a decoded JSON tree - what json.Marshal writes for
   it: compact, the members of a map in sorted key order (the values of this development keep
   their members in that order: [obj_set], [canon_obj]), strings quoted and escaped, scalars by
   their JSON literals (null / true / false / the number), so that 9090 and "9090", true and
   "true", null and "null", {"a":"x","b":"y"} and {"a":"x b:y"}, {"a":{"b":1}} and {"a":"map[b:1]"}
   are all written differently.  It is the shared printer [JsonText.print_value].
   (Go's encoder chooses other escapes for some characters inside strings - \n for \u000a,
   < for "<" -: a character-by-character recoding of the string body that the reader
   [JsonText.unescape] resolves alike; not modelled.)

   Values.  Numbers are carried as the harness hands them over (Json.v): an integral number -
   however it was written: 1, 1.0, 1e0 are one and the same JSON number - is [JNum z], any
   other number is [JFlt literal].  [val_ok] says just that: a [JFlt] holds a number literal
   that is not an integer literal.

   TRUSTED about md5 ([collision_free]): no two DIFFERENT canonical texts of JSON values have
   the same md5 digest.  (False of md5 in the absolute - it maps arbitrarily long texts to 16
   bytes - but no collision between two texts of this form is known to occur by accident; an
   adversary who can write both states of an object is outside the property.)  Everything else
   is proved: the text is injective on values (C08_json_text_injective), so under that one
   assumption "same checksum" is "same projection" (C08_checksum_decides_equality). *)
From Verif Require Import Common Json JsonText C08_Model C08_Spec.
Open Scope N_scope.

Definition json_text (v : json) : bytes := print_value v.

(* only digits and "-": an integer literal has no other characters *)
Definition int_chars (t : bytes) : bool := forallb (fun c => is_digit c || (c =? 45)) t.

Fixpoint val_ok (v : json) : bool :=
  match v with
  | JFlt t => is_number t && negb (int_chars t)
  | JArr l => forallb val_ok l
  | JObj m => forallb (fun kv => val_ok (snd kv)) m
  | _ => true
  end.

(* the same value with every number as its literal (the representation of the shared reader) *)
Fixpoint lit (v : json) : json :=
  match v with
  | JNum z => JFlt (print_Z z)
  | JArr l => JArr (map lit l)
  | JObj m => JObj (map (fun kv => (fst kv, lit (snd kv))) m)
  | _ => v
  end.

Section Checksum.

  Variable md5 : bytes -> bytes.

  (* applyFilter: Metadata.Checksum of a projection *)
  Definition checksum (v : json) : bytes := md5 (json_text v).

  (* the one thing trusted about md5 *)
  Definition collision_free : Prop :=
    forall a b, val_ok a = true -> val_ok b = true ->
    md5 (json_text a) = md5 (json_text b) -> json_text a = json_text b.

  Variable jq : json -> list json * bool.

  (* handleWatchEvent with the comparison AS THE CODE MAKES IT: checksum against checksum *)
  Definition handle_ck (cfg : config) (c : cache) (t : evtype) (id : N) (o : json) : cache * option event :=
    match apply_filter jq cfg o with
    | None => (c, None)
    | Some e =>
        let fire := if should_fire cfg t then Some (mkEvent t id e) else None in
        match t with
        | Added | Modified =>
            let skip := match c_get id c with
                        | Some cached => bytes_eqb (checksum (e_proj cached)) (checksum (e_proj e))
                        | None => false
                        end in
            (c_set id e c, if skip then None else fire)
        | Deleted => (c_del id c, fire)
        end
    end.

  Fixpoint run_ck (cfg : config) (c : cache) (h : list step) : list (cache * option event) :=
    match h with
    | [] => []
    | (t, id, o) :: r =>
        let (c', ev) := handle_ck cfg c t id o in (c', ev) :: run_ck cfg c' r
    end.

  (* every projection the binding computes along the history is a JSON value *)
  Definition projs_ok (cfg : config) (h : list step) : Prop :=
    forall s e, In s h -> apply_filter jq cfg (snd s) = Some e -> val_ok (e_proj e) = true.

End Checksum.

(* ---- specification clause, from the property text ----
   "An Added or Modified change triggers the hook only if its watch-event type is listed in
    executeHookOnEvent and the binding's projection of the object [...] differs from the last one
    known for that object" and "Re-delivery of an unchanged object [...] triggers nothing":
   for a MODIFIED delivery of an object that is known, with Modified listed: an event is fired
   if and only if the projection - a JSON VALUE: the number 9090 is not the string "9090", the
   map {"a":"x","b":"y"} is not the map {"a":"x b:y"}, a map is not the string that prints it;
   the number 1 IS the number 1.0 - differs from the last one known.
     [last] = the last known projection, [now] = the projection of the delivered object,
     [fired] = whether this delivery fired a Modified event. *)
Definition modified_value_ok (types : list evtype) (last now : proj) (fired : bool) : bool :=
  if listed types Modified then Bool.eqb fired (negb (proj_eqb last now)) else negb fired.

Section SpecText.
  Variable jq : json -> list json * bool.

  (* over a history: every Modified delivery of a known object is judged by the clause *)
  Fixpoint modified_values_ok (types : list evtype) (filter : bool) (k : known) (h : list step)
                              (obs_l : list obs) : bool :=
    match h, obs_l with
    | (t, id, o) :: h', ob :: obs' =>
        (match t, k_get id k with
         | Modified, Some (_, p) =>
             modified_value_ok types p (projection jq filter o) (existsb (evtype_eqb Modified) (o_fired ob))
         | _, _ => true
         end)
        && modified_values_ok types filter (k_next jq filter k t id o) h' obs'
    | _, _ => true
    end.
End SpecText.
