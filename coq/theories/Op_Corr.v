(* Op_Corr.v — what the operator harness observes after every action, as computed from
   the model state; comparison with the implementation's observation. Shared by C03,
   C04, C06, C17. *)
From Verif Require Import Common Op_Model.
Open Scope N_scope.

(* what a hook is shown of one context: (binding, kind code, group, object) *)
Definition hookctx := (N * N * N * N)%type.
Definition K_Startup : N := 0.  Definition K_Sync : N := 1.  Definition K_Event : N := 2.
Definition K_Schedule : N := 3. Definition K_Group : N := 4. Definition K_V0 : N := 5.

Definition kind_code (k : ckind) : N :=
  match k with KStartup => K_Startup | KSync => K_Sync | KEvent => K_Event | KSchedule => K_Schedule end.

(* MapV1 / MapV0 reduced to what the harness reads back *)
Definition render_ctx (v0 : bool) (c : ctx) : hookctx :=
  if v0 then (c_binding c, K_V0, 0, c_obj c)
  else match c_kind c with
       | KStartup => (c_binding c, K_Startup, 0, 0)
       | k => if N.eqb (c_group c) 0 then (c_binding c, kind_code k, 0, c_obj c)
              else (c_binding c, K_Group, c_group c, 0)
       end.

(* qo_running: a hook execution is open; qo_delayed: the worker waits in a back-off delay *)
Record qobs := mkQO { qo_name : N; qo_items : list task; qo_running : bool; qo_worker_stopped : bool; qo_delayed : bool }.
Record eobs := mkEO { eo_queue : N; eo_hook : N; eo_ctxs : list hookctx }.
Record sobs := mkSO {
  so_queues : list qobs;       (* sorted by queue number *)
  so_execs : list eobs;        (* open executions, sorted by queue number *)
  so_unlocked : list N;        (* unlocked monitors, sorted, no duplicates *)
  so_started : list eobs;      (* executions that started during the step (implementation only; order of starts) *)
  so_bad : bool                (* the harness saw something impossible in any model (second execution in a
                                  queue, no quiescence) *)
}.

Fixpoint insert_q (q : qstate) (l : list qstate) : list qstate :=
  match l with
  | [] => [q]
  | x :: r => if N.leb (q_name q) (q_name x) then q :: x :: r else x :: insert_q q r
  end.
Definition sort_queues (l : list qstate) : list qstate := fold_right insert_q [] l.

Fixpoint insert_N (n : N) (l : list N) : list N :=
  match l with
  | [] => [n]
  | x :: r => if N.eqb n x then l else if N.ltb n x then n :: l else x :: insert_N n r
  end.
Definition sort_dedup (l : list N) : list N := fold_right insert_N [] l.


Definition hook_v0 (cfg : config) (h : N) : bool :=
  match find_hook cfg h with Some x => h_v0 x | None => false end.

Definition observe (cfg : config) (s : state) : sobs :=
  let qs := sort_queues (queues s) in
  mkSO (map (fun q => mkQO (q_name q) (q_items q) (in_handler q) (stopped s && negb (in_handler q))
                            (is_running q && q_delay q && negb (stopped s))) qs)
       (flat_map (fun q => match q_running q, q_items q, q_delay q with
                           | Some _, t :: _, false => [mkEO (q_name q) (t_hook t)
                                                     (map (render_ctx (hook_v0 cfg (t_hook t))) (t_ctxs t))]
                           | _, _, _ => []
                           end) qs)
       (sort_dedup (unlocked s))
       [] false.

Definition case := (config * list action * list sobs)%type.
Definition c_cfg (c : case) := fst (fst c).
Definition c_acts (c : case) := snd (fst c).
Definition c_obs (c : case) := snd c.

Definition model_obs (c : case) : list sobs := map (observe (c_cfg c)) (trace (c_cfg c) (c_acts c)).

(* ---- equality of observations ---- *)
Definition btype_eqb (a b : btype) : bool :=
  match a, b with BOnStartup, BOnStartup | BKube, BKube | BSchedule, BSchedule => true | _, _ => false end.
Definition ckind_eqb (a b : ckind) : bool :=
  match a, b with KStartup, KStartup | KSync, KSync | KEvent, KEvent | KSchedule, KSchedule => true | _, _ => false end.
Definition ttype_eqb (a b : ttype) : bool :=
  match a, b with HookRun, HookRun | EnableKube, EnableKube | EnableSched, EnableSched => true | _, _ => false end.
Definition ctx_eqb (a b : ctx) : bool :=
  N.eqb (c_binding a) (c_binding b) && ckind_eqb (c_kind a) (c_kind b)
  && N.eqb (c_group a) (c_group b) && N.eqb (c_obj a) (c_obj b).
Definition task_eqb (a b : task) : bool :=
  ttype_eqb (t_type a) (t_type b) && N.eqb (t_hook a) (t_hook b) && btype_eqb (t_btype a) (t_btype b)
  && list_eqb ctx_eqb (t_ctxs a) (t_ctxs b) && Bool.eqb (t_allow a) (t_allow b)
  && N.eqb (t_group a) (t_group b) && list_eqb N.eqb (t_mids a) (t_mids b)
  && Bool.eqb (t_execsync a) (t_execsync b) && N.eqb (t_queue a) (t_queue b) && N.eqb (t_fail a) (t_fail b).
Definition hookctx_eqb (a b : hookctx) : bool :=
  match a, b with (a1, a2, a3, a4), (b1, b2, b3, b4) => N.eqb a1 b1 && N.eqb a2 b2 && N.eqb a3 b3 && N.eqb a4 b4 end.
Definition qobs_eqb (a b : qobs) : bool :=
  N.eqb (qo_name a) (qo_name b) && list_eqb task_eqb (qo_items a) (qo_items b)
  && Bool.eqb (qo_running a) (qo_running b) && Bool.eqb (qo_worker_stopped a) (qo_worker_stopped b)
  && Bool.eqb (qo_delayed a) (qo_delayed b).
Definition eobs_eqb (a b : eobs) : bool :=
  N.eqb (eo_queue a) (eo_queue b) && N.eqb (eo_hook a) (eo_hook b) && list_eqb hookctx_eqb (eo_ctxs a) (eo_ctxs b).
(* [so_started] is an implementation-side record only; [so_bad] must be false *)
Definition sobs_eqb (m i : sobs) : bool :=
  list_eqb qobs_eqb (so_queues m) (so_queues i) && list_eqb eobs_eqb (so_execs m) (so_execs i)
  && list_eqb N.eqb (so_unlocked m) (so_unlocked i) && negb (so_bad i).

Definition agrees (c : case) : bool := list_eqb sobs_eqb (model_obs c) (c_obs c).
Definition mismatches (cs : list case) : list N := indices_where (fun c => negb (agrees c)) cs.

(* debugging aid: first step at which model and implementation differ *)
Fixpoint first_diff_from (k : N) (m i : list sobs) : option (N * option sobs * option sobs) :=
  match m, i with
  | [], [] => None
  | x :: m', y :: i' => if sobs_eqb x y then first_diff_from (N.succ k) m' i' else Some (k, Some x, Some y)
  | x :: _, [] => Some (k, Some x, None)
  | [], y :: _ => Some (k, None, Some y)
  end.
Definition first_diff (c : case) := first_diff_from 0 (model_obs c) (c_obs c).
