(* C03_Proofs.v — the decidable predicate C03_Spec.P holds of the model's own observations,
   for every well-formed configuration and every action sequence whose event numbers
   increase.  Method: an invariant of every reachable state (Op_Proofs.Inv, plus: every task
   sits in a queue that suits it and its contexts, and the event numbers of a queue followed
   by the event numbers still to come increase), kept by [step] queue by queue. *)
From Verif Require Import Common Op_Model Op_Corr Op_Spec Op_Proofs C03_Spec.
From Coq Require Import Permutation.
Open Scope N_scope.

(* ------------------------------------------------------------------ order-preserving sublists *)

Inductive sub {A : Type} : list A -> list A -> Prop :=
| sub_nil : sub [] []
| sub_skip : forall x l l', sub l l' -> sub l (x :: l')
| sub_keep : forall x l l', sub l l' -> sub (x :: l) (x :: l').

Lemma sub_refl {A} (l : list A) : sub l l.
Proof. induction l as [|x l IH]; constructor; exact IH. Qed.

Lemma sub_nil_l {A} (l : list A) : sub [] l.
Proof. induction l as [|x l IH]; constructor; exact IH. Qed.

Lemma sub_app {A} (a a' b b' : list A) : sub a a' -> sub b b' -> sub (a ++ b) (a' ++ b').
Proof.
  intros Ha Hb. induction Ha as [|x l l' Ha IH|x l l' Ha IH]; simpl;
    [exact Hb | apply sub_skip; exact IH | apply sub_keep; exact IH].
Qed.

Lemma sub_app_l {A} (a l l' : list A) : sub l l' -> sub l (a ++ l').
Proof. intros H. apply (sub_app [] a l l' (sub_nil_l a) H). Qed.

Lemma sub_app_r {A} (a l : list A) : sub l (l ++ a).
Proof. rewrite <- (app_nil_r l) at 1. apply sub_app; [apply sub_refl | apply sub_nil_l]. Qed.

Lemma sub_trans {A} (a b c : list A) : sub a b -> sub b c -> sub a c.
Proof.
  intros Hab Hbc. revert a Hab.
  induction Hbc as [|x l l' Hbc IH|x l l' Hbc IH]; intros a Hab.
  - exact Hab.
  - constructor. apply IH. exact Hab.
  - inversion Hab as [|y m m' Hm|y m m' Hm]; subst.
    + apply sub_skip. apply IH. exact Hm.
    + apply sub_keep. apply IH. exact Hm.
Qed.

Lemma sub_In {A} (l l' : list A) x : sub l l' -> In x l -> In x l'.
Proof.
  intros H. induction H as [|y l l' H IH|y l l' H IH]; intros Hin.
  - exact Hin.
  - right. apply IH. exact Hin.
  - destruct Hin as [E|Hin]; [left; exact E | right; apply IH; exact Hin].
Qed.

Lemma sub_Forall {A} (Q : A -> Prop) (l l' : list A) : sub l l' -> Forall Q l' -> Forall Q l.
Proof.
  intros H F. rewrite Forall_forall in *. intros x Hx. apply F. apply (sub_In l l' x H Hx).
Qed.

Lemma sub_flat_map {A B} (f : A -> list B) (l l' : list A) : sub l l' -> sub (flat_map f l) (flat_map f l').
Proof.
  intros H. induction H as [|x l l' H IH|x l l' H IH]; simpl.
  - constructor.
  - apply sub_app_l. exact IH.
  - apply sub_app; [apply sub_refl | exact IH].
Qed.

Lemma sub_NoDup {A} (l l' : list A) : sub l l' -> NoDup l' -> NoDup l.
Proof.
  intros H. induction H as [|x l l' H IH|x l l' H IH]; intros ND.
  - exact ND.
  - inversion ND; subst. apply IH. assumption.
  - inversion ND as [|? ? Hn Hr]; subst. constructor; [|apply IH; exact Hr].
    intros Hin. apply Hn. apply (sub_In l l' x H Hin).
Qed.

(* ------------------------------------------------------------------ increasing, nodup_N, find *)

Lemma increasing_cons x l :
  increasing (x :: l) = true <-> Forall (fun y => x < y) l /\ increasing l = true.
Proof.
  revert x. induction l as [|y l IH]; intros x.
  - simpl. split; [intros _; split; [constructor | reflexivity] | intros _; reflexivity].
  - change (increasing (x :: y :: l)) with (N.ltb x y && increasing (y :: l)).
    rewrite andb_true_iff, N.ltb_lt. split.
    + intros [H1 H2]. split; [|exact H2]. constructor; [exact H1|].
      apply IH in H2 as [H3 _]. apply (Forall_impl (fun z => x < z)) in H3; [exact H3|].
      intros z Hz. lia.
    + intros [H1 H2]. inversion H1; subst. split; assumption.
Qed.

Lemma increasing_sub l l' : sub l l' -> increasing l' = true -> increasing l = true.
Proof.
  intros H. induction H as [|x l l' H IH|x l l' H IH]; intros Hi.
  - reflexivity.
  - apply increasing_cons in Hi as [_ Hi]. apply IH. exact Hi.
  - apply increasing_cons in Hi as [Hf Hi]. apply increasing_cons. split; [|apply IH; exact Hi].
    apply (sub_Forall _ l l' H Hf).
Qed.

Lemma nodup_N_iff l : nodup_N l = true <-> NoDup l.
Proof.
  induction l as [|x l IH]; simpl.
  - split; [intros _; constructor | reflexivity].
  - rewrite andb_true_iff, negb_true_iff, IH. split.
    + intros [H1 H2]. constructor; [|exact H2]. intros Hin. apply mem_N_In in Hin. congruence.
    + intros H. inversion H as [|? ? Hn Hr]; subst. split; [|exact Hr].
      destruct (mem_N x l) eqn:M; [|reflexivity]. apply mem_N_In in M. contradiction.
Qed.

Lemma find_unique {A} (key : A -> N) (l : list A) (x : A) :
  NoDup (map key l) -> In x l -> find (fun y => N.eqb (key y) (key x)) l = Some x.
Proof.
  induction l as [|a l IH]; intros ND Hin; [destruct Hin|].
  simpl in ND. inversion ND as [|? ? Hn Hr]; subst. simpl. destruct Hin as [->|Hin].
  - rewrite N.eqb_refl. reflexivity.
  - destruct (N.eqb (key a) (key x)) eqn:E.
    + exfalso. apply N.eqb_eq in E. apply Hn. rewrite E. apply in_map. exact Hin.
    + apply IH; assumption.
Qed.

Lemma find_none_all {A} (p : A -> bool) (l : list A) : (forall x, In x l -> p x = false) -> find p l = None.
Proof.
  induction l as [|a l IH]; intros H; [reflexivity|]. simpl.
  rewrite (H a (or_introl eq_refl)). apply IH. intros x Hx. apply H. right. exact Hx.
Qed.

Lemma filter_none {A} (f : A -> bool) l : (forall x, In x l -> f x = false) -> filter f l = [].
Proof.
  induction l as [|x r IH]; intros H; [reflexivity|]. simpl. rewrite (H x (or_introl eq_refl)).
  apply IH. intros y Hy. apply H. right. exact Hy.
Qed.

Lemma NoDup_app_disj {A} (l1 l2 : list A) x : NoDup (l1 ++ l2) -> In x l1 -> In x l2 -> False.
Proof.
  induction l1 as [|a l1 IH]; simpl; intros ND H1 H2; [destruct H1|].
  inversion ND as [|? ? Hn Hr]; subst. destruct H1 as [->|H1].
  - apply Hn. apply in_or_app. right. exact H2.
  - apply IH; assumption.
Qed.

(* at most one element of a list without duplicate keys has a given key *)
Lemma filter_le1 {A} (key : A -> N) (m : N) (l : list A) :
  NoDup (map key l) ->
  filter (fun x => N.eqb (key x) m) l = [] \/ exists x, filter (fun x => N.eqb (key x) m) l = [x].
Proof.
  induction l as [|a l IH]; simpl; intros ND; [left; reflexivity|].
  inversion ND as [|? ? Hn Hr]; subst. destruct (N.eqb (key a) m) eqn:E.
  - right. exists a. f_equal. apply filter_none. intros y Hy.
    destruct (N.eqb (key y) m) eqn:E2; [|reflexivity]. exfalso. apply Hn.
    apply N.eqb_eq in E. apply N.eqb_eq in E2. rewrite E, <- E2. apply in_map. exact Hy.
  - apply IH. exact Hr.
Qed.

Lemma flat_map_flat_map {A B C} (f : A -> list B) (g : B -> list C) (l : list A) :
  flat_map g (flat_map f l) = flat_map (fun x => flat_map g (f x)) l.
Proof. induction l as [|x l IH]; simpl; [reflexivity|]. rewrite flat_map_app, IH. reflexivity. Qed.

(* ------------------------------------------------------------------ the configuration *)

Definition kbs (cfg : config) : list kbinding := flat_map h_kube cfg.
Definition sbs (cfg : config) : list sbinding := flat_map h_sched cfg.

Lemma kube_bindings_snd cfg : map snd (kube_bindings cfg) = kbs cfg.
Proof.
  unfold kube_bindings, kbs. induction cfg as [|h cfg IH]; simpl; [reflexivity|].
  rewrite map_app, IH, map_map. simpl. rewrite map_id. reflexivity.
Qed.

Lemma sched_bindings_snd cfg : map snd (sched_bindings cfg) = sbs cfg.
Proof.
  unfold sched_bindings, sbs. induction cfg as [|h cfg IH]; simpl; [reflexivity|].
  rewrite map_app, IH, map_map. simpl. rewrite map_id. reflexivity.
Qed.

Lemma kube_pairs_snd cfg : map snd (kube_pairs cfg) = kbs cfg.
Proof.
  unfold kube_pairs, kbs. induction cfg as [|h cfg IH]; simpl; [reflexivity|].
  rewrite map_app, IH, map_map. simpl. rewrite map_id. reflexivity.
Qed.

Lemma in_kube_bindings cfg h b : In h cfg -> In b (h_kube h) -> In (h, b) (kube_bindings cfg).
Proof.
  intros Hh Hb. unfold kube_bindings. apply in_flat_map. exists h. split; [exact Hh|].
  apply in_map_iff. exists b. split; [reflexivity | exact Hb].
Qed.

Lemma in_sched_bindings cfg h b : In h cfg -> In b (h_sched h) -> In (h, b) (sched_bindings cfg).
Proof.
  intros Hh Hb. unfold sched_bindings. apply in_flat_map. exists h. split; [exact Hh|].
  apply in_map_iff. exists b. split; [reflexivity | exact Hb].
Qed.

Lemma wf_names cfg : wf_config cfg = true -> NoDup (binding_names cfg).
Proof.
  unfold wf_config. intros H.
  apply andb_true_iff in H as [H _]. apply andb_true_iff in H as [H _]. apply andb_true_iff in H as [H _].
  apply andb_true_iff in H as [H _]. apply andb_true_iff in H as [H _]. apply nodup_N_iff. exact H.
Qed.

Lemma wf_kube_names cfg : wf_config cfg = true ->
  NoDup (map (fun hb : hook * kbinding => kb_name (snd hb)) (kube_bindings cfg)).
Proof. intros H. apply wf_names in H. unfold binding_names in H. apply (sub_NoDup _ _ (sub_app_r _ _) H). Qed.

Lemma wf_sched_names cfg : wf_config cfg = true ->
  NoDup (map (fun hb : hook * sbinding => sb_name (snd hb)) (sched_bindings cfg)).
Proof.
  intros H. apply wf_names in H. unfold binding_names in H.
  apply (sub_NoDup _ _ (sub_app_l _ _ _ (sub_refl _)) H).
Qed.

Lemma wf_mon cfg : wf_config cfg = true -> forall b, In b (kbs cfg) -> kb_mon b = kb_name b.
Proof.
  unfold wf_config. intros H b Hb.
  apply andb_true_iff in H as [H _]. apply andb_true_iff in H as [H _]. apply andb_true_iff in H as [_ H].
  rewrite forallb_forall in H. rewrite <- kube_bindings_snd in Hb. apply in_map_iff in Hb as [hb [<- Hhb]].
  apply N.eqb_eq. apply H. exact Hhb.
Qed.

Lemma binding_queue_kube cfg h b : wf_config cfg = true -> In h cfg -> In b (h_kube h) ->
  binding_queue cfg (kb_name b) = Some (kb_queue b).
Proof.
  intros W Hh Hb. unfold binding_queue.
  pose proof (find_unique (fun hb : hook * kbinding => kb_name (snd hb)) (kube_bindings cfg) (h, b)
                (wf_kube_names cfg W) (in_kube_bindings cfg h b Hh Hb)) as F.
  cbn [snd] in F. rewrite F. reflexivity.
Qed.

Lemma binding_queue_sched cfg h b : wf_config cfg = true -> In h cfg -> In b (h_sched h) ->
  binding_queue cfg (sb_name b) = Some (sb_queue b).
Proof.
  intros W Hh Hb. unfold binding_queue.
  rewrite (find_none_all (fun hb : hook * kbinding => N.eqb (kb_name (snd hb)) (sb_name b)) (kube_bindings cfg)).
  - pose proof (find_unique (fun hb : hook * sbinding => sb_name (snd hb)) (sched_bindings cfg) (h, b)
                  (wf_sched_names cfg W) (in_sched_bindings cfg h b Hh Hb)) as F.
    cbn [snd] in F. rewrite F. reflexivity.
  - intros hb Hhb. destruct (N.eqb (kb_name (snd hb)) (sb_name b)) eqn:E; [|reflexivity]. exfalso.
    apply N.eqb_eq in E. apply (NoDup_app_disj _ _ (sb_name b) (wf_names cfg W)).
    + rewrite <- E. apply (in_map (fun hb0 : hook * kbinding => kb_name (snd hb0))). exact Hhb.
    + apply (in_map (fun hb0 : hook * sbinding => sb_name (snd hb0)) _ (h, b)). apply in_sched_bindings; assumption.
Qed.

(* the tasks a tick / an event yields *)
Lemma in_sched_tasks cfg on c t : In t (sched_tasks cfg on c) ->
  exists h b, In h cfg /\ In b (h_sched h) /\ sb_cron b = c /\
    t = mkTask HookRun (h_id h) BSchedule [mkCtx (sb_name b) KSchedule (sb_group b) 0]
               (sb_allow b) (sb_group b) [] false (sb_queue b) 0.
Proof.
  unfold sched_tasks. intros H. apply in_flat_map in H as [h [Hh H]].
  destruct (mem_N (h_id h) on); [|destruct H]. apply in_flat_map in H as [b [Hb H]].
  destruct (N.eqb (sb_cron b) c) eqn:E; [|destruct H]. destruct H as [<-|[]].
  exists h, b. apply N.eqb_eq in E. auto.
Qed.

Lemma in_kube_tasks cfg unl m o t : In t (kube_tasks cfg unl m o) ->
  exists h b, In h cfg /\ In b (h_kube h) /\ kb_mon b = m /\
    t = mkTask HookRun (h_id h) BKube [mkCtx (kb_name b) KEvent (kb_group b) o]
               (kb_allow b) (kb_group b) [] false (kb_queue b) 0.
Proof.
  unfold kube_tasks. intros H. destruct (mem_N m unl); [|destruct H].
  apply in_flat_map in H as [h [Hh H]]. apply in_flat_map in H as [b [Hb H]].
  destruct (N.eqb (kb_mon b) m) eqn:E; [|destruct H]. destruct H as [<-|[]].
  exists h, b. apply N.eqb_eq in E. auto.
Qed.

(* one monitor, one binding: an event yields at most one task *)
Lemma kube_tasks_le1 cfg unl m o : wf_config cfg = true ->
  kube_tasks cfg unl m o = [] \/ exists t, kube_tasks cfg unl m o = [t].
Proof.
  intros W. rewrite kube_tasks_exactly. destruct (mem_N m unl); [|left; reflexivity].
  assert (ND : NoDup (map (fun hb : N * kbinding => kb_mon (snd hb)) (kube_pairs cfg))).
  { rewrite <- (map_map snd kb_mon), kube_pairs_snd.
    rewrite (map_ext_in kb_mon kb_name (kbs cfg) (wf_mon cfg W)).
    rewrite <- kube_bindings_snd, map_map. apply wf_kube_names. exact W. }
  destruct (filter_le1 (fun hb : N * kbinding => kb_mon (snd hb)) m (kube_pairs cfg) ND) as [E|[x E]];
    rewrite E; [left | right; eexists]; reflexivity.
Qed.

(* ------------------------------------------------------------------ what is kept per queue *)

(* event numbers carried by contexts / by the tasks of a queue ([event_numbers] of C03_Spec) *)
Definition evs (cs : list ctx) : list N :=
  flat_map (fun c => match c_kind c with KEvent => [c_obj c] | _ => [] end) cs.
Definition E (items : list task) : list N := flat_map (fun t => evs (t_ctxs t)) items.

(* the event numbers of the actions still to come *)
Definition objs (acts : list action) : list N :=
  flat_map (fun a => match a with KubeEv _ o => [o] | _ => [] end) acts.

(* the event numbers handed out by the harness increase *)
Definition wf_acts (acts : list action) : bool := increasing (objs acts).

Lemma E_app a b : E (a ++ b) = E a ++ E b.
Proof. apply flat_map_app. Qed.

Lemma E_nil l : (forall t, In t l -> evs (t_ctxs t) = []) -> E l = [].
Proof.
  induction l as [|t l IH]; intros H; [reflexivity|]. unfold E. simpl. rewrite (H t (or_introl eq_refl)).
  apply IH. intros x Hx. apply H. right. exact Hx.
Qed.

Lemma evs_flat l : evs (flat_map t_ctxs l) = E l.
Proof. unfold evs, E. apply flat_map_flat_map. Qed.

(* a context suits queue [qn]: Synchronization / onStartup contexts live in main, every other
   one in the queue configured for its binding *)
Definition ctx_ok (cfg : config) (qn : N) (c : ctx) : bool :=
  match c_kind c with
  | KSync | KStartup => N.eqb qn 0
  | _ => match binding_queue cfg (c_binding c) with Some q => N.eqb q qn | None => false end
  end.

(* a task suits queue [qn]: all its contexts do; a hook run of a kubernetes or schedule binding
   names that queue; anything else (onStartup, Enable* ) is in main *)
Definition task_ok (cfg : config) (qn : N) (t : task) : bool :=
  forallb (ctx_ok cfg qn) (t_ctxs t) &&
  match t_type t with
  | HookRun => match t_btype t with BOnStartup => N.eqb qn 0 | _ => N.eqb (t_queue t) qn end
  | _ => N.eqb qn 0
  end.

Definition items_ok (cfg : config) (qn : N) (items : list task) : Prop :=
  forall t, In t items -> task_ok cfg qn t = true.

Lemma task_ok_routed cfg qn t : task_ok cfg qn t = true -> task_routed cfg qn t = true.
Proof.
  unfold task_ok, task_routed. intros H. apply andb_true_iff in H as [Hc Ht].
  assert (G : N.eqb (t_queue t) qn = true ->
              N.eqb (t_queue t) qn
              && forallb (fun c => match c_kind c with
                                   | KSync | KStartup => true
                                   | _ => match binding_queue cfg (c_binding c) with
                                          | Some q => N.eqb q qn
                                          | None => false
                                          end
                                   end) (t_ctxs t) = true).
  { intros Hq. rewrite Hq. simpl. apply forallb_forall. intros c Hin.
    rewrite forallb_forall in Hc. specialize (Hc c Hin). unfold ctx_ok in Hc.
    destruct (c_kind c); auto. }
  destruct (t_type t); try exact Ht. destruct (t_btype t) eqn:B; try exact Ht.
  - destruct (is_sync t) eqn:S; [|apply G; exact Ht].
    unfold is_sync in S. rewrite B in S. destruct (t_ctxs t) as [|c r]; [discriminate|].
    simpl in Hc. apply andb_true_iff in Hc as [Hc _]. unfold ctx_ok in Hc.
    destruct (c_kind c); try discriminate. exact Hc.
  - assert (S : is_sync t = false) by (unfold is_sync; rewrite B; reflexivity).
    rewrite S. apply G. exact Ht.
Qed.

(* ---- compaction and combining ---- *)

Lemma compact_cons2 c n r :
  compact (c :: n :: r) =
  if negb (N.eqb (c_group c) 0) && N.eqb (c_group n) (c_group c) then compact (n :: r) else c :: compact (n :: r).
Proof. reflexivity. Qed.

Lemma compact_sub l : sub (compact l) l.
Proof.
  induction l as [|c r IH]; [constructor|]. destruct r as [|n r'].
  - apply sub_refl.
  - rewrite compact_cons2. destruct (negb (N.eqb (c_group c) 0) && N.eqb (c_group n) (c_group c)).
    + apply sub_skip. exact IH.
    + apply sub_keep. exact IH.
Qed.

Lemma take_block_app t : forall l b r, take_block t l = (b, r) -> l = b ++ r.
Proof.
  induction l as [|x l IH]; simpl; intros b r H.
  - inversion H. reflexivity.
  - destruct (N.eqb (t_hook x) (t_hook t) && same_ttype (t_type x) (t_type t)
              && negb (is_sync t && is_sync x && negb (t_execsync x))).
    + destruct (take_block t l) as [b' r'] eqn:TB. inversion H; subst. simpl. f_equal. apply IH. reflexivity.
    + inversion H. reflexivity.
Qed.

Lemma combine_pres cfg qn t rest t' rest' :
  combine t rest = (t', rest') -> items_ok cfg qn (t :: rest) ->
  items_ok cfg qn (t' :: rest') /\ sub (E (t' :: rest')) (E (t :: rest)).
Proof.
  unfold combine. destruct (take_block t rest) as [block r'] eqn:TB. apply take_block_app in TB.
  assert (G : items_ok cfg qn (t :: rest) ->
              items_ok cfg qn (set_combined t (compact (t_ctxs t ++ flat_map t_ctxs block))
                                 (t_mids t ++ flat_map t_mids block) (t_allow t && forallb t_allow block) :: r') /\
              sub (E (set_combined t (compact (t_ctxs t ++ flat_map t_ctxs block))
                        (t_mids t ++ flat_map t_mids block) (t_allow t && forallb t_allow block) :: r'))
                  (E (t :: rest))).
  { intros Hok. subst rest. split.
    + intros y [<-|Hy].
      * pose proof (Hok t (or_introl eq_refl)) as Ht. unfold task_ok in *. unfold set_combined.
        cbn [t_ctxs t_type t_btype t_queue]. apply andb_true_iff in Ht as [Hc Ht]. rewrite Ht, andb_true_r.
        apply forallb_forall. intros c Hin. apply (sub_In _ _ c (compact_sub _)) in Hin.
        apply in_app_or in Hin as [Hin|Hin].
        -- rewrite forallb_forall in Hc. apply Hc. exact Hin.
        -- apply in_flat_map in Hin as [y [Hy Hin]].
           assert (Hy' : task_ok cfg qn y = true).
           { apply Hok. right. apply in_or_app. left. exact Hy. }
           unfold task_ok in Hy'. apply andb_true_iff in Hy' as [Hcy _].
           rewrite forallb_forall in Hcy. apply Hcy. exact Hin.
      * apply Hok. right. apply in_or_app. right. exact Hy.
    + change (E (set_combined t (compact (t_ctxs t ++ flat_map t_ctxs block))
                   (t_mids t ++ flat_map t_mids block) (t_allow t && forallb t_allow block) :: r'))
        with (evs (compact (t_ctxs t ++ flat_map t_ctxs block)) ++ E r').
      change (E (t :: block ++ r')) with (evs (t_ctxs t) ++ E (block ++ r')).
      rewrite E_app, app_assoc. apply sub_app; [|apply sub_refl].
      rewrite <- evs_flat. unfold evs at 2 3. rewrite <- flat_map_app. fold (evs (t_ctxs t ++ flat_map t_ctxs block)).
      unfold evs. apply sub_flat_map. apply compact_sub. }
  destruct block as [|x bl]; intros H Hok; injection H as <- <-.
  - split; [exact Hok | apply sub_refl].
  - apply G. exact Hok.
Qed.

(* ---- the worker ---- *)

Lemma advance_q_0 cfg qok items sh : advance_q 0 cfg qok items sh = (items, None, sh).
Proof. reflexivity. Qed.
Lemma advance_q_nil fuel cfg qok sh : advance_q (S fuel) cfg qok [] sh = ([], None, sh).
Proof. reflexivity. Qed.
Lemma advance_q_cons fuel cfg qok t rest sh :
  advance_q (S fuel) cfg qok (t :: rest) sh =
  match t_type t with
  | EnableKube =>
      match find_hook cfg (t_hook t) with
      | Some h => advance_q fuel cfg qok (map (sync_task h) (h_kube h) ++ rest)
                            (mkSh (s_sched_on sh) (s_unlocked sh) (s_mon_started sh ++ map kb_mon (h_kube h)))
      | None => advance_q fuel cfg qok rest sh
      end
  | EnableSched =>
      advance_q fuel cfg qok rest (mkSh (s_sched_on sh ++ [t_hook t]) (s_unlocked sh) (s_mon_started sh))
  | HookRun =>
      let v0 := match find_hook cfg (t_hook t) with Some h => h_v0 h | None => false end in
      if should_run v0 t then
        if negb v0 && should_combine t && qok (t_queue t) then
          let (t', rest') := combine t rest in (t' :: rest', Some (is_sync t), sh)
        else (t :: rest, Some (is_sync t), sh)
      else advance_q fuel cfg qok rest (mkSh (s_sched_on sh) (s_unlocked sh ++ t_mids t) (s_mon_started sh))
  end.
Proof. reflexivity. Qed.
Lemma advance_q_enk fuel cfg qok t rest sh : t_type t = EnableKube ->
  advance_q (S fuel) cfg qok (t :: rest) sh =
  match find_hook cfg (t_hook t) with
  | Some h => advance_q fuel cfg qok (map (sync_task h) (h_kube h) ++ rest)
                        (mkSh (s_sched_on sh) (s_unlocked sh) (s_mon_started sh ++ map kb_mon (h_kube h)))
  | None => advance_q fuel cfg qok rest sh
  end.
Proof. intros H. rewrite advance_q_cons, H. reflexivity. Qed.
Lemma advance_q_ens fuel cfg qok t rest sh : t_type t = EnableSched ->
  advance_q (S fuel) cfg qok (t :: rest) sh =
  advance_q fuel cfg qok rest (mkSh (s_sched_on sh ++ [t_hook t]) (s_unlocked sh) (s_mon_started sh)).
Proof. intros H. rewrite advance_q_cons, H. reflexivity. Qed.

Lemma E_sync_tasks h l : E (map (sync_task h) l) = [].
Proof. apply E_nil. intros t Ht. apply in_map_iff in Ht as [b [<- _]]. reflexivity. Qed.

Lemma advance_q_pres cfg qok qn : forall fuel items sh,
  items_ok cfg qn items ->
  items_ok cfg qn (fst (fst (advance_q fuel cfg qok items sh))) /\
  sub (E (fst (fst (advance_q fuel cfg qok items sh)))) (E items).
Proof.
  induction fuel as [|fuel IH]; intros items sh Hok.
  - rewrite advance_q_0. split; [exact Hok | apply sub_refl].
  - destruct items as [|t rest]; [rewrite advance_q_nil; split; [exact Hok | apply sub_refl]|].
    assert (Hrest : items_ok cfg qn rest) by (intros x Hx; apply Hok; right; exact Hx).
    assert (Hskip : forall sh', items_ok cfg qn (fst (fst (advance_q fuel cfg qok rest sh'))) /\
                                sub (E (fst (fst (advance_q fuel cfg qok rest sh')))) (E (t :: rest))).
    { intros sh'. destruct (IH rest sh' Hrest) as [I1 I2]. split; [exact I1|].
      change (E (t :: rest)) with (evs (t_ctxs t) ++ E rest). apply sub_app_l. exact I2. }
    destruct (t_type t) eqn:Ty.
    + (* HookRun *)
      rewrite (advance_q_hookrun fuel cfg qok t rest sh Ty). cbv zeta.
      destruct (should_run _ t); [|apply Hskip].
      destruct (negb _ && should_combine t && qok (t_queue t)).
      * destruct (combine t rest) as [t' rest'] eqn:C. cbn [fst]. apply (combine_pres cfg qn t rest t' rest' C Hok).
      * cbn [fst]. split; [exact Hok | apply sub_refl].
    + (* EnableKube *)
      rewrite (advance_q_enk fuel cfg qok t rest sh Ty). destruct (find_hook cfg (t_hook t)) as [h|]; [|apply Hskip].
      assert (Q0 : N.eqb qn 0 = true).
      { pose proof (Hok t (or_introl eq_refl)) as Ht. unfold task_ok in Ht. rewrite Ty in Ht.
        apply andb_true_iff in Ht as [_ Ht]. exact Ht. }
      assert (Hok' : items_ok cfg qn (map (sync_task h) (h_kube h) ++ rest)).
      { intros x Hx. apply in_app_or in Hx as [Hx|Hx]; [|apply Hrest; exact Hx].
        apply in_map_iff in Hx as [b [<- _]]. unfold task_ok, sync_task, ctx_ok. cbn.
        rewrite Q0. apply N.eqb_eq in Q0. subst qn. reflexivity. }
      destruct (IH _ (mkSh (s_sched_on sh) (s_unlocked sh) (s_mon_started sh ++ map kb_mon (h_kube h))) Hok') as [I1 I2].
      split; [exact I1|]. rewrite E_app, E_sync_tasks in I2. simpl in I2.
      change (E (t :: rest)) with (evs (t_ctxs t) ++ E rest). apply sub_app_l. exact I2.
    + (* EnableSched *)
      rewrite (advance_q_ens fuel cfg qok t rest sh Ty). apply Hskip.
Qed.

(* ---- the invariant of one queue, relative to the actions still to come ---- *)

Definition QI (cfg : config) (acts : list action) (q : qstate) : Prop :=
  items_ok cfg (q_name q) (q_items q) /\ increasing (E (q_items q) ++ objs acts) = true.

Lemma QI_shrink cfg acts qn items items' run d more :
  items_ok cfg qn items -> increasing (E items ++ more ++ objs acts) = true ->
  items_ok cfg qn items' -> sub (E items') (E items ++ more) ->
  QI cfg acts (mkQ qn items' run d).
Proof.
  intros H1 H2 H3 H4. split; [exact H3|]. cbn [q_items].
  apply (increasing_sub _ (E items ++ more ++ objs acts)); [|exact H2].
  rewrite app_assoc. apply sub_app; [exact H4 | apply sub_refl].
Qed.

Lemma adv_one_name cfg qok q : q_name (adv_one cfg qok q) = q_name q.
Proof.
  unfold adv_one. destruct (is_running q); [reflexivity|].
  destruct (advance_q _ _ _ _ _) as [[it ru] sh]. reflexivity.
Qed.

Lemma adv_one_QI cfg qok acts q : QI cfg acts q -> QI cfg acts (adv_one cfg qok q).
Proof.
  intros [H1 H2]. unfold adv_one. destruct (is_running q); [split; assumption|].
  destruct (advance_q_pres cfg qok (q_name q) (fuel_for cfg (q_items q)) (q_items q) no_shared H1) as [P1 P2].
  destruct (advance_q _ _ _ _ _) as [[it ru] sh]. cbn [fst] in P1, P2.
  apply (QI_shrink cfg acts (q_name q) (q_items q) it ru false []); [exact H1 | exact H2 | exact P1|].
  rewrite app_nil_r. exact P2.
Qed.

Definition objs1 (a : action) : list N := match a with KubeEv _ o => [o] | _ => [] end.
Lemma objs_cons a acts : objs (a :: acts) = objs1 a ++ objs acts.
Proof. reflexivity. Qed.

Lemma finish_one_QI cfg acts ok stp w q : QI cfg acts q -> QI cfg acts (finish_one ok stp w q).
Proof.
  intros [H1 H2]. unfold finish_one.
  destruct (q_running q) as [sy|]; [|split; assumption].
  destruct (q_items q) as [|t rest] eqn:I; [split; [rewrite I|rewrite I]; assumption|].
  destruct (q_delay q); [split; [rewrite I|rewrite I]; assumption|].
  assert (Hrest : items_ok cfg (q_name q) rest) by (intros x Hx; apply H1; right; exact Hx).
  assert (Hinc : items_ok cfg (q_name q) (incr_fail t :: rest)).
  { intros x [<-|Hx]; [|apply Hrest; exact Hx]. apply (H1 t (or_introl eq_refl)). }
  destruct stp; [|destruct (ok || t_allow t); [|destruct w]].
  - apply (QI_shrink cfg acts (q_name q) (t :: rest) (t :: rest) None false []); auto.
    rewrite app_nil_r. apply sub_refl.
  - apply (QI_shrink cfg acts (q_name q) (t :: rest) rest None false []); auto.
    rewrite app_nil_r. change (E (t :: rest)) with (evs (t_ctxs t) ++ E rest). apply sub_app_l, sub_refl.
  - apply (QI_shrink cfg acts (q_name q) (t :: rest) (incr_fail t :: rest) (Some false) true []); auto.
    rewrite app_nil_r. apply sub_refl.
  - apply (QI_shrink cfg acts (q_name q) (t :: rest) (incr_fail t :: rest) None false []); auto.
    rewrite app_nil_r. apply sub_refl.
Qed.

Lemma elapse_one_QI cfg acts q : QI cfg acts q -> QI cfg acts (elapse_one q).
Proof. intros H. unfold elapse_one. destruct (q_delay q); [|exact H]. exact H. Qed.

(* the part of [step_q] before the worker runs *)
Definition pre_q (cfg : config) (a : action) (on unl : list N) (stp : bool) (q : qstate) : qstate :=
  match a with
  | Boot | Stop => q
  | Tick c => app_many (sched_tasks cfg on c) q
  | KubeEv m o => app_many (kube_tasks cfg unl m o) q
  | Finish qn ok => if N.eqb (q_name q) qn then finish_one ok stp false q else q
  | FinishWait qn => if N.eqb (q_name q) qn then finish_one false stp true q else q
  | Elapse qn => if N.eqb (q_name q) qn then elapse_one q else q
  end.

Lemma step_q_eq cfg a on unl stp qok q :
  step_q cfg a on unl stp qok q =
  if stp || is_stop a then pre_q cfg a on unl stp q else adv_one cfg qok (pre_q cfg a on unl stp q).
Proof. reflexivity. Qed.

Lemma pre_q_name cfg a on unl stp q : q_name (pre_q cfg a on unl stp q) = q_name q.
Proof.
  destruct a; cbn [pre_q]; try reflexivity.
  - destruct (N.eqb (q_name q) q0); [apply finish_one_name | reflexivity].
  - destruct (N.eqb (q_name q) q0); [apply finish_one_name | reflexivity].
  - destruct (N.eqb (q_name q) q0); [apply elapse_one_name | reflexivity].
Qed.

Lemma step_q_name cfg a on unl stp qok q : q_name (step_q cfg a on unl stp qok q) = q_name q.
Proof.
  rewrite step_q_eq. destruct (stp || is_stop a); [|rewrite adv_one_name]; apply pre_q_name.
Qed.

Lemma QI_tail cfg a acts q : objs1 a = [] -> QI cfg (a :: acts) q -> QI cfg acts q.
Proof. intros E0 [H1 H2]. rewrite objs_cons, E0 in H2. split; assumption. Qed.

Lemma pre_q_QI cfg a acts on unl stp q : wf_config cfg = true ->
  QI cfg (a :: acts) q -> QI cfg acts (pre_q cfg a on unl stp q).
Proof.
  intros W HQ. destruct a; cbn [pre_q].
  - apply (QI_tail cfg Boot); [reflexivity | exact HQ].
  - (* Tick: the new tasks carry a Schedule context of a binding configured for this queue *)
    destruct HQ as [H1 H2]. rewrite objs_cons in H2. unfold app_many.
    apply (QI_shrink cfg acts (q_name q) (q_items q) _ (q_running q) (q_delay q) []); [exact H1 | exact H2 | |].
    + intros t Ht. apply in_app_or in Ht as [Ht|Ht]; [apply H1; exact Ht|].
      apply filter_In in Ht as [Ht Hq]. apply in_sched_tasks in Ht as (h & b & Hh & Hb & _ & ->).
      cbn [t_queue] in Hq. unfold task_ok, ctx_ok. cbn. rewrite (binding_queue_sched cfg h b W Hh Hb), Hq. reflexivity.
    + rewrite E_app. apply sub_app; [apply sub_refl|]. rewrite E_nil; [constructor|].
      intros t Ht. apply filter_In in Ht as [Ht _]. apply in_sched_tasks in Ht as (h & b & _ & _ & _ & ->). reflexivity.
  - (* KubeEv: at most one new task, with the new event number *)
    destruct HQ as [H1 H2]. rewrite objs_cons in H2. cbn [objs1] in H2. unfold app_many.
    apply (QI_shrink cfg acts (q_name q) (q_items q) _ (q_running q) (q_delay q) [obj]); [exact H1 | exact H2 | |].
    + intros t Ht. apply in_app_or in Ht as [Ht|Ht]; [apply H1; exact Ht|].
      apply filter_In in Ht as [Ht Hq]. apply in_kube_tasks in Ht as (h & b & Hh & Hb & _ & ->).
      cbn [t_queue] in Hq. unfold task_ok, ctx_ok. cbn. rewrite (binding_queue_kube cfg h b W Hh Hb), Hq. reflexivity.
    + rewrite E_app. apply sub_app; [apply sub_refl|].
      destruct (kube_tasks_le1 cfg unl mon obj W) as [E0|[t E0]].
      * rewrite E0. constructor. constructor.
      * assert (Ht : In t (kube_tasks cfg unl mon obj)) by (rewrite E0; left; reflexivity).
        rewrite E0. apply in_kube_tasks in Ht as (h & b & _ & _ & _ & ->). cbn [filter t_queue].
        destruct (N.eqb (kb_queue b) (q_name q)); [apply sub_refl | apply sub_nil_l].
  - apply (QI_tail cfg (Finish q0 ok)) in HQ; [|reflexivity].
    destruct (N.eqb (q_name q) q0); [apply finish_one_QI|]; exact HQ.
  - apply (QI_tail cfg Stop); [reflexivity | exact HQ].
  - apply (QI_tail cfg (FinishWait q0)) in HQ; [|reflexivity].
    destruct (N.eqb (q_name q) q0); [apply finish_one_QI|]; exact HQ.
  - apply (QI_tail cfg (Elapse q0)) in HQ; [|reflexivity].
    destruct (N.eqb (q_name q) q0); [apply elapse_one_QI|]; exact HQ.
Qed.

Lemma step_q_QI cfg a acts on unl stp qok q : wf_config cfg = true ->
  QI cfg (a :: acts) q -> QI cfg acts (step_q cfg a on unl stp qok q).
Proof.
  intros W HQ. rewrite step_q_eq. destruct (stp || is_stop a); [|apply adv_one_QI]; apply pre_q_QI; assumption.
Qed.

(* ---- bootstrap ---- *)

Lemma boot_main_tasks cfg t : In t (boot_main cfg) -> task_ok cfg 0 t = true /\ evs (t_ctxs t) = [].
Proof.
  unfold boot_main. intros H. apply in_app_or in H as [H|H].
  - apply in_map_iff in H as [h [<- _]]. split; reflexivity.
  - apply in_flat_map in H as [h [_ H]]. unfold enable_tasks in H.
    destruct (h_kube h); destruct (h_sched h); simpl in H;
      repeat (destruct H as [<-|H]; [split; reflexivity|]); destruct H.
Qed.

Lemma fold_add_queue_all (Pq : qstate -> Prop) : (forall n, Pq (mkQ n [] None false)) ->
  forall l qs, (forall q, In q qs -> Pq q) -> forall q, In q (fold_left add_queue l qs) -> Pq q.
Proof.
  intros P0. induction l as [|n l IH]; intros qs H q Hq; [apply H; exact Hq|].
  simpl in Hq. apply (IH (add_queue qs n)); [|exact Hq].
  intros x Hx. unfold add_queue in Hx. destruct (has_queue qs n); [apply H; exact Hx|].
  apply in_app_or in Hx as [Hx|[<-|[]]]; [apply H; exact Hx | apply P0].
Qed.

Lemma boot_queues_QI cfg acts : increasing (objs acts) = true ->
  forall q, In q (boot_queues cfg) -> QI cfg acts q.
Proof.
  intros Hi. unfold boot_queues.
  assert (P0 : forall n, QI cfg acts (mkQ n [] None false)).
  { intros n. split; [intros t []|exact Hi]. }
  apply (fold_add_queue_all _ P0). apply (fold_add_queue_all _ P0).
  intros q [<-|[]]. split; cbn [q_name q_items].
  - intros t Ht. apply (boot_main_tasks cfg t Ht).
  - rewrite E_nil; [exact Hi|]. intros t Ht. apply (boot_main_tasks cfg t Ht).
Qed.

(* ---- states without queues ---- *)

Lemma advance_nil cfg s1 : queues s1 = [] -> queues (advance cfg s1) = [].
Proof. intros H. unfold advance. destruct (stopped s1); [exact H|]. rewrite H. reflexivity. Qed.

Lemma append_tasks_nil ts : append_tasks [] ts = [].
Proof. unfold append_tasks. induction ts as [|t ts IH]; [reflexivity | exact IH]. Qed.

Lemma preboot_stays cfg s a : queues s = [] -> a <> Boot -> queues (step cfg s a) = [].
Proof.
  intros Q Ha. unfold step. apply advance_nil. destruct a; cbn [queues]; rewrite ?Q.
  - contradiction.
  - apply append_tasks_nil.
  - apply append_tasks_nil.
  - reflexivity.
  - reflexivity.
  - reflexivity.
  - reflexivity.
Qed.

(* ------------------------------------------------------------------ the invariant of a state *)

Definition SInv (cfg : config) (acts : list action) (s : state) : Prop :=
  Inv s /\ increasing (objs acts) = true /\ forall q, In q (queues s) -> QI cfg acts q.

Lemma step_SInv cfg a acts s : wf_config cfg = true -> SInv cfg (a :: acts) s -> SInv cfg acts (step cfg s a).
Proof.
  intros W (HI & Ho & Hq).
  assert (Ho' : increasing (objs acts) = true).
  { apply (increasing_sub _ (objs (a :: acts))); [|exact Ho]. rewrite objs_cons. apply sub_app_l, sub_refl. }
  split; [apply step_inv; exact HI|]. split; [exact Ho'|].
  intros q' Hq'. destruct (queues s) as [|q0 qs0] eqn:Q.
  - destruct a; try (rewrite preboot_stays in Hq'; [destruct Hq' | exact Q | discriminate]).
    (* Boot *)
    unfold step in Hq'. rewrite Q in Hq'.
    rewrite (step_shape cfg (mkSt (boot_queues cfg) (sched_on s) (unlocked s) (mon_started s) (stopped s))
               (fun q => q) (boot_queues cfg)) in Hq'; [|cbn [queues]; now rewrite map_id | reflexivity].
    apply in_map_iff in Hq' as [q [<- Hin]]. cbn [stopped].
    pose proof (boot_queues_QI cfg acts Ho' q Hin) as HQ.
    destruct (stopped s); [exact HQ | apply adv_one_QI; exact HQ].
  - assert (Hne : queues s <> []) by (rewrite Q; discriminate).
    rewrite (step_queue_local cfg s a (inv_names s HI) Hne) in Hq'.
    apply in_map_iff in Hq' as [q [<- Hin]]. apply step_q_QI; [exact W|]. apply Hq. rewrite <- Q. exact Hin.
Qed.

(* ------------------------------------------------------------------ the observation *)

Lemma insert_q_perm q l : Permutation (insert_q q l) (q :: l).
Proof.
  induction l as [|x r IH]; simpl; [reflexivity|].
  destruct (N.leb (q_name q) (q_name x)); [reflexivity|]. rewrite IH. apply perm_swap.
Qed.
Lemma sort_queues_perm l : Permutation (sort_queues l) l.
Proof. induction l as [|x l IH]; simpl; [reflexivity|]. rewrite insert_q_perm. now constructor. Qed.

Definition obsq (s : state) (q : qstate) : qobs :=
  mkQO (q_name q) (q_items q) (in_handler q) (stopped s && negb (in_handler q))
       (is_running q && q_delay q && negb (stopped s)).

Definition exq (cfg : config) (q : qstate) : list eobs :=
  match q_running q, q_items q, q_delay q with
  | Some _, t :: _, false => [mkEO (q_name q) (t_hook t) (map (render_ctx (hook_v0 cfg (t_hook t))) (t_ctxs t))]
  | _, _, _ => []
  end.

Lemma observe_eq cfg s :
  observe cfg s = mkSO (map (obsq s) (sort_queues (queues s))) (flat_map (exq cfg) (sort_queues (queues s)))
                       (sort_dedup (unlocked s)) [] false.
Proof. reflexivity. Qed.

Lemma sorted_in s q : In q (sort_queues (queues s)) <-> In q (queues s).
Proof.
  split; intros H.
  - apply (Permutation_in _ (sort_queues_perm _)). exact H.
  - apply (Permutation_in _ (Permutation_sym (sort_queues_perm _))). exact H.
Qed.

Lemma sorted_nodup s : Inv s -> NoDup (map q_name (sort_queues (queues s))).
Proof.
  intros HI. apply (Permutation_NoDup (Permutation_map q_name (Permutation_sym (sort_queues_perm (queues s))))).
  exact (inv_names s HI).
Qed.

Lemma exq_in cfg q e : In e (exq cfg q) ->
  in_handler q = true /\
  exists t r, q_items q = t :: r /\
              e = mkEO (q_name q) (t_hook t) (map (render_ctx (hook_v0 cfg (t_hook t))) (t_ctxs t)).
Proof.
  unfold exq, in_handler, is_running. destruct (q_running q); [|intros []].
  destruct (q_items q) as [|t r]; [intros []|]. destruct (q_delay q); [intros []|].
  intros [<-|[]]. split; [reflexivity|]. exists t, r. split; reflexivity.
Qed.

Lemma exq_of_handler cfg q : in_handler q = true -> q_items q <> [] ->
  exists e, exq cfg q = [e] /\ eo_queue e = q_name q.
Proof.
  unfold exq, in_handler, is_running. intros R I. destruct (q_running q); [|discriminate].
  destruct (q_items q) as [|t r]; [contradiction|]. destruct (q_delay q); [discriminate|].
  eexists. split; reflexivity.
Qed.

Lemma find_q_obs s l q : NoDup (map q_name l) -> In q l -> find_q (q_name q) (map (obsq s) l) = Some (obsq s q).
Proof.
  intros ND Hin. unfold find_q.
  apply (find_unique qo_name (map (obsq s) l) (obsq s q)).
  - rewrite map_map. exact ND.
  - apply in_map. exact Hin.
Qed.

Lemma find_e_some n es e : In e es -> eo_queue e = n -> exists e', find_e n es = Some e'.
Proof.
  unfold find_e. intros H E0. destruct (find (fun x => N.eqb (eo_queue x) n) es) eqn:F; [eauto|].
  exfalso. apply (find_none _ _ F) in H. subst n. now rewrite N.eqb_refl in H.
Qed.

(* reflexivity of the comparison functions *)
Lemma hookctx_eqb_refl a : hookctx_eqb a a = true.
Proof. destruct a as [[[a b] c] d]. unfold hookctx_eqb. now rewrite !N.eqb_refl. Qed.
Lemma ctx_eqb_refl c : ctx_eqb c c = true.
Proof. unfold ctx_eqb. rewrite !N.eqb_refl. destruct (c_kind c); reflexivity. Qed.
Lemma task_eqb_refl t : task_eqb t t = true.
Proof.
  unfold task_eqb. rewrite !N.eqb_refl, !Bool.eqb_reflx.
  rewrite (list_eqb_refl ctx_eqb ctx_eqb_refl), (list_eqb_refl N.eqb N.eqb_refl).
  destruct (t_type t); destruct (t_btype t); reflexivity.
Qed.
Lemma qobs_eqb_refl q : qobs_eqb q q = true.
Proof.
  unfold qobs_eqb. rewrite N.eqb_refl, !Bool.eqb_reflx, (list_eqb_refl task_eqb task_eqb_refl). reflexivity.
Qed.

(* ---- the clauses that speak about one observation ---- *)

Lemma clause_nodup_execs cfg s : Inv s -> nodup_N (map eo_queue (so_execs (observe cfg s))) = true.
Proof.
  intros HI. rewrite observe_eq. cbn [so_execs]. apply nodup_N_iff.
  pose proof (sorted_nodup s HI) as ND. induction (sort_queues (queues s)) as [|q l IH]; [constructor|].
  simpl in ND. inversion ND as [|? ? Hn Hr]; subst. cbn [flat_map]. rewrite map_app.
  assert (Hl : forall e, In e (flat_map (exq cfg) l) -> In (eo_queue e) (map q_name l)).
  { intros e He. apply in_flat_map in He as [x [Hx He]]. apply exq_in in He as (_ & t & r & _ & ->).
    cbn [eo_queue]. apply in_map. exact Hx. }
  unfold exq at 1. destruct (q_running q); [|apply IH; exact Hr].
  destruct (q_items q) as [|t r]; [apply IH; exact Hr|]. destruct (q_delay q); [apply IH; exact Hr|].
  cbn [map app eo_queue]. constructor; [|apply IH; exact Hr].
  intros Hin. apply in_map_iff in Hin as [e [Ee He]]. apply Hn. rewrite <- Ee. apply Hl. exact He.
Qed.

Lemma clause_exec_is_head cfg s : Inv s ->
  forallb (exec_is_head cfg (observe cfg s)) (so_execs (observe cfg s)) = true.
Proof.
  intros HI. apply forallb_forall. intros e He. rewrite observe_eq in He. cbn [so_execs] in He.
  apply in_flat_map in He as [q [Hq He]]. apply exq_in in He as (R & t & r & I & ->).
  unfold exec_is_head. rewrite observe_eq. cbn [so_queues eo_queue eo_hook eo_ctxs].
  rewrite (find_q_obs s _ q (sorted_nodup s HI) Hq). cbn [obsq qo_running qo_items]. rewrite R, I.
  rewrite N.eqb_refl. cbn [andb]. apply list_eqb_refl. exact hookctx_eqb_refl.
Qed.

Lemma clause_running_has_exec cfg s : Inv s ->
  forallb (running_has_exec (observe cfg s)) (so_queues (observe cfg s)) = true.
Proof.
  intros HI. apply forallb_forall. intros qo Hqo. rewrite observe_eq in Hqo. cbn [so_queues] in Hqo.
  apply in_map_iff in Hqo as [q [<- Hq]]. unfold running_has_exec. cbn [obsq qo_running qo_name].
  destruct (in_handler q) eqn:R; [|reflexivity].
  assert (B : q_items q <> []).
  { pose proof (inv_busy s HI) as I2. rewrite Forall_forall in I2. apply (I2 q); [apply sorted_in; exact Hq|].
    unfold in_handler in R. apply andb_true_iff in R as [R _]. exact R. }
  destruct (exq_of_handler cfg q R B) as [e [Ee En]].
  destruct (find_e_some (q_name q) (so_execs (observe cfg s)) e) as [e' F]; [|exact En|rewrite F; reflexivity].
  rewrite observe_eq. cbn [so_execs]. apply in_flat_map. exists q. split; [exact Hq|]. rewrite Ee. left. reflexivity.
Qed.

Lemma clause_routed cfg acts s : SInv cfg acts s ->
  forallb (queue_routed cfg) (so_queues (observe cfg s)) = true.
Proof.
  intros (HI & _ & Hq). apply forallb_forall. intros qo Hqo. rewrite observe_eq in Hqo. cbn [so_queues] in Hqo.
  apply in_map_iff in Hqo as [q [<- Hin]]. apply sorted_in in Hin. unfold queue_routed. cbn [obsq qo_name qo_items].
  apply forallb_forall. intros t Ht. apply task_ok_routed. destruct (Hq q Hin) as [H1 _]. apply H1. exact Ht.
Qed.

Lemma clause_ordered cfg acts s : SInv cfg acts s ->
  forallb queue_events_ordered (so_queues (observe cfg s)) = true.
Proof.
  intros (HI & _ & Hq). apply forallb_forall. intros qo Hqo. rewrite observe_eq in Hqo. cbn [so_queues] in Hqo.
  apply in_map_iff in Hqo as [q [<- Hin]]. apply sorted_in in Hin. unfold queue_events_ordered.
  change (event_numbers (obsq s q)) with (E (q_items q)).
  destruct (Hq q Hin) as [_ H2]. apply (increasing_sub _ _ (sub_app_r (objs acts) (E (q_items q))) H2).
Qed.

(* ---- independence: the clause that speaks about two consecutive observations ---- *)

Lemma clause_untouched cfg s a : Inv s ->
  untouched_same cfg a (observe cfg s) (observe cfg (step cfg s a)) = true.
Proof.
  intros HI. unfold untouched_same. apply forallb_forall. intros qo Hqo.
  rewrite observe_eq in Hqo. cbn [so_queues] in Hqo. apply in_map_iff in Hqo as [q' [<- Hq']].
  apply sorted_in in Hq'. cbn [obsq qo_name].
  destruct (touched cfg a (q_name q')) eqn:T; [reflexivity|].
  destruct (queues s) as [|q0 qs0] eqn:Q.
  - destruct a; try discriminate T; (rewrite preboot_stays in Hq'; [destruct Hq' | exact Q | discriminate]).
  - assert (Hne : queues s <> []) by (rewrite Q; discriminate).
    rewrite (step_queue_local cfg s a (inv_names s HI) Hne) in Hq'.
    apply in_map_iff in Hq' as [q [Eq Hin]].
    assert (Hname : q_name q' = q_name q) by (rewrite <- Eq; apply step_q_name).
    rewrite Hname in T.
    assert (Same : q' = q).
    { rewrite <- Eq. apply (other_queue_untouched cfg s a q HI Hin).
      destruct a; cbn [touched] in T; try discriminate T.
      - apply filter_none. intros t Ht. apply in_sched_tasks in Ht as (h & b & Hh & Hb & Hc & ->). cbn [t_queue].
        destruct (N.eqb (sb_queue b) (q_name q)) eqn:E0; [|reflexivity]. exfalso.
        assert (X : existsb (fun hb : hook * sbinding => N.eqb (sb_cron (snd hb)) c && N.eqb (sb_queue (snd hb)) (q_name q))
                      (sched_bindings cfg) = true).
        { apply existsb_exists. exists (h, b). split; [apply in_sched_bindings; assumption|].
          cbn [snd]. rewrite Hc, N.eqb_refl, E0. reflexivity. }
        congruence.
      - apply filter_none. intros t Ht. apply in_kube_tasks in Ht as (h & b & Hh & Hb & Hc & ->). cbn [t_queue].
        destruct (N.eqb (kb_queue b) (q_name q)) eqn:E0; [|reflexivity]. exfalso.
        assert (X : existsb (fun hb : hook * kbinding => N.eqb (kb_mon (snd hb)) mon && N.eqb (kb_queue (snd hb)) (q_name q))
                      (kube_bindings cfg) = true).
        { apply existsb_exists. exists (h, b). split; [apply in_kube_bindings; assumption|].
          cbn [snd]. rewrite Hc, N.eqb_refl, E0. reflexivity. }
        congruence.
      - apply N.eqb_neq. rewrite N.eqb_sym. exact T.
      - apply N.eqb_neq. rewrite N.eqb_sym. exact T.
      - apply N.eqb_neq. rewrite N.eqb_sym. exact T. }
    subst q'. rewrite !Same.
    assert (St : stopped (step cfg s a) = stopped s).
    { rewrite step_stopped. destruct a; cbn [is_stop]; try apply orb_false_r. discriminate T. }
    rewrite observe_eq. cbn [so_queues].
    rewrite (find_q_obs s _ q (sorted_nodup s HI)); [|apply sorted_in; exact Hin].
    unfold obsq. rewrite St. apply qobs_eqb_refl.
Qed.

(* ------------------------------------------------------------------ assembling *)

Lemma step_ok_holds cfg a acts s : wf_config cfg = true -> SInv cfg (a :: acts) s ->
  step_ok cfg a (observe cfg s) (observe cfg (step cfg s a)) = true.
Proof.
  intros W HS. pose proof (step_SInv cfg a acts s W HS) as HS'.
  destruct HS as (HI & _). pose proof HS' as (HI' & _).
  unfold step_ok.
  rewrite (clause_nodup_execs cfg _ HI'), (clause_exec_is_head cfg _ HI'), (clause_running_has_exec cfg _ HI'),
          (clause_routed cfg acts _ HS'), (clause_ordered cfg acts _ HS'), (clause_untouched cfg s a HI).
  reflexivity.
Qed.

Lemma all_steps_from cfg : wf_config cfg = true -> forall acts s, SInv cfg acts s ->
  all_steps (step_ok cfg) (observe cfg s) acts (map (observe cfg) (trace_from cfg s acts)) = true.
Proof.
  intros W. induction acts as [|a acts IH]; intros s HS; [reflexivity|].
  cbn [trace_from map all_steps].
  rewrite (IH (step cfg s a) (step_SInv cfg a acts s W HS)), andb_true_r.
  apply (step_ok_holds cfg a acts s W HS).
Qed.

(* The whole property predicate of C03 holds of the model, for every configuration whose
   binding names are unique and whose monitors are named after their bindings, and for every
   sequence of actions (ticks, events with increasing numbers, ends of executions with or
   without a back-off delay, ends of delays, shutdown, at any point). *)
Theorem P_holds : forall cfg acts, wf_config cfg = true -> wf_acts acts = true ->
  C03_Spec.P (cfg, acts, Op_Corr.model_obs (cfg, acts, [])) = true.
Proof.
  intros cfg acts W Ha. unfold P, model_obs, c_cfg, c_acts, c_obs, trace. cbn [fst snd].
  change empty_obs with (observe cfg init).
  apply (all_steps_from cfg W acts init). split; [exact init_inv|]. split; [exact Ha|]. intros q [].
Qed.
