(* C06_PProofs.v — the decidable predicate C06_Spec.P holds of the model's own observations,
   for every well-formed configuration and every action sequence.
   Method: a decidable invariant [sinv] of the model state (per task, per queue, global),
   kept by every action and by the workers' round, from which every clause of the step
   predicate follows. *)
From Verif Require Import Common Op_Model Op_Corr Op_Spec Op_Proofs C06_Spec C06_Proofs.
From Verif Require C17_Proofs.
From Coq Require Import Permutation.
Open Scope N_scope.

(* ------------------------------------------------------------------ the invariant (decidable) *)

Definition nilb {A} (l : list A) : bool := match l with [] => true | _ => false end.
Definition is_ksync (c : ctx) : bool := match c_kind c with KSync => true | _ => false end.
Definition nosync (t : task) : bool := forallb (fun c => negb (is_ksync c)) (t_ctxs t).
Definition is_bkube (t : task) : bool := match t_btype t with BKube => true | _ => false end.
Definition is_hookrun (t : task) : bool := match t_type t with HookRun => true | _ => false end.
Definition is_es (t : task) : bool := match t_type t with EnableSched => true | _ => false end.

(* the elements satisfying [p] come first *)
Fixpoint first_then {A} (p : A -> bool) (l : list A) : bool :=
  match l with
  | [] => true
  | x :: r => (p x || forallb (fun y => negb (p y)) r) && first_then p r
  end.

(* a Synchronization context that may be shown: its binding is not exempt *)
Definition ctx_fine (cfg : config) (c : ctx) : bool := negb (is_ksync c) || negb (sync_exempt cfg (c_binding c)).

Definition startup_ctxs (l : list ctx) : bool :=
  match l with
  | [c] => N.eqb (c_binding c) 0 && match c_kind c with KStartup => true | _ => false end
  | _ => false
  end.

(* per task *)
Definition tk (cfg : config) (unl : list N) (t : task) : bool :=
  let v0 := hook_v0 cfg (t_hook t) in
  match t_type t with
  | HookRun =>
      negb (nilb (t_ctxs t))
      && (is_bkube t || nosync t)
      && (if should_run v0 t then v0 || forallb (ctx_fine cfg) (t_ctxs t)
          else forallb (sync_exempt cfg) (t_mids t))
      && (if is_st t then nilb (t_mids t) && N.eqb (t_queue t) no_queue && startup_ctxs (t_ctxs t) && negb (t_allow t)
          else forallb (fun c => negb (N.eqb (c_binding c) 0)) (t_ctxs t))
      && (match t_btype t with BSchedule => hook_kube_unlocked cfg (t_hook t) unl | _ => true end)
  | _ => nilb (t_ctxs t) && negb (is_st t)
  end.

Definition hook_mons (cfg : config) (h : N) : list N :=
  match find_hook cfg h with Some x => map kb_mon (h_kube x) | None => [] end.

(* when an EnableScheduleBindings task is reached, the monitors of its hook are unlocked:
   [prom] = monitors unlocked or covered by a task in front *)
Fixpoint c5 (cfg : config) (prom : list N) (l : list task) : bool :=
  match l with
  | [] => true
  | t :: r =>
      match t_type t with
      | EnableSched => forallb (fun m => mem_N m prom) (hook_mons cfg (t_hook t)) && c5 cfg prom r
      | EnableKube => c5 cfg (prom ++ hook_mons cfg (t_hook t)) r
      | HookRun => c5 cfg (prom ++ t_mids t) r
      end
  end.

Definition qi (cfg : config) (unl : list N) (items : list task) : bool :=
  forallb (tk cfg unl) items
  && first_then is_ksync (flat_map t_ctxs items)
  && first_then is_st items
  && c5 cfg unl items.

(* tasks of the named queues *)
Definition plain (t : task) : bool := is_hookrun t && nosync t && negb (is_st t) && nilb (t_mids t).

Definition qinv (cfg : config) (unl : list N) (q : qstate) : bool :=
  qi cfg unl (q_items q)
  && (match q_running q, q_items q with
      | Some _, t :: _ => is_hookrun t && should_run (hook_v0 cfg (t_hook t)) t
      | _, _ => true
      end)
  && (N.eqb (q_name q) 0 || forallb plain (q_items q)).

Definition sinv (cfg : config) (s : state) : bool :=
  forallb (qinv cfg (unlocked s)) (queues s)
  && forallb (fun h => hook_kube_unlocked cfg h (unlocked s)) (sched_on s).

(* the hooks whose onStartup task is still queued *)
Definition main_items (s : state) : list task := match queues s with q :: _ => q_items q | [] => [] end.
Definition main_busy (s : state) : bool := match queues s with q :: _ => in_handler q | [] => false end.
Definition st_hooks (l : list task) : list N := map t_hook (filter is_st l).

Definition dinv (cfg : config) (done : list N) (s : state) : bool :=
  prefix_N done (expected_startup cfg)
  && (match queues s with
      | [] => nilb done
      | _ => negb (negb (stopped s) || main_busy s)
             || list_eqb N.eqb (done ++ st_hooks (main_items s)) (expected_startup cfg)
      end).

(* ------------------------------------------------------------------ list helpers *)

Lemma forallb_In {A} (f : A -> bool) l x : forallb f l = true -> In x l -> f x = true.
Proof. intros H Hx. rewrite forallb_forall in H. now apply H. Qed.

Lemma first_then_all_not {A} (p : A -> bool) l :
  forallb (fun y => negb (p y)) l = true -> first_then p l = true.
Proof.
  induction l as [|x r IH]; intros H; [reflexivity|]. simpl in *.
  apply andb_true_iff in H as [H1 H2]. rewrite H2, orb_true_r. simpl. now apply IH.
Qed.

Lemma first_then_app_all {A} (p : A -> bool) a b :
  forallb p a = true -> first_then p b = true -> first_then p (a ++ b) = true.
Proof.
  induction a as [|x r IH]; intros Ha Hb; [exact Hb|]. simpl in *.
  apply andb_true_iff in Ha as [H1 H2]. rewrite H1. simpl. now apply IH.
Qed.

Lemma first_then_suffix {A} (p : A -> bool) a b : first_then p (a ++ b) = true -> first_then p b = true.
Proof.
  induction a as [|x r IH]; intros H; [exact H|]. simpl in H.
  apply andb_true_iff in H as [_ H]. now apply IH.
Qed.

Lemma first_then_snoc {A} (p : A -> bool) a b :
  first_then p a = true -> forallb (fun y => negb (p y)) b = true -> first_then p (a ++ b) = true.
Proof.
  induction a as [|x r IH]; intros Ha Hb; [now apply first_then_all_not|]. simpl in *.
  apply andb_true_iff in Ha as [H1 H2]. rewrite (IH H2 Hb), andb_true_r.
  apply orb_true_iff in H1 as [H1|H1]; [now rewrite H1|].
  rewrite forallb_app, H1, Hb. apply orb_true_r.
Qed.

(* after a first element not satisfying [p], no element satisfies it *)
Lemma first_then_head_not {A} (p : A -> bool) x r :
  first_then p (x :: r) = true -> p x = false -> forallb (fun y => negb (p y)) r = true.
Proof. simpl. intros H Hx. rewrite Hx in H. simpl in H. now apply andb_true_iff in H as [H _]. Qed.

Lemma compact_in c l : In c (compact l) -> In c l.
Proof.
  induction l as [|x r IH]; intros H; [exact H|]. cbn [compact] in H.
  destruct r as [|n r'].
  - exact H.
  - destruct (negb (N.eqb (c_group x) 0) && N.eqb (c_group n) (c_group x)).
    + right. now apply IH.
    + destruct H as [H|H]; [now left | right; now apply IH].
Qed.

Lemma compact_nonnil l : nilb l = false -> nilb (compact l) = false.
Proof.
  induction l as [|x r IH]; intros H; [discriminate|]. cbn [compact].
  destruct r as [|n r']; [reflexivity|].
  destruct (negb (N.eqb (c_group x) 0) && N.eqb (c_group n) (c_group x)); [now apply IH | reflexivity].
Qed.

Lemma forallb_compact (f : ctx -> bool) l : forallb f l = true -> forallb f (compact l) = true.
Proof.
  intros H. apply forallb_forall. intros c Hc. apply (forallb_In f l); [exact H | now apply compact_in].
Qed.

Lemma first_then_compact (p : ctx -> bool) a b :
  first_then p (a ++ b) = true -> first_then p (compact a ++ b) = true.
Proof.
  induction a as [|x r IH]; intros H; [exact H|]. cbn [compact].
  destruct r as [|n r']; [exact H|].
  change ((x :: n :: r') ++ b) with (x :: (n :: r') ++ b) in H. cbn [first_then] in H.
  apply andb_true_iff in H as [H1 H2]. specialize (IH H2).
  destruct (negb (N.eqb (c_group x) 0) && N.eqb (c_group n) (c_group x)); [exact IH|].
  change ((x :: compact (n :: r')) ++ b) with (x :: compact (n :: r') ++ b). cbn [first_then].
  rewrite IH, andb_true_r. apply orb_true_iff in H1 as [H1|H1]; [now rewrite H1|].
  rewrite forallb_app in H1. apply andb_true_iff in H1 as [H1a H1b].
  rewrite forallb_app, H1b, (forallb_compact _ _ H1a). apply orb_true_r.
Qed.

(* ------------------------------------------------------------------ monotonicity in the unlocked set *)

Definition sub (a b : list N) : Prop := forall x, mem_N x a = true -> mem_N x b = true.

Lemma sub_refl a : sub a a. Proof. intros x H; exact H. Qed.
Lemma sub_trans a b c : sub a b -> sub b c -> sub a c. Proof. intros H1 H2 x H. auto. Qed.
Lemma mem_N_app x a b : mem_N x (a ++ b) = mem_N x a || mem_N x b.
Proof. unfold mem_N. apply existsb_app. Qed.
Lemma sub_app_l a b : sub a (a ++ b). Proof. intros x H. rewrite mem_N_app, H. reflexivity. Qed.
Lemma sub_app a b c : sub a b -> sub (a ++ c) (b ++ c).
Proof. intros H x Hx. rewrite mem_N_app in *. apply orb_true_iff in Hx as [Hx|Hx]; [rewrite (H x Hx)|rewrite Hx, orb_true_r]; reflexivity. Qed.
Lemma sub_nil_r a : sub (a ++ []) a. Proof. rewrite app_nil_r. apply sub_refl. Qed.

Lemma hku_mono cfg h a b : sub a b -> hook_kube_unlocked cfg h a = true -> hook_kube_unlocked cfg h b = true.
Proof.
  intros S. unfold hook_kube_unlocked. destruct (find_hook cfg h) as [x|]; [|auto].
  intros H. apply forallb_forall. intros k Hk. apply S. apply (forallb_In _ _ k H Hk).
Qed.

Lemma tk_mono cfg a b t : sub a b -> tk cfg a t = true -> tk cfg b t = true.
Proof.
  intros S. unfold tk. destruct (t_type t); auto. rewrite !andb_true_iff. intros [H1 H2]. split; [exact H1|].
  destruct (t_btype t); auto. now apply (hku_mono cfg (t_hook t) a b).
Qed.

Lemma c5_mono cfg : forall l a b, sub a b -> c5 cfg a l = true -> c5 cfg b l = true.
Proof.
  induction l as [|t r IH]; intros a b S H; [reflexivity|]. cbn [c5] in *.
  destruct (t_type t).
  - apply (IH (a ++ t_mids t)); [now apply sub_app | exact H].
  - apply (IH (a ++ hook_mons cfg (t_hook t))); [now apply sub_app | exact H].
  - apply andb_true_iff in H as [H1 H2]. rewrite (IH a b S H2), andb_true_r.
    apply forallb_forall. intros m Hm. apply S. apply (forallb_In _ _ m H1 Hm).
Qed.

Lemma qi_mono cfg a b l : sub a b -> qi cfg a l = true -> qi cfg b l = true.
Proof.
  intros S. unfold qi. rewrite !andb_true_iff. intros [[[H1 H2] H3] H5]. repeat split; auto.
  - apply forallb_forall. intros t Ht. apply (tk_mono cfg a b t S). apply (forallb_In _ _ t H1 Ht).
  - now apply (c5_mono cfg l a b).
Qed.

Lemma qinv_mono cfg a b q : sub a b -> qinv cfg a q = true -> qinv cfg b q = true.
Proof.
  intros S. unfold qinv. rewrite !andb_true_iff. intros [[H1 H2] H3]. repeat split; auto.
  now apply (qi_mono cfg a b).
Qed.

Lemma forallb_qinv_mono cfg a b qs : sub a b ->
  forallb (qinv cfg a) qs = true -> forallb (qinv cfg b) qs = true.
Proof.
  intros S H. apply forallb_forall. intros q Hq. apply (qinv_mono cfg a b q S). apply (forallb_In _ _ q H Hq).
Qed.

(* ------------------------------------------------------------------ facts about single tasks *)

Lemma nosync_not_sync t : nosync t = true -> is_sync t = false.
Proof.
  unfold nosync, is_sync. destruct (t_btype t); auto. destruct (t_ctxs t) as [|c r]; auto.
  simpl. unfold is_ksync. destruct (c_kind c); simpl; intros H; try reflexivity; discriminate H.
Qed.

(* the first context of a task that is not a Synchronization is not a Synchronization context *)
Lemma head_ctx_not_sync t c r :
  is_sync t = false -> is_bkube t || nosync t = true -> t_ctxs t = c :: r -> is_ksync c = false.
Proof.
  unfold is_sync, is_bkube, nosync. intros H1 H2 E. rewrite E in *. unfold is_ksync in *.
  destruct (t_btype t); simpl in H2; try (apply andb_true_iff in H2 as [H2 _]; now apply negb_true_iff in H2).
  destruct (c_kind c); auto.
Qed.

Lemma no_sync_behind t more :
  is_sync t = false -> nilb (t_ctxs t) = false -> is_bkube t || nosync t = true ->
  first_then is_ksync (t_ctxs t ++ more) = true ->
  forallb (fun c => negb (is_ksync c)) (t_ctxs t ++ more) = true.
Proof.
  intros H1 H2 H3 H4. destruct (t_ctxs t) as [|c r] eqn:E; [discriminate|].
  pose proof (head_ctx_not_sync t c r H1 H3 E) as Hc.
  change ((c :: r) ++ more) with (c :: r ++ more) in *. cbn [forallb]. rewrite Hc. simpl.
  now apply (first_then_head_not is_ksync c).
Qed.

Record tk_facts (cfg : config) (unl : list N) (t : task) : Prop := mkTkF {
  tf_ctxs : nilb (t_ctxs t) = false;
  tf_kube : is_bkube t || nosync t = true;
  tf_run : if should_run (hook_v0 cfg (t_hook t)) t
           then hook_v0 cfg (t_hook t) || forallb (ctx_fine cfg) (t_ctxs t) = true
           else forallb (sync_exempt cfg) (t_mids t) = true;
  tf_st : if is_st t then nilb (t_mids t) && N.eqb (t_queue t) no_queue && startup_ctxs (t_ctxs t) && negb (t_allow t) = true
          else forallb (fun c => negb (N.eqb (c_binding c) 0)) (t_ctxs t) = true;
  tf_sched : match t_btype t with BSchedule => hook_kube_unlocked cfg (t_hook t) unl | _ => true end = true
}.

Lemma tk_hr cfg unl t : is_hookrun t = true -> (tk cfg unl t = true <-> tk_facts cfg unl t).
Proof.
  unfold is_hookrun, tk. destruct (t_type t); try discriminate. intros _.
  rewrite !andb_true_iff, negb_true_iff. split.
  - intros [[[[H1 H2] H3] H4] H5]. constructor; auto.
    + destruct (should_run _ t); exact H3.
    + destruct (is_st t); exact H4.
  - intros [H1 H2 H3 H4 H5]. repeat split; auto.
    + destruct (should_run _ t); exact H3.
    + destruct (is_st t); exact H4.
Qed.

Lemma take_block_spec t : forall l b r, take_block t l = (b, r) ->
  l = b ++ r /\
  Forall (fun x => t_hook x = t_hook t /\ same_ttype (t_type x) (t_type t) = true
                   /\ is_sync t && is_sync x && negb (t_execsync x) = false) b.
Proof.
  induction l as [|x l IH]; intros b r H; simpl in H.
  - inversion H; subst. split; [reflexivity | constructor].
  - destruct (N.eqb (t_hook x) (t_hook t) && same_ttype (t_type x) (t_type t)
              && negb (is_sync t && is_sync x && negb (t_execsync x))) eqn:E.
    + destruct (take_block t l) as [b0 r0] eqn:T. inversion H; subst.
      destruct (IH b0 r eq_refl) as [I1 I2]. split; [now rewrite I1|].
      constructor; [|exact I2].
      apply andb_true_iff in E as [E E3]. apply andb_true_iff in E as [E1 E2].
      apply N.eqb_eq in E1. apply negb_true_iff in E3. auto.
    + inversion H; subst. split; [reflexivity | constructor].
Qed.

Lemma c5_no_es cfg : forall l p, existsb is_es l = false -> c5 cfg p l = true.
Proof.
  induction l as [|t r IH]; intros p H; [reflexivity|]. simpl in H. apply orb_false_iff in H as [H1 H2].
  cbn [c5]. unfold is_es in H1. destruct (t_type t); [now apply IH | now apply IH | discriminate].
Qed.

Lemma c5_hookruns cfg : forall b p r, forallb is_hookrun b = true ->
  c5 cfg p (b ++ r) = c5 cfg (p ++ flat_map t_mids b) r.
Proof.
  induction b as [|x b IH]; intros p r H; simpl.
  - now rewrite app_nil_r.
  - simpl in H. apply andb_true_iff in H as [H1 H2]. unfold is_hookrun in H1.
    destruct (t_type x); try discriminate. rewrite (IH _ _ H2). now rewrite app_assoc.
Qed.

(* ------------------------------------------------------------------ combining keeps the queue invariant *)

Lemma forallb_flat_map {A B} (f : B -> bool) (g : A -> list B) l :
  forallb f (flat_map g l) = forallb (fun x => forallb f (g x)) l.
Proof. induction l as [|x r IH]; [reflexivity|]. simpl. now rewrite forallb_app, IH. Qed.

Lemma should_run_false_inv t : should_run false t = false -> is_sync t = true /\ t_execsync t = false.
Proof.
  unfold should_run. simpl. intros H. apply negb_false_iff, andb_true_iff in H as [H1 H2].
  apply negb_true_iff in H2. auto.
Qed.

Lemma combine_inv cfg unl t rest :
  qi cfg unl (t :: rest) = true -> is_hookrun t = true -> hook_v0 cfg (t_hook t) = false ->
  should_run false t = true -> is_st t = false ->
  qi cfg unl (fst (combine t rest) :: snd (combine t rest)) = true
  /\ is_hookrun (fst (combine t rest)) = true
  /\ t_hook (fst (combine t rest)) = t_hook t
  /\ should_run false (fst (combine t rest)) = true
  /\ (forallb plain (t :: rest) = true -> forallb plain (fst (combine t rest) :: snd (combine t rest)) = true).
Proof.
  intros Hqi Hhr Hv0 Hsr Hst. unfold combine.
  destruct (take_block t rest) as [B rest'] eqn:TB.
  destruct (take_block_spec t rest B rest' TB) as [Erest HB].
  destruct B as [|x0 bl].
  { cbn [fst snd]. split; [exact Hqi|]. split; [exact Hhr|]. split; [reflexivity|]. split; [exact Hsr|]. auto. }
  remember (x0 :: bl) as B eqn:EB.
  assert (Bne : nilb B = false) by (subst B; reflexivity). clear EB x0 bl.
  cbn [fst snd]. subst rest.
  unfold qi in Hqi. rewrite !andb_true_iff in Hqi. destruct Hqi as [[[Htk Hsf] Hstf] Hc5].
  cbn [forallb] in Htk. apply andb_true_iff in Htk as [Htk_t Htk_r].
  rewrite forallb_app in Htk_r. apply andb_true_iff in Htk_r as [Htk_B Htk_r].
  apply (tk_hr cfg unl t Hhr) in Htk_t. destruct Htk_t as [F1 F2 F3 F4 F5].
  rewrite Hv0, Hsr in F3. cbn [orb] in F3. rewrite Hst in F4.
  cbn [flat_map] in Hsf. rewrite flat_map_app in Hsf.
  pose proof (first_then_head_not is_st t (B ++ rest') Hstf Hst) as Hnst.
  rewrite forallb_app in Hnst. apply andb_true_iff in Hnst as [Hnst_B Hnst_r].
  assert (HBhr : forallb is_hookrun B = true).
  { apply forallb_forall. intros x Hx. rewrite Forall_forall in HB. destruct (HB x Hx) as (_ & S & _).
    unfold is_hookrun in *. destruct (t_type t); try discriminate. destruct (t_type x); auto; discriminate. }
  assert (Hns : is_sync t = false ->
                forallb (fun c => negb (is_ksync c)) (t_ctxs t ++ flat_map t_ctxs B) = true).
  { intros Sy. pose proof (no_sync_behind t _ Sy F1 F2 Hsf) as G.
    rewrite !forallb_app in G. rewrite forallb_app. apply andb_true_iff in G as [G1 G2].
    apply andb_true_iff in G2 as [G2 _]. now rewrite G1, G2. }
  assert (HBfacts : forall x, In x B -> tk_facts cfg unl x /\ t_hook x = t_hook t /\ is_st x = false
                                        /\ is_sync t && is_sync x && negb (t_execsync x) = false).
  { intros x Hx. rewrite Forall_forall in HB. destruct (HB x Hx) as (Eh & _ & Cx).
    split; [|split; [exact Eh|split; [|exact Cx]]].
    - apply tk_hr; [apply (forallb_In _ _ x HBhr Hx) | apply (forallb_In _ _ x Htk_B Hx)].
    - apply negb_true_iff. apply (forallb_In _ _ x Hnst_B Hx). }
  (* the merged contexts *)
  assert (K1 : forallb (ctx_fine cfg) (t_ctxs t ++ flat_map t_ctxs B) = true).
  { rewrite forallb_app, F3. cbn [andb]. rewrite forallb_flat_map. apply forallb_forall. intros x Hx.
    destruct (HBfacts x Hx) as ([_ _ G3 _ _] & Eh & _ & Cx). rewrite Eh, Hv0 in G3.
    destruct (should_run false x) eqn:SRx; [exact G3|]. exfalso.
    destruct (should_run_false_inv x SRx) as [Sx Ex]. rewrite Sx, Ex in Cx. cbn in Cx.
    rewrite !andb_true_r in Cx. specialize (Hns Cx). rewrite forallb_app, forallb_flat_map in Hns.
    apply andb_true_iff in Hns as [_ Hns]. pose proof (forallb_In _ _ x Hns Hx) as Nx.
    apply nosync_not_sync in Nx. congruence. }
  assert (K2 : forallb (fun c => negb (N.eqb (c_binding c) 0)) (t_ctxs t ++ flat_map t_ctxs B) = true).
  { rewrite forallb_app, F4. cbn [andb]. rewrite forallb_flat_map. apply forallb_forall. intros x Hx.
    destruct (HBfacts x Hx) as ([_ _ _ G4 _] & _ & Sx & _). now rewrite Sx in G4. }
  set (cs := compact (t_ctxs t ++ flat_map t_ctxs B)).
  set (ms := t_mids t ++ flat_map t_mids B).
  set (t' := set_combined t cs ms (t_allow t && forallb t_allow B)).
  assert (Ecs : nilb cs = false).
  { apply compact_nonnil. destruct (t_ctxs t); [discriminate | reflexivity]. }
  assert (Hns' : is_sync t = false -> nosync t' = true).
  { intros Sy. unfold nosync. cbn [t' set_combined t_ctxs]. apply forallb_compact, Hns, Sy. }
  assert (SR' : should_run false t' = true).
  { destruct (should_run false t') eqn:E; [reflexivity|]. exfalso.
    destruct (should_run_false_inv t' E) as [S1 S2]. cbn [t' set_combined t_execsync] in S2.
    unfold should_run in Hsr. rewrite S2 in Hsr. cbn in Hsr. rewrite andb_true_r in Hsr.
    apply negb_true_iff in Hsr. apply Hns', nosync_not_sync in Hsr. congruence. }
  assert (TK' : tk cfg unl t' = true).
  { apply tk_hr; [exact Hhr|]. constructor.
    - exact Ecs.
    - unfold is_bkube. cbn [t' set_combined t_btype]. fold (is_bkube t).
      destruct (is_bkube t) eqn:Bk; [reflexivity|]. cbn [orb] in *.
      apply Hns'. now apply nosync_not_sync.
    - cbn [t' set_combined t_hook]. rewrite Hv0, SR'. cbn [orb]. cbn [t' set_combined t_ctxs].
      now apply forallb_compact.
    - unfold is_st. cbn [t' set_combined t_btype]. fold (is_st t). rewrite Hst.
      cbn [t' set_combined t_ctxs]. now apply forallb_compact.
    - exact F5. }
  split; [|split; [exact Hhr|split; [reflexivity|split; [exact SR'|]]]].
  - unfold qi. rewrite !andb_true_iff. repeat split.
    + cbn [forallb]. now rewrite TK', Htk_r.
    + cbn [flat_map]. cbn [t' set_combined t_ctxs]. unfold cs. apply first_then_compact.
      now rewrite <- app_assoc.
    + cbn [first_then]. unfold is_st at 1. cbn [t' set_combined t_btype]. fold (is_st t). rewrite Hst, Hnst_r.
      cbn [orb andb]. apply (first_then_suffix is_st (t :: B)). exact Hstf.
    + cbn [c5] in *. unfold is_hookrun in Hhr. destruct (t_type t) eqn:Ty; try discriminate.
      cbn [t' set_combined t_type]. rewrite Ty. cbn [t' set_combined t_mids]. unfold ms.
      rewrite (c5_hookruns cfg B _ rest' HBhr) in Hc5. now rewrite app_assoc.
  - intros Pl. cbn [forallb] in *. apply andb_true_iff in Pl as [Pt Pr].
    rewrite forallb_app in Pr. apply andb_true_iff in Pr as [PB Pr]. rewrite Pr, andb_true_r.
    unfold plain in Pt. rewrite !andb_true_iff in Pt. destruct Pt as [[[P1 P2] P3] P4].
    unfold plain. rewrite !andb_true_iff. repeat split.
    + exact Hhr.
    + apply Hns'. now apply nosync_not_sync.
    + exact P3.
    + cbn [t' set_combined t_mids]. unfold ms. destruct (t_mids t); [|discriminate]. cbn [app].
      assert (E : flat_map t_mids B = []).
      { clear -PB. induction B as [|x B IH]; [reflexivity|]. cbn [forallb] in PB. apply andb_true_iff in PB as [Px PB].
        cbn [flat_map]. rewrite (IH PB), app_nil_r. unfold plain in Px. rewrite !andb_true_iff in Px.
        destruct Px as [_ Px]. destruct (t_mids x); [reflexivity | discriminate]. }
      now rewrite E.
Qed.

(* ------------------------------------------------------------------ well-formed configurations *)

Lemma nodup_N_NoDup l : nodup_N l = true -> NoDup l.
Proof.
  induction l as [|x r IH]; intros H; [constructor|]. simpl in H. apply andb_true_iff in H as [H1 H2].
  constructor; [|now apply IH]. intros Hin. apply mem_N_In in Hin. rewrite Hin in H1. discriminate.
Qed.

Lemma NoDup_app_l {A} (a b : list A) : NoDup (a ++ b) -> NoDup a.
Proof.
  induction a as [|x r IH]; intros H; [constructor|]. inversion H as [|? ? Hn Hr]; subst.
  constructor; [|now apply IH]. intros Hin. apply Hn. apply in_or_app. now left.
Qed.

Lemma find_unique {A} (f : A -> N) l x :
  NoDup (map f l) -> In x l -> find (fun y => N.eqb (f y) (f x)) l = Some x.
Proof.
  induction l as [|a l IH]; intros ND Hin; [destruct Hin|]. simpl in *. inversion ND as [|? ? Hn Hr]; subst.
  destruct Hin as [->|Hin]; [now rewrite N.eqb_refl|].
  destruct (N.eqb (f a) (f x)) eqn:E; [|now apply IH].
  apply N.eqb_eq in E. exfalso. apply Hn. rewrite E. now apply in_map.
Qed.

Record wf_facts (cfg : config) : Prop := mkWf {
  wf_knames : NoDup (map (fun hb : hook * kbinding => kb_name (snd hb)) (kube_bindings cfg));
  wf_nonzero : forall h b, In h cfg -> In b (h_kube h) -> kb_name b <> 0;
  wf_snonzero : forall h b, In h cfg -> In b (h_sched h) -> sb_name b <> 0;
  wf_ids : NoDup (map h_id cfg);
  wf_mon : forall h b, In h cfg -> In b (h_kube h) -> kb_mon b = kb_name b
}.

Lemma in_kube_bindings cfg h b : In h cfg -> In b (h_kube h) -> In (h, b) (kube_bindings cfg).
Proof. intros Hh Hb. unfold kube_bindings. apply in_flat_map. exists h. split; [exact Hh|]. now apply in_map. Qed.

Lemma wf_config_facts cfg : wf_config cfg = true -> wf_facts cfg.
Proof.
  unfold wf_config. rewrite !andb_true_iff. intros [[[[[H1 H2] H3] H4] _] _]. constructor.
  - apply nodup_N_NoDup in H1. unfold binding_names in H1. now apply NoDup_app_l in H1.
  - intros h b Hh Hb E. apply negb_true_iff in H2.
    assert (M : mem_N 0 (binding_names cfg) = true); [|congruence].
    apply mem_N_In. unfold binding_names. apply in_or_app. left. rewrite <- E.
    apply (in_map (fun hb : hook * kbinding => kb_name (snd hb)) _ (h, b)). now apply in_kube_bindings.
  - intros h b Hh Hb E. apply negb_true_iff in H2.
    assert (M : mem_N 0 (binding_names cfg) = true); [|congruence].
    apply mem_N_In. unfold binding_names. apply in_or_app. right. rewrite <- E.
    apply (in_map (fun hb : hook * sbinding => sb_name (snd hb)) _ (h, b)).
    unfold sched_bindings. apply in_flat_map. exists h. split; [exact Hh|]. now apply in_map.
  - now apply nodup_N_NoDup.
  - intros h b Hh Hb. pose proof (forallb_In _ _ (h, b) H4 (in_kube_bindings cfg h b Hh Hb)) as E.
    now apply N.eqb_eq in E.
Qed.

Lemma sync_exempt_of cfg h b : wf_facts cfg -> In h cfg -> In b (h_kube h) ->
  sync_exempt cfg (kb_name b) = h_v0 h || negb (kb_execsync b).
Proof.
  intros W Hh Hb. unfold sync_exempt.
  pose proof (find_unique (fun hb : hook * kbinding => kb_name (snd hb)) (kube_bindings cfg) (h, b)
                (wf_knames cfg W) (in_kube_bindings cfg h b Hh Hb)) as F.
  cbn [snd] in F. now rewrite F.
Qed.

Lemma find_hook_some cfg n h : find_hook cfg n = Some h -> In h cfg /\ h_id h = n.
Proof. unfold find_hook. intros F. apply find_some in F as [F1 F2]. apply N.eqb_eq in F2. auto. Qed.

Lemma tk_sync_task cfg unl n h b : wf_facts cfg -> find_hook cfg n = Some h -> In b (h_kube h) ->
  tk cfg unl (sync_task h b) = true.
Proof.
  intros W F Hb. destruct (find_hook_some cfg n h F) as [Hh En].
  assert (V : hook_v0 cfg (t_hook (sync_task h b)) = h_v0 h).
  { unfold hook_v0. cbn [sync_task t_hook]. now rewrite En, F. }
  apply tk_hr; [reflexivity|]. constructor; try reflexivity.
  - rewrite V. unfold should_run. change (is_sync (sync_task h b)) with true. cbn [andb sync_task t_execsync].
    pose proof (sync_exempt_of cfg h b W Hh Hb) as SE.
    destruct (h_v0 h || negb (kb_execsync b)) eqn:X; cbn [negb].
    + cbn [sync_task t_mids forallb]. rewrite (wf_mon cfg W h b Hh Hb), SE. reflexivity.
    + apply orb_false_iff in X as [X1 X2]. rewrite X1. cbn [orb sync_task t_ctxs forallb].
      unfold ctx_fine. cbn [c_binding]. rewrite SE. reflexivity.
  - change (is_st (sync_task h b)) with false. cbn [sync_task t_ctxs forallb c_binding].
    pose proof (wf_nonzero cfg W h b Hh Hb) as NZ. apply N.eqb_neq in NZ. now rewrite NZ.
Qed.

Lemma hku_of_mons cfg h unl :
  forallb (fun m => mem_N m unl) (hook_mons cfg h) = hook_kube_unlocked cfg h unl.
Proof.
  unfold hook_mons, hook_kube_unlocked. destruct (find_hook cfg h) as [x|]; [|reflexivity].
  induction (h_kube x) as [|b l IH]; [reflexivity|]. simpl. now rewrite IH.
Qed.

(* ------------------------------------------------------------------ the worker keeps the queue invariant *)

Definition run_ok (cfg : config) (run : option bool) (items : list task) : bool :=
  match run, items with
  | Some _, t :: _ => is_hookrun t && should_run (hook_v0 cfg (t_hook t)) t
  | _, _ => true
  end.

Definition g_ok (cfg : config) (sh : shared) : bool :=
  forallb (fun h => hook_kube_unlocked cfg h (s_unlocked sh)) (s_sched_on sh).

Lemma advance_q_O cfg qok items sh : advance_q 0 cfg qok items sh = (items, None, sh).
Proof. reflexivity. Qed.
Lemma advance_q_nil fuel cfg qok sh : advance_q fuel cfg qok [] sh = ([], None, sh).
Proof. destruct fuel; reflexivity. Qed.
Lemma advance_q_kube_none fuel cfg qok t rest sh :
  t_type t = EnableKube -> find_hook cfg (t_hook t) = None ->
  advance_q (S fuel) cfg qok (t :: rest) sh = advance_q fuel cfg qok rest sh.
Proof. intros Ty F. unfold advance_q at 1. rewrite Ty, F. reflexivity. Qed.

Lemma qi_tail cfg unl t rest : qi cfg unl (t :: rest) = true ->
  tk cfg unl t = true /\ forallb (tk cfg unl) rest = true
  /\ first_then is_ksync (flat_map t_ctxs rest) = true /\ first_then is_st rest = true.
Proof.
  unfold qi. rewrite !andb_true_iff. intros [[[H1 H2] H3] H5]. cbn [forallb] in H1.
  apply andb_true_iff in H1 as [H1a H1b]. repeat split; auto.
  - cbn [flat_map] in H2. now apply first_then_suffix in H2.
  - cbn [first_then] in H3. now apply andb_true_iff in H3 as [_ H3].
Qed.

Lemma qi_intro cfg unl items :
  forallb (tk cfg unl) items = true -> first_then is_ksync (flat_map t_ctxs items) = true ->
  first_then is_st items = true -> c5 cfg unl items = true -> qi cfg unl items = true.
Proof. intros H1 H2 H3 H5. unfold qi. now rewrite H1, H2, H3, H5. Qed.

Lemma qi_c5 cfg unl items : qi cfg unl items = true -> c5 cfg unl items = true.
Proof. unfold qi. rewrite !andb_true_iff. intros [_ H]. exact H. Qed.

Lemma tk_not_hookrun cfg unl t : is_hookrun t = false -> tk cfg unl t = true ->
  t_ctxs t = [] /\ is_st t = false.
Proof.
  unfold is_hookrun, tk. destruct (t_type t); try discriminate; intros _ H;
    apply andb_true_iff in H as [H1 H2]; apply negb_true_iff in H2; (split; [|exact H2]);
    destruct (t_ctxs t); auto; discriminate.
Qed.

Lemma sync_task_mids h l : flat_map t_mids (map (sync_task h) l) = map kb_mon l.
Proof. induction l as [|b l IHl]; [reflexivity|]. simpl. now rewrite IHl. Qed.

Section Worker.
Variable cfg : config.
Hypothesis W : wf_facts cfg.
Variable qok : N -> bool.
Hypothesis Hq : qok no_queue = false.

Definition post (sh : shared) (r : list task * option bool * shared) : Prop :=
  let '(items', run, sh') := r in
  qi cfg (s_unlocked sh') items' = true /\ g_ok cfg sh' = true /\ run_ok cfg run items' = true
  /\ exists ex, s_unlocked sh' = s_unlocked sh ++ ex /\ forallb (sync_exempt cfg) ex = true.

Lemma post_weaken sh sh1 r ex0 :
  s_unlocked sh1 = s_unlocked sh ++ ex0 -> forallb (sync_exempt cfg) ex0 = true -> post sh1 r -> post sh r.
Proof.
  intros E X. destruct r as [[items' run] sh']. unfold post. intros (P1 & P2 & P3 & ex & P4 & P5).
  split; [exact P1|]. split; [exact P2|]. split; [exact P3|]. exists (ex0 ++ ex).
  split; [now rewrite P4, E, app_assoc | now rewrite forallb_app, X, P5].
Qed.

Lemma post_here sh items run :
  qi cfg (s_unlocked sh) items = true -> g_ok cfg sh = true -> run_ok cfg run items = true ->
  post sh (items, run, sh).
Proof.
  intros H1 H2 H3. unfold post. split; [exact H1|]. split; [exact H2|]. split; [exact H3|].
  exists []. now rewrite app_nil_r.
Qed.

Lemma g_ok_mono sh sh' : s_sched_on sh' = s_sched_on sh -> sub (s_unlocked sh) (s_unlocked sh') ->
  g_ok cfg sh = true -> g_ok cfg sh' = true.
Proof.
  unfold g_ok. intros E S H. rewrite E. apply forallb_forall. intros h Hh.
  apply (hku_mono cfg h _ _ S). apply (forallb_In _ _ h H Hh).
Qed.

Lemma advance_q_inv : forall fuel items sh,
  qi cfg (s_unlocked sh) items = true -> g_ok cfg sh = true -> post sh (advance_q fuel cfg qok items sh).
Proof.
  induction fuel as [|fuel IH]; intros items sh Hqi Hg.
  { rewrite advance_q_O. now apply post_here. }
  destruct items as [|t rest].
  { rewrite advance_q_nil. now apply post_here. }
  destruct (qi_tail cfg _ t rest Hqi) as (Tt & Tr & Sf & Stf).
  pose proof (qi_c5 cfg _ _ Hqi) as C5. cbn [c5] in C5.
  destruct (t_type t) eqn:Ty.
  - (* HookRun *)
    assert (Hhr : is_hookrun t = true) by (unfold is_hookrun; now rewrite Ty).
    rewrite advance_q_hookrun by exact Ty. cbv zeta.
    change (match find_hook cfg (t_hook t) with Some h => h_v0 h | None => false end) with (hook_v0 cfg (t_hook t)).
    pose proof (proj1 (tk_hr cfg _ t Hhr) Tt) as [F1 F2 F3 F4 F5].
    destruct (should_run (hook_v0 cfg (t_hook t)) t) eqn:SR.
    + assert (RO : run_ok cfg (Some (is_sync t)) (t :: rest) = true).
      { unfold run_ok. now rewrite Hhr, SR. }
      destruct (negb (hook_v0 cfg (t_hook t)) && should_combine t && qok (t_queue t)) eqn:Cb;
        [|now apply post_here].
      apply andb_true_iff in Cb as [Cb Cq]. apply andb_true_iff in Cb as [Cv _]. apply negb_true_iff in Cv.
      assert (St : is_st t = false).
      { destruct (is_st t) eqn:St; [|reflexivity]. exfalso. rewrite !andb_true_iff in F4.
        destruct F4 as [[[_ F4] _] _]. apply N.eqb_eq in F4. rewrite F4, Hq in Cq. discriminate. }
      rewrite Cv in SR.
      destruct (combine_inv cfg _ t rest Hqi Hhr Cv SR St) as (C1 & C2 & C3 & C4 & _).
      destruct (combine t rest) as [t' rest']. cbn [fst snd] in *.
      apply post_here; [exact C1 | exact Hg|].
      unfold run_ok. now rewrite C2, C3, Cv, C4.
    + (* skipped Synchronization *)
      set (sh1 := mkSh (s_sched_on sh) (s_unlocked sh ++ t_mids t) (s_mon_started sh)).
      apply (post_weaken sh sh1 _ (t_mids t)); [reflexivity | exact F3|].
      apply IH.
      * apply qi_intro; auto.
        apply forallb_forall. intros x Hx. apply (tk_mono cfg (s_unlocked sh)); [apply sub_app_l|].
        apply (forallb_In _ _ x Tr Hx).
      * apply (g_ok_mono sh); [reflexivity | apply sub_app_l | exact Hg].
  - (* EnableKube *)
    assert (Hhr : is_hookrun t = false) by (unfold is_hookrun; now rewrite Ty).
    destruct (tk_not_hookrun cfg _ t Hhr Tt) as [Ct St].
    unfold qi in Hqi. rewrite !andb_true_iff in Hqi. destruct Hqi as [[[_ _] Hstf] _].
    pose proof (first_then_head_not is_st t rest Hstf St) as Nst.
    destruct (find_hook cfg (t_hook t)) as [h|] eqn:F.
    + rewrite (enable_kube_creates_syncs fuel cfg qok t rest sh h Ty F).
      set (sh1 := mkSh (s_sched_on sh) (s_unlocked sh) (s_mon_started sh ++ map kb_mon (h_kube h))).
      apply (post_weaken sh sh1 _ []); [cbn; now rewrite app_nil_r | reflexivity|].
      apply IH; [|exact Hg].
      assert (Hsy : forall x, In x (map (sync_task h) (h_kube h)) ->
                tk cfg (s_unlocked sh) x = true /\ forallb is_ksync (t_ctxs x) = true /\ is_st x = false /\ is_hookrun x = true).
      { intros x Hx. apply in_map_iff in Hx as [b [<- Hb]]. split; [|repeat split].
        apply (tk_sync_task cfg _ (t_hook t) h b W F Hb). }
      change (s_unlocked sh1) with (s_unlocked sh).
      apply qi_intro.
      * rewrite forallb_app, Tr, andb_true_r. apply forallb_forall. intros x Hx. apply (Hsy x Hx).
      * rewrite flat_map_app. apply first_then_app_all; [|exact Sf].
        rewrite forallb_flat_map. apply forallb_forall. intros x Hx. apply (Hsy x Hx).
      * apply first_then_all_not. rewrite forallb_app, Nst, andb_true_r.
        apply forallb_forall. intros x Hx. destruct (Hsy x Hx) as (_ & _ & A & _). now rewrite A.
      * rewrite c5_hookruns.
        -- assert (E : flat_map t_mids (map (sync_task h) (h_kube h)) = hook_mons cfg (t_hook t)).
           { unfold hook_mons. rewrite F. apply sync_task_mids. }
           now rewrite E.
        -- apply forallb_forall. intros x Hx. apply (Hsy x Hx).
    + rewrite (advance_q_kube_none fuel cfg qok t rest sh Ty F). apply IH; [|exact Hg].
      apply qi_intro; auto. unfold hook_mons in C5. rewrite F in C5.
      apply (c5_mono cfg rest _ _ (sub_nil_r _) C5).
  - (* EnableSched *)
    rewrite (enable_sched_step fuel cfg qok t rest sh Ty).
    set (sh1 := mkSh (s_sched_on sh ++ [t_hook t]) (s_unlocked sh) (s_mon_started sh)).
    apply andb_true_iff in C5 as [C5a C5b].
    apply (post_weaken sh sh1 _ []); [cbn; now rewrite app_nil_r | reflexivity|].
    apply IH.
    + change (s_unlocked sh1) with (s_unlocked sh). apply qi_intro; auto.
    + unfold g_ok in *. cbn [sh1 s_sched_on s_unlocked]. rewrite forallb_app, Hg. cbn [forallb andb].
      rewrite <- hku_of_mons, C5a. reflexivity.
Qed.

(* named queues hold plain tasks only: the worker starts the head, nothing else happens *)
Lemma advance_q_plain fuel items sh :
  qi cfg (s_unlocked sh) items = true -> forallb plain items = true ->
  forallb plain (fst (fst (advance_q fuel cfg qok items sh))) = true.
Proof.
  intros Hqi Hp. destruct fuel as [|fuel]; [rewrite advance_q_O; auto|].
  destruct items as [|t rest]; [rewrite advance_q_nil; auto|].
  pose proof Hp as Hp0. cbn [forallb] in Hp. apply andb_true_iff in Hp as [Pt Pr].
  unfold plain in Pt. rewrite !andb_true_iff in Pt. destruct Pt as [[[P1 P2] P3] P4].
  apply negb_true_iff in P3. pose proof (nosync_not_sync t P2) as Sy.
  assert (Ty : t_type t = HookRun) by (unfold is_hookrun in P1; destruct (t_type t); auto; discriminate).
  rewrite advance_q_hookrun by exact Ty. cbv zeta.
  change (match find_hook cfg (t_hook t) with Some h => h_v0 h | None => false end) with (hook_v0 cfg (t_hook t)).
  assert (SR : forall v, should_run v t = true) by (intros v; unfold should_run; now rewrite Sy).
  rewrite SR, Sy.
  destruct (negb (hook_v0 cfg (t_hook t)) && should_combine t && qok (t_queue t)) eqn:Cb; [|auto].
  apply andb_true_iff in Cb as [Cb _]. apply andb_true_iff in Cb as [Cv _]. apply negb_true_iff in Cv.
  destruct (combine_inv cfg _ t rest Hqi P1 Cv (SR false) P3) as (_ & _ & _ & _ & C).
  destruct (combine t rest) as [t' rest']. cbn [fst snd] in *. auto.
Qed.

End Worker.

(* ------------------------------------------------------------------ one round of all workers *)

Lemma qinv_elim cfg unl q : qinv cfg unl q = true ->
  qi cfg unl (q_items q) = true
  /\ (match q_running q, q_items q with
      | Some _, t :: _ => is_hookrun t && should_run (hook_v0 cfg (t_hook t)) t
      | _, _ => true end) = true
  /\ (N.eqb (q_name q) 0 || forallb plain (q_items q)) = true.
Proof. unfold qinv. rewrite !andb_true_iff. intros [[H1 H2] H3]. auto. Qed.

Lemma qinv_intro cfg unl q :
  qi cfg unl (q_items q) = true ->
  (match q_running q, q_items q with
   | Some _, t :: _ => is_hookrun t && should_run (hook_v0 cfg (t_hook t)) t
   | _, _ => true end) = true ->
  (N.eqb (q_name q) 0 || forallb plain (q_items q)) = true ->
  qinv cfg unl q = true.
Proof. intros H1 H2 H3. unfold qinv. now rewrite H1, H2, H3. Qed.

Lemma sub_of_app a b ex : b = a ++ ex -> sub a b.
Proof. intros ->. apply sub_app_l. Qed.

Lemma advance_all_inv cfg qok : wf_facts cfg -> qok no_queue = false -> forall qs sh,
  forallb (qinv cfg (s_unlocked sh)) qs = true -> g_ok cfg sh = true ->
  forallb (qinv cfg (s_unlocked (snd (advance_all cfg qok qs sh)))) (fst (advance_all cfg qok qs sh)) = true
  /\ g_ok cfg (snd (advance_all cfg qok qs sh)) = true
  /\ exists ex, s_unlocked (snd (advance_all cfg qok qs sh)) = s_unlocked sh ++ ex
                /\ forallb (sync_exempt cfg) ex = true.
Proof.
  intros W Hq. induction qs as [|q r IH]; intros sh HQ HG.
  { cbn [advance_all fst snd]. split; [reflexivity|]. split; [exact HG|]. exists []. now rewrite app_nil_r. }
  cbn [forallb] in HQ. apply andb_true_iff in HQ as [Hq0 Hr]. cbn [advance_all].
  destruct (is_running q) eqn:R.
  - destruct (IH sh Hr HG) as (I1 & I2 & ex & I3 & I4).
    destruct (advance_all cfg qok r sh) as [r' sh']. cbn [fst snd] in *.
    split; [|split; [exact I2 | now exists ex]].
    cbn [forallb]. rewrite I1, andb_true_r. apply (qinv_mono cfg (s_unlocked sh)); [now apply (sub_of_app _ _ ex) | exact Hq0].
  - destruct (qinv_elim cfg _ q Hq0) as (Q1 & Q2 & Q3).
    pose proof (advance_q_inv cfg W qok Hq (fuel_for cfg (q_items q)) (q_items q) sh Q1 HG) as P.
    pose proof (advance_q_plain cfg qok (fuel_for cfg (q_items q)) (q_items q) sh Q1) as PP.
    destruct (advance_q (fuel_for cfg (q_items q)) cfg qok (q_items q) sh) as [[items run] sh1].
    destruct P as (P1 & P2 & P3 & ex1 & P4 & P5).
    assert (S1 : sub (s_unlocked sh) (s_unlocked sh1)) by now apply (sub_of_app _ _ ex1).
    destruct (IH sh1 (forallb_qinv_mono cfg _ _ r S1 Hr) P2) as (I1 & I2 & ex & I3 & I4).
    destruct (advance_all cfg qok r sh1) as [r' sh']. cbn [fst snd] in *.
    split; [|split; [exact I2|]].
    + cbn [forallb]. rewrite I1, andb_true_r.
      apply (qinv_mono cfg (s_unlocked sh1)); [now apply (sub_of_app _ _ ex)|].
      apply qinv_intro; cbn [q_items q_running q_delay q_name].
      * exact P1.
      * exact P3.
      * apply orb_true_iff in Q3 as [Q3|Q3]; [now rewrite Q3|]. now rewrite (PP Q3), orb_true_r.
    + exists (ex1 ++ ex). split; [now rewrite I3, P4, app_assoc | now rewrite forallb_app, P5, I4].
Qed.

Definition s_ok (cfg : config) (s : state) : Prop :=
  forallb (qinv cfg (unlocked s)) (queues s) = true
  /\ forallb (fun h => hook_kube_unlocked cfg h (unlocked s)) (sched_on s) = true.

Lemma sinv_s_ok cfg s : sinv cfg s = true <-> s_ok cfg s.
Proof. unfold sinv, s_ok. now rewrite andb_true_iff. Qed.

Lemma advance_ok cfg s : wf_facts cfg -> has_queue (queues s) no_queue = false -> s_ok cfg s ->
  s_ok cfg (advance cfg s)
  /\ exists ex, unlocked (advance cfg s) = unlocked s ++ ex /\ forallb (sync_exempt cfg) ex = true.
Proof.
  intros W Hq [H1 H2]. unfold advance. destruct (stopped s).
  - split; [split; assumption|]. exists []. now rewrite app_nil_r.
  - pose proof (advance_all_inv cfg (has_queue (queues s)) W Hq (queues s)
                  (mkSh (sched_on s) (unlocked s) (mon_started s)) H1 H2) as (I1 & I2 & I3).
    destruct (advance_all cfg (has_queue (queues s)) (queues s) _) as [qs sh]. cbn [fst snd] in *.
    split; [split; [exact I1 | exact I2] | exact I3].
Qed.

(* ------------------------------------------------------------------ the actions keep the invariant *)

Lemma c5_snoc cfg : forall l p ex, c5 cfg p l = true -> existsb is_es ex = false -> c5 cfg p (l ++ ex) = true.
Proof.
  induction l as [|t r IH]; intros p ex H E; [now apply c5_no_es|]. cbn [app c5] in *.
  destruct (t_type t); [now apply IH | now apply IH|].
  apply andb_true_iff in H as [H1 H2]. now rewrite H1, (IH _ _ H2 E).
Qed.

Lemma plain_facts t : plain t = true ->
  is_hookrun t = true /\ nosync t = true /\ is_st t = false /\ t_mids t = [] /\ is_es t = false
  /\ is_sync t = false.
Proof.
  unfold plain. rewrite !andb_true_iff. intros [[[P1 P2] P3] P4]. apply negb_true_iff in P3.
  pose proof (nosync_not_sync t P2) as Sy.
  repeat split; auto.
  - destruct (t_mids t); [reflexivity | discriminate].
  - unfold is_hookrun in P1. unfold is_es. destruct (t_type t); auto; discriminate.
Qed.

(* tasks that the events handler may append *)
Definition appendable (cfg : config) (unl : list N) (t : task) : bool := plain t && tk cfg unl t.

Lemma qi_snoc cfg unl items ex :
  qi cfg unl items = true -> forallb (appendable cfg unl) ex = true -> qi cfg unl (items ++ ex) = true.
Proof.
  intros Hqi Hex.
  assert (Hp : forall x, In x ex -> plain x = true /\ tk cfg unl x = true).
  { intros x Hx. pose proof (forallb_In _ _ x Hex Hx) as A. now apply andb_true_iff in A. }
  unfold qi in Hqi. rewrite !andb_true_iff in Hqi. destruct Hqi as [[[H1 H2] H3] H5].
  assert (Ees : existsb is_es ex = false).
  { destruct (existsb is_es ex) eqn:E; [|reflexivity]. apply existsb_exists in E as [x [Hx Ex]].
    destruct (Hp x Hx) as [Px _]. apply plain_facts in Px. destruct Px as (_ & _ & _ & _ & Px & _). congruence. }
  apply qi_intro.
  - rewrite forallb_app, H1. apply forallb_forall. intros x Hx. apply (Hp x Hx).
  - rewrite flat_map_app. apply first_then_snoc; [exact H2|]. rewrite forallb_flat_map.
    apply forallb_forall. intros x Hx. destruct (Hp x Hx) as [Px _]. apply plain_facts in Px. apply Px.
  - apply first_then_snoc; [exact H3|]. apply forallb_forall. intros x Hx. destruct (Hp x Hx) as [Px _].
    apply plain_facts in Px. destruct Px as (_ & _ & Px & _). now rewrite Px.
  - now apply c5_snoc.
Qed.

Lemma qinv_app_many cfg unl ts q :
  qinv cfg unl q = true -> forallb (appendable cfg unl) ts = true -> qinv cfg unl (app_many ts q) = true.
Proof.
  intros HQ Hts. destruct (qinv_elim cfg unl q HQ) as (Q1 & Q2 & Q3).
  set (ex := filter (fun t => N.eqb (t_queue t) (q_name q)) ts).
  assert (Hex : forallb (appendable cfg unl) ex = true).
  { apply forallb_forall. intros x Hx. apply filter_In in Hx as [Hx _]. apply (forallb_In _ _ x Hts Hx). }
  apply qinv_intro; unfold app_many; cbn [q_items q_running q_delay q_name]; fold ex.
  - now apply qi_snoc.
  - destruct (q_running q) as [sy|]; [|reflexivity]. destruct (q_items q) as [|t its]; [|exact Q2].
    cbn [app]. destruct ex as [|x ex']; [reflexivity|]. cbn [forallb] in Hex. apply andb_true_iff in Hex as [Hx _].
    apply andb_true_iff in Hx as [Px _]. apply plain_facts in Px. destruct Px as (P1 & _ & _ & _ & _ & P6).
    rewrite P1. unfold should_run. now rewrite P6.
  - apply orb_true_iff in Q3 as [Q3|Q3]; [now rewrite Q3|].
    rewrite forallb_app, Q3. cbn [andb].
    assert (E : forallb plain ex = true); [|now rewrite E, orb_true_r].
    apply forallb_forall. intros x Hx. pose proof (forallb_In _ _ x Hex Hx) as A. now apply andb_true_iff in A as [A _].
Qed.

Lemma sched_tasks_appendable cfg on unl c : wf_facts cfg ->
  forallb (fun h => hook_kube_unlocked cfg h unl) on = true ->
  forallb (appendable cfg unl) (sched_tasks cfg on c) = true.
Proof.
  intros W G. rewrite sched_tasks_exactly. apply forallb_forall. intros t Ht.
  apply in_map_iff in Ht as [[n b] [<- Hb]]. apply filter_In in Hb as [Hb Hc]. cbn [fst snd] in Hc.
  apply andb_true_iff in Hc as [Hon _].
  unfold sched_pairs in Hb. apply in_flat_map in Hb as [h [Hh Hb]]. apply in_map_iff in Hb as [b' [E Hb]].
  inversion E; subst n b'. clear E.
  unfold appendable. apply andb_true_iff. split; [reflexivity|].
  apply tk_hr; [reflexivity|]. constructor; try reflexivity.
  - unfold should_run. change (is_sync (sched_task_of (h_id h, b))) with false. cbn [andb negb].
    apply orb_true_r.
  - change (is_st (sched_task_of (h_id h, b))) with false. cbn [sched_task_of fst snd t_ctxs forallb c_binding].
    pose proof (wf_snonzero cfg W h b Hh Hb) as NZ. apply N.eqb_neq in NZ. now rewrite NZ.
  - cbn [sched_task_of t_btype t_hook fst]. apply mem_N_In in Hon. apply (forallb_In _ _ (h_id h) G Hon).
Qed.

Lemma kube_tasks_appendable cfg unl unl0 m o : wf_facts cfg ->
  forallb (appendable cfg unl) (kube_tasks cfg unl0 m o) = true.
Proof.
  intros W. rewrite kube_tasks_exactly. destruct (mem_N m unl0); [|reflexivity].
  apply forallb_forall. intros t Ht.
  apply in_map_iff in Ht as [[n b] [<- Hb]]. apply filter_In in Hb as [Hb _].
  unfold kube_pairs in Hb. apply in_flat_map in Hb as [h [Hh Hb]]. apply in_map_iff in Hb as [b' [E Hb]].
  inversion E; subst n b'. clear E.
  unfold appendable. apply andb_true_iff. split; [reflexivity|].
  apply tk_hr; [reflexivity|]. constructor; try reflexivity.
  - unfold should_run. change (is_sync (kube_task_of o (h_id h, b))) with false. cbn [andb negb].
    apply orb_true_r.
  - change (is_st (kube_task_of o (h_id h, b))) with false. cbn [kube_task_of fst snd t_ctxs forallb c_binding].
    pose proof (wf_nonzero cfg W h b Hh Hb) as NZ. apply N.eqb_neq in NZ. now rewrite NZ.
Qed.

(* ---- the end of an execution *)

Definition fin_unl (q : qstate) (ok : bool) (unl : list N) : list N :=
  match q_running q, q_items q, q_delay q with
  | Some _, t :: _, false => if ok || t_allow t then unl ++ t_mids t else unl
  | _, _, _ => unl
  end.

Lemma finish_in_snd qs qn ok stp wait unl :
  snd (finish_in qs qn ok stp wait unl)
  = match find (fun q => N.eqb (q_name q) qn) qs with Some q => fin_unl q ok unl | None => unl end.
Proof.
  induction qs as [|q r IH]; [reflexivity|]. cbn [finish_in find].
  destruct (N.eqb (q_name q) qn).
  - unfold fin_unl. destruct (q_running q) as [sy|]; [|reflexivity]. destruct (q_items q) as [|t rest]; [reflexivity|].
    destruct (q_delay q); [reflexivity|]. destruct stp; [reflexivity|].
    destruct (ok || t_allow t); [reflexivity|]. destruct wait; reflexivity.
  - destruct (finish_in r qn ok stp wait unl) as [r' u']. exact IH.
Qed.

Lemma sub_fin_unl q ok unl : sub unl (fin_unl q ok unl).
Proof.
  unfold fin_unl. destruct (q_running q); [|apply sub_refl]. destruct (q_items q); [apply sub_refl|].
  destruct (q_delay q); [apply sub_refl|]. destruct (ok || t_allow t); [apply sub_app_l | apply sub_refl].
Qed.

Lemma qinv_finish_one cfg unl ok stp wait q :
  qinv cfg unl q = true -> qinv cfg (fin_unl q ok unl) (finish_one ok stp wait q) = true.
Proof.
  intros HQ. pose proof (sub_fin_unl q ok unl) as SU. pose proof (qinv_mono cfg _ _ q SU HQ) as HQ'.
  destruct (qinv_elim cfg unl q HQ) as (Q1 & Q2 & Q3).
  unfold finish_one, fin_unl in *.
  destruct (q_running q) as [sy|] eqn:R; [|exact HQ']. destruct (q_items q) as [|t rest] eqn:I; [exact HQ'|].
  destruct (q_delay q) eqn:D; [exact HQ'|].
  apply andb_true_iff in Q2 as [Hhr SR].
  destruct (qi_tail cfg unl t rest Q1) as (Tt & Tr & Sf & Stf).
  pose proof (qi_c5 cfg _ _ Q1) as C5. cbn [c5] in C5.
  assert (Ty : t_type t = HookRun) by (unfold is_hookrun in Hhr; destruct (t_type t); auto; discriminate).
  rewrite Ty in C5.
  assert (Q3n : forall l, (forallb plain (t :: rest) = true -> forallb plain l = true) ->
                (N.eqb (q_name q) 0 || forallb plain l) = true).
  { intros l Pl. apply orb_true_iff in Q3 as [Q3|Q3]; [now rewrite Q3|]. now rewrite (Pl Q3), orb_true_r. }
  destruct stp.
  { (* shutdown: the result is not applied *)
    apply qinv_intro; cbn [q_items q_running q_delay q_name].
    - apply (qi_mono cfg unl); [|exact Q1]. destruct (ok || t_allow t); [apply sub_app_l | apply sub_refl].
    - reflexivity.
    - apply (Q3n (t :: rest)); auto. }
  destruct (ok || t_allow t) eqn:Su.
  - (* success: the task leaves the queue, the monitors it carries are unlocked *)
    apply qinv_intro; cbn [q_items q_running q_delay q_name]; [|reflexivity|].
    + apply qi_intro; auto. apply forallb_forall. intros x Hx. apply (tk_mono cfg unl); [apply sub_app_l|].
      apply (forallb_In _ _ x Tr Hx).
    + apply (Q3n rest). cbn [forallb]. intros P. now apply andb_true_iff in P as [_ P].
  - (* failure: the task stays, its failure count grows *)
    assert (QF : qi cfg unl (incr_fail t :: rest) = true) by exact Q1.
    destruct wait; apply qinv_intro; cbn [q_items q_running q_delay q_name]; try exact QF; try reflexivity.
    + change (is_hookrun (incr_fail t)) with (is_hookrun t).
      change (should_run (hook_v0 cfg (t_hook (incr_fail t))) (incr_fail t)) with (should_run (hook_v0 cfg (t_hook t)) t).
      now rewrite Hhr, SR.
    + apply (Q3n (incr_fail t :: rest)). intros P. exact P.
    + apply (Q3n (incr_fail t :: rest)). intros P. exact P.
Qed.

Lemma qinv_elapse_one cfg unl q : qinv cfg unl q = true -> qinv cfg unl (elapse_one q) = true.
Proof.
  intros HQ. unfold elapse_one. destruct (q_delay q); [|exact HQ].
  destruct (qinv_elim cfg unl q HQ) as (Q1 & Q2 & Q3).
  apply qinv_intro; cbn [q_items q_running q_delay q_name]; [exact Q1 | reflexivity|].
  exact Q3.
Qed.

(* ---- bootstrap *)

Lemma find_hook_in cfg h : wf_facts cfg -> In h cfg -> find_hook cfg (h_id h) = Some h.
Proof. intros W Hh. unfold find_hook. apply (find_unique h_id cfg h (wf_ids cfg W) Hh). Qed.

Lemma c5_enables cfg : forall l, (forall h, In h l -> find_hook cfg (h_id h) = Some h) ->
  forall p, c5 cfg p (flat_map enable_tasks l) = true.
Proof.
  induction l as [|a l IH]; intros Hf p; [reflexivity|].
  assert (Hl : forall h, In h l -> find_hook cfg (h_id h) = Some h) by (intros h Hh; apply Hf; now right).
  specialize (IH Hl). pose proof (Hf a (or_introl eq_refl)) as Fa.
  cbn [flat_map]. unfold enable_tasks at 1.
  assert (Mons : hook_mons cfg (h_id a) = map kb_mon (h_kube a)) by (unfold hook_mons; now rewrite Fa).
  destruct (h_kube a) as [|k ks] eqn:K; destruct (h_sched a) as [|sb sbs] eqn:Sc; cbn [app c5 t_type t_hook].
  - apply IH.
  - rewrite Mons. cbn [map forallb andb]. apply IH.
  - apply IH.
  - rewrite IH, andb_true_r. apply forallb_forall. intros m Hm. rewrite mem_N_app. apply orb_true_iff. right.
    now apply mem_N_In.
Qed.

Lemma boot_main_qi cfg unl : wf_facts cfg -> qi cfg unl (boot_main cfg) = true.
Proof.
  intros W. unfold boot_main.
  assert (HS : forall x, In x (map startup_task (startup_hooks cfg)) ->
              tk cfg unl x = true /\ is_st x = true /\ is_hookrun x = true /\ t_mids x = []
              /\ forallb (fun c => negb (is_ksync c)) (t_ctxs x) = true).
  { intros x Hx. apply in_map_iff in Hx as [h [<- _]]. split; [|repeat split].
    apply tk_hr; [reflexivity|]. constructor; try reflexivity.
    unfold should_run. change (is_sync (startup_task h)) with false. cbn [andb negb]. apply orb_true_r. }
  assert (HE : forall x, In x (flat_map enable_tasks cfg) ->
              tk cfg unl x = true /\ is_st x = false /\ is_hookrun x = false /\ t_ctxs x = []).
  { intros x Hx. apply in_flat_map in Hx as [h [_ Hx]]. unfold enable_tasks in Hx.
    apply in_app_or in Hx as [Hx|Hx]; destruct (h_kube h), (h_sched h); simpl in Hx;
      repeat (destruct Hx as [<-|Hx]; [repeat split|]); try contradiction. }
  apply qi_intro.
  - rewrite forallb_app. apply andb_true_iff. split; apply forallb_forall; intros x Hx; [apply (HS x Hx) | apply (HE x Hx)].
  - apply first_then_all_not. rewrite flat_map_app, forallb_app.
    rewrite (forallb_flat_map _ t_ctxs (map startup_task (startup_hooks cfg))),
            (forallb_flat_map _ t_ctxs (flat_map enable_tasks cfg)).
    apply andb_true_iff. split; apply forallb_forall; intros x Hx.
    + apply (HS x Hx).
    + destruct (HE x Hx) as (_ & _ & _ & E). now rewrite E.
  - apply first_then_app_all.
    + apply forallb_forall. intros x Hx. apply (HS x Hx).
    + apply first_then_all_not. apply forallb_forall. intros x Hx. destruct (HE x Hx) as (_ & E & _). now rewrite E.
  - rewrite c5_hookruns.
    + apply c5_enables. intros h Hh. now apply find_hook_in.
    + apply forallb_forall. intros x Hx. apply (HS x Hx).
Qed.

Lemma fold_add_queue_forallb (P : qstate -> bool) : (forall n, P (mkQ n [] None false) = true) ->
  forall l qs, forallb P qs = true -> forallb P (fold_left add_queue l qs) = true.
Proof.
  intros HP. induction l as [|n l IH]; intros qs H; [exact H|]. cbn [fold_left]. apply IH.
  unfold add_queue. destruct (has_queue qs n); [exact H|]. rewrite forallb_app, H. cbn [forallb]. now rewrite HP.
Qed.

Lemma boot_queues_qinv cfg unl : wf_facts cfg -> forallb (qinv cfg unl) (boot_queues cfg) = true.
Proof.
  intros W. unfold boot_queues.
  assert (HP : forall n, qinv cfg unl (mkQ n [] None false) = true).
  { intros n. apply qinv_intro; cbn [q_items q_running q_name]; try reflexivity. apply orb_true_r. }
  apply fold_add_queue_forallb; [exact HP|]. apply fold_add_queue_forallb; [exact HP|].
  cbn [forallb]. rewrite andb_true_r. apply qinv_intro; cbn [q_items q_running q_name]; try reflexivity.
  now apply boot_main_qi.
Qed.

(* ---- the action part of a step *)

Definition pre_state (cfg : config) (s : state) (a : action) : state :=
  match a with
  | Boot => match queues s with
            | [] => mkSt (boot_queues cfg) (sched_on s) (unlocked s) (mon_started s) (stopped s)
            | _ => s
            end
  | Tick c => mkSt (append_tasks (queues s) (sched_tasks cfg (sched_on s) c))
                   (sched_on s) (unlocked s) (mon_started s) (stopped s)
  | KubeEv m o => mkSt (append_tasks (queues s) (kube_tasks cfg (unlocked s) m o))
                         (sched_on s) (unlocked s) (mon_started s) (stopped s)
  | Finish qn ok =>
      let (qs, unl) := finish_in (queues s) qn ok (stopped s) false (unlocked s) in
      mkSt qs (sched_on s) unl (mon_started s) (stopped s)
  | Stop => mkSt (queues s) (sched_on s) (unlocked s) (mon_started s) true
  | FinishWait qn =>
      let (qs, unl) := finish_in (queues s) qn false (stopped s) true (unlocked s) in
      mkSt qs (sched_on s) unl (mon_started s) (stopped s)
  | Elapse qn => mkSt (elapse_in (queues s) qn) (sched_on s) (unlocked s) (mon_started s) (stopped s)
  end.

Lemma step_pre cfg s a : step cfg s a = advance cfg (pre_state cfg s a).
Proof. reflexivity. Qed.

Definition find_queue (qs : list qstate) (qn : N) : option qstate := find (fun q => N.eqb (q_name q) qn) qs.

Definition pre_unl (s : state) (a : action) : list N :=
  match a with
  | Finish qn ok => match find_queue (queues s) qn with Some q => fin_unl q ok (unlocked s) | None => unlocked s end
  | FinishWait qn => match find_queue (queues s) qn with Some q => fin_unl q false (unlocked s) | None => unlocked s end
  | _ => unlocked s
  end.

Lemma find_queue_unique qs q : NoDup (names qs) -> In q qs -> find_queue qs (q_name q) = Some q.
Proof. intros ND Hq. unfold find_queue. apply (find_unique q_name qs q ND Hq). Qed.

Lemma finish_ok cfg s qn ok wait : NoDup (names (queues s)) -> s_ok cfg s ->
  let unl' := match find_queue (queues s) qn with Some q => fin_unl q ok (unlocked s) | None => unlocked s end in
  s_ok cfg (mkSt (fst (finish_in (queues s) qn ok (stopped s) wait (unlocked s))) (sched_on s)
                 (snd (finish_in (queues s) qn ok (stopped s) wait (unlocked s))) (mon_started s) (stopped s))
  /\ snd (finish_in (queues s) qn ok (stopped s) wait (unlocked s)) = unl'.
Proof.
  intros ND [H1 H2] unl'. rewrite finish_in_snd. fold (find_queue (queues s) qn). fold unl'.
  split; [|reflexivity].
  assert (SU : sub (unlocked s) unl').
  { unfold unl'. destruct (find_queue (queues s) qn); [apply sub_fin_unl | apply sub_refl]. }
  unfold s_ok. cbn [queues unlocked sched_on]. split.
  - rewrite (finish_in_map _ qn ok (stopped s) wait (unlocked s) ND).
    apply forallb_forall. intros q' Hq'. apply in_map_iff in Hq' as [q [<- Hq]].
    pose proof (forallb_In _ _ q H1 Hq) as Qq.
    destruct (N.eqb (q_name q) qn) eqn:E.
    + apply N.eqb_eq in E. unfold unl'. rewrite <- E, (find_queue_unique _ q ND Hq). now apply qinv_finish_one.
    + now apply (qinv_mono cfg (unlocked s)).
  - apply forallb_forall. intros h Hh. apply (hku_mono cfg h _ _ SU). apply (forallb_In _ _ h H2 Hh).
Qed.

Lemma pre_ok cfg s a : wf_facts cfg -> NoDup (names (queues s)) -> s_ok cfg s ->
  s_ok cfg (pre_state cfg s a) /\ unlocked (pre_state cfg s a) = pre_unl s a.
Proof.
  intros W ND HS. pose proof HS as [H1 H2]. destruct a; cbn [pre_state pre_unl].
  - destruct (queues s) eqn:E; [|split; [exact HS | reflexivity]].
    split; [|reflexivity]. split; cbn [queues unlocked sched_on]; [now apply boot_queues_qinv | exact H2].
  - split; [|reflexivity]. split; cbn [queues unlocked sched_on]; [|exact H2].
    rewrite (append_tasks_map _ _ ND). apply forallb_forall. intros q' Hq'. apply in_map_iff in Hq' as [q [<- Hq]].
    apply qinv_app_many; [apply (forallb_In _ _ q H1 Hq) | now apply sched_tasks_appendable].
  - split; [|reflexivity]. split; cbn [queues unlocked sched_on]; [|exact H2].
    rewrite (append_tasks_map _ _ ND). apply forallb_forall. intros q' Hq'. apply in_map_iff in Hq' as [q [<- Hq]].
    apply qinv_app_many; [apply (forallb_In _ _ q H1 Hq) | now apply kube_tasks_appendable].
  - pose proof (finish_ok cfg s q ok false ND HS) as F. cbv zeta in F.
    destruct (finish_in (queues s) q ok (stopped s) false (unlocked s)) as [qs unl]. exact F.
  - split; [|reflexivity]. split; cbn [queues unlocked sched_on]; assumption.
  - pose proof (finish_ok cfg s q false true ND HS) as F. cbv zeta in F.
    destruct (finish_in (queues s) q false (stopped s) true (unlocked s)) as [qs unl]. exact F.
  - split; [|reflexivity]. split; cbn [queues unlocked sched_on]; [|exact H2].
    rewrite (elapse_in_map _ q ND). apply forallb_forall. intros q' Hq'. apply in_map_iff in Hq' as [q0 [<- Hq]].
    pose proof (forallb_In _ _ q0 H1 Hq) as Qq. destruct (N.eqb (q_name q0) q); [now apply qinv_elapse_one | exact Qq].
Qed.

Lemma pre_names cfg s a :
  names (queues (pre_state cfg s a)) = names (queues s)
  \/ (queues s = [] /\ names (queues (pre_state cfg s a)) = names (boot_queues cfg)).
Proof.
  destruct a; cbn [pre_state].
  - destruct (queues s) eqn:E; [right; auto | left; now rewrite E].
  - left. apply append_tasks_names.
  - left. apply append_tasks_names.
  - left. pose proof (finish_in_names (queues s) q ok (stopped s) false (unlocked s)) as F.
    destruct (finish_in _ _ _ _ _ _). exact F.
  - left. reflexivity.
  - left. pose proof (finish_in_names (queues s) q false (stopped s) true (unlocked s)) as F.
    destruct (finish_in _ _ _ _ _ _). exact F.
  - left. apply elapse_in_names.
Qed.

(* ------------------------------------------------------------------ reading the observation *)

Lemma observe_init cfg : observe cfg init = empty_obs.
Proof. reflexivity. Qed.

Lemma in_sort_queues q qs : In q (sort_queues qs) <-> In q qs.
Proof.
  split; intros H.
  - apply (Permutation_in _ (C17_Proofs.sort_queues_perm qs) H).
  - apply (Permutation_in _ (Permutation_sym (C17_Proofs.sort_queues_perm qs)) H).
Qed.

Definition exec_of (cfg : config) (q : qstate) (t : task) : eobs :=
  mkEO (q_name q) (t_hook t) (map (render_ctx (hook_v0 cfg (t_hook t))) (t_ctxs t)).

Lemma in_execs_inv cfg s e : In e (so_execs (observe cfg s)) ->
  exists q t r sy, In q (queues s) /\ q_running q = Some sy /\ q_items q = t :: r /\ q_delay q = false
                   /\ e = exec_of cfg q t.
Proof.
  unfold observe. cbn [so_execs]. intros H. apply in_flat_map in H as [q [Hq He]].
  apply (proj1 (in_sort_queues q _)) in Hq.
  destruct (q_running q) as [sy|] eqn:R; [|destruct He]. destruct (q_items q) as [|t r] eqn:I; [destruct He|].
  destruct (q_delay q) eqn:D; [destruct He|]. destruct He as [<-|[]].
  exists q, t, r, sy. repeat split; auto.
Qed.

Lemma in_execs_intro cfg s q t r sy : In q (queues s) -> q_running q = Some sy -> q_items q = t :: r ->
  q_delay q = false -> In (exec_of cfg q t) (so_execs (observe cfg s)).
Proof.
  intros Hq R I D. unfold observe. cbn [so_execs]. apply in_flat_map. exists q.
  split; [now apply (proj2 (in_sort_queues q _))|]. rewrite R, I, D. now left.
Qed.

Lemma in_so_queues cfg s qo : In qo (so_queues (observe cfg s)) ->
  exists q, In q (queues s) /\ qo_items qo = q_items q /\ qo_name qo = q_name q.
Proof.
  unfold observe. cbn [so_queues]. intros H. apply in_map_iff in H as [q [<- Hq]].
  apply (proj1 (in_sort_queues q _)) in Hq. exists q. auto.
Qed.

Lemma in_insert_N x n l : In x (insert_N n l) <-> x = n \/ In x l.
Proof.
  induction l as [|y r IH]; cbn [insert_N].
  - cbn [In]. split; intros H; intuition auto.
  - destruct (N.eqb n y) eqn:E.
    + apply N.eqb_eq in E. subst y. split; [auto|]. intros [->|H]; [now left | exact H].
    + destruct (N.ltb n y).
      * cbn [In]. split; intros H; intuition auto.
      * cbn [In]. rewrite IH. split; intros H; tauto.
Qed.

Lemma in_sort_dedup x l : In x (sort_dedup l) <-> In x l.
Proof.
  induction l as [|y r IH]; [reflexivity|]. cbn [sort_dedup fold_right]. fold (sort_dedup r).
  rewrite in_insert_N, IH. cbn [In]. split; intros [H|H]; auto.
Qed.

Lemma sub_sort_dedup l : sub l (sort_dedup l).
Proof. intros x H. apply mem_N_In. apply (proj2 (in_sort_dedup x l)). now apply mem_N_In. Qed.

Lemma find_map_name (n : N) (g : qstate -> qobs) (l : list qstate) :
  (forall q, qo_name (g q) = q_name q) ->
  find_q n (map g l) = option_map g (find_queue l n).
Proof.
  intros Hg. unfold find_q, find_queue. induction l as [|q r IH]; [reflexivity|]. cbn [map find].
  rewrite Hg. destruct (N.eqb (q_name q) n); [reflexivity | exact IH].
Qed.

Lemma find_q_main cfg s q : NoDup (names (queues s)) -> In q (queues s) ->
  exists qo, find_q (q_name q) (so_queues (observe cfg s)) = Some qo /\ qo_items qo = q_items q.
Proof.
  intros ND Hq. unfold observe. cbn [so_queues].
  rewrite find_map_name by reflexivity.
  assert (ND' : NoDup (names (sort_queues (queues s)))).
  { unfold names. apply (Permutation_NoDup (l := map q_name (queues s))); [|exact ND].
    apply Permutation_map, Permutation_sym, C17_Proofs.sort_queues_perm. }
  rewrite (find_queue_unique _ q ND' (proj2 (in_sort_queues q _) Hq)). cbn [option_map].
  eexists. split; reflexivity.
Qed.

Lemma find_e_inv n es e : find_e n es = Some e -> In e es /\ eo_queue e = n.
Proof. unfold find_e. intros F. apply find_some in F as [F1 F2]. apply N.eqb_eq in F2. auto. Qed.

(* what a rendered context can show *)
Lemma render_hides cfg v0 c : v0 = true \/ ctx_fine cfg c = true ->
  (match render_ctx v0 c with (b, k, _, _) => N.eqb k K_Sync && sync_exempt cfg b end) = false.
Proof.
  unfold render_ctx, ctx_fine, is_ksync. intros [->|H]; [reflexivity|]. destruct v0; [reflexivity|].
  destruct (c_kind c); cbn [kind_code]; destruct (N.eqb (c_group c) 0); try reflexivity.
  cbn [negb orb] in H. apply negb_true_iff in H. now rewrite H.
Qed.

Lemma render_nosync v0 c : is_ksync c = false ->
  (match render_ctx v0 c with (_, k, _, _) => N.eqb k K_Sync end) = false.
Proof.
  unfold render_ctx, is_ksync. intros H. destruct v0; [reflexivity|].
  destruct (c_kind c); try discriminate; cbn [kind_code]; destruct (N.eqb (c_group c) 0); reflexivity.
Qed.

Lemma render_binding v0 c : (match render_ctx v0 c with (b, _, _, _) => b end) = c_binding c.
Proof.
  unfold render_ctx. destruct v0; [reflexivity|]. destruct (c_kind c); try reflexivity;
    destruct (N.eqb (c_group c) 0); reflexivity.
Qed.

Lemma is_startup_exec_of cfg unl q t : is_hookrun t = true -> tk cfg unl t = true ->
  is_startup_exec (exec_of cfg q t) = is_st t.
Proof.
  intros Hhr Tt. apply (tk_hr cfg unl t Hhr) in Tt. destruct Tt as [F1 _ _ F4 _].
  unfold is_startup_exec, exec_of. cbn [eo_ctxs]. destruct (t_ctxs t) as [|c r] eqn:E; [discriminate|].
  cbn [map]. pose proof (render_binding (hook_v0 cfg (t_hook t)) c) as RB.
  destruct (render_ctx (hook_v0 cfg (t_hook t)) c) as [[[b k] g] o]. subst b.
  destruct (is_st t).
  - rewrite !andb_true_iff in F4. destruct F4 as [[[_ _] F4] _]. unfold startup_ctxs in F4.
    destruct r; [|discriminate]. now apply andb_true_iff in F4 as [F4 _].
  - cbn [forallb] in F4. apply andb_true_iff in F4 as [F4 _]. now apply negb_true_iff in F4.
Qed.

(* ------------------------------------------------------------------ clauses (3), (5), (6): every state *)

Lemma head_facts cfg s q t r sy : s_ok cfg s -> In q (queues s) -> q_running q = Some sy -> q_items q = t :: r ->
  tk_facts cfg (unlocked s) t /\ is_hookrun t = true /\ should_run (hook_v0 cfg (t_hook t)) t = true
  /\ (N.eqb (q_name q) 0 = true \/ forallb plain (t :: r) = true).
Proof.
  intros [H1 _] Hq R I. pose proof (forallb_In _ _ q H1 Hq) as Qq.
  destruct (qinv_elim cfg _ q Qq) as (Q1 & Q2 & Q3). rewrite R, I in *.
  apply andb_true_iff in Q2 as [Hhr SR].
  destruct (qi_tail cfg _ t r Q1) as (Tt & _).
  split; [now apply tk_hr|]. split; [exact Hhr|]. split; [exact SR|].
  apply orb_true_iff in Q3 as [Q3|Q3]; [now left | now right].
Qed.

Lemma clause3 cfg s : s_ok cfg s ->
  forallb (fun e => negb (exec_shows_exempt_sync cfg e)) (so_execs (observe cfg s)) = true.
Proof.
  intros HS. apply forallb_forall. intros e He.
  apply in_execs_inv in He as (q & t & r & sy & Hq & R & I & D & ->).
  destruct (head_facts cfg s q t r sy HS Hq R I) as ([_ _ F3 _ _] & _ & SR & _). rewrite SR in F3.
  apply negb_true_iff. unfold exec_shows_exempt_sync, exec_of. cbn [eo_ctxs].
  destruct (existsb _ _) eqn:X; [|reflexivity]. exfalso.
  apply existsb_exists in X as [hc [Hhc X]]. apply in_map_iff in Hhc as [c [<- Hc]].
  rewrite render_hides in X; [discriminate|].
  apply orb_true_iff in F3 as [F3|F3]; [now left | right; apply (forallb_In _ _ c F3 Hc)].
Qed.

Lemma clause6 cfg s : s_ok cfg s ->
  forallb (fun e => if existsb (fun hc : hookctx => match hc with (_, k, _, _) => N.eqb k K_Sync end) (eo_ctxs e)
                    then N.eqb (eo_queue e) 0 else true) (so_execs (observe cfg s)) = true.
Proof.
  intros HS. apply forallb_forall. intros e He.
  apply in_execs_inv in He as (q & t & r & sy & Hq & R & I & D & ->).
  destruct (head_facts cfg s q t r sy HS Hq R I) as (_ & _ & _ & [Z|Pl]).
  - unfold exec_of. cbn [eo_queue eo_ctxs]. rewrite Z. now destruct (existsb _ _).
  - cbn [forallb] in Pl. apply andb_true_iff in Pl as [Pt _]. apply plain_facts in Pt. destruct Pt as (_ & Ns & _).
    unfold exec_of. cbn [eo_queue eo_ctxs].
    destruct (existsb _ _) eqn:X; [|reflexivity]. exfalso.
    apply existsb_exists in X as [hc [Hhc X]]. apply in_map_iff in Hhc as [c [<- Hc]].
    rewrite render_nosync in X; [discriminate|]. unfold nosync in Ns.
    apply negb_true_iff. apply (forallb_In _ _ c Ns Hc).
Qed.

Lemma clause5 cfg s : s_ok cfg s ->
  forallb (fun q => forallb (fun t => match t_type t, t_btype t with
                                      | HookRun, BSchedule => hook_kube_unlocked cfg (t_hook t) (so_unlocked (observe cfg s))
                                      | _, _ => true
                                      end) (qo_items q)) (so_queues (observe cfg s)) = true.
Proof.
  intros [H1 _]. apply forallb_forall. intros qo Hqo. apply in_so_queues in Hqo as (q & Hq & -> & _).
  pose proof (forallb_In _ _ q H1 Hq) as Qq. destruct (qinv_elim cfg _ q Qq) as (Q1 & _).
  unfold qi in Q1. rewrite !andb_true_iff in Q1. destruct Q1 as [[[Tk _] _] _].
  apply forallb_forall. intros t Ht. pose proof (forallb_In _ _ t Tk Ht) as Tt.
  destruct (t_type t) eqn:Ty; try reflexivity. destruct (t_btype t) eqn:Bt; try reflexivity.
  assert (Hhr : is_hookrun t = true) by (unfold is_hookrun; now rewrite Ty).
  apply (tk_hr cfg _ t Hhr) in Tt. destruct Tt as [_ _ _ _ F5]. rewrite Bt in F5.
  cbn [observe so_unlocked]. apply (hku_mono cfg (t_hook t) (unlocked s)); [apply sub_sort_dedup | exact F5].
Qed.

(* ------------------------------------------------------------------ one step *)

Section Run.
Variable cfg : config.
Hypothesis W : wf_facts cfg.
Hypothesis Hnoq : has_queue (boot_queues cfg) no_queue = false.

Definition booted_or_not (s : state) : Prop := preboot s \/ J cfg s.

Lemma noq_state s : booted_or_not s -> has_queue (queues s) no_queue = false.
Proof.
  intros [(Q & _)|HJ]; [now rewrite Q|]. destruct HJ as [sts others mr md Qs Hq Hst Hoth Hn Hp].
  now apply (noq cfg Hnoq).
Qed.

Lemma step_ok s a : Inv s -> booted_or_not s -> s_ok cfg s ->
  s_ok cfg (step cfg s a)
  /\ exists ex, unlocked (step cfg s a) = pre_unl s a ++ ex /\ forallb (sync_exempt cfg) ex = true.
Proof.
  intros HI HB HS. destruct (pre_ok cfg s a W (inv_names s HI) HS) as [P1 P2].
  rewrite step_pre, <- P2. apply advance_ok; [exact W | | exact P1].
  destruct (pre_names cfg s a) as [E|[_ E]].
  - rewrite (has_queue_names _ _ E). now apply noq_state.
  - rewrite (has_queue_names _ _ E). exact Hnoq.
Qed.

Lemma step_booted s a : booted_or_not s -> booted_or_not (step cfg s a).
Proof. intros [H|H]; [now apply step_preboot | right; now apply step_J]. Qed.

(* clause (4): how a monitor gets unlocked *)
Lemma clause4 s a : Inv s -> booted_or_not s -> s_ok cfg s ->
  forallb (fun b => mem_N b (so_unlocked (observe cfg s))
                    || sync_exempt cfg b
                    || match a with
                       | Finish q ok =>
                           N.eqb q 0 && match find_q 0 (so_queues (observe cfg s)) with
                                        | Some m => match qo_items m with
                                                    | t :: _ => (ok || t_allow t) && mem_N b (t_mids t)
                                                    | [] => false
                                                    end
                                        | None => false
                                        end
                       | FinishWait q =>
                           N.eqb q 0 && match find_q 0 (so_queues (observe cfg s)) with
                                        | Some m => match qo_items m with
                                                    | t :: _ => t_allow t && mem_N b (t_mids t)
                                                    | [] => false
                                                    end
                                        | None => false
                                        end
                       | _ => false
                       end) (so_unlocked (observe cfg (step cfg s a))) = true.
Proof.
  intros HI HB HS. destruct (step_ok s a HI HB HS) as (_ & ex & EU & EX).
  apply forallb_forall. intros b Hb. cbn [observe so_unlocked] in Hb. apply (proj1 (in_sort_dedup b _)) in Hb.
  rewrite EU in Hb. apply in_app_or in Hb as [Hb|Hb].
  2:{ rewrite (forallb_In _ _ b EX Hb). now rewrite orb_true_r. }
  assert (Old : In b (unlocked s) -> mem_N b (so_unlocked (observe cfg s)) = true).
  { intros H. cbn [observe so_unlocked]. apply mem_N_In. apply (proj2 (in_sort_dedup b _)), H. }
  assert (Fin : forall qn ok,
            In b (match find_queue (queues s) qn with Some q => fin_unl q ok (unlocked s) | None => unlocked s end) ->
            mem_N b (so_unlocked (observe cfg s)) = true
            \/ N.eqb qn 0 && match find_q 0 (so_queues (observe cfg s)) with
                             | Some m => match qo_items m with t :: _ => (ok || t_allow t) && mem_N b (t_mids t) | [] => false end
                             | None => false end = true).
  { intros qn ok H. destruct (find_queue (queues s) qn) as [q|] eqn:F; [|left; now apply Old].
    unfold find_queue in F. apply find_some in F as [Hq En]. apply N.eqb_eq in En.
    unfold fin_unl in H. destruct (q_running q) as [sy|] eqn:R; [|left; now apply Old].
    destruct (q_items q) as [|t r] eqn:I; [left; now apply Old|].
    destruct (q_delay q) eqn:D; [left; now apply Old|].
    destruct (ok || t_allow t) eqn:C; [|left; now apply Old].
    apply in_app_or in H as [H|H]; [left; now apply Old|]. right.
    destruct (head_facts cfg s q t r sy HS Hq R I) as (_ & _ & _ & [Z|Pl]).
    2:{ exfalso. cbn [forallb] in Pl. apply andb_true_iff in Pl as [Pl _]. apply plain_facts in Pl.
        destruct Pl as (_ & _ & _ & Mi & _). rewrite Mi in H. destruct H. }
    apply N.eqb_eq in Z. rewrite <- En, Z. cbn [N.eqb andb].
    destruct (find_q_main cfg s q (inv_names s HI) Hq) as (qo & Fq & Iq). rewrite Z in Fq. rewrite Fq, Iq, I, C. cbn [andb].
    now apply mem_N_In. }
  destruct a; cbn [pre_unl] in Hb; try (rewrite (Old Hb); reflexivity).
  - destruct (Fin q ok Hb) as [H|H]; rewrite H; [reflexivity | now rewrite orb_true_r].
  - destruct (Fin q false Hb) as [H|H]; cbn [orb] in H; rewrite H; [reflexivity | now rewrite orb_true_r].
Qed.

End Run.

(* ------------------------------------------------------------------ the expected startup order *)

Lemma expected_startup_hooks cfg : expected_startup cfg = map h_id (startup_hooks cfg).
Proof.
  unfold expected_startup, startup_hooks, sort_by_order.
  set (f := fun p : hook * Z => (h_id (fst p), snd p)).
  assert (Hins : forall x l, map f (insert_by_order x l) = ins (f x) (map f l)).
  { intros x l. induction l as [|y r IH]; [reflexivity|]. cbn [insert_by_order map ins].
    change (snd (f x)) with (snd x). change (snd (f y)) with (snd y).
    destruct (Z.leb (snd x) (snd y)); [reflexivity|]. cbn [map]. now rewrite IH. }
  assert (Hsort : forall l, map f (fold_right insert_by_order [] l) = fold_right ins [] (map f l)).
  { induction l as [|x l IH]; [reflexivity|]. cbn [fold_right map]. now rewrite Hins, IH. }
  assert (Hfm : map f (flat_map (fun h => match h_startup h with Some o => [(h, o)] | None => [] end) cfg)
                = flat_map (fun h => match h_startup h with Some o => [(h_id h, o)] | None => [] end) cfg).
  { induction cfg as [|h c IH]; [reflexivity|]. cbn [flat_map]. rewrite map_app, IH.
    destruct (h_startup h); reflexivity. }
  rewrite <- Hfm, <- Hsort, !map_map. reflexivity.
Qed.

Lemma st_hooks_app a b : st_hooks (a ++ b) = st_hooks a ++ st_hooks b.
Proof. unfold st_hooks. now rewrite filter_app, map_app. Qed.

Lemma st_hooks_none l : forallb (fun t => negb (is_st t)) l = true -> st_hooks l = [].
Proof.
  unfold st_hooks. induction l as [|t r IH]; intros H; [reflexivity|]. cbn [forallb] in H.
  apply andb_true_iff in H as [H1 H2]. apply negb_true_iff in H1. cbn [filter]. rewrite H1. now apply IH.
Qed.

Lemma st_hooks_none_F l : Forall (fun t => is_st t = false) l -> st_hooks l = [].
Proof.
  intros H. apply st_hooks_none. apply forallb_forall. intros t Ht. rewrite Forall_forall in H.
  now rewrite (H t Ht).
Qed.

Lemma st_hooks_boot_main cfg : st_hooks (boot_main cfg) = expected_startup cfg.
Proof.
  rewrite expected_startup_hooks. unfold boot_main. rewrite st_hooks_app.
  rewrite (st_hooks_none_F (flat_map enable_tasks cfg)), app_nil_r.
  - unfold st_hooks. induction (startup_hooks cfg) as [|h l IH]; [reflexivity|]. cbn. now rewrite IH.
  - apply Forall_forall. intros t Ht. apply in_flat_map in Ht as [h [_ Ht]]. unfold enable_tasks in Ht.
    apply in_app_or in Ht as [Ht|Ht]; destruct (h_kube h), (h_sched h); simpl in Ht;
      repeat (destruct Ht as [<-|Ht]; [reflexivity|]); try contradiction.
Qed.

Lemma tk_st_like cfg unl t : tk cfg unl t = true -> is_st t = true -> st_like t.
Proof.
  intros Tt St. destruct (is_hookrun t) eqn:Hhr.
  - apply (tk_hr cfg unl t Hhr) in Tt. destruct Tt as [_ _ _ F4 _]. rewrite St in F4.
    rewrite !andb_true_iff in F4. destruct F4 as [[[F6 F4] _] F5]. apply N.eqb_eq in F4. apply negb_true_iff in F5.
    unfold is_hookrun in Hhr. unfold is_st in St. unfold st_like.
    destruct (t_type t); try discriminate. destruct (t_btype t); try discriminate.
    destruct (t_mids t); [auto | discriminate].
  - destruct (tk_not_hookrun cfg unl t Hhr Tt) as [_ X]. congruence.
Qed.

Lemma advance_q_st_hooks cfg qok unl fuel items sh : qok no_queue = false -> qi cfg unl items = true ->
  st_hooks (fst (fst (advance_q fuel cfg qok items sh))) = st_hooks items.
Proof.
  intros Hq Hqi. destruct fuel as [|fuel]; [reflexivity|]. destruct items as [|t rest]; [reflexivity|].
  destruct (qi_tail cfg unl t rest Hqi) as (Tt & Tr & _).
  unfold qi in Hqi. rewrite !andb_true_iff in Hqi. destruct Hqi as [[_ Hst] _].
  destruct (is_st t) eqn:St.
  - rewrite (advance_q_startup fuel cfg qok t rest sh (tk_st_like cfg unl t Tt St) Hq). reflexivity.
  - pose proof (first_then_head_not is_st t rest Hst St) as Nr.
    assert (FA : Forall (fun x => is_st x = false) (t :: rest)).
    { constructor; [exact St|]. apply Forall_forall. intros x Hx. apply negb_true_iff. apply (forallb_In _ _ x Nr Hx). }
    pose proof (advance_q_not_st cfg qok (S fuel) (t :: rest) sh FA) as NS.
    rewrite (st_hooks_none_F _ NS). symmetry. now apply st_hooks_none_F.
Qed.

Lemma adv_one_st_hooks cfg qok unl q : qok no_queue = false -> qinv cfg unl q = true ->
  st_hooks (q_items (adv_one cfg qok q)) = st_hooks (q_items q).
Proof.
  intros Hq HQ. destruct (qinv_elim cfg unl q HQ) as (Q1 & _). unfold adv_one.
  destruct (is_running q); [reflexivity|].
  pose proof (advance_q_st_hooks cfg qok unl (fuel_for cfg (q_items q)) (q_items q) no_shared Hq Q1) as A.
  destruct (advance_q _ _ _ _ _) as [[items run] sh]. exact A.
Qed.

(* the onStartup hooks still queued after one step of the main queue *)
Definition st_done (a : action) (stp : bool) (m : qstate) : bool :=
  match a, q_items m with
  | Finish qn true, t :: _ => N.eqb (q_name m) qn && in_handler m && is_st t && negb stp
  | _, _ => false
  end.

Lemma st_hooks_snoc_filter l (f : task -> bool) ts :
  Forall (fun t => is_st t = false) ts -> st_hooks (l ++ filter f ts) = st_hooks l.
Proof.
  intros H. rewrite st_hooks_app, (st_hooks_none_F (filter f ts)), app_nil_r; [reflexivity|].
  apply Forall_forall. intros t Ht. apply filter_In in Ht as [Ht _]. rewrite Forall_forall in H. now apply H.
Qed.

Lemma finish_one_st_hooks cfg unl ok stp wait m : qinv cfg unl m = true ->
  st_hooks (q_items (finish_one ok stp wait m))
  = if ok && in_handler m && negb stp && match q_items m with t :: _ => is_st t | [] => false end
    then tl (st_hooks (q_items m)) else st_hooks (q_items m).
Proof.
  intros HQ. destruct (qinv_elim cfg unl m HQ) as (Q1 & Q2 & _).
  unfold finish_one, in_handler, is_running.
  destruct (q_running m) as [sy|]; [|cbn [andb]; rewrite andb_false_r; reflexivity].
  destruct (q_items m) as [|t r] eqn:I; [rewrite andb_false_r, I; reflexivity|].
  destruct (q_delay m); [cbn [negb andb]; rewrite andb_false_r, I; reflexivity|]. cbn [negb andb]. rewrite andb_true_r.
  destruct stp; [cbn [negb]; rewrite andb_false_r; reflexivity|]. cbn [negb]. rewrite andb_true_r. cbn [q_items].
  destruct (qi_tail cfg unl t r Q1) as (Tt & _).
  assert (Hd : st_hooks (t :: r) = if is_st t then t_hook t :: st_hooks r else st_hooks r).
  { unfold st_hooks. cbn [filter]. now destruct (is_st t). }
  assert (Al : is_st t = true -> t_allow t = false).
  { intros St. now destruct (tk_st_like cfg unl t Tt St) as (_ & _ & _ & A & _). }
  destruct ok; cbn [orb andb].
  - rewrite Hd. now destruct (is_st t).
  - destruct (t_allow t) eqn:A.
    + rewrite Hd. destruct (is_st t); [|reflexivity]. specialize (Al eq_refl). discriminate.
    + assert (Ei : st_hooks (incr_fail t :: r) = st_hooks (t :: r)).
      { unfold st_hooks. cbn [filter]. change (is_st (incr_fail t)) with (is_st t). now destruct (is_st t). }
      destruct wait; cbn [q_items]; exact Ei.
Qed.

Lemma step_q_st_hooks cfg on unl stp qok a m : wf_facts cfg -> qok no_queue = false ->
  qinv cfg unl m = true -> forallb (fun h => hook_kube_unlocked cfg h unl) on = true ->
  st_hooks (q_items (step_q cfg a on unl stp qok m))
  = if st_done a stp m then tl (st_hooks (q_items m)) else st_hooks (q_items m).
Proof.
  intros W Hq HQ G. unfold step_q.
  assert (Adv : forall q1 u1, qinv cfg u1 q1 = true ->
            st_hooks (q_items (if stp || is_stop a then q1 else adv_one cfg qok q1)) = st_hooks (q_items q1)).
  { intros q1 u1 H1. destruct (stp || is_stop a); [reflexivity|]. now apply (adv_one_st_hooks cfg qok u1). }
  destruct a; unfold st_done.
  - rewrite (Adv m unl HQ). reflexivity.
  - rewrite (Adv _ unl (qinv_app_many cfg unl _ m HQ (sched_tasks_appendable cfg on unl c W G))).
    unfold app_many. cbn [q_items]. apply st_hooks_snoc_filter, sched_tasks_not_st.
  - rewrite (Adv _ unl (qinv_app_many cfg unl _ m HQ (kube_tasks_appendable cfg unl unl mon obj W))).
    unfold app_many. cbn [q_items]. apply st_hooks_snoc_filter, kube_tasks_not_st.
  - destruct (N.eqb (q_name m) q) eqn:E.
    + rewrite (Adv _ _ (qinv_finish_one cfg unl ok stp false m HQ)).
      rewrite (finish_one_st_hooks cfg unl ok stp false m HQ).
      destruct ok; cbn [andb]; [|now destruct (q_items m)].
      destruct (q_items m) as [|t r]; [now rewrite !andb_false_r|].
      destruct (in_handler m), stp, (is_st t); reflexivity.
    + rewrite (Adv m unl HQ). destruct ok; [|reflexivity]. now destruct (q_items m).
  - rewrite (Adv m unl HQ). reflexivity.
  - destruct (N.eqb (q_name m) q) eqn:E; [|now rewrite (Adv m unl HQ)].
    rewrite (Adv _ _ (qinv_finish_one cfg unl false stp true m HQ)).
    now rewrite (finish_one_st_hooks cfg unl false stp true m HQ).
  - destruct (N.eqb (q_name m) q) eqn:E; [|now rewrite (Adv m unl HQ)].
    rewrite (Adv _ unl (qinv_elapse_one cfg unl m HQ)). unfold elapse_one. now destruct (q_delay m).
Qed.

(* ------------------------------------------------------------------ clauses (1), (2): the startup order *)

Definition done_step (a : action) (prev : sobs) (done : list N) : list N :=
  match a with
  | Finish q true =>
      match find_e q (so_execs prev) with
      | Some e => if is_startup_exec e then done ++ [eo_hook e] else done
      | None => done
      end
  | _ => done
  end.

Lemma prefix_N_app a b : prefix_N a (a ++ b) = true.
Proof. induction a as [|x a IH]; [reflexivity|]. cbn. now rewrite N.eqb_refl, IH. Qed.

Lemma same_name_head m Qs q : NoDup (names (m :: Qs)) -> In q (m :: Qs) -> q_name q = q_name m -> q = m.
Proof.
  intros ND [H|H] E; [now symmetry|]. exfalso. cbn [names map] in ND. inversion ND as [|? ? Hn _]; subst.
  apply Hn. rewrite <- E. now apply in_map.
Qed.

Lemma advance_nil cfg s : queues s = [] -> queues (advance cfg s) = [].
Proof. intros Q. unfold advance. destruct (stopped s); [exact Q|]. now rewrite Q. Qed.

Lemma append_tasks_nil ts : append_tasks [] ts = [].
Proof. unfold append_tasks. induction ts as [|t ts IH]; [reflexivity | exact IH]. Qed.

Lemma preboot_queues_stay cfg s a : queues s = [] -> a <> Boot -> queues (step cfg s a) = [].
Proof.
  intros Q Ha. rewrite step_pre. apply advance_nil. destruct a; cbn [pre_state]; rewrite ?Q; cbn;
    try reflexivity; try apply append_tasks_nil. contradiction.
Qed.

Section Run2.
Variable cfg : config.
Hypothesis W : wf_facts cfg.
Hypothesis Hnoq : has_queue (boot_queues cfg) no_queue = false.

Definition guard (s : state) : Prop := stopped s = false \/ main_busy s = true.

Record dinv_p (done : list N) (s : state) : Prop := mkD {
  d_prefix : prefix_N done (expected_startup cfg) = true;
  d_pre : queues s = [] -> done = [];
  d_eq : queues s <> [] -> guard s -> done ++ st_hooks (main_items s) = expected_startup cfg
}.

Lemma J_head s : J cfg s -> exists m Qs, queues s = m :: Qs /\ q_name m = 0.
Proof. intros [sts others mr md Qs Hq _ _ _ _]. eexists; eexists. split; [exact Hq | reflexivity]. Qed.

Lemma done_step_char s a done m Qs : Inv s -> s_ok cfg s -> queues s = m :: Qs -> q_name m = 0 ->
  done_step a (observe cfg s) done
  = match a with
    | Finish qn true =>
        match q_items m with
        | t :: _ => if N.eqb (q_name m) qn && in_handler m && is_st t then done ++ [t_hook t] else done
        | [] => done
        end
    | _ => done
    end.
Proof.
  intros HI HS Hq Hm. destruct a as [| | |qn ok| | |]; try reflexivity. destruct ok; [|reflexivity].
  pose proof (inv_names s HI) as ND. rewrite Hq in ND.
  assert (Hmin : In m (queues s)) by (rewrite Hq; now left).
  cbn [done_step]. destruct (find_e qn (so_execs (observe cfg s))) as [e|] eqn:F.
  - destruct (find_e_inv _ _ _ F) as [He En].
    apply in_execs_inv in He as (q & t' & r & sy & Hin & R & I & D & ->).
    cbn [exec_of eo_queue] in En.
    destruct (head_facts cfg s q t' r sy HS Hin R I) as (TF & Hhr & _ & Z).
    rewrite (is_startup_exec_of cfg (unlocked s) q t' Hhr (proj2 (tk_hr cfg _ t' Hhr) TF)).
    cbn [exec_of eo_hook].
    destruct (is_st t') eqn:St.
    + assert (Zq : q_name q = 0).
      { destruct Z as [Z|Pl]; [now apply N.eqb_eq|]. cbn [forallb] in Pl. apply andb_true_iff in Pl as [Pl _].
        apply plain_facts in Pl. destruct Pl as (_ & _ & X & _). congruence. }
      rewrite Hq in Hin. assert (Eqm : q = m) by (apply (same_name_head m Qs q ND Hin); congruence). subst q.
      rewrite I, En, N.eqb_refl, St. unfold in_handler, is_running. now rewrite R, D.
    + destruct (q_items m) as [|t0 r0] eqn:Im; [reflexivity|].
      destruct (N.eqb (q_name m) qn && in_handler m && is_st t0) eqn:C; [|reflexivity]. exfalso.
      apply andb_true_iff in C as [C C3]. apply andb_true_iff in C as [C1 _]. apply N.eqb_eq in C1.
      rewrite Hq in Hin. assert (Eqm : q = m) by (apply (same_name_head m Qs q ND Hin); congruence). subst q.
      rewrite Im in I. inversion I; subst. congruence.
  - destruct (q_items m) as [|t0 r0] eqn:Im; [reflexivity|].
    destruct (N.eqb (q_name m) qn && in_handler m && is_st t0) eqn:C; [|reflexivity]. exfalso.
    apply andb_true_iff in C as [C _]. apply andb_true_iff in C as [C1 C2]. apply N.eqb_eq in C1.
    unfold in_handler, is_running in C2. destruct (q_running m) as [sy|] eqn:R; [|discriminate].
    destruct (q_delay m) eqn:D; [discriminate|].
    pose proof (in_execs_intro cfg s m t0 r0 sy Hmin R Im D) as He.
    destruct (C17_Proofs.find_e_some qn _ _ He) as [e' F']; [exact C1|]. congruence.
Qed.

Lemma guard_back s a m Qs : Inv s -> queues s = m :: Qs ->
  in_handler (step_q cfg a (sched_on s) (unlocked s) (stopped s) (has_queue (queues s)) m) = true
  \/ stopped (step cfg s a) = false ->
  guard s.
Proof.
  intros HI Hq [H|H].
  - destruct (stopped s) eqn:St; [|now left]. right.
    assert (Hin : In m (queues s)) by (rewrite Hq; now left).
    pose proof (no_new_execution_after_stop cfg s a m HI Hin (or_introl St)) as NN. cbv zeta in NN.
    rewrite St in NN. destruct (NN H) as (_ & _ & X). unfold main_busy. now rewrite Hq.
  - left. rewrite step_stopped in H. now apply orb_false_iff in H as [H _].
Qed.

Lemma d_step s a done : Inv s -> booted_or_not cfg s -> s_ok cfg s -> dinv_p done s ->
  dinv_p (done_step a (observe cfg s) done) (step cfg s a).
Proof.
  intros HI HB HS HD. destruct HB as [(Q & _)|HJ].
  - (* before Boot *)
    pose proof (d_pre done s HD Q) as ->.
    assert (Ed : done_step a (observe cfg s) [] = []).
    { destruct a as [| | |qn ok| | |]; try reflexivity. destruct ok; [|reflexivity]. cbn [done_step].
      now rewrite (C17_Proofs.preboot_execs cfg s Q). }
    rewrite Ed. constructor; [reflexivity | reflexivity|]. intros Hne _. cbn [app].
    destruct a; try (exfalso; apply Hne; apply preboot_queues_stay; [exact Q | discriminate]).
    rewrite step_pre. cbn [pre_state]. rewrite Q.
    set (s1 := mkSt (boot_queues cfg) (sched_on s) (unlocked s) (mon_started s) (stopped s)).
    destruct (boot_queues_head cfg) as [Qs EB].
    destruct (stopped s) eqn:St.
    + rewrite (advance_when_stopped cfg s1 eq_refl). unfold main_items. cbn [s1 queues]. rewrite EB. cbn [q_items].
      apply st_hooks_boot_main.
    + rewrite <- st_hooks_boot_main. unfold main_items. rewrite (advance_queues cfg s1 eq_refl). cbn [s1 queues].
      rewrite EB. cbn [map].
      pose proof (boot_queues_qinv cfg (unlocked s) W) as BQ. rewrite EB in BQ. cbn [forallb] in BQ.
      apply andb_true_iff in BQ as [BQ _].
      pose proof Hnoq as Hnq'. rewrite EB in Hnq'.
      rewrite (adv_one_st_hooks cfg _ (unlocked s) _ Hnq' BQ). reflexivity.
  - (* a booted operator: the main queue moves by step_q *)
    destruct (J_head s HJ) as (m & Qs & Hq & Hm).
    pose proof (inv_names s HI) as ND.
    assert (Hne : queues s <> []) by (rewrite Hq; discriminate).
    assert (Hmin : In m (queues s)) by (rewrite Hq; now left).
    pose proof (step_queue_local cfg s a ND Hne) as SQ. rewrite Hq in SQ at 2. cbn [map] in SQ.
    set (m' := step_q cfg a (sched_on s) (unlocked s) (stopped s) (has_queue (queues s)) m) in *.
    assert (Emi : main_items (step cfg s a) = q_items m') by (unfold main_items; now rewrite SQ).
    assert (Emb : main_busy (step cfg s a) = in_handler m') by (unfold main_busy; now rewrite SQ).
    assert (Emi0 : main_items s = q_items m) by (unfold main_items; now rewrite Hq).
    destruct HS as [H1 H2]. pose proof (forallb_In _ _ m H1 Hmin) as Qm.
    assert (Hnq : has_queue (queues s) no_queue = false) by (apply (noq_state cfg Hnoq); now right).
    pose proof (step_q_st_hooks cfg (sched_on s) (unlocked s) (stopped s) (has_queue (queues s)) a m W Hnq Qm H2) as Hst.
    fold m' in Hst.
    rewrite (done_step_char s a done m Qs HI (conj H1 H2) Hq Hm).
    assert (GB : guard (step cfg s a) -> guard s).
    { intros [G|G]; apply (guard_back s a m Qs HI Hq); [now right | left; rewrite Emb in G; exact G]. }
    assert (Simple : st_hooks (q_items m') = st_hooks (q_items m) -> dinv_p done (step cfg s a)).
    { intros E. constructor.
      - apply (d_prefix done s HD).
      - intros Q'. rewrite SQ in Q'. discriminate.
      - intros _ G. rewrite Emi, E, <- Emi0. apply (d_eq done s HD Hne (GB G)). }
    destruct a as [| | |qn ok| | |]; try (apply Simple; exact Hst).
    destruct ok; [|apply Simple; exact Hst].
    unfold st_done in Hst.
    destruct (q_items m) as [|t r] eqn:Im; [apply Simple; exact Hst|].
    destruct (N.eqb (q_name m) qn && in_handler m && is_st t) eqn:C; [|apply Simple; exact Hst].
    apply andb_true_iff in C as [C C3]. apply andb_true_iff in C as [C1 C2]. apply N.eqb_eq in C1.
    assert (G0 : guard s) by (right; unfold main_busy; now rewrite Hq).
    pose proof (d_eq done s HD Hne G0) as E0. rewrite Emi0 in E0.
    assert (Hd : st_hooks (t :: r) = t_hook t :: st_hooks r) by (unfold st_hooks; cbn [filter]; now rewrite C3).
    rewrite Hd in E0.
    assert (E1 : (done ++ [t_hook t]) ++ st_hooks r = expected_startup cfg) by (now rewrite <- app_assoc).
    constructor.
    + rewrite <- E1. apply prefix_N_app.
    + intros Q'. rewrite SQ in Q'. discriminate.
    + intros _ G. destruct (stopped s) eqn:St.
      * exfalso. destruct G as [G|G].
        -- rewrite step_stopped, St in G. discriminate.
        -- pose proof (handler_return_stops_worker cfg s m true HI Hmin St) as HR. cbv zeta in HR.
           rewrite St, C1 in HR. destruct HR as [HR _]. rewrite Emb in G. unfold m' in G. congruence.
      * cbn [negb andb] in Hst. rewrite Hd in Hst. cbn [tl] in Hst.
        rewrite Emi, Hst. exact E1.
Qed.

Lemma clause2 s a done' : Inv s -> booted_or_not cfg s ->
  s_ok cfg (step cfg s a) -> booted_or_not cfg (step cfg s a) -> dinv_p done' (step cfg s a) ->
  forallb (fun e => is_startup_exec e
                    || N.eqb (N.of_nat (length done')) (N.of_nat (length (expected_startup cfg))))
          (new_execs a (observe cfg s) (observe cfg (step cfg s a))) = true.
Proof.
  intros HI HB HS' HB' HD'. destruct (stopped (step cfg s a)) eqn:St'.
  - assert (NE : new_execs a (observe cfg s) (observe cfg (step cfg s a)) = []); [|now rewrite NE].
    destruct (queues s) eqn:Q.
    + unfold new_execs. now rewrite (C17_Proofs.preboot_step_execs cfg s a Q St').
    + apply C17_Proofs.no_new_execs; [exact HI | rewrite Q; discriminate|].
      rewrite step_stopped in St'. destruct (stopped s); [now left|]. right. destruct a; try discriminate. reflexivity.
  - apply forallb_forall. intros e He. unfold new_execs in He. apply filter_In in He as [He _].
    apply in_execs_inv in He as (q & t & r & sy & Hin & R & I & D & ->).
    destruct (head_facts cfg _ q t r sy HS' Hin R I) as (TF & Hhr & _).
    rewrite (is_startup_exec_of cfg _ q t Hhr (proj2 (tk_hr cfg _ t Hhr) TF)).
    destruct (is_st t) eqn:St; [reflexivity|]. cbn [orb].
    destruct HB' as [(Q & _)|HJ]; [rewrite Q in Hin; destruct Hin|].
    destruct HJ as [sts others mr md Qs Hq Hst Hoth Hn Hp].
    assert (Es : sts = []).
    { destruct sts as [|t0 sts']; [reflexivity|]. exfalso.
      destruct (Hp ltac:(discriminate)) as (_ & _ & _ & Idle & _).
      rewrite Hq in Hin. destruct Hin as [<-|Hin].
      - cbn [q_items app] in I. inversion I; subst. inversion Hst as [|? ? H0 _]; subst.
        apply st_like_is_st in H0. congruence.
      - rewrite Forall_forall in Idle. destruct (Idle q Hin) as (_ & X & _). congruence. }
    subst sts. cbn [app] in Hq.
    assert (Hne : queues (step cfg s a) <> []) by (rewrite Hq; discriminate).
    pose proof (d_eq done' _ HD' Hne (or_introl St')) as E.
    unfold main_items in E. rewrite Hq in E. cbn [q_items] in E. rewrite (st_hooks_none_F others Hoth), app_nil_r in E.
    rewrite E. apply N.eqb_refl.
Qed.

(* ------------------------------------------------------------------ all steps *)

Record big (done : list N) (s : state) : Prop := mkBig {
  b_inv : Inv s;
  b_boot : booted_or_not cfg s;
  b_ok : s_ok cfg s;
  b_done : dinv_p done s
}.

Lemma big_step s a done : big done s -> big (done_step a (observe cfg s) done) (step cfg s a).
Proof.
  intros [B1 B2 B3 B4]. constructor.
  - now apply step_inv.
  - now apply step_booted.
  - now apply (step_ok cfg W Hnoq s a B1 B2 B3).
  - now apply d_step.
Qed.

Lemma steps_ok_cons done prev a acts cur obs :
  steps_ok cfg done prev (a :: acts) (cur :: obs)
  = (negb (so_bad cur)
     && prefix_N (done_step a prev done) (expected_startup cfg)
     && forallb (fun e => is_startup_exec e
                          || N.eqb (N.of_nat (length (done_step a prev done))) (N.of_nat (length (expected_startup cfg))))
                (new_execs a prev cur)
     && forallb (fun e => negb (exec_shows_exempt_sync cfg e)) (so_execs cur)
     && forallb (fun b => mem_N b (so_unlocked prev)
                          || sync_exempt cfg b
                          || match a with
                             | Finish q ok =>
                                 N.eqb q 0 && match find_q 0 (so_queues prev) with
                                              | Some m => match qo_items m with
                                                          | t :: _ => (ok || t_allow t) && mem_N b (t_mids t)
                                                          | [] => false
                                                          end
                                              | None => false
                                              end
                             | FinishWait q =>
                                 N.eqb q 0 && match find_q 0 (so_queues prev) with
                                              | Some m => match qo_items m with
                                                          | t :: _ => t_allow t && mem_N b (t_mids t)
                                                          | [] => false
                                                          end
                                              | None => false
                                              end
                             | _ => false
                             end) (so_unlocked cur)
     && forallb (fun q => forallb (fun t => match t_type t, t_btype t with
                                            | HookRun, BSchedule => hook_kube_unlocked cfg (t_hook t) (so_unlocked cur)
                                            | _, _ => true
                                            end) (qo_items q)) (so_queues cur)
     && forallb (fun e => if existsb (fun hc : hookctx => match hc with (_, k, _, _) => N.eqb k K_Sync end) (eo_ctxs e)
                          then N.eqb (eo_queue e) 0 else true) (so_execs cur)
     && steps_ok cfg (done_step a prev done) cur acts obs).
Proof. reflexivity. Qed.

Lemma steps_ok_from : forall acts s done, big done s ->
  steps_ok cfg done (observe cfg s) acts (map (observe cfg) (trace_from cfg s acts)) = true.
Proof.
  induction acts as [|a acts IH]; intros s done HB; [reflexivity|].
  cbn [trace_from map]. rewrite steps_ok_cons.
  pose proof (big_step s a done HB) as HB'. destruct HB as [B1 B2 B3 B4].
  pose proof HB' as [B1' B2' B3' B4'].
  rewrite (IH _ _ HB'), andb_true_r.
  rewrite (d_prefix _ _ B4').
  rewrite (clause2 s a _ B1 B2 B3' B2' B4').
  rewrite (clause3 cfg _ B3').
  rewrite (clause4 cfg W Hnoq s a B1 B2 B3).
  rewrite (clause5 cfg _ B3').
  rewrite (clause6 cfg _ B3').
  reflexivity.
Qed.

End Run2.

(* The whole property predicate holds of the model for every well-formed configuration
   (none of whose bindings uses the number standing for the empty queue name) and every
   sequence of actions. *)
Theorem P_holds cfg acts : wf_config cfg = true -> has_queue (boot_queues cfg) no_queue = false ->
  P (cfg, acts, Op_Corr.model_obs (cfg, acts, [])) = true.
Proof.
  intros Wf Hnoq. unfold P, Op_Corr.model_obs, c_cfg, c_acts, c_obs, trace. cbn [fst snd].
  rewrite <- (observe_init cfg).
  apply (steps_ok_from cfg (wf_config_facts cfg Wf) Hnoq acts init []).
  constructor.
  - apply init_inv.
  - left. repeat split.
  - split; reflexivity.
  - constructor; [reflexivity | reflexivity|]. intros H. exfalso. now apply H.
Qed.
