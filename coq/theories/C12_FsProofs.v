(* C12_FsProofs.v — lemmas and proofs about C12_FsModel / C12_FsSpec. *)
From Verif Require Import Common Json JsonText C12_Model C12_Spec C12_Corr C12_Proofs C12_FsModel C12_FsSpec.
Open Scope N_scope.

(* ------------------------------------------------------------------ basics *)

Lemma fupd_same {A} (f : N -> A) k v : fupd f k v k = v.
Proof. unfold fupd. now rewrite N.eqb_refl. Qed.
Lemma fupd_other {A} (f : N -> A) k v x : x <> k -> fupd f k v x = f x.
Proof. intros H. unfold fupd. destruct (N.eqb_spec x k); [contradiction | reflexivity]. Qed.

Lemma run_ops_app a b s : run_ops (a ++ b) s = run_ops b (run_ops a s).
Proof. unfold run_ops. apply fold_left_app. Qed.
Lemma run_ops_cons o r s : run_ops (o :: r) s = run_ops r (apply_op o s).
Proof. reflexivity. Qed.
Lemma run_ops_nil s : run_ops [] s = s.
Proof. reflexivity. Qed.

Lemma final_name_direct d n q : (forall t, d q <> Some (NSym t)) -> final_name d n q = Some q.
Proof.
  intros H. destruct n; cbn; destruct (d q) as [[i|t]|] eqn:E; try reflexivity; exfalso; eapply H; reflexivity.
Qed.
Lemma final_name_sym d n p t : d p = Some (NSym t) -> final_name d (S n) p = final_name d n t.
Proof. intros H. cbn. now rewrite H. Qed.

Lemma open_write_file a p c s i : dir s p = Some (NFile i) ->
  open_write a p c s = mkFs (dir s) (fupd (ino s) i ((if a then ino s i else []) ++ c)) (next s).
Proof.
  intros H. unfold open_write. rewrite final_name_direct by (intros t; rewrite H; discriminate). now rewrite H.
Qed.
Lemma open_write_new a p c s : dir s p = None ->
  open_write a p c s = mkFs (fupd (dir s) p (Some (NFile (next s)))) (fupd (ino s) (next s) c) (next s + 1).
Proof.
  intros H. unfold open_write. rewrite final_name_direct by (intros t; rewrite H; discriminate). now rewrite H.
Qed.

(* ------------------------------------------------------------------ invariants of every operation *)

Definition wf (s : fs) : Prop := forall p i, dir s p = Some (NFile i) -> i < next s.

Lemma apply_op_wf o s : wf s -> wf (apply_op o s) /\ next s <= next (apply_op o s).
Proof.
  intros W.
  assert (OW : forall a p c, wf (open_write a p c s) /\ next s <= next (open_write a p c s)).
  { intros a p c. unfold open_write. destruct (final_name (dir s) max_links p) as [q|]; [|split; [exact W | lia]].
    destruct (dir s q) as [[i|t]|] eqn:E; cbn.
    - split; [|lia]. intros x k. cbn. apply W.
    - split; [exact W | lia].
    - split; [|lia]. intros x k. cbn. unfold fupd. destruct (N.eqb_spec x q).
      + intros H. injection H as <-. lia.
      + intros H. apply W in H. lia. }
  destruct o as [p c|p c|a b|p|a b|t p]; cbn [apply_op].
  - apply OW.
  - apply OW.
  - destruct (dir s a) as [n|] eqn:Ea; [|split; [exact W | lia]].
    destruct (N.eqb_spec a b); [split; [exact W | lia]|].
    assert (G : wf (mkFs (fupd (fupd (dir s) b (Some n)) a None) (ino s) (next s))).
    { intros x k. cbn. unfold fupd. destruct (N.eqb_spec x a); [discriminate|].
      destruct (N.eqb_spec x b); [|apply W]. intros H. injection H as ->. now apply (W a). }
    destruct n as [i|t]; [|split; [exact G | cbn; lia]].
    destruct (dir s b) as [[j|t]|]; try (split; [exact G | cbn; lia]).
    destruct (N.eqb_spec i j); split; try exact W; try exact G; cbn; lia.
  - split; [|cbn; lia]. intros x k. cbn. unfold fupd. destruct (N.eqb_spec x p); [discriminate | apply W].
  - destruct (dir s a) as [n|] eqn:Ea; [|split; [exact W | lia]].
    destruct (dir s b) eqn:Eb; [split; [exact W | lia]|].
    split; [|cbn; lia]. intros x k. cbn. unfold fupd. destruct (N.eqb_spec x b); [|apply W].
    intros H. injection H as ->. now apply (W a).
  - destruct (dir s p) eqn:Ep; [split; [exact W | lia]|].
    split; [|cbn; lia]. intros x k. cbn. unfold fupd. destruct (N.eqb_spec x p); [discriminate | apply W].
Qed.

Lemma run_ops_wf ops : forall s, wf s -> wf (run_ops ops s) /\ next s <= next (run_ops ops s).
Proof.
  induction ops as [|o r IH]; intros s W; [split; [exact W | cbn; lia]|].
  rewrite run_ops_cons. destruct (apply_op_wf o s W) as [W1 L1]. destruct (IH _ W1) as [W2 L2]. split; [exact W2 | lia].
Qed.

(* ------------------------------------------------------------------ writing chunks *)

Lemma appends_post q cs : forall s i, dir s q = Some (NFile i) ->
  let s' := run_ops (map (OAppend q) cs) s in
  dir s' = dir s /\ next s' = next s /\ ino s' i = ino s i ++ concat cs /\ (forall k, k <> i -> ino s' k = ino s k).
Proof.
  induction cs as [|c r IH]; intros s i H; cbn zeta.
  - cbn. rewrite app_nil_r. repeat split; reflexivity.
  - cbn [map]. rewrite run_ops_cons. cbn [apply_op]. rewrite (open_write_file true q c s i H).
    set (s1 := mkFs _ _ _).
    assert (H1 : dir s1 q = Some (NFile i)) by exact H.
    destruct (IH s1 i H1) as (D & Nx & I & F). rewrite D, Nx, I. subst s1. cbn [dir next ino].
    rewrite fupd_same. cbn [concat]. rewrite app_assoc. repeat split; try reflexivity.
    intros k Hk. rewrite (F k Hk). cbn. now apply fupd_other.
Qed.

Lemma write_chunks_file q cs s i : dir s q = Some (NFile i) ->
  let s' := run_ops (write_chunks q cs) s in
  dir s' = dir s /\ next s' = next s /\ ino s' i = concat cs /\ (forall k, k <> i -> ino s' k = ino s k).
Proof.
  intros H. destruct cs as [|c r]; cbn zeta.
  - cbn [write_chunks]. rewrite run_ops_cons, run_ops_nil. cbn [apply_op]. rewrite (open_write_file false q [] s i H).
    cbn. rewrite fupd_same. repeat split; try reflexivity. intros k Hk. now apply fupd_other.
  - cbn [write_chunks]. rewrite run_ops_cons. cbn [apply_op]. rewrite (open_write_file false q c s i H).
    set (s1 := mkFs _ _ _).
    assert (H1 : dir s1 q = Some (NFile i)) by exact H.
    destruct (appends_post q r s1 _ H1) as (D & Nx & I & F). rewrite D, Nx, I. subst s1. cbn [dir next ino].
    rewrite fupd_same. repeat split; try reflexivity.
    intros k Hk. rewrite (F k Hk). cbn. now apply fupd_other.
Qed.

Lemma write_chunks_new q cs s : dir s q = None ->
  let s' := run_ops (write_chunks q cs) s in
  dir s' = fupd (dir s) q (Some (NFile (next s))) /\ next s' = next s + 1 /\ ino s' (next s) = concat cs
  /\ (forall k, k <> next s -> ino s' k = ino s k).
Proof.
  intros H. destruct cs as [|c r]; cbn zeta.
  - cbn [write_chunks]. rewrite run_ops_cons, run_ops_nil. cbn [apply_op]. rewrite (open_write_new false q [] s H).
    cbn. rewrite fupd_same. repeat split; try reflexivity. intros k Hk. now apply fupd_other.
  - cbn [write_chunks]. rewrite run_ops_cons. cbn [apply_op]. rewrite (open_write_new false q c s H).
    set (s1 := mkFs _ _ _).
    assert (H1 : dir s1 q = Some (NFile (next s))) by (subst s1; cbn; apply fupd_same).
    destruct (appends_post q r s1 _ H1) as (D & Nx & I & F). rewrite D, Nx, I. subst s1. cbn [dir next ino].
    rewrite fupd_same. repeat split; try reflexivity.
    intros k Hk. rewrite (F k Hk). cbn. now apply fupd_other.
Qed.

(* ------------------------------------------------------------------ one output, written in some way *)

(* the name p leads to inode j (directly, or through a symbolic link to so) and j holds c *)
Definition holds_content (s : fs) (p so : N) (c : bytes) (j : N) : Prop :=
  ino s j = c /\ (dir s p = Some (NFile j) \/ (dir s p = Some (NSym so) /\ dir s so = Some (NFile j))).

Lemma max_links_S : exists n, max_links = S n.
Proof. eexists; reflexivity. Qed.

Lemma holds_content_read s p so c j : holds_content s p so c j -> read_path s p = Some c.
Proof.
  intros [I [D | [D1 D2]]]; unfold read_path, inode_at.
  - rewrite final_name_direct by (intros t; rewrite D; discriminate). rewrite D. cbn. now rewrite I.
  - destruct max_links_S as [n E]. rewrite E. rewrite (final_name_sym _ n _ _ D1).
    rewrite final_name_direct by (intros t; rewrite D2; discriminate). rewrite D2. cbn. now rewrite I.
Qed.

Lemma script_post w p st so cs s i :
  w <> WRemove -> wf s -> dir s p = Some (NFile i) -> ino s i = [] -> dir s st = None -> dir s so = None ->
  p <> st -> p <> so -> st <> so ->
  let s' := run_ops (script w p st so cs) s in
  (exists j, holds_content s' p so (concat cs) j /\ (j = i \/ next s <= j)) /\
  dir s' st = None /\
  (forall q, q <> p -> q <> st -> q <> so -> dir s' q = dir s q) /\
  (forall k, k <> i -> k < next s -> ino s' k = ino s k).
Proof.
  intros Hw W Hp He Hst Hso N1 N2 N3. cbn zeta. unfold holds_content.
  destruct w; try (exfalso; apply Hw; reflexivity); cbn [script].
  - (* in place *)
    destruct (write_chunks_file p cs s i Hp) as (D & Nx & I & F).
    split; [exists i; split; [split; [exact I | left; rewrite D; exact Hp] | left; reflexivity]|].
    split; [rewrite D; exact Hst|]. split; [intros q _ _ _; now rewrite D|]. intros k Hk _. now apply F.
  - (* append only *)
    destruct (appends_post p cs s i Hp) as (D & Nx & I & F). rewrite He in I. cbn [app] in I.
    split; [exists i; split; [split; [exact I | left; rewrite D; exact Hp] | left; reflexivity]|].
    split; [rewrite D; exact Hst|]. split; [intros q _ _ _; now rewrite D|]. intros k Hk _. now apply F.
  - (* scratch file renamed onto the path *)
    rewrite run_ops_app. destruct (write_chunks_new st cs s Hst) as (D1 & Nx1 & I1 & F1).
    set (s1 := run_ops (write_chunks st cs) s) in *. rewrite run_ops_cons, run_ops_nil.
    assert (A : dir s1 st = Some (NFile (next s))) by (rewrite D1; apply fupd_same).
    assert (B : dir s1 p = Some (NFile i)) by (rewrite D1, fupd_other by exact N1; exact Hp).
    assert (E : apply_op (ORename st p) s1
                = mkFs (fupd (fupd (dir s1) p (Some (NFile (next s)))) st None) (ino s1) (next s1)).
    { cbn [apply_op]. rewrite A, B. destruct (N.eqb_spec st p); [congruence|].
      destruct (N.eqb_spec (next s) i) as [X|X]; [pose proof (W p i Hp); lia | reflexivity]. }
    rewrite E. cbn [dir ino next].
    split; [exists (next s); split; [split; [exact I1 | left] | right; lia]|].
    { rewrite fupd_other by exact N1. apply fupd_same. }
    split; [apply fupd_same|]. split.
    + intros q Q1 Q2 Q3. rewrite fupd_other by exact Q2. rewrite fupd_other by exact Q1. rewrite D1. now apply fupd_other.
    + intros k Hk Lk. apply F1. lia.
  - (* removed and created again *)
    rewrite run_ops_cons. cbn [apply_op]. set (s0 := mkFs (fupd (dir s) p None) (ino s) (next s)).
    assert (A : dir s0 p = None) by (subst s0; cbn; apply fupd_same).
    destruct (write_chunks_new p cs s0 A) as (D1 & Nx1 & I1 & F1).
    set (s1 := run_ops (write_chunks p cs) s0) in *. change (next s0) with (next s) in *. change (ino s0) with (ino s) in *.
    change (dir s0) with (fupd (dir s) p None) in D1.
    split; [exists (next s); split; [split; [exact I1 | left; rewrite D1; apply fupd_same] | right; lia]|].
    split; [rewrite D1; rewrite fupd_other by auto; rewrite fupd_other by auto; exact Hst|]. split.
    + intros q Q1 Q2 Q3. rewrite D1. rewrite fupd_other by exact Q1. now apply fupd_other.
    + intros k Hk Lk. apply F1. lia.
  - (* through a second hard link *)
    rewrite run_ops_cons. cbn [apply_op]. rewrite Hp, Hst.
    set (s0 := mkFs (fupd (dir s) st (Some (NFile i))) (ino s) (next s)).
    rewrite run_ops_app.
    assert (A : dir s0 st = Some (NFile i)) by (subst s0; cbn; apply fupd_same).
    destruct (write_chunks_file st cs s0 i A) as (D1 & Nx1 & I1 & F1).
    set (s1 := run_ops (write_chunks st cs) s0) in *. rewrite run_ops_cons, run_ops_nil. cbn [apply_op dir ino next].
    change (dir s0) with (fupd (dir s) st (Some (NFile i))) in D1. change (ino s0) with (ino s) in F1.
    split; [exists i; split; [split; [exact I1 | left] | left; reflexivity]|].
    { rewrite fupd_other by exact N1. rewrite D1. rewrite fupd_other by exact N1. exact Hp. }
    split; [apply fupd_same|]. split.
    + intros q Q1 Q2 Q3. rewrite fupd_other by exact Q2. rewrite D1. now apply fupd_other.
    + intros k Hk _. now apply F1.
  - (* a symbolic link at the path *)
    rewrite run_ops_app. destruct (write_chunks_new so cs s Hso) as (D1 & Nx1 & I1 & F1).
    set (s1 := run_ops (write_chunks so cs) s) in *. rewrite !run_ops_cons, run_ops_nil. cbn [apply_op dir ino next].
    rewrite fupd_same. cbn [dir ino next].
    split; [exists (next s); split; [split; [exact I1 | right; split] | right; lia]|].
    { apply fupd_same. }
    { rewrite fupd_other by auto. rewrite fupd_other by auto. rewrite D1. apply fupd_same. }
    split. { rewrite fupd_other by auto. rewrite fupd_other by auto. rewrite D1. rewrite fupd_other by exact N3. exact Hst. }
    split.
    + intros q Q1 Q2 Q3. rewrite fupd_other by exact Q1. rewrite fupd_other by exact Q1. rewrite D1. now apply fupd_other.
    + intros k Hk Lk. apply F1. lia.
Qed.

(* ------------------------------------------------------------------ several outputs, one after the other, in any order *)

Definition job_files (js : list fjob) : list N := map fj_file js.
Definition names_free (js : list fjob) (q : N) : Prop :=
  forall g, In g (job_files js) -> q <> g /\ q <> scratch_beside g /\ q <> scratch_elsewhere g.
(* as the operator created it: a file of its own, empty; the hook's scratch names are not in use *)
Definition fresh_file (s : fs) (g : N) : Prop :=
  dir s g = Some (NFile g) /\ ino s g = [] /\ dir s (scratch_beside g) = None /\ dir s (scratch_elsewhere g) = None.
Definition job_done (s : fs) (j : fjob) : Prop :=
  if way_eqb (fj_way j) WRemove then dir s (fj_file j) = None
  else exists k, holds_content s (fj_file j) (scratch_elsewhere (fj_file j)) (concat (fj_chunks j)) k
                 /\ (k = fj_file j \/ 5 <= k).
(* nothing in the temp directory but the five files *)
Definition tmp_clean (s : fs) : Prop := forall q, 5 <= q -> q < 100 -> dir s q = None.

Lemma way_eqb_remove w : way_eqb w WRemove = true <-> w = WRemove.
Proof. destruct w; cbn; split; intros H; try discriminate; reflexivity. Qed.

Lemma job_step j s :
  fj_file j < 5 -> wf s -> 5 <= next s -> tmp_clean s -> fresh_file s (fj_file j) ->
  let s1 := run_ops (job_script j) s in
  wf s1 /\ next s <= next s1 /\ tmp_clean s1 /\ job_done s1 j /\
  (forall q, q <> fj_file j -> q <> scratch_beside (fj_file j) -> q <> scratch_elsewhere (fj_file j) -> dir s1 q = dir s q) /\
  (forall k, k <> fj_file j -> k < next s -> ino s1 k = ino s k).
Proof.
  destruct j as [[w g] cs]. cbv beta iota delta [fj_file fj_way fj_chunks job_script job_done fst snd].
  intros G W N5 T (F1 & F2 & F3 & F4). cbn zeta.
  destruct (run_ops_wf (script w g (scratch_beside g) (scratch_elsewhere g) cs) s W) as [W1 L1].
  split; [exact W1|]. split; [exact L1|].
  destruct (way_eqb w WRemove) eqn:E.
  - apply way_eqb_remove in E. subst w. cbn [script] in *. rewrite run_ops_cons, run_ops_nil. cbn [apply_op dir ino next].
    split; [|split; [apply fupd_same|split]].
    + intros q Q1 Q2. cbn [dir]. rewrite fupd_other by lia. now apply T.
    + intros q Q1 _ _. now apply fupd_other.
    + reflexivity.
  - assert (Hw : w <> WRemove) by (intros X; apply way_eqb_remove in X; congruence).
    unfold scratch_beside, scratch_elsewhere in *.
    assert (X1 : g <> 10 + g) by lia. assert (X2 : g <> 200 + g) by lia. assert (X3 : 10 + g <> 200 + g) by lia.
    destruct (script_post w g (10 + g) (200 + g) cs s g Hw W F1 F2 F3 F4 X1 X2 X3) as (C & S & FD & FI).
    split; [|split; [destruct C as (k & Ck & [Kk|Kk]); exists k; (split; [exact Ck | (left; exact Kk) || (right; lia)])|split; [exact FD | exact FI]]].
    intros q Q1 Q2. destruct (N.eq_dec q (10 + g)) as [->|X]; [exact S|].
    rewrite FD by lia. now apply T.
Qed.

Lemma jobs_post : forall js s,
  NoDup (job_files js) -> (forall g, In g (job_files js) -> g < 5) ->
  wf s -> 5 <= next s -> tmp_clean s -> (forall g, In g (job_files js) -> fresh_file s g) ->
  let s' := run_ops (jobs_ops js) s in
  wf s' /\ next s <= next s' /\ tmp_clean s' /\
  (forall j, In j js -> job_done s' j) /\
  (forall q, names_free js q -> dir s' q = dir s q) /\
  (forall k, k < next s -> ~ In k (job_files js) -> ino s' k = ino s k).
Proof.
  induction js as [|j r IH]; intros s ND G W N5 T FR; cbn zeta.
  - cbn. repeat split; auto; try lia; try (intros j []); try tauto.
  - unfold jobs_ops. cbn [flat_map]. fold (jobs_ops r). rewrite run_ops_app.
    cbn [job_files map] in ND, G, FR. fold (job_files r) in ND, G, FR.
    inversion ND as [|x l NI ND' X]; subst x l.
    assert (Gj : fj_file j < 5) by (apply G; now left).
    destruct (job_step j s Gj W N5 T (FR _ (or_introl eq_refl))) as (W1 & L1 & T1 & D1 & FD1 & FI1).
    set (s1 := run_ops (job_script j) s) in *.
    assert (FR1 : forall g, In g (job_files r) -> fresh_file s1 g).
    { intros g Hg. assert (g < 5) by (apply G; now right). assert (g <> fj_file j) by (intros ->; contradiction).
      destruct (FR g (or_intror Hg)) as (A1 & A2 & A3 & A4). unfold fresh_file, scratch_beside, scratch_elsewhere in *.
      split; [rewrite FD1 by lia; exact A1|]. split; [rewrite FI1 by lia; exact A2|].
      split; [rewrite FD1 by lia; exact A3 | rewrite FD1 by lia; exact A4]. }
    assert (G' : forall g, In g (job_files r) -> g < 5) by (intros g Hg; apply G; now right).
    assert (N51 : 5 <= next s1) by lia.
    destruct (IH s1 ND' G' W1 N51 T1 FR1) as (W2 & L2 & T2 & D2 & FD2 & FI2).
    set (s2 := run_ops (jobs_ops r) s1) in *.
    assert (FREE : forall q, (q = fj_file j \/ q = scratch_elsewhere (fj_file j)) -> names_free r q).
    { intros q Hq g Hg. assert (g < 5) by (apply G; now right). assert (g <> fj_file j) by (intros ->; contradiction).
      unfold scratch_beside, scratch_elsewhere in *. destruct Hq; subst q; lia. }
    split; [exact W2|]. split; [lia|]. split; [exact T2|]. split; [|split].
    + intros j' [<-|Hj]; [|now apply D2].
      unfold job_done in *. destruct (way_eqb (fj_way j) WRemove).
      * rewrite FD2 by (apply FREE; now left). exact D1.
      * destruct D1 as (k & (I & HD) & K). exists k. split; [|exact K]. split.
        { rewrite <- I. apply FI2.
          - destruct HD as [HD | [_ HD]]; exact (W1 _ _ HD).
          - intros Hk. destruct K as [->|K]; [contradiction|]. apply G' in Hk. lia. }
        { rewrite !FD2 by (apply FREE; auto). exact HD. }
    + intros q Hq. rewrite FD2.
      * destruct (Hq (fj_file j) (or_introl eq_refl)) as (Q1 & Q2 & Q3). now apply FD1.
      * intros g Hg. apply Hq. now right.
    + intros k Hk NIk. rewrite FI2.
      * apply FI1; [|exact Hk]. intros ->. apply NIk. now left.
      * lia.
      * intros X. apply NIk. now right.
Qed.

(* ------------------------------------------------------------------ the start of an execution *)

Lemma start_dir p : dir (create_all fs_empty) p = (if p <? 5 then Some (NFile p) else None).
Proof.
  change (dir (create_all fs_empty) p)
    with (fupd (fupd (fupd (fupd (fupd (fun _ : N => @None node) 0 (Some (NFile 0))) 1 (Some (NFile 1))) 2 (Some (NFile 2)))
                   3 (Some (NFile 3))) 4 (Some (NFile 4)) p).
  unfold fupd.
  destruct (N.eqb_spec p 4); [subst; reflexivity|]. destruct (N.eqb_spec p 3); [subst; reflexivity|].
  destruct (N.eqb_spec p 2); [subst; reflexivity|]. destruct (N.eqb_spec p 1); [subst; reflexivity|].
  destruct (N.eqb_spec p 0); [subst; reflexivity|]. destruct (N.ltb_spec p 5); [lia | reflexivity].
Qed.
Lemma start_ino k : ino (create_all fs_empty) k = [].
Proof.
  change (ino (create_all fs_empty) k)
    with (fupd (fupd (fupd (fupd (fupd (fun _ : N => @nil N) 0 []) 1 []) 2 []) 3 []) 4 [] k).
  unfold fupd. repeat match goal with |- context [if ?b then _ else _] => destruct b end; reflexivity.
Qed.
Lemma start_next : next (create_all fs_empty) = 5.
Proof. reflexivity. Qed.

(* what jobs_post needs of a start state *)
Definition good_start (s : fs) : Prop :=
  wf s /\ 5 <= next s /\ tmp_clean s /\ (forall g, g < 5 -> fresh_file s g).

Lemma good_start_of s :
  (forall p, dir s p = (if p <? 5 then Some (NFile p) else None)) -> (forall k, ino s k = []) -> next s = 5 ->
  good_start s.
Proof.
  intros HD HI HN. split; [|split; [|split]].
  - intros p i. rewrite HD, HN. destruct (N.ltb_spec p 5) as [L|L]; [|discriminate]. intros H. injection H as <-. exact L.
  - rewrite HN. lia.
  - intros q Q1 Q2. rewrite HD. destruct (N.ltb_spec q 5); [lia | reflexivity].
  - intros g G. unfold fresh_file, scratch_beside, scratch_elsewhere. rewrite !HD, HI.
    destruct (N.ltb_spec g 5); [|lia]. destruct (N.ltb_spec (10 + g) 5); [lia|]. destruct (N.ltb_spec (200 + g) 5); [lia|].
    repeat split; reflexivity.
Qed.

Lemma good_start_created : good_start (create_all fs_empty).
Proof. apply good_start_of; [apply start_dir | apply start_ino | apply start_next]. Qed.

Lemma good_start_contract : good_start contract_start.
Proof. apply good_start_of; intros; reflexivity. Qed.

(* ------------------------------------------------------------------ extensionally equal file systems *)

Definition fs_equiv (s t : fs) : Prop :=
  (forall p, dir s p = dir t p) /\ (forall k, ino s k = ino t k) /\ next s = next t.

Lemma start_equiv : fs_equiv (create_all fs_empty) contract_start.
Proof.
  split; [|split].
  - intros p. rewrite start_dir. reflexivity.
  - intros k. rewrite start_ino. reflexivity.
  - reflexivity.
Qed.

Lemma final_name_ext d d' : (forall p, d p = d' p) -> forall n p, final_name d n p = final_name d' n p.
Proof.
  intros H. induction n as [|n IH]; intros p; cbn; rewrite H; destruct (d' p) as [[i|t]|]; auto.
Qed.

Ltac eqv D I Nx :=
  repeat split; cbn [dir ino next]; intros; unfold fupd; rewrite ?D, ?I, ?Nx;
  repeat match goal with |- context [if ?b then _ else _] => destruct b end; rewrite ?D, ?I, ?Nx; auto.

Lemma apply_op_equiv o s t : fs_equiv s t -> fs_equiv (apply_op o s) (apply_op o t).
Proof.
  intros H. pose proof H as (D & I & Nx).
  assert (OW : forall a p c, fs_equiv (open_write a p c s) (open_write a p c t)).
  { intros a p c. unfold open_write. rewrite (final_name_ext _ _ D).
    destruct (final_name (dir t) max_links p) as [q|]; [|exact H]. rewrite (D q).
    destruct (dir t q) as [[i|x]|]; [|exact H|]; eqv D I Nx. }
  destruct o as [p c|p c|a b|p|a b|x p]; cbn [apply_op]; try apply OW.
  - rewrite (D a). destruct (dir t a) as [n|]; [|exact H]. destruct (a =? b); [exact H|].
    rewrite (D b). destruct n as [i|x]; [|eqv D I Nx].
    destruct (dir t b) as [[j|x]|]; [destruct (i =? j); [exact H|]| |]; eqv D I Nx.
  - eqv D I Nx.
  - rewrite (D a), (D b). destruct (dir t a) as [n|]; [|exact H]. destruct (dir t b); [exact H|]. eqv D I Nx.
  - rewrite (D p). destruct (dir t p); [exact H|]. eqv D I Nx.
Qed.

Lemma run_ops_equiv ops : forall s t, fs_equiv s t -> fs_equiv (run_ops ops s) (run_ops ops t).
Proof.
  induction ops as [|o r IH]; intros s t H; [exact H|]. rewrite !run_ops_cons. apply IH. now apply apply_op_equiv.
Qed.

Lemma read_path_equiv s t p : fs_equiv s t -> read_path s p = read_path t p.
Proof.
  intros (D & I & Nx). unfold read_path, inode_at. rewrite (final_name_ext _ _ D).
  destruct (final_name (dir t) max_links p) as [q|]; [|reflexivity]. rewrite (D q).
  destruct (dir t q) as [[i|x]|]; cbn; [now rewrite I | reflexivity | reflexivity].
Qed.

(* the model's start (five os.WriteFile in an empty directory) is the contract's start *)
Lemma hook_fs_at_exit i f : read_path (hook_fs i) f = at_exit (fi_ops i) f.
Proof. unfold hook_fs, at_exit. apply read_path_equiv, run_ops_equiv, start_equiv. Qed.

(* ------------------------------------------------------------------ clean-up *)

Lemma remove_all_dir s q : dir (remove_all s) q = if mem_N q own_files then None else dir s q.
Proof.
  change (dir (remove_all s) q) with (fupd (fupd (fupd (fupd (fupd (dir s) 0 None) 1 None) 3 None) 2 None) 4 None q).
  unfold fupd, mem_N, own_files, file_context, file_metrics, file_admission, file_conversion, file_patch. cbn [existsb].
  rewrite !(N.eqb_sym q).
  destruct (4 =? q), (2 =? q), (3 =? q), (1 =? q), (0 =? q); reflexivity.
Qed.

(* whatever the hook did: the five names are gone when the execution has ended *)
Lemma own_files_removed i f : In f own_files -> dir (remove_all (hook_fs i)) f = None.
Proof. intros H. rewrite remove_all_dir. apply mem_N_In in H. now rewrite H. Qed.

(* the hook leaves nothing of its own in the operator's temp directory *)
Definition tidy (i : finput) : Prop := forall q, in_tmp q = true -> ~ In q own_files -> dir (hook_fs i) q = None.

Lemma filter_none {A} (f : A -> bool) l : (forall x, f x = false) -> filter f l = [].
Proof. intros H. induction l as [|x r IH]; [reflexivity|]. cbn. now rewrite H. Qed.

Lemma tidy_listing i names : tidy i -> tmp_listing (remove_all (hook_fs i)) names = [].
Proof.
  intros T. unfold tmp_listing. apply filter_none. intros q. destruct (in_tmp q) eqn:E; [|reflexivity]. cbn [andb].
  unfold bound. rewrite remove_all_dir. destruct (mem_N q own_files) eqn:M; [reflexivity|].
  rewrite T; [reflexivity | exact E |]. intros X. apply mem_N_In in X. congruence.
Qed.

Lemma outcome_eta o : mkOut (o_started o) (o_success o) (o_remaining o) (o_metric_applied o) (o_metric_unknown o) (o_patch_applied o) = o.
Proof. now destruct o. Qed.

(* a tidy hook: the execution is C12_Model.run on what is at the paths at exit *)
Lemma exec_fs_run cls i : tidy i -> exec_fs cls i = run (read_back cls i).
Proof.
  intros T. unfold exec_fs. destruct (o_started (run (read_back cls i))) eqn:S; [|reflexivity].
  rewrite tidy_listing by exact T. cbn [length N.of_nat].
  rewrite <- (outcome_eta (run (read_back cls i))) at 5. now rewrite S, run_remaining.
Qed.

Lemma exec_fs_remaining cls i : tidy i -> o_remaining (exec_fs cls i) = 0.
Proof. intros T. rewrite exec_fs_run by exact T. apply run_remaining. Qed.

(* ------------------------------------------------------------------ the outcome is a function of what is at the paths at exit *)

Lemma read_back_ext cls i i' :
  fi_exit i = fi_exit i' -> fi_concurrent i = fi_concurrent i' -> fi_namelen i = fi_namelen i' -> fi_env i = fi_env i' ->
  (forall f, In f [file_metrics; file_patch; file_admission; file_conversion] ->
             read_path (hook_fs i) f = read_path (hook_fs i') f) ->
  read_back cls i = read_back cls i'.
Proof.
  intros E1 E2 E3 E4 R. unfold read_back, kind_at, patch_kind_at.
  rewrite E1, E2, E3, E4, !R by (cbn; tauto). reflexivity.
Qed.

Theorem outcome_function_of_path_content cls i i' :
  fi_exit i = fi_exit i' -> fi_concurrent i = fi_concurrent i' -> fi_namelen i = fi_namelen i' -> fi_env i = fi_env i' ->
  (forall f, In f [file_metrics; file_patch; file_admission; file_conversion] ->
             read_path (hook_fs i) f = read_path (hook_fs i') f) ->
  tidy i -> tidy i' -> exec_fs cls i = exec_fs cls i'.
Proof.
  intros E1 E2 E3 E4 R T T'. rewrite !exec_fs_run by assumption. f_equal. now apply read_back_ext.
Qed.

(* ------------------------------------------------------------------ the model satisfies the predicate *)

Lemma exit_input_read_back cls i si : exit_input cls i = Some si -> read_back cls i = si.
Proof.
  unfold exit_input, read_back, kind_at, patch_kind_at. rewrite !hook_fs_at_exit.
  destruct (at_exit (fi_ops i) file_metrics), (at_exit (fi_ops i) file_patch),
           (at_exit (fi_ops i) file_admission), (at_exit (fi_ops i) file_conversion); try discriminate.
  intros H. now injection H.
Qed.

Lemma model_fs_is_run cls i o : tidy i -> model_fs_obs cls i o = model_run_obs (read_back cls i, o).
Proof.
  intros T. unfold model_fs_obs, model_run_obs. rewrite exec_fs_run by exact T. rewrite exec_is_run. reflexivity.
Qed.

Theorem model_P_fs_logic cls i o : tidy i -> P_fs_logic cls i (model_fs_obs cls i o) = true.
Proof.
  intros T. unfold P_fs_logic. rewrite model_fs_is_run by exact T.
  destruct (exit_input cls i) as [si|] eqn:E.
  - apply exit_input_read_back in E. rewrite E. apply model_P_logic.
  - unfold P_unreadable, model_run_obs. rewrite exec_is_run.
    cbn [ob_bad ob_started ob_status ob_tmp_after ob_metric_applied ob_patch_applied negb andb].
    rewrite run_remaining. cbn [N.eqb]. rewrite andb_true_r.
    destruct (o_started (run (read_back cls i))) eqn:S.
    + destruct (Z.eqb_spec (fi_exit i) 0) as [Z|Z]; [reflexivity|].
      destruct (run_nonzero_exit (read_back cls i) Z) as (A & B & C & D). rewrite A, B, C, D. reflexivity.
    + now rewrite (run_started_success _ S).
Qed.

Theorem model_P_fs_env cls i o : P_env (model_fs_obs cls i o) = true.
Proof.
  unfold P_env, model_fs_obs. cbn [ob_envs].
  destruct (o_started (exec_fs cls i)); [|reflexivity].
  apply forallb_forall. intros v Hv. apply repeat_spec in Hv. subst v.
  apply view_points_to_own. unfold query_vars. intros k Hk. apply in_or_app. left.
  cbn in Hk |- *. tauto.
Qed.

(* ------------------------------------------------------------------ outputs named by variable, written in ways *)

Lemma contract_file_output k : mem_N k output_vars = true ->
  exists g, contract_file k = Some g /\ g < 5 /\ In (k, Own g) per_exec_vars.
Proof.
  intros H. apply mem_N_In in H. cbn in H.
  destruct H as [<-|[<-|[<-|[<-|[]]]]]; eexists; (split; [reflexivity | split; [reflexivity | cbn; tauto]]).
Qed.

Lemma contract_file_inj k k' g : mem_N k output_vars = true -> mem_N k' output_vars = true ->
  contract_file k = Some g -> contract_file k' = Some g -> k = k'.
Proof.
  intros H H'. apply mem_N_In in H, H'. cbn in H, H'.
  destruct H as [<-|[<-|[<-|[<-|[]]]]]; destruct H' as [<-|[<-|[<-|[<-|[]]]]]; cbn; intros A B;
    try reflexivity; rewrite <- A in B; discriminate.
Qed.

Definition vj_var (v : vjob) : N := snd (fst v).

Lemma wf_jobs_cons v r : wf_jobs (v :: r) = true ->
  mem_N (vj_var v) (map vj_var r) = false /\ mem_N (vj_var v) output_vars = true /\ wf_jobs r = true.
Proof.
  unfold wf_jobs. cbn [map nodup_N forallb]. fold vj_var. change (fun v0 : vjob => snd (fst v0)) with vj_var.
  intros H. apply andb_true_iff in H. destruct H as [H1 H2].
  apply andb_true_iff in H1. destruct H1 as [H1 H3]. apply andb_true_iff in H2. destruct H2 as [H2 H4].
  apply negb_true_iff in H1. rewrite H3, H4. auto.
Qed.

Lemma wf_jobs_vars vs v : wf_jobs vs = true -> In v vs -> mem_N (vj_var v) output_vars = true.
Proof.
  unfold wf_jobs. intros H Hv. apply andb_true_iff in H. destruct H as [_ H].
  rewrite forallb_forall in H. exact (H v Hv).
Qed.

Lemma spec_jobs_cons v r g : contract_file (vj_var v) = Some g ->
  spec_jobs (v :: r) = (fst (fst v), g, snd v) :: spec_jobs r.
Proof. intros H. unfold spec_jobs. cbn [flat_map]. fold vj_var. unfold vj_var in H. now rewrite H. Qed.

Lemma in_files_spec g vs : In g (job_files (spec_jobs vs)) -> exists v, In v vs /\ contract_file (vj_var v) = Some g.
Proof.
  induction vs as [|v r IH]; [intros []|]. unfold spec_jobs. cbn [flat_map]. fold (spec_jobs r).
  unfold job_files. rewrite map_app. fold (job_files (spec_jobs r)). intros H. apply in_app_or in H. destruct H as [H|H].
  - exists v. split; [now left|]. unfold vj_var. destruct (contract_file (snd (fst v))); [|destruct H].
    cbn in H. destruct H as [<-|[]]. reflexivity.
  - destruct (IH H) as (v' & I & C). exists v'. split; [now right | exact C].
Qed.

Lemma spec_jobs_files vs : wf_jobs vs = true ->
  NoDup (job_files (spec_jobs vs)) /\ (forall g, In g (job_files (spec_jobs vs)) -> g < 5).
Proof.
  induction vs as [|v r IH]; intros H; [split; [constructor | intros g []]|].
  destruct (wf_jobs_cons v r H) as (A & B & C). destruct (IH C) as [ND G].
  destruct (contract_file_output _ B) as (g & E & L & _). rewrite (spec_jobs_cons v r g E).
  unfold job_files. cbn [map]. fold (job_files (spec_jobs r)). unfold fj_file. cbn [fst snd]. split.
  - constructor; [|exact ND]. intros X. apply in_files_spec in X. destruct X as (v' & I & E').
    assert (vj_var v' = vj_var v) by (eapply contract_file_inj; eauto using wf_jobs_vars).
    assert (Y : mem_N (vj_var v) (map vj_var r) = true) by (apply mem_N_In; rewrite <- H0; now apply in_map).
    congruence.
  - intros x [<-|X]; [exact L | now apply G].
Qed.

(* whatever the operator's environment: the hook's outputs reach the files the contract names *)
Lemma hook_jobs_spec e vs : wf_jobs vs = true -> hook_jobs e vs = spec_jobs vs.
Proof.
  induction vs as [|v r IH]; intros H; [reflexivity|].
  destruct (wf_jobs_cons v r H) as (A & B & C). destruct (contract_file_output _ B) as (g & E & L & O).
  rewrite (spec_jobs_cons v r g E). unfold hook_jobs. cbn [flat_map]. fold (hook_jobs e r). rewrite (IH C).
  fold (vj_var v). now rewrite (child_env_own e _ _ O).
Qed.

Lemma read_none s p : dir s p = None -> read_path s p = None.
Proof.
  intros H. unfold read_path, inode_at. rewrite final_name_direct by (intros t; rewrite H; discriminate). now rewrite H.
Qed.

Lemma content_of_notin js g : ~ In g (job_files js) -> content_of js g = Some [].
Proof.
  induction js as [|j r IH]; intros H; [reflexivity|]. cbn [content_of].
  destruct (N.eqb_spec (fj_file j) g) as [E|E]; [exfalso; apply H; left; exact E|]. apply IH. intros X. apply H. now right.
Qed.
Lemma content_of_in js j : NoDup (job_files js) -> In j js ->
  content_of js (fj_file j) = if way_eqb (fj_way j) WRemove then None else Some (concat (fj_chunks j)).
Proof.
  induction js as [|j0 r IH]; intros ND HI; [destruct HI|]. destruct HI as [<-|H].
  - cbn [content_of]. now rewrite N.eqb_refl.
  - cbn [content_of]. inversion ND as [|x l NI ND' X]; subst x l.
    destruct (N.eqb_spec (fj_file j0) (fj_file j)) as [E|E]; [|now apply IH].
    exfalso. apply NI. rewrite E. now apply in_map.
Qed.

(* THE WAYS THEOREM: whatever the ways, the chunks and the order in which the hook produces its outputs,
   a reader opening the name of file g after the hook finds the concatenation of the chunks of the job for g
   (nothing readable if the job removed the file; the empty file the operator created if there is no job) *)
Theorem jobs_content js s g : good_start s -> NoDup (job_files js) -> (forall x, In x (job_files js) -> x < 5) -> g < 5 ->
  read_path (run_ops (jobs_ops js) s) g = content_of js g.
Proof.
  intros (W & N5 & T & FR) ND G Lg.
  destruct (jobs_post js s ND G W N5 T (fun x Hx => FR x (G x Hx))) as (W' & L' & T' & D' & FD' & FI').
  destruct (in_dec N.eq_dec g (job_files js)) as [I|NI].
  - apply in_map_iff in I. destruct I as (j & <- & Hj). rewrite (content_of_in js j ND Hj).
    specialize (D' j Hj). unfold job_done in D'. destruct (way_eqb (fj_way j) WRemove).
    + now apply read_none.
    + destruct D' as (k & HC & _). exact (holds_content_read _ _ _ _ _ HC).
  - rewrite (content_of_notin js g NI). destruct (FR g Lg) as (A1 & A2 & _).
    apply (holds_content_read _ g (scratch_elsewhere g) [] g). split.
    + rewrite FI' by (auto; lia). exact A2.
    + left. rewrite FD'; [exact A1|]. intros x Hx. pose proof (G x Hx). unfold scratch_beside, scratch_elsewhere.
      assert (x <> g) by (intros ->; contradiction). lia.
Qed.

Theorem jobs_tmp_clean js s : good_start s -> NoDup (job_files js) -> (forall x, In x (job_files js) -> x < 5) ->
  tmp_clean (run_ops (jobs_ops js) s).
Proof.
  intros (W & N5 & T & FR) ND G.
  now destruct (jobs_post js s ND G W N5 T (fun x Hx => FR x (G x Hx))) as (_ & _ & T' & _).
Qed.

Lemma not_own_ge q : ~ In q own_files -> 5 <= q.
Proof.
  intros H. destruct (N.le_gt_cases 5 q) as [L|L]; [exact L|]. exfalso. apply H.
  assert (X : q = 0 \/ q = 1 \/ q = 2 \/ q = 3 \/ q = 4) by lia. cbn. unfold file_context, file_metrics, file_admission, file_conversion, file_patch. lia.
Qed.

(* ---- the case class: a winput *)

Definition kind_of_content (c : option bytes) : fkind := match c with Some b => FText b | None => unreadable end.
Definition patch_of_content (cls : bytes -> fkind) (c : option bytes) : fkind :=
  match c with Some b => cls b | None => unreadable end.
(* the execution in closed form: the contents, whatever the ways *)
Definition closed_input (cls : bytes -> fkind) (w : winput) : input :=
  let js := spec_jobs (wi_jobs w) in
  mkIn (wi_exit w) (kind_of_content (content_of js file_metrics)) (patch_of_content cls (content_of js file_patch))
       (kind_of_content (content_of js file_admission)) (kind_of_content (content_of js file_conversion))
       (wi_concurrent w) (wi_namelen w) (wi_env w).

Lemma finput_of_spec w : wf_jobs (wi_jobs w) = true -> finput_of w = spec_finput w.
Proof. intros H. unfold finput_of, spec_finput. now rewrite hook_jobs_spec. Qed.

Theorem ways_tidy w : wf_jobs (wi_jobs w) = true -> tidy (finput_of w).
Proof.
  intros H. rewrite finput_of_spec by exact H. destruct (spec_jobs_files _ H) as [ND G].
  intros q Q1 Q2. unfold hook_fs, spec_finput. cbn [fi_ops].
  apply (jobs_tmp_clean _ _ good_start_created ND G); [now apply not_own_ge|].
  unfold in_tmp in Q1. now apply N.ltb_lt.
Qed.

Theorem ways_read_back cls w : wf_jobs (wi_jobs w) = true -> read_back cls (finput_of w) = closed_input cls w.
Proof.
  intros H. rewrite finput_of_spec by exact H. destruct (spec_jobs_files _ H) as [ND G].
  unfold read_back, closed_input, kind_at, patch_kind_at, hook_fs, spec_finput.
  cbn [fi_ops fi_exit fi_concurrent fi_namelen fi_env].
  rewrite !(fun g => jobs_content _ _ g good_start_created ND G) by reflexivity. reflexivity.
Qed.

Theorem ways_exec cls w : wf_jobs (wi_jobs w) = true -> exec_fs cls (finput_of w) = run (closed_input cls w).
Proof. intros H. rewrite exec_fs_run by now apply ways_tidy. now rewrite ways_read_back. Qed.

Theorem ways_P_logic cls w o : wf_jobs (wi_jobs w) = true ->
  P_ways_logic cls w (model_fs_obs cls (finput_of w) o) = true.
Proof.
  intros H. unfold P_ways_logic. pose proof (ways_tidy w H) as T. rewrite finput_of_spec in * by exact H.
  now apply model_P_fs_logic.
Qed.

(* the same contents at the four paths, by other ways, other chunks, in another order, under another
   environment of the operator: the same outcome *)
Theorem ways_irrelevant cls w w' :
  wf_jobs (wi_jobs w) = true -> wf_jobs (wi_jobs w') = true ->
  wi_exit w = wi_exit w' -> wi_namelen w = wi_namelen w' ->
  (forall g, content_of (spec_jobs (wi_jobs w)) g = content_of (spec_jobs (wi_jobs w')) g) ->
  exec_fs cls (finput_of w) = exec_fs cls (finput_of w').
Proof.
  intros H H' E1 E2 C. rewrite !ways_exec by assumption. unfold closed_input. rewrite !C, E1, E2.
  unfold run. cbn [i_exit i_metrics i_patch i_admission i_conversion i_namelen]. reflexivity.
Qed.
