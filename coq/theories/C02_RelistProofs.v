(* C02_RelistProofs.v — for every history with watch outages, at every read point, the snapshot is
   exactly the matching objects of the cluster as it is then.  Per informer the invariant: the
   reflector's store and the handler's cache hold exactly the cluster's objects of the informer's
   scope (distinct keys); a watch event keeps it (both follow the change), a re-list restores it
   from ANY cache that agrees with the store: the listed objects are set, and every entry the list
   lacks is a key of the store the list lacks, so its tombstone removes it. *)
From Verif Require Import Common C02_Model C02_Spec C02_Proofs C02_Win C02_WinSpec C02_WinProofs C02_Relist C02_RelistSpec.
From Coq Require Import Permutation.
Open Scope N_scope.

Definition seteq (A B : list obj) : Prop := forall x, In x A <-> In x B.

Lemma seteq_refl A : seteq A A. Proof. intros x; tauto. Qed.
Lemma seteq_trans A B C : seteq A B -> seteq B C -> seteq A C.
Proof. intros H1 H2 x. rewrite (H1 x). apply H2. Qed.
Lemma seteq_sym A B : seteq A B -> seteq B A.
Proof. intros H x. symmetry. apply H. Qed.

(* ---- the handler on the deliveries ---- *)
Lemma handle_watch store op cache : fold_left handle (watch_delivery store op) cache = cl_apply cache op.
Proof.
  unfold watch_delivery, cl_apply. destruct (fst op); cbn [fold_left handle];
    try destruct (find_key (snd op) store); reflexivity.
Qed.

Lemma fold_handle_listed store : forall listed cache,
  fold_left handle (map (fun o => match find_key o store with Some old => DUpd old o | None => DAdd o end) listed) cache
  = fold_left (fun c o => cl_set o c) listed cache.
Proof.
  induction listed as [|a r IH]; intros cache; [reflexivity|]. cbn [map fold_left]. rewrite <- IH.
  destruct (find_key a store); reflexivity.
Qed.

Lemma fold_handle_tombs : forall l cache,
  fold_left handle (map DTomb l) cache = fold_left (fun c o => cl_del o c) l cache.
Proof. induction l as [|a r IH]; intros cache; [reflexivity|]. cbn [map fold_left handle]. apply IH. Qed.

Lemma fold_del_in : forall l c, keys_distinct c ->
  keys_distinct (fold_left (fun c o => cl_del o c) l c) /\
  forall x, In x (fold_left (fun c o => cl_del o c) l c) <-> In x c /\ ~ In (key x) (map key l).
Proof.
  induction l as [|o r IH]; intros c KC; cbn [fold_left map].
  - split; [exact KC | intros x; simpl; tauto].
  - destruct (cl_del_keys o c KC) as [K1 _]. destruct (IH (cl_del o c) K1) as [I1 I2]. split; [exact I1|].
    intros x. rewrite I2, (cl_del_in o c KC). simpl. split.
    + intros [[Hx K] Hn]. split; [exact Hx|]. intros [E|E]; [apply K; now symmetry | contradiction].
    + intros [Hx Hn]. split; [split; [exact Hx | intros K; apply Hn; left; now symmetry] | intros E; apply Hn; now right].
Qed.

Lemma has_key_in_iff o l : has_key_in o l = true <-> In (key o) (map key l).
Proof.
  unfold has_key_in. rewrite existsb_exists, in_map_iff. split.
  - intros [y [Hy E]]. exists y. apply same_key_iff in E. split; [now symmetry | exact Hy].
  - intros [y [E Hy]]. exists y. split; [exact Hy | apply same_key_iff; now symmetry].
Qed.

(* the re-list: whatever the cache held, as long as it agreed with the store *)
Lemma relist_cache store cache listed :
  keys_distinct store -> keys_distinct cache -> keys_distinct listed -> seteq cache store ->
  keys_distinct (fold_left handle (relist_deliveries store listed) cache)
  /\ seteq (fold_left handle (relist_deliveries store listed) cache) listed.
Proof.
  intros KS KC KL E. unfold relist_deliveries. rewrite fold_left_app, fold_handle_listed, fold_handle_tombs.
  destruct (fold_set_in listed cache KL KC) as [K1 I1].
  destruct (fold_del_in (filter (fun o => negb (has_key_in o listed)) store) _ K1) as [K2 I2].
  split; [exact K2|]. intros x. rewrite I2, I1. split.
  - intros [[Hx|[Hx Hn]] Hnt]; [exact Hx|]. exfalso. apply Hnt. apply in_map. apply filter_In.
    split; [now apply E|]. destruct (has_key_in x listed) eqn:H; [|reflexivity].
    apply has_key_in_iff in H. contradiction.
  - intros Hx. split; [now left|]. intros Hk. apply in_map_iff in Hk as [y [Ky Hy]].
    apply filter_In in Hy as [_ Hy]. destruct (has_key_in y listed) eqn:H; [discriminate Hy|].
    assert (X : has_key_in y listed = true); [|congruence].
    apply has_key_in_iff. rewrite Ky. now apply in_map.
Qed.

Lemma apply_seteq op A B : keys_distinct A -> keys_distinct B -> seteq A B -> seteq (cl_apply A op) (cl_apply B op).
Proof.
  intros KA KB H x. rewrite (cl_apply_in op A KA), (cl_apply_in op B KB). specialize (H x).
  destruct (fst op); tauto.
Qed.

(* ---- one informer ---- *)
Definition inv (s : option N * option N) (st : ist) : Prop :=
  keys_distinct (i_cl st) /\ keys_distinct (i_store st) /\ keys_distinct (i_cache st)
  /\ seteq (i_store st) (filter (in_scope s) (i_cl st))
  /\ seteq (i_cache st) (filter (in_scope s) (i_cl st)).

Lemma inv_init s cl : keys_distinct cl -> inv s (inf_init s cl).
Proof.
  intros K. unfold inv, inf_init. cbn [i_cl i_store i_cache].
  repeat split; try (now apply filter_keys_distinct); try exact K; tauto.
Qed.

Lemma inv_step s st step : inv s st -> inv s (inf_step s st step).
Proof.
  intros (KL & KS & KC & ES & EC). destruct step as [op|inner|]; cbn [inf_step].
  - destruct (in_scope s (snd op)) eqn:Sc; unfold inv; cbn [i_cl i_store i_cache].
    + rewrite handle_watch, filter_cl_apply, Sc.
      assert (KF : keys_distinct (filter (in_scope s) (i_cl st))) by now apply filter_keys_distinct.
      split; [now apply cl_apply_keys|]. split; [now apply cl_apply_keys|]. split; [now apply cl_apply_keys|].
      split; now apply apply_seteq.
    + rewrite filter_cl_apply, Sc. split; [now apply cl_apply_keys|]. auto.
  - unfold inv; cbn [i_cl i_store i_cache].
    assert (KL' : keys_distinct (fold_left cl_apply inner (i_cl st))) by now apply fold_apply_keys.
    assert (KF : keys_distinct (filter (in_scope s) (fold_left cl_apply inner (i_cl st)))) by now apply filter_keys_distinct.
    destruct (relist_cache (i_store st) (i_cache st) _ KS KC KF) as [K' E'].
    { eapply seteq_trans; [exact EC | now apply seteq_sym]. }
    split; [exact KL'|]. split; [exact KF|]. split; [exact K'|]. split; [apply seteq_refl | exact E'].
  - unfold inv. auto.
Qed.

Lemma inv_fold s : forall steps st, inv s st -> inv s (fold_left (inf_step s) steps st).
Proof. induction steps as [|x r IH]; intros st H; [exact H|]. cbn [fold_left]. apply IH, inv_step, H. Qed.

Lemma cl_step s st step :
  i_cl (inf_step s st step) = fold_left cl_apply (flat_ops [step]) (i_cl st).
Proof.
  destruct step as [op|inner|]; cbn [inf_step flat_ops flat_map]; rewrite ?app_nil_r.
  - destruct (in_scope s (snd op)); reflexivity.
  - reflexivity.
  - reflexivity.
Qed.

Lemma flat_ops_cons x r : flat_ops (x :: r) = flat_ops [x] ++ flat_ops r.
Proof. unfold flat_ops. cbn [flat_map]. now rewrite app_nil_r. Qed.

Lemma cl_fold s : forall steps st,
  i_cl (fold_left (inf_step s) steps st) = fold_left cl_apply (flat_ops steps) (i_cl st).
Proof.
  induction steps as [|x r IH]; intros st; [reflexivity|]. cbn [fold_left].
  rewrite (flat_ops_cons x r), fold_left_app, IH, cl_step. reflexivity.
Qed.

Lemma rl_cluster0_keys i : keys_distinct (rl_cluster0 i).
Proof.
  unfold rl_cluster0.
  assert (G : forall l c, keys_distinct c -> keys_distinct (fold_left (fun c o => cl_set o c) l c)).
  { induction l as [|o r IH]; intros c H; [exact H|]. simpl. apply IH, cl_set_keys, H. }
  apply G. constructor.
Qed.

Lemma inf_run_cl i s pre : i_cl (inf_run i s pre) = final_cluster (rl_at i pre).
Proof. unfold inf_run. rewrite cl_fold. reflexivity. Qed.

Lemma inf_run_inv i s pre : inv s (inf_run i s pre).
Proof. unfold inf_run. apply inv_fold, inv_init, rl_cluster0_keys. Qed.

(* the cached view of one informer after any history: the cluster's objects of its scope *)
Lemma inf_cache_in i s pre x :
  In x (i_cache (inf_run i s pre)) <-> In x (final_cluster (rl_at i pre)) /\ in_scope s x = true.
Proof.
  destruct (inf_run_inv i s pre) as (_ & _ & _ & _ & EC). rewrite (EC x), inf_run_cl. apply filter_In.
Qed.

Lemma inf_cache_keys i s pre : keys_distinct (i_cache (inf_run i s pre)).
Proof. destruct (inf_run_inv i s pre) as (_ & _ & K & _). exact K. Qed.

(* the store, too (what client-go itself knows) *)
Lemma inf_store_in i s pre x :
  In x (i_store (inf_run i s pre)) <-> In x (final_cluster (rl_at i pre)) /\ in_scope s x = true.
Proof.
  destruct (inf_run_inv i s pre) as (_ & _ & _ & ES & _). rewrite (ES x), inf_run_cl. apply filter_In.
Qed.

(* ---- the monitor ---- *)
Section Monitor.
Variable i : rl_in.
Variable pre : list rstep.
Let j := rl_at i pre.
Hypothesis Hs : rl_scopes i pre = scopes j.

Lemma rl_caches_in o : In o (rl_caches i pre) <-> In o (final_cluster j) /\ matching j o = true.
Proof.
  unfold rl_caches. rewrite Hs. rewrite in_flat_map, <- scope_exists_iff. split.
  - intros [s [Is Ho]]. apply inf_cache_in in Ho. destruct Ho. split; [assumption | exists s; auto].
  - intros [Ho [s [Is So]]]. exists s. split; [exact Is|]. apply inf_cache_in. auto.
Qed.

Lemma rl_caches_keys : keys_distinct (rl_caches i pre).
Proof.
  unfold rl_caches. rewrite Hs. pose proof (final_cluster_keys j) as K. pose proof (scopes_nodup j) as ND.
  assert (G : forall sc, NoDup sc -> (forall s, In s sc -> In s (scopes j)) ->
              keys_distinct (flat_map (fun s => i_cache (inf_run i s pre)) sc)).
  { induction sc as [|s r IH]; intros Hn Hsub; [constructor|]. simpl. inversion Hn as [|? ? Hns Hr]; subst.
    unfold keys_distinct. rewrite map_app. apply nodup_app_intro.
    - apply inf_cache_keys.
    - apply IH; [exact Hr | intros s' H'; apply Hsub; now right].
    - intros k Hk Hk'.
      apply in_map_iff in Hk as [a [Ka Ha]]. apply in_map_iff in Hk' as [b [Kb Hb]].
      apply inf_cache_in in Ha as [Ha Ia].
      apply in_flat_map in Hb as [s' [Hs' Hb]].
      apply inf_cache_in in Hb as [Hb Ib]. fold j in Ha, Hb.
      assert (a = b) by (apply (key_inj_in _ a b K); congruence). subst b.
      assert (s = s') by (apply (scope_unique j a); auto; apply Hsub; [now left | now right]).
      subst s'. contradiction. }
  apply G; auto.
Qed.

Lemma rl_snapshot_is_matching : P_snap_list j (rl_snapshot i pre) = true.
Proof.
  unfold P_snap_list, rl_snapshot. rewrite (sort_objs_sorted _ rl_caches_keys). cbn [andb].
  apply andb_true_iff. split.
  - apply forallb_forall. intros o Ho. apply (Permutation_in _ (sort_objs_perm _)) in Ho.
    apply rl_caches_in in Ho as [H1 H2]. rewrite H2. cbn [andb]. now apply mem_obj_in.
  - apply forallb_forall. intros o Ho. destruct (matching j o) eqn:M; [|reflexivity].
    apply mem_obj_in. apply (Permutation_in _ (Permutation_sym (sort_objs_perm _))). apply rl_caches_in. auto.
Qed.

Lemma rl_view_is_matching : P_view_list j (rl_view i pre) = true.
Proof. unfold rl_view. fold j. apply view_of_matching, rl_snapshot_is_matching. Qed.
End Monitor.

Lemma forall2b_map {A B} (f : A -> B -> bool) (g : A -> B) : forall l,
  (forall a, In a l -> f a (g a) = true) -> forall2b f l (map g l) = true.
Proof.
  induction l as [|a r IH]; intros H; [reflexivity|]. cbn [map forall2b].
  rewrite (H a (or_introl eq_refl)). cbn [andb]. apply IH. intros b Hb. apply H. now right.
Qed.

Lemma rmatching_base i pre : rl_scopes i pre = scopes (rl_at i pre) -> forall o, rmatching i o = matching (rl_at i pre) o.
Proof.
  intros H o. unfold rmatching, matching, rl_at. cbn [si_namespaces si_names].
  unfold rl_scopes in H. destruct (ri_dyn i); [|reflexivity].
  destruct (ri_nss i) as [|a r] eqn:E; [|reflexivity].
  exfalso. unfold scopes, rl_at in H. cbn [si_namespaces si_names] in H. rewrite E in H. cbn [uniq] in H.
  destruct (match uniq (ri_names i) [] with [] => [None] | l => map Some l end) eqn:E2; [|discriminate H].
  destruct (uniq (ri_names i) []); discriminate E2.
Qed.

Lemma P_rview_base i pre vs : rl_scopes i pre = scopes (rl_at i pre) ->
  P_rview_list i pre vs = P_view_list (rl_at i pre) vs.
Proof.
  intros Hs. unfold P_rview_list, P_view_list.
  change (final_cluster (rl_at i pre)) with (rl_cluster i pre). f_equal; [f_equal|].
  - apply forallb_ext'. intros v. apply existsb_ext'. intros o. now rewrite (rmatching_base i pre Hs).
  - apply forallb_ext'. intros o. now rewrite (rmatching_base i pre Hs).
Qed.

Lemma rl_view_ok i pre : P_rview_list i pre (rl_view i pre) = true.
Proof.
  assert (D : rl_scopes i pre = scopes (rl_at i pre) \/ (ri_dyn i = true /\ ri_nss i = [])).
  { unfold rl_scopes. destruct (ri_nss i); [|now left]. destruct (ri_dyn i); [now right | now left]. }
  destruct D as [Hs|[Hd Hn]].
  - rewrite (P_rview_base i pre _ Hs). now apply rl_view_is_matching.
  - unfold rl_view, rl_snapshot, rl_caches, rl_scopes. rewrite Hn, Hd. cbn.
    unfold P_rview_list. cbn [v_strictly_sorted forallb andb].
    apply forallb_forall. intros o _. unfold rmatching. rewrite Hd, Hn. reflexivity.
Qed.

(* every read of every history with outages is exactly the matching cluster state of its moment *)
Theorem relist_views_are_matching i : P_rl i (rl_views i) false = true.
Proof.
  unfold P_rl, rl_views. cbn [negb andb]. apply forall2b_map. intros pre _. apply rl_view_ok.
Qed.

(* the step the whole thing rests on, for ANY outage: whatever the store and the cache held in
   agreement before, after the re-list's deliveries the cache is exactly the list *)
Theorem relist_restores_cache s st inner :
  inv s st ->
  let st' := inf_step s st (ROut inner) in
  forall x, In x (i_cache st') <-> In x (fold_left cl_apply inner (i_cl st)) /\ in_scope s x = true.
Proof.
  intros H st' x. destruct (inv_step s st (ROut inner) H) as (_ & _ & _ & _ & EC).
  fold st' in EC. rewrite (EC x). subst st'. cbn [inf_step i_cl]. apply filter_In.
Qed.

(* what the tombstone is for: an object deleted during an outage, the handler ignoring tombstones
   (the model of a handler that drops them) keeps the ghost - the delivery is needed *)
Example relist_tombstone_needed :
  let i := mkRlIn false [] [] [(1, 1, 1); (1, 2, 2)] [ROut [(ODelete, (1, 2, 2))]] false true in
  rl_views i = [[(1, 1, None, Some 1)]]
  /\ relist_deliveries (i_store (inf_run i (None, None) [])) [(1, 1, 1)] = [DUpd (1, 1, 1) (1, 1, 1); DTomb (1, 2, 2)].
Proof. vm_compute. split; reflexivity. Qed.
