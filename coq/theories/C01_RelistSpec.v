(* C01_RelistSpec.v — C01 for a binding with namespace.labelSelector over histories WITH WATCH
   OUTAGES, as a predicate over the history and the Events the hook was given after the unlock.
   Written from the property text against the CLUSTER alone (no informers, no stores, no relist):

     "once the hook has been given its Synchronization view, every later change to a matching
      object that passes the binding's event-type and change filters reaches the hook as an Event
      binding context; per object the Events arrive in the order the changes happened, so that
      applying the delivered Events on top of the Synchronization view reproduces the final
      matching state of the cluster."

   Healthy watch (RStep): as C01_HistSpec - every change of an object that matches at that moment
   is exactly one Event.

   Across an outage nobody can see the single changes; what the text still demands - and all it
   can demand - is THE FINAL STATE PER OBJECT AND THE ORDER PER OBJECT:
   for every object that matches, compare its state when the watch broke (the last the hook
   was told) with its state when the watch is back:
       absent  -> present            one Added with the new state
       present -> present, differing in the part the change filter looks at
                                     one Modified with the new state
       present -> present, not differing there      nothing
       present -> absent             one Deleted
       absent  -> absent             nothing
   (if that type is listed), placed - per object - after the Events of everything before the
   outage and before the Events of everything after it; nothing for objects that do not match.
   Intermediate states are legitimately collapsed (set, set, delete, set during the outage is
   ONE change).  The state a Deleted Event carries is not demanded by the text (after an outage
   nobody knows the final one): Deleted Events are compared without it ([erase]).

   The last clause of the text is demanded literally, too ([replay_ok]): starting from the
   Synchronization view's entry for an object and applying the delivered Events of that object
   in order (Added / Modified: it is there with that state; Deleted: it is gone) ends at the
   object's entry in the final matching state - up to what the change filter hides - whenever
   every event type is listed and no namespace step moves existing objects into or out of the
   matching set (F24 and its mirror image, C01_HistSpec / C01_hist_ns_stop_is_silent). *)
From Verif Require Import Common C01_Model C02_Model C02_Spec C01_Hist C01_HistSpec C01_Relist.
Open Scope N_scope.

Definition kobj (k : N * N) : obj := (fst k, snd k, 0).

(* the Events an outage must produce, from the cluster before (c) and after it *)
Definition exp_appear (i : hist_in) (c : dcl) (o : obj) : list hevent :=
  if dmatching (h_names i) c o then
    match lookup o (fst c) with
    | None => listed (h_types i) Added o
    | Some old => if N.eqb (csum (h_filter i) (snd old)) (csum (h_filter i) (snd o)) then []
                  else listed (h_types i) Modified o
    end
  else [].
Definition exp_vanish (i : hist_in) (c : dcl) (objs' : list obj) (old : obj) : list hevent :=
  if dmatching (h_names i) c old then
    match lookup old objs' with
    | Some _ => []
    | None => listed (h_types i) Deleted old
    end
  else [].
Definition exp_outage (i : hist_in) (c : dcl) (l : list oop) : list hevent :=
  let objs' := fst (out_apply c l) in
  flat_map (exp_appear i c) objs' ++ flat_map (exp_vanish i c objs') (fst c).

Definition rcl_apply (c : dcl) (op : rhop) : dcl :=
  match op with RStep h => dcl_apply c (dop_of h) | ROut l => out_apply c l end.

Definition rexp_step (i : hist_in) (c : dcl) (op : rhop) : list hevent :=
  match op with
  | RStep h => exp_change i c h ++ exp_brought i c h
  | ROut l => exp_outage i c l
  end.
Definition rchg_step (i : hist_in) (c : dcl) (op : rhop) : list hevent :=
  match op with
  | RStep h => exp_change i c h
  | ROut l => exp_outage i c l
  end.

Fixpoint rexpected_from (i : hist_in) (c : dcl) (ops : list rhop) : list hevent :=
  match ops with
  | [] => []
  | op :: r => rexp_step i c op ++ rexpected_from i (rcl_apply c op) r
  end.
Definition rexpected (i : hist_in) (ops : list rhop) : list hevent := rexpected_from i (hcluster0 i) ops.

(* ... without the objects a namespace brings along (F24) *)
Fixpoint rchanges_from (i : hist_in) (c : dcl) (ops : list rhop) : list hevent :=
  match ops with
  | [] => []
  | op :: r => rchg_step i c op ++ rchanges_from i (rcl_apply c op) r
  end.
Definition rchanges_only (i : hist_in) (ops : list rhop) : list hevent := rchanges_from i (hcluster0 i) ops.

Definition rfinal (i : hist_in) (ops : list rhop) : dcl := fold_left rcl_apply ops (hcluster0 i).

(* a Deleted Event without the state it carries *)
Definition erase (e : hevent) : hevent :=
  match e with
  | (n, m, Deleted, _) => (n, m, Deleted, 0)
  | _ => e
  end.

(* ---- "applying the delivered Events on top of the Synchronization view reproduces the final
   matching state", per object ---- *)

(* the object's entry in the matching state of a cluster *)
Definition entry (names : list N) (c : dcl) (k : N * N) : option N :=
  match lookup (kobj k) (fst c) with
  | Some o => if dmatching names c o then Some (snd o) else None
  | None => None
  end.
(* applying one Event of the object *)
Definition upd (s : option N) (e : hevent) : option N :=
  match e with
  | (_, _, Deleted, _) => None
  | (_, _, _, c) => Some c
  end.
Definition replay (k : N * N) (start : option N) (evs : list hevent) : option N :=
  fold_left upd (by_key k evs) start.
(* the same entry up to what the change filter hides *)
Definition same_entry (flt : bool) (a b : option N) : bool :=
  match a, b with
  | None, None => true
  | Some x, Some y => N.eqb (csum flt x) (csum flt y)
  | _, _ => false
  end.

Definition all_listed (types : list wkind) : bool := fires types Added && fires types Modified && fires types Deleted.

(* a namespace step that moves existing objects into or out of the matching set *)
Definition ns_moves (names : list N) (c : dcl) (op : rhop) : bool :=
  match op with
  | RStep (HNs ns lab) => let c' := dcl_apply c (DNs ns lab) in
                          existsb (fun o => xorb (dmatching names c o) (dmatching names c' o)) (fst c)
  | RStep (HNsDel ns) => let c' := dcl_apply c (DNsDel ns) in
                         existsb (fun o => xorb (dmatching names c o) (dmatching names c' o)) (fst c)
  | _ => false
  end.
Fixpoint quiet_from (names : list N) (c : dcl) (ops : list rhop) : bool :=
  match ops with
  | [] => true
  | op :: r => negb (ns_moves names c op) && quiet_from names (rcl_apply c op) r
  end.
Definition quiet (i : hist_in) (ops : list rhop) : bool := quiet_from (h_names i) (hcluster0 i) ops.

Definition replay_ok (i : hist_in) (ops : list rhop) (out : list hevent) : bool :=
  let c0 := hcluster0 i in
  let cf := rfinal i ops in
  forallb (fun k => same_entry (h_filter i) (replay k (entry (h_names i) c0 k) out) (entry (h_names i) cf k))
          (map hkey out ++ map (fun o => (o_ns o, o_name o)) (fst c0) ++ map (fun o => (o_ns o, o_name o)) (fst cf)).

Definition RP (i : hist_in) (ops : list rhop) (o : hobs) : bool :=
  negb (ho_bad o)
  && N.eqb (ho_before o) 0                              (* no Event before the unlock *)
  && same_per_object (map erase (rexpected i ops)) (map erase (ho_out o))
  && (if all_listed (h_types i) && quiet i ops then replay_ok i ops (ho_out o) else true).

(* trigger of the recorded finding F24 on these histories: a healthy step makes a namespace
   match that holds selected objects whose appearance the binding listens to *)
Fixpoint rbrings_along (i : hist_in) (c : dcl) (ops : list rhop) : bool :=
  match ops with
  | [] => false
  | op :: r => match op with
               | RStep h => match exp_brought i c h with [] => false | _ => true end
               | ROut _ => false
               end
               || rbrings_along i (rcl_apply c op) r
  end.
Definition RT (i : hist_in) (ops : list rhop) : bool := rbrings_along i (hcluster0 i) ops.
