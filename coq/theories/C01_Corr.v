From Verif Require Import Common C01_Model C01_Spec C01_Monitor C01_Hist C01_HistSpec C01_Comp C01_CompSpec.
From Verif Require Import C01_Forms C01_FormsSpec C01_Relist C01_RelistSpec.
From Verif Require Op_Model Op_Corr Op_Spec C01_OpSpec.
Open Scope N_scope.

Inductive case := CInf (i : input) (o : observation) | CMon (i : min) (o : mobs)
  | CStress (i : input) (o : observation)    (* free-running goroutines: judged by P_free only *)
  | COp (c : Op_Corr.case)                    (* the whole operator (Op_Model): unlock only by the binding's own Synchronization *)
  | CHist (i : hist_in) (o : hobs)            (* namespace.labelSelector: events over histories of namespaces and objects (C01_Hist) *)
  | CHist2 (i : hist_in) (k : comp_in) (o oc : hobs)
                                              (* the same beside a second binding with static namespaces whose informers
                                                 share the first one's shared informers (C01_Comp): the events of both *)
  | CInfF (i : finput) (o : observation)      (* CInf with the handler's argument in either form client-go uses: the object,
                                                 or (Deleted found by a relist) a DeletedFinalStateUnknown tombstone (C01_Forms) *)
  | CStressF (i : finput) (o : observation)   (* CStress likewise *)
  | CRelist (i : hist_in) (ops : list rhop) (o : hobs).
                                              (* CHist across watch outages: healthy steps and outages followed by the
                                                 reflectors' relist (C01_Relist) *)

(* ghost of the run: changes picked up when the last Synchronization read before the first
   unlock was taken (computed by the model run itself) *)
Fixpoint sync_k (types : list wkind) (s : state) (ops : list op) (k : N) (unlocked : bool) : N :=
  match ops with
  | [] => k
  | o :: r =>
      let s' := step types s o in
      match o with
      | StartS rd => sync_k types s' r (if negb unlocked && N.eqb rd 0 then done s else k) unlocked
      | E => sync_k types s' r k true
      | _ => sync_k types s' r k unlocked
      end
  end.
Definition k_of (i : input) : N := sync_k (i_types i) (init (i_changes i)) (i_ops i) 0 false.

Definition obs_of (s : state) : observation :=
  mkOb (out s) (views s) (cache s) (enabled s) (N.of_nat (length (buf s)))
       (match out_before_e s with Some n => n | None => N.of_nat (length (out s)) end)
       (finished s) false.

Inductive mo := MoInf (o : observation) | MoMon (o : mobs) | MoOp (o : list Op_Corr.sobs) | MoHist (o : hobs) | MoHist2 (o oc : hobs).
Definition model_obs (c : case) : mo :=
  match c with
  | CInf i _ => MoInf (obs_of (run i))
  | CMon i _ => MoMon (mobserve i)
  | CStress i _ => MoInf (obs_of (run i))
  | COp c => MoOp (Op_Corr.model_obs c)
  | CHist i _ => MoHist (mkHOb (hist_out i) 0 false)
  | CHist2 i k _ _ => MoHist2 (mkHOb (hist_out i) 0 false) (mkHOb (comp_out i k) 0 false)
  | CInfF i _ => MoInf (obs_of (run_forms i))
  | CStressF i _ => MoInf (obs_of (run_forms i))
  | CRelist i ops _ => MoHist (mkHOb (relist_out i ops) 0 false)
  end.

Definition view_eqb (a b : N * cache_t) : bool := N.eqb (fst a) (fst b) && cache_eqb (snd a) (snd b).

(* CHist: the events are compared per object ([same_per_object]).  Informers of different
   namespaces run concurrently, and inside one shared informer client-go's DeltaFIFO hands over
   the pending changes of ONE object together, ahead of changes of other objects that happened
   in between: only the order per object is determined (it is also all the property asks for) *)
Definition agrees_inf (i : input) (o : observation) : bool :=
      let m := obs_of (run i) in
      list_eqb event_eqb (ob_out m) (ob_out o)
      && list_eqb view_eqb (ob_views m) (ob_views o)
      && cache_eqb (ob_cache m) (ob_cache o)
      && Bool.eqb (ob_enabled m) (ob_enabled o)
      && N.eqb (ob_buflen m) (ob_buflen o)
      && N.eqb (ob_out_before_e m) (ob_out_before_e o)
      && N.eqb (ob_finished m) (ob_finished o)
      && negb (ob_bad o).

Definition agrees (c : case) : bool :=
  match c with
  | CInf i o => agrees_inf i o
  | CInfF i o => agrees_inf (model_input i) o
  | CStressF _ o => negb (ob_bad o)
  | CRelist i ops o => same_per_object (relist_out i ops) (ho_out o) && N.eqb (ho_before o) 0 && negb (ho_bad o)
  | CMon i o =>
      let m := mobserve i in
      Bool.eqb (mo_flag m) (mo_flag o) && N.eqb (mo_informers m) (mo_informers o)
      && Bool.eqb (mo_all_enabled m) (mo_all_enabled o)
      && N.eqb (mo_snap_pre m) (mo_snap_pre o) && N.eqb (mo_snap_late m) (mo_snap_late o)
      && N.eqb (mo_ev_pre m) (mo_ev_pre o) && N.eqb (mo_ev_late m) (mo_ev_late o)
      && negb (mo_bad o)
  | CStress _ o => negb (ob_bad o)
  | COp c => Op_Corr.agrees c
  | CHist i o => same_per_object (hist_out i) (ho_out o) && N.eqb (ho_before o) 0 && negb (ho_bad o)
  | CHist2 i k o oc =>
      same_per_object (hist_out i) (ho_out o) && N.eqb (ho_before o) 0 && negb (ho_bad o)
      && same_per_object (comp_out i k) (ho_out oc) && N.eqb (ho_before oc) 0 && negb (ho_bad oc)
  end.

Definition spec_ok (c : case) : bool :=
  match c with
  | CInf i o => P i (k_of i) o
  | CMon i o => MP i o
  | CStress i o => P_free i o
  | COp c => C01_OpSpec.P_op c
  | CHist i o => HP i o
  | CHist2 i k o oc => HP2 i k o oc
  | CInfF i o => PF i (k_of (model_input i)) o
  | CStressF i o => PF_free i o
  | CRelist i ops o => RP i ops o
  end.

Definition mismatches (cs : list case) : list N := indices_where (fun c => negb (agrees c)) cs.
Definition spec_violations (cs : list case) : list N := indices_where (fun c => negb (spec_ok c)) cs.
Definition trigger_F23 (cs : list case) : list N :=
  indices_where (fun c => match c with CInf i _ => T i | CInfF i _ => T (model_input i) | _ => false end) cs.
Definition trigger_F24 (cs : list case) : list N :=
  indices_where (fun c => match c with CMon i _ => MT i | CHist i _ => HT i | CHist2 i _ _ _ => HT i | CRelist i ops _ => RT i ops | _ => false end) cs.
