(* C02_CompSpec.v — C02 for the companion binding (static namespaces), written from the property
   text against the cluster's OBJECTS alone: an object matches when its namespace is one of the
   named ones and its name is selected - whatever labels namespaces carry, whether a Namespace
   object exists, whatever other bindings watch.  At every read point the binding shows exactly
   the matching objects of the cluster as it is then, each once, ordered by namespace and name,
   each in its current state as the binding's configuration shows it. *)
From Verif Require Import Common C02_Model C02_Spec C02_Comp.
Open Scope N_scope.

Definition cmatching (k : dcomp) (o : obj) : bool :=
  mem_N (o_ns o) (dk_nss k) && (match dk_names k with [] => true | l => mem_N (o_name o) l end).

Definition cexpected_view (k : dcomp) (o : obj) : view :=
  (o_ns o, o_name o,
   if dk_filter k then Some (snd o mod 10) else None,
   if dk_keep k then Some (snd o) else None).

Definition P_cview_list (k : dcomp) (objs : list obj) (vs : list view) : bool :=
  v_strictly_sorted vs
  && forallb (fun v => existsb (fun o => cmatching k o && view_eqb v (cexpected_view k o)) objs) vs
  && forallb (fun o => if cmatching k o then mem_view (cexpected_view k o) vs else true) objs.

(* one list per read point of the history, each right for the objects of its point *)
Definition P_comp (i : dyn_in) (k : dcomp) (reads : list (list view)) (bad : bool) : bool :=
  negb bad && all2 (P_cview_list k) (map fst (dyn_read_clusters i)) reads.

(* both bindings of a case *)
Definition P_dyn2 (i : dyn_in) (k : dcomp) (reads creads : list (list view)) (bad : bool) : bool :=
  P_dyn i reads bad && P_comp i k creads bad.
