(* C04_Spec.v — C04 over the operator harness' observations (back-off delays are zeroed
   by the harness; the delay formula is treated separately in C04_Delay).
   At every failed execution (Finish q false) of a task that does not allow failure the
   very same task is executed again next in that queue, with every context it had (a
   grouped context may be subsumed by a later context of the same group: compaction),
   failure count + 1; with allowFailure the task is dropped and the queue proceeds; a
   dropped task carries only contexts of bindings that allow failure. *)
From Verif Require Import Common Op_Model Op_Corr Op_Spec.
Open Scope N_scope.

(* every context of [prev] reappears in [next], in order; a grouped one may instead be
   subsumed by a later context of the same group *)
Fixpoint retained (prev next : list ctx) : bool :=
  match prev with
  | [] => true
  | c :: r =>
      (fix find_in (nx : list ctx) : bool :=
         match nx with
         | [] => false
         | d :: nx' => if ctx_eqb c d then retained r nx' else find_in nx'
         end) next
      || (negb (N.eqb (c_group c) 0) && existsb (fun d => N.eqb (c_group d) (c_group c)) next && retained r next)
  end.

Definition head_of (qn : N) (o : sobs) : option task :=
  match find_q qn (so_queues o) with
  | Some q => match qo_items q with t :: _ => Some t | [] => None end
  | None => None
  end.
Definition running_in (qn : N) (o : sobs) : bool :=
  match find_q qn (so_queues o) with Some q => qo_running q | None => false end.

Definition delayed_in (qn : N) (o : sobs) : bool :=
  match find_q qn (so_queues o) with Some q => qo_delayed q | None => false end.

(* while a queue waits in the back-off delay after a failed run, the failed task stays its
   head and nothing of the queue runs, whatever else happens; the delay ends only by
   elapsing (or by Shutdown) *)
Definition delay_kept (a : action) (prev cur : sobs) : bool :=
  forallb (fun p => if qo_delayed p
                    then match a with
                         | Stop => true
                         | Elapse qn => if N.eqb qn (qo_name p) then true
                                        else delayed_in (qo_name p) cur && negb (running_in (qo_name p) cur)
                                             && match head_of (qo_name p) prev, head_of (qo_name p) cur with
                                                | Some t, Some t' => task_eqb t t'
                                                | _, _ => false
                                                end
                         | _ => delayed_in (qo_name p) cur && negb (running_in (qo_name p) cur)
                                && match head_of (qo_name p) prev, head_of (qo_name p) cur with
                                   | Some t, Some t' => task_eqb t t'
                                   | _, _ => false
                                   end
                         end
                    else true) (so_queues prev).

(* a task that waits behind the head has not been executed and so not merged with anything: it
   carries one context and the failure policy its binding declares (a task allows failure iff its
   binding does; an onStartup task never does) *)
Definition ctx_policy (cfg : config) (c : ctx) : bool :=
  match c_kind c with KStartup => false | _ => binding_allow cfg (c_binding c) end.
Definition waiting_task_ok (cfg : config) (t : task) : bool :=
  match t_type t with
  | HookRun => match t_ctxs t with [c] => Bool.eqb (t_allow t) (ctx_policy cfg c) | _ => false end
  | _ => true
  end.
Definition waiting_tasks_ok (cfg : config) (o : sobs) : bool :=
  forallb (fun q => forallb (waiting_task_ok cfg) (tl (qo_items q))) (so_queues o).

Definition step_ok (cfg : config) (stopped : bool) (a : action) (prev cur : sobs) : bool :=
  negb (so_bad cur) && (stopped || (delay_kept a prev cur && waiting_tasks_ok cfg cur)) &&
  match a with
  | FinishWait q =>
      if running_in q prev && negb stopped then
        match head_of q prev with
        | Some t =>
            if t_allow t then
              match head_of q cur with Some t' => N.eqb (t_fail t') 0 | None => true end
              && forallb (fun c => match c_kind c with
                                   | KStartup => false
                                   | _ => binding_allow cfg (c_binding c)
                                   end) (t_ctxs t)
            else
              (* the queue waits: same task at the head, failure counted, every context kept, nothing runs *)
              negb (running_in q cur) && delayed_in q cur
              && match head_of q cur with
                 | Some t' => N.eqb (t_fail t') (t_fail t + 1) && N.eqb (t_hook t') (t_hook t)
                              && list_eqb ctx_eqb (t_ctxs t) (t_ctxs t')
                 | None => false
                 end
        | None => false
        end
      else true
  | Elapse q =>
      if delayed_in q prev && negb stopped then
        (* the delay is over: the very same task is executed again next in that queue *)
        match head_of q prev with
        | Some t =>
            running_in q cur && negb (delayed_in q cur)
            && match head_of q cur with
               | Some t' => N.eqb (t_fail t') (t_fail t) && N.eqb (t_hook t') (t_hook t)
                            && retained (t_ctxs t) (t_ctxs t')
               | None => false
               end
        | None => false
        end
      else true
  | Finish q false =>
      if running_in q prev && negb stopped then
        match head_of q prev with
        | Some t =>
            if t_allow t then
              (* dropped: the queue proceeds with a fresh task (or is empty), and nothing
                 of a binding that does not allow failure was discarded *)
              match head_of q cur with Some t' => N.eqb (t_fail t') 0 | None => true end
              && forallb (fun c => match c_kind c with
                                   | KStartup => false
                                   | _ => binding_allow cfg (c_binding c)
                                   end) (t_ctxs t)
            else
              (* retried at once (zero back-off), same task, contexts retained, nothing else ran *)
              running_in q cur
              && match head_of q cur with
                 | Some t' => N.eqb (t_fail t') (t_fail t + 1) && N.eqb (t_hook t') (t_hook t)
                              && retained (t_ctxs t) (t_ctxs t')
                 | None => false
                 end
        | None => false
        end
      else true
  | _ => true
  end.

Fixpoint steps_ok (cfg : config) (stopped : bool) (prev : sobs) (acts : list action) (obs : list sobs) : bool :=
  match acts, obs with
  | [], [] => true
  | a :: acts', cur :: obs' =>
      step_ok cfg stopped a prev cur
      && steps_ok cfg (stopped || match a with Stop => true | _ => false end) cur acts' obs'
  | _, _ => false
  end.

Definition P (c : case) : bool := steps_ok (c_cfg c) false empty_obs (c_acts c) (c_obs c).
