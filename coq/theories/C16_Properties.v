(* C16_Properties.v — the property theorems of C16 and nothing else.

   Vocabulary: [run bs] = after every batch of the history bs, (SendBatch failed?,
   Gather()) of the model; [P] = C16_Spec's predicate (the reference registry keyed by
   (group, name, labels)); [in_domain] = what prometheus can represent (C16_Spec);
   [tagged st] = the model's registry content with, for every series, the group it is
   stored under ((group, name, shown labels), (kind, value)); [final_state bs] /
   [final_reg bs] = model state / reference registry after the history bs.

   Full statement of the property:
     Definition C16_full_statement := forall bs, in_domain bs = true -> P bs (run bs) = true.
   It is FALSE of the faithful model and of the code: C16_refuted (finding F5a: the
   collectors key a series by its label values only, so two groups reporting the same
   metric name with the same labels share one series).  Proved at full strength outside
   the trigger T_F5a: C16_refines_partial, and its consequences by name below.  F5b
   (uint64 counters) and F5c (`add` shortcut applied twice to grouped counters) were
   repaired in /repo; the model follows the repaired code and needs no trigger for them. *)
From Verif Require Import Common C16_Model C16_Spec C16_Corr C16_Proofs.
Local Open Scope N_scope.

Definition C16_full_statement : Prop := forall bs, in_domain bs = true -> P bs (run bs) = true.

(* after every batch of every in-domain history without an F5a collision, the failure
   flag and Gather() are those of the reference registry *)
Theorem C16_refines_partial : forall bs, in_domain bs = true -> T_F5a bs = false -> P bs (run bs) = true.
Proof. exact refines_partial. Qed.
Print Assumptions C16_refines_partial.

Theorem C16_refuted : exists bs, in_domain bs = true /\ T_F5a bs = true /\ P bs (run bs) = false.
Proof. exact refuted. Qed.
Print Assumptions C16_refuted.

(* one invalid operation anywhere in what the hook wrote: the state is returned as it
   was and the execution fails — for every state and batch, no hypothesis *)
Theorem C16_validate_all_or_nothing : forall st hook ops,
  forallb spec_valid ops = false -> hook_batch st hook ops = (st, true).
Proof. exact invalid_batch. Qed.
Print Assumptions C16_validate_all_or_nothing.

(* values as given: the model's registry content IS the reference registry *)
Theorem C16_values_as_given : forall bs,
  in_domain bs = true -> T_F5a bs = false ->
  forall e, In e (tagged (final_state bs)) <-> In e (final_reg bs).
Proof. exact values_as_given. Qed.
Print Assumptions C16_values_as_given.

(* a group mentioned in an accepted batch holds afterwards exactly what the batch's
   operations for that group build starting from nothing *)
Theorem C16_group_replaced : forall bs hook ops g,
  in_domain (bs ++ [(hook, ops)]) = true -> T_F5a (bs ++ [(hook, ops)]) = false ->
  forallb spec_valid ops = true -> In g (mentioned ops []) ->
  forall e, egroup e = g ->
    (In e (tagged (final_state (bs ++ [(hook, ops)])))
     <-> In e (fold_left (spec_apply hook) (in_group g ops) [])).
Proof. exact group_replaced. Qed.
Print Assumptions C16_group_replaced.

(* the series of a group the batch does not mention are untouched *)
Theorem C16_others_untouched : forall bs hook ops g,
  in_domain (bs ++ [(hook, ops)]) = true -> T_F5a (bs ++ [(hook, ops)]) = false ->
  g <> 0 -> ~ In g (mentioned ops []) ->
  forall e, egroup e = g ->
    (In e (tagged (final_state (bs ++ [(hook, ops)]))) <-> In e (tagged (final_state bs))).
Proof. exact others_untouched. Qed.
Print Assumptions C16_others_untouched.

(* ... and so is every ungrouped series that no ungrouped operation of the batch names *)
Theorem C16_ungrouped_untouched : forall bs hook ops e,
  in_domain (bs ++ [(hook, ops)]) = true -> T_F5a (bs ++ [(hook, ops)]) = false ->
  egroup e = 0 -> forallb spec_valid ops = true ->
  (forall o, In o ops -> o_group o = 0 -> (0, o_name o, spec_labels hook (o_labels o)) <> fst e) ->
  (In e (tagged (final_state (bs ++ [(hook, ops)]))) <-> In e (tagged (final_state bs))).
Proof. exact ungrouped_untouched. Qed.
Print Assumptions C16_ungrouped_untouched.

(* non-vacuity: a history with two hooks, three groups sharing metric names (told apart
   by labels), a rejected batch, an explicit expire, shortcuts, fractions and a histogram
   is in the domain and free of collisions; its last batch is accepted and mentions
   group 1 but not group 2 *)
Definition ex_history : list batch :=
  [ (1, [mkOp 1 1 ASet (Some 8%Z) None None None [(1, 1)];
         mkOp 2 1 ASet (Some 12%Z) None None None [(1, 2)];
         mkOp 2 2 ANone None (Some 20%Z) None None [(11, 2)];
         mkOp 0 3 AAdd (Some 4%Z) None None None [(2, 1)];
         mkOp 0 4 AObserve (Some 12%Z) None None (Some [8%Z; 16%Z]) []]);
    (2, [mkOp 1 1 ASet (Some 9%Z) None None None [(1, 1)];
         mkOp 0 3 AOther (Some 1%Z) None None None []]);
    (2, [mkOp 3 1 ANone None None (Some 5%Z) None [(1, 1); (12, 0)];
         mkOp 3 0 AExpire None None None None [];
         mkOp 3 2 AAdd (Some 3%Z) None None None [(11, 1)]]) ].
Definition ex_last : batch :=
  (1, [mkOp 1 1 ASet (Some 40%Z) None None None [(1, 2); (2, 1)];
       mkOp 0 3 AAdd (Some 4%Z) None None None [(2, 1)]]).

Example C16_hyp_met :
  in_domain (ex_history ++ [ex_last]) = true
  /\ T_F5a (ex_history ++ [ex_last]) = false
  /\ forallb spec_valid (snd ex_last) = true
  /\ In 1 (mentioned (snd ex_last) [])
  /\ ~ In 2 (mentioned (snd ex_last) [])
  /\ length (final_reg (ex_history ++ [ex_last])) = 6%nat
  /\ forallb spec_valid (snd (nth 1 ex_history (0, []))) = false.
Proof.
  repeat split; try (vm_compute; reflexivity).
  - vm_compute. left; reflexivity.
  - vm_compute. intros [H|[]]. discriminate.
Qed.
