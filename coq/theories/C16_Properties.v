(* C16_Properties.v — the property theorems of C16 and nothing else.

   Vocabulary: [run bs] = after every batch of the history bs, (SendBatch failed?,
   Gather()) of the model; [P] = C16_Spec's predicate (the reference registry keyed by
   (group, name, labels)); [in_domain] = what prometheus can represent (C16_Spec);
   [tagged st] = the model's registry content with, for every series, the group it is
   stored under ((group, name, shown labels), (kind, value)); [final_state bs] /
   [final_reg bs] = model state / reference registry after the history bs.

   Full statement of the property:
     Definition C16_full_statement := forall bs, in_domain bs = true -> P bs (run bs) = true.
   It is FALSE of the faithful model and of the code: C16_refuted (finding F5a: the
   collectors key a series by its label values only, so two groups reporting the same
   metric name with the same labels share one series).  Proved at full strength outside
   the trigger T_F5a: C16_refines_partial, and its consequences by name below.  F5b
   (uint64 counters) and F5c (`add` shortcut applied twice to grouped counters) were
   repaired in /repo; the model follows the repaired code and needs no trigger for them. *)
From Coq Require Import Permutation.
From Verif Require Import Common C16_Model C16_Spec C16_Corr C16_Proofs C16_Conc.
Local Open Scope N_scope.

Definition C16_full_statement : Prop := forall bs, in_domain bs = true -> P bs (run bs) = true.

(* after every batch of every in-domain history without an F5a collision, the failure
   flag and Gather() are those of the reference registry *)
Theorem C16_refines_partial : forall bs, in_domain bs = true -> T_F5a bs = false -> P bs (run bs) = true.
Proof. exact refines_partial. Qed.
Print Assumptions C16_refines_partial.

Theorem C16_refuted : exists bs, in_domain bs = true /\ T_F5a bs = true /\ P bs (run bs) = false.
Proof. exact refuted. Qed.
Print Assumptions C16_refuted.

(* one invalid operation anywhere in what the hook wrote: the state is returned as it
   was and the execution fails — for every state and batch, no hypothesis *)
Theorem C16_validate_all_or_nothing : forall st hook ops,
  forallb spec_valid ops = false -> hook_batch st hook ops = (st, true).
Proof. exact invalid_batch. Qed.
Print Assumptions C16_validate_all_or_nothing.

(* values as given: the model's registry content IS the reference registry *)
Theorem C16_values_as_given : forall bs,
  in_domain bs = true -> T_F5a bs = false ->
  forall e, In e (tagged (final_state bs)) <-> In e (final_reg bs).
Proof. exact values_as_given. Qed.
Print Assumptions C16_values_as_given.

(* a group mentioned in an accepted batch holds afterwards exactly what the batch's
   operations for that group build starting from nothing *)
Theorem C16_group_replaced : forall bs hook ops g,
  in_domain (bs ++ [(hook, ops)]) = true -> T_F5a (bs ++ [(hook, ops)]) = false ->
  forallb spec_valid ops = true -> In g (mentioned ops []) ->
  forall e, egroup e = g ->
    (In e (tagged (final_state (bs ++ [(hook, ops)])))
     <-> In e (fold_left (spec_apply hook) (in_group g ops) [])).
Proof. exact group_replaced. Qed.
Print Assumptions C16_group_replaced.

(* the series of a group the batch does not mention are untouched *)
Theorem C16_others_untouched : forall bs hook ops g,
  in_domain (bs ++ [(hook, ops)]) = true -> T_F5a (bs ++ [(hook, ops)]) = false ->
  g <> 0 -> ~ In g (mentioned ops []) ->
  forall e, egroup e = g ->
    (In e (tagged (final_state (bs ++ [(hook, ops)]))) <-> In e (tagged (final_state bs))).
Proof. exact others_untouched. Qed.
Print Assumptions C16_others_untouched.

(* ... and so is every ungrouped series that no ungrouped operation of the batch names *)
Theorem C16_ungrouped_untouched : forall bs hook ops e,
  in_domain (bs ++ [(hook, ops)]) = true -> T_F5a (bs ++ [(hook, ops)]) = false ->
  egroup e = 0 -> forallb spec_valid ops = true ->
  (forall o, In o ops -> o_group o = 0 -> (0, o_name o, spec_labels hook (o_labels o)) <> fst e) ->
  (In e (tagged (final_state (bs ++ [(hook, ops)]))) <-> In e (tagged (final_state bs))).
Proof. exact ungrouped_untouched. Qed.
Print Assumptions C16_ungrouped_untouched.

(* non-vacuity: a history with two hooks, three groups sharing metric names (told apart
   by labels), a rejected batch, an explicit expire, shortcuts, fractions and a histogram
   is in the domain and free of collisions; its last batch is accepted and mentions
   group 1 but not group 2 *)
Definition ex_history : list batch :=
  [ (1, [mkOp 1 1 ASet (Some 8%Z) None None None [(1, 1)];
         mkOp 2 1 ASet (Some 12%Z) None None None [(1, 2)];
         mkOp 2 2 ANone None (Some 20%Z) None None [(11, 2)];
         mkOp 0 3 AAdd (Some 4%Z) None None None [(2, 1)];
         mkOp 0 4 AObserve (Some 12%Z) None None (Some [8%Z; 16%Z]) []]);
    (2, [mkOp 1 1 ASet (Some 9%Z) None None None [(1, 1)];
         mkOp 0 3 AOther (Some 1%Z) None None None []]);
    (2, [mkOp 3 1 ANone None None (Some 5%Z) None [(1, 1); (12, 0)];
         mkOp 3 0 AExpire None None None None [];
         mkOp 3 2 AAdd (Some 3%Z) None None None [(11, 1)]]) ].
Definition ex_last : batch :=
  (1, [mkOp 1 1 ASet (Some 40%Z) None None None [(1, 2); (2, 1)];
       mkOp 0 3 AAdd (Some 4%Z) None None None [(2, 1)]]).

Example C16_hyp_met :
  in_domain (ex_history ++ [ex_last]) = true
  /\ T_F5a (ex_history ++ [ex_last]) = false
  /\ forallb spec_valid (snd ex_last) = true
  /\ In 1 (mentioned (snd ex_last) [])
  /\ ~ In 2 (mentioned (snd ex_last) [])
  /\ length (final_reg (ex_history ++ [ex_last])) = 6%nat
  /\ forallb spec_valid (snd (nth 1 ex_history (0, []))) = false.
Proof.
  repeat split; try (vm_compute; reflexivity).
  - vm_compute. left; reflexivity.
  - vm_compute. intros [H|[]]. discriminate.
Qed.

(* ---- batches arriving at the same time (hooks in different queues run in parallel) ----
   The model takes the batches of a round as atomic steps in some order il (a permutation
   of the round); [conc_run history round il] = (failed? for every batch of the round,
   Gather() at the end); [P_case] = C16_Spec's predicate for a history followed by a round
   (failures are those of validation; the registry shows the reference registry after
   SOME order of the round); [last_touch g bs] = the last accepted batch of bs that
   mentions group g, [group_view g b] = what b's operations for g build from nothing;
   [distinct_groups il] = no group is mentioned by two accepted batches of il. *)

(* whether SendBatch fails is decided by validation alone: it does not depend on the
   state, hence not on what the other executions did before *)
Theorem C16_failure_is_state_independent : forall st st' hook ops,
  snd (hook_batch st hook ops) = snd (hook_batch st' hook ops)
  /\ snd (hook_batch st hook ops) = negb (forallb spec_valid ops).
Proof. intros st st' hook ops. split; [apply failure_state_independent | apply hook_batch_fails]. Qed.
Print Assumptions C16_failure_is_state_independent.

(* for every history, every round, EVERY order in which the round's batches take effect
   and every continuation of the history after the round, the model's observations satisfy
   the predicate (outside the F5a trigger) *)
Theorem C16_concurrent_linearised : forall history round il after,
  round <> [] -> In il (lperms round) ->
  in_domain (history ++ il ++ after) = true -> T_F5a (history ++ il ++ after) = false ->
  P_case history (run history) round (conc_run history round il) after (after_run history il after) = true.
Proof. exact conc_linearised. Qed.
Print Assumptions C16_concurrent_linearised.

(* after any history the series of a group are exactly those its LAST accepted batch gave *)
Theorem C16_last_batch_wins : forall bs,
  in_domain bs = true -> T_F5a bs = false ->
  forall g, g <> 0 -> forall e, egroup e = g ->
    (In e (tagged (final_state bs)) <-> In e (group_view g (last_touch g bs))).
Proof. exact last_batch_wins. Qed.
Print Assumptions C16_last_batch_wins.

(* batches over pairwise different groups: the grouped series after the round do not
   depend on the order in which the batches took effect *)
Theorem C16_concurrent_order_independent : forall history il1 il2,
  Permutation il1 il2 -> distinct_groups il1 ->
  in_domain (history ++ il1) = true -> T_F5a (history ++ il1) = false ->
  in_domain (history ++ il2) = true -> T_F5a (history ++ il2) = false ->
  forall e, egroup e <> 0 ->
    (In e (tagged (final_state (history ++ il1))) <-> In e (tagged (final_state (history ++ il2)))).
Proof. exact conc_order_independent. Qed.
Print Assumptions C16_concurrent_order_independent.

(* ... and for any order each group shows what the round's batch that mentions it gave
   (a group the round does not mention: what the history's last batch for it gave) *)
Theorem C16_concurrent_group_view : forall history il,
  in_domain (history ++ il) = true -> T_F5a (history ++ il) = false ->
  forall g, g <> 0 -> forall e, egroup e = g ->
    (In e (tagged (final_state (history ++ il)))
     <-> In e (group_view g (match last_touch g il with Some b => Some b | None => last_touch g history end))).
Proof. exact conc_group_view. Qed.
Print Assumptions C16_concurrent_group_view.

(* non-vacuity: after ex_history, three executions hand in batches at the same time: hook 1
   and hook 2 both report the metric name 7 for the first time (each in a group of its own),
   hook 2 also replaces group 3, a third batch expires group 2 and carries an ungrouped add;
   all six orders are in the domain and free of collisions, the groups are pairwise
   different, and the round changes what is shown *)
Definition ex_round : list batch :=
  [ (1, [mkOp 4 7 ASet (Some 24%Z) None None None [(1, 1)]; mkOp 4 1 ASet (Some 8%Z) None None None [(1, 1); (11, 2)]]);
    (2, [mkOp 5 7 ASet (Some 12%Z) None None None [(2, 1)]; mkOp 3 2 AAdd (Some 16%Z) None None None [(11, 1)]]);
    (1, [mkOp 2 0 AExpire None None None None []; mkOp 0 3 AAdd (Some 4%Z) None None None [(2, 1)]]) ].

Example C16_conc_hyp_met :
  length (lperms ex_round) = 6%nat
  /\ forallb (fun il => in_domain (ex_history ++ il) && negb (T_F5a (ex_history ++ il))) (lperms ex_round) = true
  /\ Permutation ex_round (rev ex_round)
  /\ distinct_groups ex_round
  /\ last_touch 4 (ex_history ++ ex_round) = Some (nth 0 ex_round (0, []))
  /\ last_touch 1 (ex_history ++ ex_round) = Some (nth 0 ex_history (0, []))
  /\ same_series (snd (conc_run ex_history ex_round ex_round)) (gather (final_state ex_history)) = false
  /\ in_domain (ex_history ++ rev ex_round ++ [ex_last]) = true
  /\ T_F5a (ex_history ++ rev ex_round ++ [ex_last]) = false
  /\ P_case ex_history (run ex_history) ex_round (conc_run ex_history ex_round (rev ex_round))
            [ex_last] (after_run ex_history (rev ex_round) [ex_last]) = true.
Proof.
  split; [vm_compute; reflexivity|]. split; [vm_compute; reflexivity|].
  split; [apply Permutation_rev|].
  split; [apply distinct_groups_dec; vm_compute; reflexivity|].
  split; [vm_compute; reflexivity|]. split; [vm_compute; reflexivity|].
  split; [vm_compute; reflexivity|]. split; [vm_compute; reflexivity|].
  split; vm_compute; reflexivity.
Qed.
