(* C14_CtxModel.v — C14_Model part 3: admission bindings with the further documented binding
   parameters (`group`, `includeSnapshotsFrom`), hooks that also have `kubernetes` bindings, and
   WHAT THE HOOK OF A REQUEST IS SHOWN: the binding context written to $BINDING_CONTEXT_PATH.
   NO proofs in this file.

   The path of one request, after the routing of C14_Model (which does not look at the parameters):

     AdmissionBindingsController.HandleEvent           admission_bindings_controller.go:144
       link := AdmissionLinks[event.WebhookId]         (a map keyed by webhook id, filled by
                                                        EnableValidatingBindings then EnableMutatingBindings:
                                                        the LAST binding with that id owns the entry)
       -> BindingContext{Binding: link.BindingName, AdmissionReview{Request: event.Request},
                         Metadata{BindingType: link.BindingType, IncludeSnapshots: link.IncludeSnapshots,
                                  Group: link.Group}}
     op.taskHandler(admissionTask) -> handleRunHook -> Hook.Run                   hook.go:95
       HookController.UpdateSnapshots(context)                                     hook_controller.go:317
       bctx.ConvertBindingContextList("v1", ...) -> BindingContext.MapV1()         binding_context.go:58
       -> the JSON array of ONE object the hook reads

   where the link was made at start-up from the hook's configuration:
     config_v1.go:263-308  IncludeSnapshotsFrom of a binding with a group is merged with the names of the
                           hook's `kubernetes` bindings of that group (MergeArrays)

   Encoding.  Names of admission bindings are byte strings (their webhook id matters, C14_Model);
   names of `kubernetes` bindings and of groups are dense numbers chosen by the harness; the group ""
   (= no `group:` line) is None.  The content of a snapshot is outside this property (C08/C09): a
   snapshot map is modelled by its keys.  The AdmissionReview the hook is shown is modelled by the uid
   of its request (the harness' requests differ in nothing else). *)
From Verif Require Import Common C14_Model.

(* ------------------------------------------------------------------ the hook's configuration *)

(* a `kubernetes` binding, as far as grouping goes: (name, group) *)
Definition gbinding := (N * option N)%type.

(* a kubernetesValidating / kubernetesMutating binding: name, group, includeSnapshotsFrom *)
Record pbinding := mkPB { pb_name : bytes; pb_group : option N; pb_include : list N }.

Record phook := mkPHook { ph_kube : list gbinding; ph_val : list pbinding; ph_mut : list pbinding }.

Definition no_phook : phook := mkPHook [] [] [].

(* what C14_Model looks at: the names *)
Definition strip (h : phook) : hook := mkHook (map pb_name (ph_val h)) (map pb_name (ph_mut h)).

(* config_v1.go:265-274 groupSnapshots[g]: the names of the `kubernetes` bindings with group g, in order *)
Definition group_snapshots (kube : list gbinding) (g : N) : list N :=
  map fst (filter (fun kb => match snd kb with Some g' => N.eqb g' g | None => false end) kube).

(* elements of l that are not in seen, first occurrence only *)
Fixpoint fresh_of (seen l : list N) : list N :=
  match l with
  | [] => []
  | x :: r => if mem_N x seen then fresh_of seen r else x :: fresh_of (x :: seen) r
  end.

(* util.go:36 MergeArrays(a1, a2): a1 as it is, then what a2 adds, each name once *)
Definition merge_arrays (a1 a2 : list N) : list N := a1 ++ fresh_of a1 a2.

(* config_v1.go:291-307: if snapshots, ok := groupSnapshots[cfg.Group]; ok { merge }.  The map has a key
   only for groups that some kubernetes binding names; "" is never a key. *)
Definition loaded_include (cfg : phook) (pb : pbinding) : list N :=
  match pb_group pb with
  | None => pb_include pb
  | Some g =>
    match group_snapshots (ph_kube cfg) g with
    | [] => pb_include pb
    | snaps => merge_arrays (pb_include pb) snaps
    end
  end.

Definition bindings_of (cfg : phook) (t : btype) : list pbinding :=
  match t with Validating => ph_val cfg | Mutating => ph_mut cfg end.

(* the last element that satisfies p *)
Fixpoint find_last {A} (p : A -> bool) (l : list A) : option A :=
  match l with
  | [] => None
  | x :: r => match find_last p r with Some y => Some y | None => if p x then Some x else None end
  end.

(* the binding whose Group / IncludeSnapshotsFrom the link with webhook id [id] and type [t] carries:
   Enable<T>Bindings assigns AdmissionLinks[id] once per binding in configuration order, so the entry
   that C14_Model.hook_links reports as (t, name) was written by the LAST binding of type t with that id *)
Definition link_binding (cfg : phook) (t : btype) (id : bytes) : option pbinding :=
  find_last (fun pb => bytes_eqb (webhook_id (pb_name pb)) id) (bindings_of cfg t).

(* ------------------------------------------------------------------ the binding context *)

(* htypes.BindingType *)
Inductive mtype := MOnStartup | MSchedule | MOnKubernetesEvent | MValidating | MMutating | MConversion.
Definition of_btype (t : btype) : mtype := match t with Validating => MValidating | Mutating => MMutating end.

(* bindingcontext.BindingContext, the fields MapV1 reads for anything but a `kubernetes` event *)
Record bctx := mkBC {
  bc_btype : mtype;                   (* Metadata.BindingType *)
  bc_include : list N;                (* Metadata.IncludeSnapshots *)
  bc_all : bool;                      (* Metadata.IncludeAllSnapshots *)
  bc_group : option N;                (* Metadata.Group *)
  bc_binding : bytes;                 (* Binding *)
  bc_snapshots : list N;              (* Snapshots: its keys ([] = nil or empty) *)
  bc_review : option N                (* AdmissionReview: request.uid; None = nil *)
}.

(* admission_bindings_controller.go:166-172 HandleEvent, for the link (t, name) with the parameters of
   the binding that wrote it (a link always has one; the default stands for "no parameters") *)
Definition handle_event (cfg : phook) (t : btype) (name : bytes) (uid : N) : bctx :=
  match link_binding cfg t (webhook_id name) with
  | Some pb => mkBC (of_btype t) (loaded_include cfg pb) false (pb_group pb) name [] (Some uid)
  | None => mkBC (of_btype t) [] false None name [] (Some uid)
  end.

(* hook_controller.go:266 getIncludeSnapshotsFrom(KubernetesValidating | KubernetesMutating, name):
   the FIRST binding of that type with that name *)
Definition get_include_from (cfg : phook) (t : mtype) (name : bytes) : list N :=
  match t with
  | MValidating | MMutating =>
    match List.find (fun pb => bytes_eqb (pb_name pb) name)
                    (match t with MValidating => ph_val cfg | _ => ph_mut cfg end) with
    | Some pb => loaded_include cfg pb
    | None => []
    end
  | _ => []                           (* bindings of other kinds: not in this model *)
  end.

(* hook_controller.go:317 UpdateSnapshots.  KubernetesController is nil when the hook has no
   `kubernetes` binding: the context is returned as it is.  Otherwise Snapshots becomes a fresh map
   with one key per included binding name. *)
Definition update_snapshots (cfg : phook) (bc : bctx) : bctx :=
  match ph_kube cfg with
  | [] => bc
  | _ => mkBC (bc_btype bc) (bc_include bc) (bc_all bc) (bc_group bc) (bc_binding bc)
              (get_include_from cfg (bc_btype bc) (bc_binding bc)) (bc_review bc)
  end.

(* what the hook reads: the JSON object MapV1 builds *)
Inductive rtype :=
| RtAbsent                            (* no "type" *)
| RtValidating | RtMutating | RtConversion | RtGroup | RtSchedule
| RtKubernetes.                       (* "Synchronization" / "Event": the business of C09 *)

Record rendered := mkR {
  r_binding : bytes;                  (* "binding" *)
  r_type : rtype;                     (* "type" *)
  r_snapshots : option (list N);      (* "snapshots": its keys; None = no such field *)
  r_group : option N;                 (* "groupName" *)
  r_review : option N                 (* "review".request.uid; None = no such field or null *)
}.

Definition nonempty {A} (l : list A) : bool := match l with [] => false | _ => true end.

(* binding_context.go:58 MapV1, statement by statement *)
Definition map_v1 (bc : bctx) : rendered :=
  let b := bc_binding bc in
  match bc_btype bc with
  | MOnStartup => mkR b RtAbsent None None None
  | t =>
    (* Set "snapshots" field if needed. *)
    let snaps := if nonempty (bc_include bc) || bc_all bc then Some (bc_snapshots bc) else None in
    (* Handle admission and conversion before grouping. *)
    match t with
    | MValidating => mkR b RtValidating snaps None (bc_review bc)
    | MMutating => mkR b RtMutating snaps None (bc_review bc)
    | MConversion => mkR b RtConversion snaps None None        (* a ConversionReview: C15 *)
    | _ =>
      (* Group is always has "type: Group", even for Synchronization. *)
      match bc_group bc with
      | Some g => mkR b RtGroup snaps (Some g) None
      | None =>
        match t with
        | MSchedule => mkR b RtSchedule snaps None None
        | _ => mkR b RtKubernetes snaps None None              (* or no type at all: see C09 *)
        end
      end
    end
  end.

(* Hook.Run of hook number h for the link (t, name), the request's uid being uid *)
Definition hook_receives (hooks : list phook) (w : N * (btype * bytes)) (uid : N) : rendered :=
  let cfg := nth (N.to_nat (fst w)) hooks no_phook in
  map_v1 (update_snapshots cfg (handle_event cfg (fst (snd w)) (snd (snd w)) uid)).

(* ------------------------------------------------------------------ a hook that looks before it answers *)

(* The harness' hook in this class READS its binding context first: it answers as scripted only when
   it is shown an admission request (type Validating or Mutating, a review whose request has the uid);
   a hook that is not shown the request cannot judge it and denies: exit 0, {"allowed":false,
   "message":"hookmsg-99"}, no other files. *)
Definition sees_request (x : rendered) (uid : N) : bool :=
  match r_type x with RtValidating | RtMutating => true | _ => false end
  && match r_review x with Some u => N.eqb u uid | None => false end.

Definition blind_run : run := mkRun true (FResp false 99 [] 0 false) MEmpty CEmpty KEmpty.

Definition effective_run (x : rendered) (uid : N) (r : run) : run :=
  if sees_request x uid then r else blind_run.

(* handler.go detectConfigurationAndWebhook + HandleAdmissionEvent: who gets the task *)
Definition route (hooks : list hook) (path : bytes) : ran :=
  let '(conf, id) := detect path in find_task hooks conf id.

(* one exchange: the answer, who ran, the side effects, and what the hook was shown *)
Definition ctx_request (hooks : list phook) (path : bytes) (b : body) (r : run)
  : (answer * ran) * (bool * bool) * option rendered :=
  let hs := map strip hooks in
  match b with
  | BReview uid =>
    match route hs path with
    | Some w =>
      let x := hook_receives hooks w uid in
      let r' := effective_run x uid r in
      (admit_request hs path b r', admit_effects hs path b r', Some x)
    | None => (admit_request hs path b r, admit_effects hs path b r, None)
    end
  | _ => (admit_request hs path b r, admit_effects hs path b r, None)
  end.

Definition c_ans (x : (answer * ran) * (bool * bool) * option rendered) : answer := fst (fst (fst x)).
Definition c_who (x : (answer * ran) * (bool * bool) * option rendered) : ran := snd (fst (fst x)).
Definition c_eff (x : (answer * ran) * (bool * bool) * option rendered) : bool * bool := snd (fst x).
Definition c_shown (x : (answer * ran) * (bool * bool) * option rendered) : option rendered := snd x.
