(* C20_KindProofs.v — entry kinds (regular file, directory, symbolic link, FIFO): the on-disk tree
   [xtree], what the walk sees of it ([lstat]), and the clauses by kind of C20_Spec (PX_kinds). *)
From Coq Require Import Sorted.
From Verif Require Import Common C20_Model C20_Spec C20_Corr C20_Proofs C20_NameProofs.
Local Open Scope N_scope.

(* induction over on-disk trees *)
Fixpoint xtree_ind' (Q : xtree -> Prop)
         (HF : forall n m, Q (XFile n m))
         (HD : forall n cs, Forall Q cs -> Q (XDir n cs))
         (HL : forall n t, Q (XLink n t))
         (HP : forall n m, Q (XFifo n m)) (x : xtree) : Q x :=
  match x with
  | XFile n m => HF n m
  | XDir n cs => HD n cs ((fix go (l : list xtree) : Forall Q l :=
                            match l with
                            | [] => Forall_nil Q
                            | c :: r => Forall_cons c (xtree_ind' Q HF HD HL HP c) (go r)
                            end) cs)
  | XLink n t => HL n t
  | XFifo n m => HP n m
  end.

(* the mode Lstat reports for an entry of each kind *)
Definition lstat_mode (k : xkind) : N :=
  match k with
  | KRegular m => m
  | KSymlink _ => link_mode
  | KFifo m => N.lor mode_named_pipe m
  end.
Definition lstat_entry (e : xentry) : entry := let '(anc, n, k) := e in (anc, n, lstat_mode k).

(* the files the walk sees are the entries of the on-disk tree, one for one, in order *)
Lemma files_lstat x : forall anc, files anc (lstat x) = map lstat_entry (xfiles anc x).
Proof.
  induction x as [n m|n cs IH|n t|n m] using xtree_ind'; intros anc; cbn [lstat files xfiles map]; try reflexivity.
  induction cs as [|c cs IHcs]; cbn [map flat_map]; [reflexivity|].
  inversion IH as [|? ? Hc Hcs]; subst.
  rewrite map_app, Hc, (IHcs Hcs). reflexivity.
Qed.

Lemma all_files_lstat xs : all_files (map lstat xs) = map lstat_entry (all_xfiles xs).
Proof.
  unfold all_files, all_xfiles. induction xs as [|x xs IH]; cbn [map flat_map]; [reflexivity|].
  rewrite map_app, files_lstat, IH. reflexivity.
Qed.

Lemma entry_path_lstat e : entry_path (lstat_entry e) = xentry_path e.
Proof. destruct e as [[anc n] k]. reflexivity. Qed.

(* the execute bits of the Lstat mode are the permission bits of the entry: all three for a link *)
Lemma has_exec_bit_lstat k : has_exec_bit (lstat_mode k) = has_exec_bit (perm_bits k).
Proof.
  destruct k as [m|t|m]; cbn [lstat_mode perm_bits]; [reflexivity|reflexivity|].
  unfold has_exec_bit. rewrite !N.lor_spec. reflexivity.
Qed.

Lemma entry_is_hook_lstat e : entry_is_hook (lstat_entry e) = xentry_is_hook e.
Proof.
  destruct e as [[anc n] k]. unfold lstat_entry, entry_is_hook, xentry_is_hook.
  rewrite has_exec_bit_lstat. reflexivity.
Qed.

Lemma in_lstat xs e : In e (all_xfiles xs) -> In (lstat_entry e) (all_files (map lstat xs)).
Proof. intros H. rewrite all_files_lstat. apply in_map. exact H. Qed.

(* discovery, entry by entry, whatever the kind *)
Lemma discovery_by_kind parent root xs e :
  wf_children (map lstat xs) = true -> In e (all_xfiles xs) ->
  (In (xentry_path e) (discover parent root (map lstat xs)) <-> xentry_is_hook e = true).
Proof.
  intros Hwf He. rewrite discover_iff, <- entry_path_lstat, <- entry_is_hook_lstat.
  apply is_hook_entry; [exact Hwf | apply in_lstat; exact He].
Qed.

(* a symbolic link carries all execute bits: whether it is a hook depends on its name and place
   only, never on what it points to *)
Lemma link_is_hook anc n t :
  xentry_is_hook (anc, n, KSymlink t)
  = negb (hidden n) && negb (excluded_ending n)
    && forallb (fun d => negb (named_lib d) && negb (hidden d)) anc.
Proof. reflexivity. Qed.

(* a regular file or FIFO: the execute bits of its own mode decide *)
Lemma file_is_hook anc n m :
  xentry_is_hook (anc, n, KRegular m) = xentry_is_hook (anc, n, KFifo m)
  /\ (xentry_is_hook (anc, n, KRegular m) = true <->
      has_exec_bit m = true /\ hidden n = false /\ excluded_ending n = false
      /\ forallb (fun d => negb (named_lib d) && negb (hidden d)) anc = true).
Proof.
  split; [reflexivity|]. unfold xentry_is_hook. cbn [perm_bits].
  rewrite !andb_true_iff, !negb_true_iff. tauto.
Qed.

(* ---- the --config run of an entry, looked up by its path ---- *)

Lemma xpaths_nodup xs : wf_children (map lstat xs) = true -> NoDup (map xentry_path (all_xfiles xs)).
Proof.
  intros Hwf. pose proof (all_paths_nodup _ Hwf) as H.
  rewrite all_files_lstat, map_map in H.
  erewrite map_ext in H; [exact H|]. intros e. apply entry_path_lstat.
Qed.

Lemma find_keyed {A} (f : A -> bytes) (g : A -> N) l e :
  NoDup (map f l) -> In e l ->
  find (fun kv => bytes_eqb (fst kv) (f e)) (map (fun x => (f x, g x)) l) = Some (f e, g e).
Proof.
  induction l as [|a l IH]; intros Hn Hin; [destruct Hin|].
  cbn [map] in Hn. inversion Hn as [|? ? Hni Hn']; subst. cbn [map find fst].
  destruct Hin as [<-|Hin].
  - rewrite bytes_eqb_refl. reflexivity.
  - destruct (bytes_eqb (f a) (f e)) eqn:E.
    + apply bytes_eqb_eq in E. exfalso. apply Hni. rewrite E. apply in_map. exact Hin.
    + apply IH; assumption.
Qed.

Lemma beh_code_entry xi e :
  wf_children (map lstat (x_children xi)) = true -> In e (all_xfiles (x_children xi)) ->
  beh_code (to_input xi) (xentry_path e) = run_code xi e.
Proof.
  intros Hwf He. unfold beh_code, to_input. cbn [i_beh].
  rewrite (find_keyed xentry_path (run_code xi) _ e (xpaths_nodup _ Hwf) He). reflexivity.
Qed.

Lemma bad_code_beh xi n : bad_code (beh_code (to_input xi) n) = true -> beh_of (to_input xi) n <> BOk.
Proof.
  unfold bad_code, beh_of. intros H. apply orb_true_iff in H as [H|H]; apply N.eqb_eq in H; rewrite H; discriminate.
Qed.

(* a hook of any kind whose --config run fails or is invalid - a link to a directory, to nothing,
   to a file without execute bits, a FIFO - makes Init fail *)
Lemma bad_hook_fails_init xi e :
  wf_children (map lstat (x_children xi)) = true -> In e (all_xfiles (x_children xi)) ->
  xentry_is_hook e = true -> bad_code (run_code xi e) = true ->
  result (init (x_parent xi) (x_root xi) (map lstat (x_children xi)) (beh_of (to_input xi))) <> InitOk.
Proof.
  intros Hwf He Hh Hb Hok.
  destruct (init_ok_all _ _ _ _ Hok) as [_ [_ Hall]].
  rewrite <- (beh_code_entry xi e Hwf He) in Hb.
  apply (bad_code_beh xi _ Hb). apply Hall. apply discovery_by_kind; assumption.
Qed.

(* ---- the clauses by kind hold of the model ---- *)

Lemma PX_each_model xi :
  wf_children (map lstat (x_children xi)) = true -> PX_each xi (model_of (to_input xi)) = true.
Proof.
  intros Hwf. pose proof (P_each_file_model (to_input xi) Hwf) as H.
  unfold P_each_file in H. unfold PX_each.
  destruct (strip_all (wd_of (to_input xi)) (o_paths (model_of (to_input xi)))) as [rels|]; [|discriminate].
  rewrite forallb_forall in H. apply forallb_forall. intros e He.
  specialize (H (lstat_entry e) (in_lstat _ e He)).
  rewrite entry_path_lstat, entry_is_hook_lstat in H. exact H.
Qed.

Lemma PX_each_init_model xi :
  wf_children (map lstat (x_children xi)) = true ->
  PX_each_init xi (init_obs_of (init (x_parent xi) (x_root xi) (map lstat (x_children xi)) (beh_of (to_input xi)))) = true.
Proof.
  intros Hwf. pose proof (P_each_file_init_model (to_input xi) Hwf) as H.
  cbn [to_input i_parent i_root i_children] in H.
  set (io := init_obs_of (init (x_parent xi) (x_root xi) (map lstat (x_children xi)) (beh_of (to_input xi)))) in *.
  unfold P_each_file_init in H. unfold PX_each_init.
  destruct (strip_all (wd_of (to_input xi)) (io_asked io)) as [asked|]; [|discriminate].
  rewrite forallb_forall in H. apply forallb_forall. intros e He.
  specialize (H (lstat_entry e) (in_lstat _ e He)).
  rewrite entry_path_lstat, entry_is_hook_lstat in H. cbn zeta in *.
  destruct (xentry_is_hook e) eqn:Hh; [|exact H].
  destruct (N.eqb (io_status io) 0) eqn:Est; [|exact H].
  rewrite H. cbn [andb]. apply negb_true_iff.
  destruct (bad_code (run_code xi e)) eqn:Hb; [|reflexivity].
  exfalso. apply (bad_hook_fails_init xi e Hwf He Hh Hb).
  apply io_status_init_obs_of. exact Est.
Qed.

Lemma PX_kinds_model xi :
  wf_children (map lstat (x_children xi)) = true -> PX_kinds xi (model_of (to_input xi)) = true.
Proof.
  intros Hwf. unfold PX_kinds. rewrite (PX_each_model xi Hwf). cbn [andb].
  unfold model_of. cbn [o_init to_input i_with_init i_parent i_root i_children].
  destruct (x_with_init xi); [|reflexivity].
  apply PX_each_init_model. exact Hwf.
Qed.

Lemma PX_model xi :
  wf_children (map lstat (x_children xi)) = true -> PX xi (model_of (to_input xi)) = true.
Proof.
  intros Hwf. unfold PX.
  rewrite (P_model (to_input xi) Hwf), (P_files_model (to_input xi) Hwf), (PX_kinds_model xi Hwf). reflexivity.
Qed.
