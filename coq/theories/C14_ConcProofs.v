(* C14_ConcProofs.v — proofs about the transition system of C14_ConcModel: for any number of admission
   requests in flight and any interleaving of their steps, every request is answered from what its
   own hook run wrote. *)
From Verif Require Import Common C14_Model C14_Spec C14_Proofs C14_ConcModel C14_ConcSpec.
Require Import Lia.
Local Open Scope N_scope.

(* ------------------------------------------------------------------ small facts *)
Lemma upd_same A (f : N -> A) k v : upd f k v k = v.
Proof. unfold upd. now rewrite N.eqb_refl. Qed.
Lemma upd_other A (f : N -> A) k v x : x <> k -> upd f k v x = f x.
Proof. intros H. unfold upd. apply N.eqb_neq in H. now rewrite H. Qed.

Definition uu (nm : fname) : N := snd nm.
Definition kk (nm : fname) : kind := snd (fst nm).

Lemma kind_eqb_refl k : kind_eqb k k = true.
Proof. now destruct k. Qed.
Lemma kind_eqb_eq a b : kind_eqb a b = true <-> a = b.
Proof. destruct a, b; cbn; split; intros H; try reflexivity; discriminate. Qed.

Lemma fname_eqb_refl nm : fname_eqb nm nm = true.
Proof. destruct nm as [[h k] u]. cbn. now rewrite !N.eqb_refl, kind_eqb_refl. Qed.
Lemma fname_eqb_uu a b : uu a <> uu b -> fname_eqb a b = false.
Proof.
  destruct a as [[h k] u], b as [[h' k'] u']. cbn. intros H. apply N.eqb_neq in H. rewrite H.
  now rewrite Bool.andb_false_r.
Qed.
Lemma fname_eqb_kk a b : kk a <> kk b -> fname_eqb a b = false.
Proof.
  destruct a as [[h k] u], b as [[h' k'] u']. cbn. intros H.
  destruct (kind_eqb k k') eqn:E; [apply kind_eqb_eq in E; contradiction |].
  now rewrite Bool.andb_false_r.
Qed.

Lemma updf_same fs nm v : updf fs nm v nm = v.
Proof. unfold updf. now rewrite fname_eqb_refl. Qed.
Lemma updf_uu fs nm v x : uu x <> uu nm -> updf fs nm v x = fs x.
Proof. intros H. unfold updf. now rewrite fname_eqb_uu. Qed.
Lemma updf_kk fs nm v x : kk x <> kk nm -> updf fs nm v x = fs x.
Proof. intros H. unfold updf. now rewrite fname_eqb_kk. Qed.

Lemma write_if_uu fs nm c x : uu x <> uu nm -> write_if fs nm c x = fs x.
Proof. intros H. unfold write_if. destruct c; try reflexivity; now apply updf_uu. Qed.
Lemma write_if_kk fs nm c x : kk x <> kk nm -> write_if fs nm c x = fs x.
Proof. intros H. unfold write_if. destruct c; try reflexivity; now apply updf_kk. Qed.
(* writing to an empty file: afterwards it holds what was written (nothing, if there was nothing to write) *)
Lemma write_if_same fs nm c : fs nm = Some XEmpty -> write_if fs nm c nm = Some c.
Proof. intros H. unfold write_if. destruct c; try apply updf_same. exact H. Qed.

Lemma as_rfile_rcont f : as_rfile (Some (rcont f)) = f.
Proof. now destruct f. Qed.
Lemma as_mfile_mcont m : as_mfile (Some (mcont m)) = m.
Proof. now destruct m. Qed.
Lemma as_cfile_ccont c : as_cfile (Some (ccont c)) = c.
Proof. now destruct c. Qed.
Lemma as_kfile_kcont k : as_kfile (Some (kcont k)) = k.
Proof. now destruct k. Qed.

(* a run whose process exited non-zero is the failed run, whatever the files hold *)
Lemma handle_fail_run r : exit_zero r = false -> handle_run_hook fail_run = handle_run_hook r.
Proof. intros H. unfold handle_run_hook, hook_run. rewrite H. reflexivity. Qed.

Lemma run_eta r : exit_zero r = true -> mkRun true (file r) (metrics r) (conv r) (kpatch r) = r.
Proof. destruct r. cbn. now intros ->. Qed.

(* the sequential model on a routed_to review *)
Lemma admit_request_routed hooks path uid r x :
  find_task hooks (fst (detect path)) (snd (detect path)) = Some x ->
  admit_request hooks path (BReview uid) r = (AReview (answer_of_task uid (handle_run_hook r)), Some x)
  /\ admit_effects hooks path (BReview uid) r = (t_kapplied (handle_run_hook r), t_mapplied (handle_run_hook r)).
Proof.
  intros H. unfold admit_request, admit_effects. rewrite admit_review_eq, H.
  destruct (detect path) as [conf id]. cbn [fst snd] in H. rewrite H. split; reflexivity.
Qed.
Lemma admit_request_unrouted hooks path uid r :
  find_task hooks (fst (detect path)) (snd (detect path)) = None ->
  admit_request hooks path (BReview uid) r = (AReview (errored uid AMNoHook), None)
  /\ admit_effects hooks path (BReview uid) r = (false, false).
Proof.
  intros H. unfold admit_request, admit_effects. rewrite admit_review_eq, H.
  destruct (detect path) as [conf id]. cbn [fst snd] in H. rewrite H. split; reflexivity.
Qed.

(* ------------------------------------------------------------------ the invariant *)
Section Invariant.
Variable hooks : list hook.
Variable rs : list creq.
Let n : N := N.of_nat (length rs).
Let rq (e : N) : creq := nth_req rs e.

(* the files an execution holds, by the statement it is at *)
Definition holds (p : cpc) (k : kind) : bool :=
  match p with
  | QRecv | QCtx | QAnswer | QDone => false
  | QMet => match k with KCtx => true | _ => false end
  | QAdm => match k with KCtx | KMet => true | _ => false end
  | QConv => match k with KCtx | KMet | KAdm => true | _ => false end
  | QPatch => match k with KPatch => false | _ => true end
  | QSpawn | QWrite | QExit | QRead | QRemove => true
  end.

(* ... and what each of them contains *)
Definition expect (q : creq) (l : btype * bytes) (p : cpc) (k : kind) : fcont :=
  match k with
  | KCtx => XCtx (uid_of (cq_body q)) l
  | _ =>
    match p with
    | QExit | QRead | QRemove =>
      match k with
      | KMet => mcont (metrics (cq_run q))
      | KAdm => rcont (file (cq_run q))
      | KConv => ccont (conv (cq_run q))
      | _ => kcont (kpatch (cq_run q))
      end
    | _ => XEmpty
    end
  end.

(* the request was handed to the hook and binding that find_task names *)
Definition routed_to (st : exec_st) (q : creq) : Prop :=
  cq_body q = BReview (uid_of (cq_body q))
  /\ find_task hooks (fst (detect (cq_path q))) (snd (detect (cq_path q))) = Some (e_hook st, e_link st).

(* its hook process read the context of this request and found its output files empty *)
Definition saw (st : exec_st) (q : creq) : Prop :=
  e_seen st = Some (XCtx (uid_of (cq_body q)) (e_link st)) /\ e_empty st = true.

Definition exec_inv (w : world) (e : N) : Prop :=
  let st := w_exec w e in
  let q := rq e in
  (forall k, holds (e_pc st) k = true ->
     e_id st k < w_next w /\ w_fs w (name_of st k) = Some (expect q (e_link st) (e_pc st) k))
  /\ match e_pc st with
     | QRecv => e_out st = None
     | QCtx | QMet | QAdm | QConv | QPatch | QSpawn => routed_to st q /\ e_out st = None
     | QWrite | QExit => routed_to st q /\ saw st q /\ e_out st = None
     | QRead => routed_to st q /\ saw st q /\ e_out st = None /\ exit_zero (cq_run q) = true
     | QRemove | QAnswer =>
         routed_to st q /\ saw st q /\ e_out st = None /\ handle_run_hook (e_back st) = handle_run_hook (cq_run q)
     | QDone => e_out st = Some (seq_out hooks q)
     end.

Record Inv (w : world) : Prop := mkInv {
  inv_exec : forall e, e < n -> exec_inv w e;
  (* the names held by different executions differ: their uuids do *)
  inv_ids : forall e e' k k', e < n -> e' < n -> e <> e' ->
            holds (e_pc (w_exec w e)) k = true -> holds (e_pc (w_exec w e')) k' = true ->
            e_id (w_exec w e) k <> e_id (w_exec w e') k';
  inv_rest : forall e, n <= e -> e_pc (w_exec w e) = QDone
}.

Lemma holds_lt w e k : exec_inv w e -> holds (e_pc (w_exec w e)) k = true -> e_id (w_exec w e) k < w_next w.
Proof. intros [H _] HK. now destruct (H k HK). Qed.

(* what a step of request a leaves alone: the other requests' states, and every file whose uuid was
   drawn before and is not one of those a holds *)
Lemma step_frame w a :
  let w' := step hooks rs w a in
  (forall e, e <> a -> w_exec w' e = w_exec w e)
  /\ w_next w <= w_next w'
  /\ (forall x, uu x < w_next w ->
        (forall k, holds (e_pc (w_exec w a)) k = true -> uu x <> e_id (w_exec w a) k) ->
        w_fs w' x = w_fs w x).
Proof.
  cbn zeta. unfold step, finish_early, set_exec, create.
  destruct (e_pc (w_exec w a)) eqn:PC.
  - (* QRecv *)
    destruct (cq_body (nth_req rs a)); [destruct (detect _) as [conf id]; destruct (find_task hooks conf id) as [[h l] |] | | |];
      cbn [w_exec w_fs w_next]; (split; [intros e NE; now apply upd_other |]); (split; [lia |]); reflexivity.
  - cbn [w_exec w_fs w_next]. split; [intros e NE; now apply upd_other |]. split; [lia |].
    intros x LT _. apply updf_uu. cbn [uu snd]. lia.
  - cbn [w_exec w_fs w_next]. split; [intros e NE; now apply upd_other |]. split; [lia |].
    intros x LT _. apply updf_uu. cbn [uu snd]. lia.
  - cbn [w_exec w_fs w_next]. split; [intros e NE; now apply upd_other |]. split; [lia |].
    intros x LT _. apply updf_uu. cbn [uu snd]. lia.
  - cbn [w_exec w_fs w_next]. split; [intros e NE; now apply upd_other |]. split; [lia |].
    intros x LT _. apply updf_uu. cbn [uu snd]. lia.
  - cbn [w_exec w_fs w_next]. split; [intros e NE; now apply upd_other |]. split; [lia |].
    intros x LT _. apply updf_uu. cbn [uu snd]. lia.
  - (* QSpawn *) cbn [w_exec w_fs w_next]. split; [intros e NE; now apply upd_other |]. split; [lia |]. reflexivity.
  - (* QWrite *) cbn [w_exec w_fs w_next]. split; [intros e NE; now apply upd_other |]. split; [lia |].
    intros x _ H. rewrite !write_if_uu; try reflexivity; unfold name_of; cbn [uu snd]; now apply H.
  - (* QExit *) destruct (exit_zero _); cbn [w_exec w_fs w_next];
      (split; [intros e NE; now apply upd_other |]); (split; [lia |]); reflexivity.
  - (* QRead *) cbn [w_exec w_fs w_next]. split; [intros e NE; now apply upd_other |]. split; [lia |]. reflexivity.
  - (* QRemove *) cbn [w_exec w_fs w_next]. split; [intros e NE; now apply upd_other |]. split; [lia |].
    intros x _ H. unfold all_kinds. cbn [existsb].
    rewrite !fname_eqb_uu; try reflexivity; unfold name_of; cbn [uu snd]; now apply H.
  - (* QAnswer *) cbn [w_exec w_fs w_next]. split; [intros e NE; now apply upd_other |]. split; [lia |]. reflexivity.
  - (* QDone *) split; [reflexivity |]. split; [lia |]. reflexivity.
Qed.

(* a request that did not take the step keeps its invariant *)
Lemma exec_inv_frame w w' e :
  w_exec w' e = w_exec w e -> w_next w <= w_next w' ->
  (forall k, holds (e_pc (w_exec w e)) k = true -> w_fs w' (name_of (w_exec w e) k) = w_fs w (name_of (w_exec w e) k)) ->
  exec_inv w e -> exec_inv w' e.
Proof.
  intros HX HN HF [HA HB]. unfold exec_inv. rewrite HX. split; [| exact HB].
  intros k HK. destruct (HA k HK) as [LT FS]. split; [lia |]. now rewrite HF.
Qed.



Ltac create_goal HA :=
  match goal with
  | |- w_next _ < _ /\ _ => split; [lia | now rewrite updf_same]
  | |- e_id _ ?k < _ /\ _ =>
      let LT := fresh "LT" in let FS := fresh "FS" in
      destruct (HA k eq_refl) as [LT FS]; split; [lia |];
      rewrite updf_kk by (cbn; discriminate); exact FS
  end.

(* the request that takes the step *)
Lemma step_own w a : exec_inv w a -> exec_inv (step hooks rs w a) a.
Proof.
  intros [HA HB]. unfold exec_inv. unfold step, finish_early, set_exec, create. fold (rq a).
  destruct (e_pc (w_exec w a)) eqn:PC.
  - (* QRecv *)
    destruct (cq_body (rq a)) as [uid | | |] eqn:BD.
    + destruct (detect (cq_path (rq a))) as [conf id] eqn:DT.
      destruct (find_task hooks conf id) as [[h l] |] eqn:FT;
        cbn [w_exec w_fs w_next]; rewrite upd_same; cbn [e_pc e_out e_hook e_link].
      * split; [intros k HK; discriminate |]. split; [| exact HB].
        unfold routed_to. rewrite BD, DT. cbn [uid_of fst snd e_hook e_link]. now split.
      * split; [intros k HK; discriminate |].
        unfold seq_out. rewrite BD.
        destruct (admit_request_unrouted hooks (cq_path (rq a)) uid (cq_run (rq a))) as [-> ->]; [now rewrite DT |].
        reflexivity.
    + cbn [w_exec w_fs w_next]. rewrite upd_same. cbn [e_pc e_out]. split; [intros k HK; discriminate |].
      unfold seq_out. rewrite BD. reflexivity.
    + cbn [w_exec w_fs w_next]. rewrite upd_same. cbn [e_pc e_out]. split; [intros k HK; discriminate |].
      unfold seq_out. rewrite BD. reflexivity.
    + cbn [w_exec w_fs w_next]. rewrite upd_same. cbn [e_pc e_out]. split; [intros k HK; discriminate |].
      unfold seq_out. rewrite BD. reflexivity.
  - (* QCtx *)
    destruct HB as [RT OUT].
    cbn [w_exec w_fs w_next]. rewrite upd_same. cbn [e_pc e_out e_hook e_link e_id]. split; [| split; [exact RT | exact OUT]].
    intros k HK. unfold name_of. cbn [e_hook e_id].
    destruct k; cbn [holds] in HK; try discriminate; cbn [kind_eqb].
    split; [lia | now rewrite updf_same].
  - (* QMet *)
    destruct HB as [RT OUT].
    cbn [w_exec w_fs w_next]. rewrite upd_same. cbn [e_pc e_out e_hook e_link e_id]. split; [| split; [exact RT | exact OUT]].
    intros k HK. unfold name_of. cbn [e_hook e_id].
    destruct k; cbn [holds] in HK; try discriminate; cbn [kind_eqb]; create_goal HA.
  - (* QAdm *)
    destruct HB as [RT OUT].
    cbn [w_exec w_fs w_next]. rewrite upd_same. cbn [e_pc e_out e_hook e_link e_id]. split; [| split; [exact RT | exact OUT]].
    intros k HK. unfold name_of. cbn [e_hook e_id].
    destruct k; cbn [holds] in HK; try discriminate; cbn [kind_eqb]; create_goal HA.
  - (* QConv *)
    destruct HB as [RT OUT].
    cbn [w_exec w_fs w_next]. rewrite upd_same. cbn [e_pc e_out e_hook e_link e_id]. split; [| split; [exact RT | exact OUT]].
    intros k HK. unfold name_of. cbn [e_hook e_id].
    destruct k; cbn [holds] in HK; try discriminate; cbn [kind_eqb]; create_goal HA.
  - (* QPatch *)
    destruct HB as [RT OUT].
    cbn [w_exec w_fs w_next]. rewrite upd_same. cbn [e_pc e_out e_hook e_link e_id]. split; [| split; [exact RT | exact OUT]].
    intros k HK. unfold name_of. cbn [e_hook e_id].
    destruct k; cbn [holds] in HK; try discriminate; cbn [kind_eqb]; create_goal HA.
  - (* QSpawn *)
    destruct HB as [RT OUT].
    cbn [w_exec w_fs w_next]. rewrite upd_same. cbn [e_pc e_out e_hook e_link e_id e_seen e_empty].
    destruct (HA KCtx eq_refl) as [_ F0]. destruct (HA KMet eq_refl) as [_ F1]. destruct (HA KAdm eq_refl) as [_ F2].
    destruct (HA KConv eq_refl) as [_ F3]. destruct (HA KPatch eq_refl) as [_ F4].
    split; [| split; [exact RT | split; [| exact OUT]]].
    + intros k HK. destruct (HA k eq_refl) as [LT FS]. split; [exact LT |].
      unfold name_of in *. cbn [e_hook e_id]. rewrite FS. now destruct k.
    + unfold saw. cbn [e_seen e_empty e_link]. rewrite F0, F1, F2, F3, F4. split; reflexivity.
  - (* QWrite *)
    destruct HB as (RT & SW & OUT).
    cbn [w_exec w_fs w_next]. rewrite upd_same. cbn [at_pc e_pc e_out e_hook e_link e_id e_seen e_empty].
    split; [| split; [exact RT | split; [exact SW | exact OUT]]].
    intros k _. destruct (HA k eq_refl) as [LT _]. split; [exact LT |].
    destruct (HA KCtx eq_refl) as [_ F0]. destruct (HA KMet eq_refl) as [_ F1]. destruct (HA KAdm eq_refl) as [_ F2].
    destruct (HA KConv eq_refl) as [_ F3]. destruct (HA KPatch eq_refl) as [_ F4].
    unfold name_of in *. cbn [e_hook e_id expect] in *.
    destruct k; cbn [expect]; rewrite ?write_if_kk by (cbn; discriminate);
      try exact F0;
      (rewrite write_if_same; [reflexivity |]); rewrite ?write_if_kk by (cbn; discriminate); assumption.
  - (* QExit *)
    destruct HB as (RT & SW & OUT).
    destruct (exit_zero (cq_run (rq a))) eqn:EX;
      cbn [w_exec w_fs w_next]; rewrite upd_same; cbn [at_pc e_pc e_out e_hook e_link e_id e_seen e_empty e_back].
    + split; [| split; [exact RT | split; [exact SW | split; [exact OUT | reflexivity]]]].
      intros k _. exact (HA k eq_refl).
    + split; [| split; [exact RT | split; [exact SW | split; [exact OUT | now apply handle_fail_run]]]].
      intros k _. exact (HA k eq_refl).
  - (* QRead *)
    destruct HB as (RT & SW & OUT & EX).
    cbn [w_exec w_fs w_next]. rewrite upd_same. cbn [at_pc e_pc e_out e_hook e_link e_id e_seen e_empty e_back].
    split; [| split; [exact RT | split; [exact SW | split; [exact OUT |]]]].
    + intros k _. exact (HA k eq_refl).
    + destruct (HA KMet eq_refl) as [_ F1]. destruct (HA KAdm eq_refl) as [_ F2].
      destruct (HA KConv eq_refl) as [_ F3]. destruct (HA KPatch eq_refl) as [_ F4].
      rewrite F1, F2, F3, F4. cbn [expect].
      rewrite as_rfile_rcont, as_mfile_mcont, as_cfile_ccont, as_kfile_kcont. now rewrite run_eta.
  - (* QRemove *)
    destruct HB as (RT & SW & OUT & BK).
    cbn [w_exec w_fs w_next]. rewrite upd_same. cbn [at_pc e_pc e_out e_hook e_link e_id e_seen e_empty e_back].
    split; [intros k HK; discriminate |]. exact (conj RT (conj SW (conj OUT BK))).
  - (* QAnswer *)
    destruct HB as (RT & SW & OUT & BK).
    cbn [w_exec w_fs w_next]. rewrite upd_same. cbn [e_pc e_out].
    split; [intros k HK; discriminate |].
    destruct RT as [BD FT]. destruct SW as [SN EM]. rewrite SN, EM, BK. unfold seq_out. rewrite BD. cbn [uid_of].
    destruct (admit_request_routed hooks (cq_path (rq a)) (uid_of (cq_body (rq a))) (cq_run (rq a)) _ FT) as [-> ->].
    reflexivity.
  - (* QDone *) rewrite PC. split; [exact HA | exact HB].
Qed.

(* the uuids request a holds after its step: those it held, or the one just drawn *)
Lemma step_ids w a k :
  holds (e_pc (w_exec (step hooks rs w a) a)) k = true ->
  (holds (e_pc (w_exec w a)) k = true /\ e_id (w_exec (step hooks rs w a) a) k = e_id (w_exec w a) k)
  \/ e_id (w_exec (step hooks rs w a) a) k = w_next w.
Proof.
  unfold step, finish_early, set_exec, create.
  destruct (e_pc (w_exec w a)) eqn:PC.
  - destruct (cq_body (nth_req rs a)); [destruct (detect _) as [conf id]; destruct (find_task hooks conf id) as [[h l] |] | | |];
      cbn [w_exec]; rewrite upd_same; cbn [e_pc holds]; discriminate.
  - cbn [w_exec]. rewrite upd_same. cbn [e_pc e_id]. destruct k; cbn; try discriminate; auto.
  - cbn [w_exec]. rewrite upd_same. cbn [e_pc e_id]. destruct k; cbn; try discriminate; auto.
  - cbn [w_exec]. rewrite upd_same. cbn [e_pc e_id]. destruct k; cbn; try discriminate; auto.
  - cbn [w_exec]. rewrite upd_same. cbn [e_pc e_id]. destruct k; cbn; try discriminate; auto.
  - cbn [w_exec]. rewrite upd_same. cbn [e_pc e_id]. destruct k; cbn; try discriminate; auto.
  - cbn [w_exec]. rewrite upd_same. cbn [e_pc e_id holds]. auto.
  - cbn [w_exec]. rewrite upd_same. cbn [at_pc e_pc e_id holds]. auto.
  - destruct (exit_zero _); cbn [w_exec]; rewrite upd_same; cbn [at_pc e_pc e_id holds]; auto.
  - cbn [w_exec]. rewrite upd_same. cbn [e_pc e_id holds]. auto.
  - cbn [w_exec]. rewrite upd_same. cbn [at_pc e_pc holds]. discriminate.
  - cbn [w_exec]. rewrite upd_same. cbn [e_pc holds]. discriminate.
  - rewrite PC. cbn [holds]. discriminate.
Qed.

Lemma step_inv w a : Inv w -> Inv (step hooks rs w a).
Proof.
  intros [HE HB HR].
  destruct (N.lt_ge_cases a n) as [LT | GE].
  2:{ (* not a request of the case: nothing happens *)
      unfold step. rewrite (HR a GE). now constructor. }
  pose proof (step_frame w a) as (FX & FN & FF). cbn zeta in *.
  pose proof (HE a LT) as IA.
  constructor.
  - intros e LE. destruct (N.eq_dec e a) as [-> | NE].
    + now apply step_own.
    + apply (exec_inv_frame w); auto.
      intros k HK. apply FF.
      * unfold name_of, uu. cbn [snd]. exact (holds_lt w e k (HE e LE) HK).
      * intros k' HK'. unfold name_of, uu. cbn [snd]. now apply HB.
  - intros e e' k k' LE LE' NE HK HK'.
    destruct (N.eq_dec e a) as [-> | NA]; [| destruct (N.eq_dec e' a) as [-> | NA']].
    + rewrite (FX e' (not_eq_sym NE)) in *.
      pose proof (holds_lt w e' k' (HE e' LE') HK') as LT'.
      destruct (step_ids w a k HK) as [[HO ->] | ->]; [now apply HB | lia].
    + rewrite (FX e NA) in *.
      pose proof (holds_lt w e k (HE e LE) HK) as LT'.
      destruct (step_ids w a k' HK') as [[HO ->] | ->]; [now apply HB | lia].
    + rewrite (FX e NA), (FX e' NA') in *. now apply HB.
  - intros e GE. rewrite FX by lia. now apply HR.
Qed.

Lemma init_inv : Inv (init rs).
Proof.
  constructor.
  - intros e LT. unfold exec_inv, init. cbn [w_exec]. apply N.ltb_lt in LT. fold n. rewrite LT.
    cbn. split; [intros k HK; discriminate | reflexivity].
  - intros e e' k k' LT _ _. unfold init. cbn [w_exec]. apply N.ltb_lt in LT. fold n. rewrite LT. cbn. discriminate.
  - intros e GE. unfold init. cbn [w_exec]. apply N.ltb_ge in GE. fold n. now rewrite GE.
Qed.

Lemma run_sched_inv s : forall w, Inv w -> Inv (run_sched hooks rs w s).
Proof.
  induction s as [| a s IH]; intros w HI; [exact HI |].
  unfold run_sched. cbn [fold_left]. apply IH. now apply step_inv.
Qed.

Lemma run_inv s : Inv (conc_run hooks rs s).
Proof. apply run_sched_inv. exact init_inv. Qed.

End Invariant.

(* ------------------------------------------------------------------ every answer is a function of the own request *)
(* any number of requests, any interleaving: a request that has been answered got the sequential
   answer of C14_Model for its own run, and the run's own side effects *)
Theorem out_own hooks rs s e : e < N.of_nat (length rs) ->
  e_out (w_exec (conc_run hooks rs s) e) = None
  \/ e_out (w_exec (conc_run hooks rs s) e) = Some (seq_out hooks (nth_req rs e)).
Proof.
  intros LT. pose proof (inv_exec _ _ _ (run_inv hooks rs s) e LT) as [_ H].
  destruct (e_pc (w_exec (conc_run hooks rs s) e)); try tauto.
Qed.

Theorem done_out_own hooks rs s e : e < N.of_nat (length rs) ->
  e_pc (w_exec (conc_run hooks rs s) e) = QDone ->
  e_out (w_exec (conc_run hooks rs s) e) = Some (seq_out hooks (nth_req rs e)).
Proof.
  intros LT PD. pose proof (inv_exec _ _ _ (run_inv hooks rs s) e LT) as [_ H]. now rewrite PD in H.
Qed.

(* two sessions (other requests beside it, other numbers of requests), two interleavings: the same
   request gets the same answer *)
Theorem out_function_of_request hooks rs rs' s s' e o o' :
  e < N.of_nat (length rs) -> e < N.of_nat (length rs') -> nth_req rs e = nth_req rs' e ->
  e_out (w_exec (conc_run hooks rs s) e) = Some o -> e_out (w_exec (conc_run hooks rs' s') e) = Some o' -> o = o'.
Proof.
  intros LT LT' EQ H H'.
  destruct (out_own hooks rs s e LT) as [X | X]; rewrite X in H; [discriminate |].
  destruct (out_own hooks rs' s' e LT') as [X' | X']; rewrite X' in H'; [discriminate |].
  rewrite EQ in H. congruence.
Qed.

(* once the hook process of a request runs, it has read the context of THAT request (uid, binding) and
   found its four output files empty *)
Theorem hook_saw_own hooks rs s e : e < N.of_nat (length rs) ->
  let st := w_exec (conc_run hooks rs s) e in
  match e_pc st with
  | QWrite | QExit | QRead | QRemove | QAnswer =>
      e_seen st = Some (XCtx (uid_of (cq_body (nth_req rs e))) (e_link st)) /\ e_empty st = true
      /\ find_task hooks (fst (detect (cq_path (nth_req rs e)))) (snd (detect (cq_path (nth_req rs e)))) = Some (e_hook st, e_link st)
  | _ => True
  end.
Proof.
  intros LT. cbn zeta. pose proof (inv_exec _ _ _ (run_inv hooks rs s) e LT) as [_ H].
  destruct (e_pc (w_exec (conc_run hooks rs s) e)); try exact I;
    destruct H as ([_ FT] & [SN EM] & _); auto.
Qed.

(* what Run reads back is what the hook process of the same request wrote *)
Theorem reads_own_outputs hooks rs s e : e < N.of_nat (length rs) ->
  let st := w_exec (conc_run hooks rs s) e in
  let w := conc_run hooks rs s in
  e_pc st = QRead ->
  as_rfile (w_fs w (name_of st KAdm)) = file (cq_run (nth_req rs e))
  /\ as_mfile (w_fs w (name_of st KMet)) = metrics (cq_run (nth_req rs e))
  /\ as_cfile (w_fs w (name_of st KConv)) = conv (cq_run (nth_req rs e))
  /\ as_kfile (w_fs w (name_of st KPatch)) = kpatch (cq_run (nth_req rs e)).
Proof.
  intros LT. cbn zeta. intros PC. pose proof (inv_exec _ _ _ (run_inv hooks rs s) e LT) as [H _].
  rewrite PC in H.
  destruct (H KMet eq_refl) as [_ F1]. destruct (H KAdm eq_refl) as [_ F2].
  destruct (H KConv eq_refl) as [_ F3]. destruct (H KPatch eq_refl) as [_ F4].
  rewrite F1, F2, F3, F4. cbn [expect].
  now rewrite as_rfile_rcont, as_mfile_mcont, as_cfile_ccont, as_kfile_kcont.
Qed.

(* the files held by different requests have different names, whatever hooks they are for *)
Theorem names_distinct hooks rs s e e' k k' :
  e < N.of_nat (length rs) -> e' < N.of_nat (length rs) -> e <> e' ->
  let w := conc_run hooks rs s in
  holds (e_pc (w_exec w e)) k = true -> holds (e_pc (w_exec w e')) k' = true ->
  name_of (w_exec w e) k <> name_of (w_exec w e') k'.
Proof.
  intros LT LT' NE. cbn zeta. intros HK HK' EQ.
  apply (inv_ids _ _ _ (run_inv hooks rs s) e e' k k' LT LT' NE HK HK').
  unfold name_of in EQ. now inversion EQ.
Qed.

(* ------------------------------------------------------------------ the schedules the harness drives *)
Definition rank (p : cpc) : nat :=
  match p with
  | QRecv => 12 | QCtx => 11 | QMet => 10 | QAdm => 9 | QConv => 8 | QPatch => 7 | QSpawn => 6
  | QWrite => 5 | QExit => 4 | QRead => 3 | QRemove => 2 | QAnswer => 1 | QDone => 0
  end.

Lemma step_rank hooks rs w a : e_pc (w_exec w a) <> QDone ->
  (rank (e_pc (w_exec (step hooks rs w a) a)) < rank (e_pc (w_exec w a)))%nat.
Proof.
  intros ND. unfold step, finish_early, set_exec, create.
  destruct (e_pc (w_exec w a)) eqn:PC; try congruence.
  - destruct (cq_body (nth_req rs a)); [destruct (detect _) as [conf id]; destruct (find_task hooks conf id) as [[h l] |] | | |];
      cbn [w_exec]; rewrite upd_same; cbn [e_pc rank]; lia.
  - cbn [w_exec]. rewrite upd_same. cbn [e_pc rank]. lia.
  - cbn [w_exec]. rewrite upd_same. cbn [e_pc rank]. lia.
  - cbn [w_exec]. rewrite upd_same. cbn [e_pc rank]. lia.
  - cbn [w_exec]. rewrite upd_same. cbn [e_pc rank]. lia.
  - cbn [w_exec]. rewrite upd_same. cbn [e_pc rank]. lia.
  - cbn [w_exec]. rewrite upd_same. cbn [e_pc rank]. lia.
  - cbn [w_exec]. rewrite upd_same. cbn [at_pc e_pc rank]. lia.
  - destruct (exit_zero _); cbn [w_exec]; rewrite upd_same; cbn [at_pc e_pc rank]; lia.
  - cbn [w_exec]. rewrite upd_same. cbn [e_pc rank]. lia.
  - cbn [w_exec]. rewrite upd_same. cbn [at_pc e_pc rank]. lia.
  - cbn [w_exec]. rewrite upd_same. cbn [e_pc rank]. lia.
Qed.

Lemma step_other hooks rs w a e : e <> a -> w_exec (step hooks rs w a) e = w_exec w e.
Proof. intros NE. pose proof (step_frame hooks rs w a) as X. cbn zeta in X. destruct X as (FX & _). now apply FX. Qed.

Lemma step_done_stays hooks rs w a e : e_pc (w_exec w e) = QDone -> e_pc (w_exec (step hooks rs w a) e) = QDone.
Proof.
  intros PD. destruct (N.eq_dec e a) as [-> | NE].
  - unfold step. now rewrite PD.
  - now rewrite step_other.
Qed.

Lemma repeat_steps_done hooks rs a m : forall w, (rank (e_pc (w_exec w a)) <= m)%nat ->
  e_pc (w_exec (fold_left (step hooks rs) (repeat a m) w) a) = QDone.
Proof.
  induction m as [| m IH]; intros w LE.
  - cbn. destruct (e_pc (w_exec w a)); cbn in LE; try lia. reflexivity.
  - cbn [repeat fold_left]. apply IH.
    destruct (e_pc (w_exec w a)) eqn:PC;
      try (pose proof (step_rank hooks rs w a ltac:(rewrite PC; discriminate)) as X; rewrite PC in X; cbn [rank] in *; lia).
    unfold step. rewrite PC. rewrite PC. cbn. lia.
Qed.

Lemma steps_keep_done hooks rs s : forall w e, e_pc (w_exec w e) = QDone -> e_pc (w_exec (fold_left (step hooks rs) s w) e) = QDone.
Proof.
  induction s as [| a s IH]; intros w e PD; [exact PD |].
  cbn [fold_left]. apply IH. now apply step_done_stays.
Qed.

Lemma rank_max p : (rank p <= steps_max)%nat.
Proof. unfold steps_max. destruct p; cbn [rank]; lia. Qed.

Lemma finish_from_done hooks rs m : forall k w i, (i < m)%nat ->
  e_pc (w_exec (fold_left (step hooks rs) (finish_from k m) w) (k + N.of_nat i)) = QDone.
Proof.
  induction m as [| m IH]; intros k w i LT; [lia |].
  cbn [finish_from]. rewrite fold_left_app. destruct i as [| i].
  - rewrite N.add_0_r. apply steps_keep_done. apply repeat_steps_done. apply rank_max.
  - replace (k + N.of_nat (S i)) with (k + 1 + N.of_nat i) by lia. apply IH. lia.
Qed.

(* after the finishing schedule every request has ended, from whatever world it starts *)
Lemma finish_done hooks rs w e : e < N.of_nat (length rs) ->
  e_pc (w_exec (run_sched hooks rs w (finish_sched rs)) e) = QDone.
Proof.
  intros LT. unfold run_sched, finish_sched.
  pose proof (finish_from_done hooks rs (length rs) 0 w (N.to_nat e)) as X.
  rewrite N.add_0_l, N2Nat.id in X. apply X. lia.
Qed.

(* a move of the harness is a piece of a schedule *)
Lemma advance_sched hooks rs fuel : forall w e, exists s, advance hooks rs fuel w e = run_sched hooks rs w s.
Proof.
  induction fuel as [| f IH]; intros w e; [exists []; reflexivity |].
  cbn [advance].
  destruct (IH (step hooks rs w e) e) as [s Hs].
  destruct (e_pc (w_exec (step hooks rs w e) e));
    try (exists (e :: s); unfold run_sched in *; cbn [fold_left]; exact Hs);
    exists [e]; reflexivity.
Qed.

Lemma moves_sched hooks rs fuel moves : forall w, exists s, fold_left (advance hooks rs fuel) moves w = run_sched hooks rs w s.
Proof.
  induction moves as [| e r IH]; intros w; [exists []; reflexivity |].
  cbn [fold_left]. destruct (advance_sched hooks rs fuel w e) as [s1 H1]. destruct (IH (advance hooks rs fuel w e)) as [s2 H2].
  exists (s1 ++ s2). rewrite H2, H1. unfold run_sched. now rewrite fold_left_app.
Qed.

(* what the correspondence evaluates is a run of the transition system under some schedule *)
Theorem moves_run_is_schedule hooks rs moves : exists s, moves_run hooks rs moves = conc_run hooks rs s.
Proof.
  unfold moves_run, conc_run. destruct (moves_sched hooks rs 8 moves (init rs)) as [s H].
  exists (s ++ finish_sched rs). rewrite H. unfold run_sched. now rewrite fold_left_app.
Qed.

Lemma outs_from_map hooks (w : world) (rs : list creq) : forall k,
  (forall i q, nth_error rs i = Some q -> e_out (w_exec w (k + N.of_nat i)) = Some (seq_out hooks q)) ->
  outs_from w k (length rs) = map (fun q => Some (seq_out hooks q)) rs.
Proof.
  induction rs as [| q r IH]; intros k H; [reflexivity |].
  cbn [length outs_from map]. f_equal.
  - specialize (H O q eq_refl). now rewrite N.add_0_r in H.
  - apply IH. intros i q' HN. specialize (H (S i) q' HN). now replace (k + 1 + N.of_nat i) with (k + N.of_nat (S i)) by lia.
Qed.

(* ... and it answers every request, each with the sequential answer for its own run: whatever the moves *)
Theorem moves_run_outs hooks rs moves :
  outs rs (moves_run hooks rs moves) = map (fun q => Some (seq_out hooks q)) rs.
Proof.
  destruct (moves_run_is_schedule hooks rs moves) as [s ES].
  unfold outs. apply outs_from_map. intros i q HN. rewrite N.add_0_l.
  assert (LT : N.of_nat i < N.of_nat (length rs)).
  { assert (i < length rs)%nat by (apply nth_error_Some; congruence). lia. }
  assert (NQ : nth_req rs (N.of_nat i) = q).
  { unfold nth_req. rewrite Nat2N.id. now apply nth_error_nth. }
  assert (PD : e_pc (w_exec (moves_run hooks rs moves) (N.of_nat i)) = QDone) by (apply finish_done; exact LT).
  rewrite ES in *. rewrite <- NQ. now apply done_out_own.
Qed.

(* ------------------------------------------------------------------ the specification *)
Definition obs_of (hooks : list hook) (q : creq) : cobs :=
  (q, admit_request hooks (cq_path q) (cq_body q) (cq_run q)).

(* every request of a session, answered as the transition system answers it, meets C14_Spec.P *)
Theorem conc_P_holds hooks rs : names_ok hooks ->
  P_conc (model_regs hooks) (map (obs_of hooks) rs) = true.
Proof.
  intros OK. unfold P_conc. apply forallb_forall. intros x HI. apply in_map_iff in HI as (q & <- & _).
  unfold P_one, obs_of.
  destruct (admit_request hooks (cq_path q) (cq_body q) (cq_run q)) as [a who] eqn:E.
  pose proof (P_holds hooks (cq_path q) (cq_body q) (cq_run q) OK) as H. now rewrite E in H.
Qed.
