(* C10_Spec.v — property C10 as a decidable predicate over (the parsed document, what
   LoadAndValidate did with its JSON rendering and with its YAML rendering).  Written from
   the property text and docs/src/HOOKS.md:

     - loading never panics;
     - the same document as YAML or JSON loads identically;
     - a loaded document yields exactly the declared bindings, in declared order, with the
       documented defaults: name (`schedule` / `kubernetes`, legacy `onKubernetesEvent`),
       queue `main`, allowFailure false, all three watch events, executeHookOnSynchronization
       and keepFullObjectsInMemory true; crontab and kind as declared;
     - a binding with a group receives the snapshots of every kubernetes binding of the group
       (after its own includeSnapshotsFrom, nothing added twice);
     - unknown fields, bad crontabs, unknown or ambiguous includeSnapshotsFrom names, invalid
       selectors and unsupported versions are rejected (and every other single fault the
       generator injects);
     - "invalid selectors" includes the validity rules that relate TWO fields, which no schema can
       express (HOOKS.md): a fieldSelector requirement on `metadata.name` is mutually exclusive with
       nameSelector (any operator, any position); a label selector requirement's operator must fit
       its values (In / NotIn need values, Exists / DoesNotExist must have none) - clauses
       [name_field_clash], [bad_label_opvals], and with [bad_include] the predicate [interfield_valid].

   The effective configuration is observed through the canonical JSON projection that the
   harness dumps (C10_Model.cfg_json has the same format).  The predicate reads the document
   and that projection with jget; it never calls the model's load/convert. *)
From Coq Require Import String.
From Verif Require Import Common Json C10_Model.

Inductive obs := OLoaded (c : json) | ORejected | OPanic.

Definition obs_eqb (a b : obs) : bool :=
  match a, b with
  | OLoaded x, OLoaded y => json_eqb x y
  | ORejected, ORejected => true
  | OPanic, OPanic => true
  | _, _ => false
  end.

Fixpoint forall2b {A B} (f : A -> B -> bool) (l : list A) (m : list B) : bool :=
  match l, m with
  | [] , [] => true
  | x :: l', y :: m' => f x y && forall2b f l' m'
  | _, _ => false
  end.

Definition has (k : bytes) (v : json) (j : json) : bool := option_eqb json_eqb (jget k j) (Some v).

Fixpoint prefixb (p l : list bytes) : bool :=
  match p, l with
  | [], _ => true
  | x :: p', y :: l' => bytes_eqb x y && prefixb p' l'
  | _ :: _, [] => false
  end.

Fixpoint nodupb (l : list bytes) : bool :=
  match l with [] => true | x :: r => negb (mem_bytes x r) && nodupb r end.

(* ---- which version a document declares ---- *)

Definition is_v1 (doc : json) : bool :=
  match jget (bs "configVersion") doc with Some (JStr s) => bytes_eqb s (bs "v1") | _ => false end.

(* ---- declared -> effective, one binding ---- *)

(* includeSnapshotsFrom: the declared names first, in order; whatever follows (the group's
   kubernetes bindings) contains no name twice and none of the declared ones *)
Definition incl_ok (decl eff : json) : bool :=
  let d := get_strs (bs "includeSnapshotsFrom") decl in
  let e := get_strs (bs "includeSnapshotsFrom") eff in
  prefixb d e
  && nodupb (skipn (length d) e)
  && forallb (fun x => negb (mem_bytes x d)) (skipn (length d) e).

Definition sched_ok (v1 : bool) (decl eff : json) : bool :=
  has (bs "name") (JStr (or_default (get_str (bs "name") decl) (bs "schedule"))) eff
  && has (bs "queue") (JStr (if v1 then or_default (get_str (bs "queue") decl) (bs "main") else bs "main")) eff
  && has (bs "allowFailure") (JBool (get_bool (bs "allowFailure") false decl)) eff
  && has (bs "crontab") (JStr (get_str (bs "crontab") decl)) eff
  && (if v1 then has (bs "group") (JStr (get_str (bs "group") decl)) eff && incl_ok decl eff else true).

Definition declared_events_v1 (decl : json) : list bytes :=
  match jget (bs "executeHookOnEvent") decl with
  | Some (JArr l) => strs l
  | _ => match jget (bs "watchEvent") decl with Some (JArr l) => strs l | _ => all3 end
  end.

Definition legacy_event (s : bytes) : bytes :=
  if bytes_eqb s (bs "add") then bs "Added"
  else if bytes_eqb s (bs "update") then bs "Modified"
  else if bytes_eqb s (bs "delete") then bs "Deleted" else s.

Definition declared_events_v0 (decl : json) : list bytes :=
  match jget (bs "event") decl with
  | Some (JArr l) => map legacy_event (strs l)
  | _ => all3
  end.

(* what a v1 kubernetes binding SELECTS is part of the declared binding: apiVersion, the object
   names, the namespaces by name AND by label (the schema allows both selectors of `namespace`
   side by side), label and field selectors - each as declared, absent when not declared *)
Definition declared_names (o : option json) : json :=
  match o with Some ns => jstrs (get_strs (bs "matchNames") ns) | None => JNull end.
Definition declared_or_null (o : option json) : json := match o with Some x => x | None => JNull end.
Definition selects_ok (decl eff : json) : bool :=
  has (bs "apiVersion") (JStr (get_str (bs "apiVersion") decl)) eff
  && has (bs "names") (declared_names (jget (bs "nameSelector") decl)) eff
  && has (bs "namespaces")
         (declared_names (match jget (bs "namespace") decl with Some ns => jget (bs "nameSelector") ns | None => None end)) eff
  && has (bs "labelSelector") (declared_or_null (jget (bs "labelSelector") decl)) eff
  && has (bs "fieldSelector") (declared_or_null (jget (bs "fieldSelector") decl)) eff
  && has (bs "namespaceLabelSelector")
         (declared_or_null (match jget (bs "namespace") decl with Some ns => jget (bs "labelSelector") ns | None => None end)) eff.

Definition kube_ok (v1 : bool) (decl eff : json) : bool :=
  has (bs "name") (JStr (or_default (get_str (bs "name") decl) (if v1 then bs "kubernetes" else bs "onKubernetesEvent"))) eff
  && has (bs "queue") (JStr (if v1 then or_default (get_str (bs "queue") decl) (bs "main") else bs "main")) eff
  && has (bs "allowFailure") (JBool (get_bool (bs "allowFailure") false decl)) eff
  && has (bs "kind") (JStr (get_str (bs "kind") decl)) eff
  && has (bs "events") (jstrs (if v1 then declared_events_v1 decl else declared_events_v0 decl)) eff
  && has (bs "keepFullObjectsInMemory") (JBool (if v1 then get_bool (bs "keepFullObjectsInMemory") true decl else true)) eff
  && has (bs "monitorKeepFullObjectsInMemory") (JBool (if v1 then get_bool (bs "keepFullObjectsInMemory") true decl else true)) eff
  && (if v1
      then has (bs "executeHookOnSynchronization") (JBool (get_bool (bs "executeHookOnSynchronization") true decl)) eff
           && has (bs "group") (JStr (get_str (bs "group") decl)) eff
           && has (bs "jqFilter") (JStr (get_str (bs "jqFilter") decl)) eff
           && incl_ok decl eff
           && selects_ok decl eff
      else true).

Definition named_ok (decl eff : json) : bool :=
  has (bs "name") (JStr (get_str (bs "name") decl)) eff
  && has (bs "group") (JStr (get_str (bs "group") decl)) eff
  && incl_ok decl eff.

(* ---- group merge, read off the effective configuration alone ---- *)

Definition eff_group_names (c : json) (g : bytes) : list bytes :=
  map (get_str (bs "name")) (filter (fun k => bytes_eqb (get_str (bs "group") k) g) (get_arr (bs "kubernetes") c)).

Definition group_member_ok (c : json) (b : json) : bool :=
  let g := get_str (bs "group") b in
  if is_nil g then true
  else forallb (fun n => mem_bytes n (get_strs (bs "includeSnapshotsFrom") b)) (eff_group_names c g).

Definition binding_keys : list bytes :=
  [bs "schedule"; bs "kubernetes"; bs "kubernetesValidating"; bs "kubernetesMutating";
   bs "kubernetesCustomResourceConversion"].

Definition group_ok (c : json) : bool :=
  forallb (fun k => forallb (group_member_ok c) (get_arr k c)) binding_keys.

(* ---- a loaded document ---- *)

Definition loaded_ok (doc c : json) : bool :=
  let v1 := is_v1 doc in
  has (bs "version") (JStr (if v1 then bs "v1" else bs "v0")) c
  && has (bs "onStartup") (match jget (bs "onStartup") doc with Some (JNum z) => JNum z | _ => JNull end) c
  && forall2b (sched_ok v1) (get_arr (bs "schedule") doc) (get_arr (bs "schedule") c)
  && forall2b (kube_ok v1) (get_arr (if v1 then bs "kubernetes" else bs "onKubernetesEvent") doc)
              (get_arr (bs "kubernetes") c)
  && (if v1
      then forall2b named_ok (get_arr (bs "kubernetesValidating") doc) (get_arr (bs "kubernetesValidating") c)
           && forall2b named_ok (get_arr (bs "kubernetesMutating") doc) (get_arr (bs "kubernetesMutating") c)
           && forall2b named_ok (get_arr (bs "kubernetesCustomResourceConversion") doc)
                       (get_arr (bs "kubernetesCustomResourceConversion") c)
      else true)
  && group_ok c.

(* ---- documents that must be rejected, recognisable from the document alone ---- *)

(* configVersion present and not the string "v1" *)
Definition bad_version (doc : json) : bool :=
  match jget (bs "configVersion") doc with
  | None => false
  | Some (JStr s) => negb (bytes_eqb s (bs "v1"))
  | Some _ => true
  end.

Definition declared_kube_names (doc : json) : list bytes :=
  map (fun j => or_default (get_str (bs "name") j) (bs "kubernetes")) (get_arr (bs "kubernetes") doc).

(* some includeSnapshotsFrom name of a v1 document names no kubernetes binding, or several *)
Definition bad_include (doc : json) : bool :=
  is_v1 doc
  && existsb (fun k =>
                existsb (fun j =>
                           existsb (fun n => negb (Nat.eqb (count_name n (declared_kube_names doc)) 1))
                                   (get_strs (bs "includeSnapshotsFrom") j))
                        (get_arr k doc))
             binding_keys.

Definition top_keys_v1 : list bytes :=
  [bs "configVersion"; bs "settings"; bs "onStartup"; bs "schedule"; bs "kubernetes"; bs "kubernetesMutating";
   bs "kubernetesValidating"; bs "kubernetesCustomResourceConversion"].
Definition top_keys_v0 : list bytes := [bs "onStartup"; bs "schedule"; bs "onKubernetesEvent"].

Definition unknown_top_field (doc : json) : bool :=
  existsb (fun k => negb (mem_bytes k (if is_v1 doc then top_keys_v1 else top_keys_v0))) (jkeys doc).

(* ---- validity rules that relate TWO fields of one binding (the OpenAPI schema cannot express them) ----

   HOOKS.md, kubernetes binding: "fieldSelector with 'metadata.name' the field is mutually exclusive
   with nameSelector" - whatever the operator of the requirement (=, ==, Equals, !=, NotEquals) and
   wherever it stands in matchExpressions.  A nameSelector that names no object (matchNames empty)
   selects nothing by name; the clause speaks about a nameSelector with names. *)
Definition declared_match_names (b : json) : list json :=
  match jget (bs "nameSelector") b with Some ns => get_arr (bs "matchNames") ns | None => [] end.
Definition declared_field_exprs (b : json) : list json :=
  match jget (bs "fieldSelector") b with Some fs => get_arr (bs "matchExpressions") fs | None => [] end.
Definition on_metadata_name (e : json) : bool := bytes_eqb (get_str (bs "field") e) (bs "metadata.name").

Definition name_field_clash_in (b : json) : bool :=
  negb (is_nil (declared_match_names b)) && existsb on_metadata_name (declared_field_exprs b).

Definition name_field_clash (doc : json) : bool :=
  is_v1 doc && existsb name_field_clash_in (get_arr (bs "kubernetes") doc).

(* labelSelector ("standard selector of objects by labels"): a requirement's operator and its values
   must fit - In / NotIn need a non-empty values list, Exists / DoesNotExist must have none.  This
   holds for every label selector a v1 binding can declare: kubernetes[].labelSelector,
   kubernetes[].namespace.labelSelector, and the same two of kubernetesValidating / kubernetesMutating. *)
Definition op_is (e : json) (names : list bytes) : bool := mem_bytes (get_str (bs "operator") e) names.
Definition expr_opvals_bad (e : json) : bool :=
  (op_is e [bs "In"; bs "NotIn"] && is_nil (get_arr (bs "values") e))
  || (op_is e [bs "Exists"; bs "DoesNotExist"] && negb (is_nil (get_arr (bs "values") e))).
Definition selector_opvals_bad (s : json) : bool := existsb expr_opvals_bad (get_arr (bs "matchExpressions") s).

Definition declared_label_selectors (b : json) : list json :=
  (match jget (bs "labelSelector") b with Some s => [s] | None => [] end)
  ++ (match jget (bs "namespace") b with
      | Some ns => match jget (bs "labelSelector") ns with Some s => [s] | None => [] end
      | None => []
      end).

Definition selector_keys : list bytes := [bs "kubernetes"; bs "kubernetesValidating"; bs "kubernetesMutating"].

Definition bad_label_opvals (doc : json) : bool :=
  is_v1 doc
  && existsb (fun k => existsb (fun b => existsb selector_opvals_bad (declared_label_selectors b)) (get_arr k doc))
             selector_keys.

(* the inter-field validity of a v1 document, clause per rule: names and fields do not clash, every
   includeSnapshotsFrom name denotes exactly one kubernetes binding of the document, operators fit
   their values *)
Definition interfield_valid (doc : json) : bool :=
  negb (name_field_clash doc) && negb (bad_include doc) && negb (bad_label_opvals doc).

Definition must_reject (doc : json) : bool :=
  bad_version doc || bad_include doc || unknown_top_field doc || name_field_clash doc || bad_label_opvals doc.

(* ---- P ---- *)

Definition is_panic (o : obs) : bool := match o with OPanic => true | _ => false end.
Definition is_rejected (o : obs) : bool := match o with ORejected => true | _ => false end.

(* doc = None: arbitrary bytes (only "never panics" is claimed); fault: the generator
   injected exactly one fault into a valid document *)
Definition P (doc : option json) (fault : bool) (o_json o_yaml : obs) : bool :=
  negb (is_panic o_json) && negb (is_panic o_yaml)
  && match doc with
     | None => true
     | Some d =>
         obs_eqb o_json o_yaml
         && (if fault || must_reject d then is_rejected o_json else true)
         && match o_json with OLoaded c => loaded_ok d c | _ => true end
     end.

(* ---- SEVERAL loads in one process: history independence ----

   "Any byte string ... is either rejected with an error or loaded into an effective
   configuration ..." speaks about each document by itself: whether a document is rejected, and
   what it loads to, is a function of its bytes - it must not depend on what the same process
   loaded before (the operator loads all its hooks one after another; a hook may be loaded
   again).  A session is observed as the list of its loads; each load is seen twice: in the
   session (the k-th load of one process) and alone (the only load of a fresh process). *)

Record sobs := mkSobs {
  so_doc : option json;            (* None: raw bytes *)
  so_fault : bool;                 (* the generator injected a fault into this document *)
  so_json : obs;                   (* in the session: JSON rendering, YAML rendering *)
  so_yaml : obs;
  so_alone_json : obs;             (* alone, in a fresh process *)
  so_alone_yaml : obs }.

(* the clause "history independence": the k-th load of the session did what the load of the
   same bytes does alone - same verdict, same effective configuration *)
Definition history_independent (s : sobs) : bool :=
  obs_eqb (so_json s) (so_alone_json s) && obs_eqb (so_yaml s) (so_alone_yaml s).

(* a consequence that needs no second process: one document loaded twice in a session has one
   outcome *)
Definition same_doc (a b : sobs) : bool :=
  match so_doc a, so_doc b with
  | Some x, Some y => json_eqb x y
  | _, _ => false
  end.

Fixpoint repeat_ok (l : list sobs) : bool :=
  match l with
  | [] => true
  | s :: r =>
      forallb (fun t => if same_doc s t
                        then obs_eqb (so_json s) (so_json t) && obs_eqb (so_yaml s) (so_yaml t)
                        else true) r
      && repeat_ok r
  end.

(* every load of a session meets the single-document contract P, wherever it stands *)
Definition step_ok (s : sobs) : bool :=
  P (so_doc s) (so_fault s) (so_json s) (so_yaml s)
  && P (so_doc s) (so_fault s) (so_alone_json s) (so_alone_yaml s)
  && history_independent s.

Definition P_session (l : list sobs) : bool := forallb step_ok l && repeat_ok l.
