(* C02_Model.v — snapshots of a kubernetes binding.
   (1) monitor.Snapshot (pkg/kube_events_manager/monitor.go): one informer per (namespace,
       name) of the de-duplicated static namespaces x names of the binding (uniqueNames:
       repair of F13); each informer's cache holds the objects of its scope (it tracks the
       delivered changes: C01_Proofs.cache_tracks_changes); the snapshot is the concatenation
       of the caches sorted by namespace and name.  An object deleted between the informer's
       initial list (CreateInformers) and its start stays in the cache: the ghost (F26).
   (2) HookController.UpdateSnapshots (pkg/hook/controller/hook_controller.go): per execution
       a cache of reads; each binding named in includeSnapshotsFrom, and the binding of a
       Synchronization context, is read at most once.
   No proofs here. *)
From Verif Require Import Common.
Open Scope N_scope.

Definition obj := (N * N * N)%type.                (* namespace, name, content *)
(* the content c of an object stands for the pair (c mod 10, c / 10): the part a jqFilter of
   the binding selects (the harness: .data) and the rest (a label) *)
Definition proj_of (c : N) : N := c mod 10.
Definition o_ns (o : obj) := fst (fst o).
Definition o_name (o : obj) := snd (fst o).
Definition same_key (a b : obj) : bool := N.eqb (o_ns a) (o_ns b) && N.eqb (o_name a) (o_name b).
Definition key_ltb (a b : obj) : bool :=
  N.ltb (o_ns a) (o_ns b) || (N.eqb (o_ns a) (o_ns b) && N.ltb (o_name a) (o_name b)).

Inductive okind := OCreate | OModify | ODelete.

Record snap_in := mkSnapIn {
  si_namespaces : list N; si_names : list N; si_initial : list obj;
  si_ops : list (okind * obj); si_ghost : option obj; si_restart : bool;
  si_filter : bool;          (* the binding has a jqFilter *)
  si_keep : bool             (* keepFullObjectsInMemory *)
}.

(* the cluster: at most one object per (namespace, name) *)
Fixpoint cl_set (o : obj) (c : list obj) : list obj :=
  match c with
  | [] => [o]
  | x :: r => if same_key x o then o :: r else x :: cl_set o r
  end.
Fixpoint cl_del (o : obj) (c : list obj) : list obj :=
  match c with
  | [] => []
  | x :: r => if same_key x o then r else x :: cl_del o r
  end.
Definition cl_apply (c : list obj) (op : okind * obj) : list obj :=
  match fst op with
  | OCreate | OModify => cl_set (snd op) c
  | ODelete => cl_del (snd op) c
  end.
Definition final_cluster (i : snap_in) : list obj :=
  fold_left cl_apply (si_ops i) (fold_left (fun c o => cl_set o c) (si_initial i) []).

(* uniqueNames *)
Fixpoint uniq (l : list N) (seen : list N) : list N :=
  match l with
  | [] => []
  | x :: r => if mem_N x seen then uniq r seen else x :: uniq r (x :: seen)
  end.

(* informer scopes: None = all namespaces / any name *)
Definition scopes (i : snap_in) : list (option N * option N) :=
  let nss := match uniq (si_namespaces i) [] with [] => [None] | l => map Some l end in
  let nms := match uniq (si_names i) [] with [] => [None] | l => map Some l end in
  flat_map (fun ns => map (fun nm => (ns, nm)) nms) nss.

Definition in_scope (s : option N * option N) (o : obj) : bool :=
  match fst s with Some ns => N.eqb (o_ns o) ns | None => true end
  && match snd s with Some nm => N.eqb (o_name o) nm | None => true end.

(* sort.Sort(ByNamespaceAndName): insertion sort by (namespace, name) as the model *)
Fixpoint ins_obj (o : obj) (l : list obj) : list obj :=
  match l with
  | [] => [o]
  | x :: r => if key_ltb x o then x :: ins_obj o r else o :: l
  end.
Definition sort_objs (l : list obj) : list obj := fold_right ins_obj [] l.

(* the snapshot at quiescence: every informer's cache = the cluster objects of its scope
   (plus the ghost, if it is in that scope and the monitor was not restarted) *)
Definition caches (i : snap_in) (ghost : option obj) : list obj :=
  flat_map (fun s => filter (in_scope s) (final_cluster i)
                     ++ match ghost with Some g => if in_scope s g then [g] else [] | None => [] end)
           (scopes i).
Definition snapshot (i : snap_in) : list obj := sort_objs (caches i (si_ghost i)).
Definition snapshot_after_restart (i : snap_in) : list obj := sort_objs (caches i None).

(* what a snapshot entry shows of a cached object (applyFilter, RemoveFullObject): its
   identity, the filter result when the binding has a jqFilter, the whole object when
   keepFullObjectsInMemory.  handleWatchEvent replaces the cache entry on EVERY Added /
   Modified delivery, also when the checksum of the filter result did not change (the event
   is then suppressed, C08): the entry is that of the object's last delivered state *)
Definition view := (N * N * option N * option N)%type.
Definition shown (i : snap_in) (o : obj) : view :=
  (o_ns o, o_name o,
   if si_filter i then Some (proj_of (snd o)) else None,
   if si_keep i then Some (snd o) else None).
Definition snapshot_view (i : snap_in) : list view := map (shown i) (snapshot i).
Definition restart_view (i : snap_in) : list view := map (shown i) (snapshot_after_restart i).

(* ---- UpdateSnapshots ---- *)
Record ub := mkUB { ub_name : N; ub_includes : list N; ub_sched : bool }.
Record upd_in := mkUpdIn { ui_bindings : list ub; ui_ctxs : list (N * bool) }.

Definition find_binding (bs : list ub) (b : N) : option ub := find (fun x => N.eqb (ub_name x) b) bs.

Record ust := mkU { u_cache : list (N * N); u_calls : N; u_reads : list N }.

Fixpoint assoc_N (b : N) (l : list (N * N)) : option N :=
  match l with [] => None | (k, v) :: r => if N.eqb k b then Some v else assoc_N b r end.

(* SnapshotsFor through the per-execution cache: a new read gets the next read number *)
Definition read_binding (s : ust) (b : N) : ust * N :=
  match assoc_N b (u_cache s) with
  | Some v => (s, v)
  | None => let v := u_calls s + 1 in (mkU ((b, v) :: u_cache s) v (u_reads s ++ [b]), v)
  end.

(* the `snapshots` map of one context, kept sorted by key *)
Fixpoint set_kv (k v : N) (m : list (N * N)) : list (N * N) :=
  match m with
  | [] => [(k, v)]
  | (k', v') :: r => if N.eqb k k' then (k, v) :: r
                     else if N.ltb k k' then (k, v) :: m
                     else (k', v') :: set_kv k v r
  end.

Definition includes_of (bs : list ub) (b : N) : list N :=
  match find_binding bs b with Some x => ub_includes x | None => [] end.
Definition is_kube (bs : list ub) (b : N) : bool :=
  match find_binding bs b with Some x => negb (ub_sched x) | None => true end.

Definition fill_snaps (s : ust) (inc : list N) : ust * list (N * N) :=
  fold_left (fun acc name => let '(st, m) := acc in
                             let '(st', v) := read_binding st name in (st', set_kv name v m))
            inc (s, []).

(* one context: its snapshots map and the read behind `objects` (0: none) *)
Definition upd_ctx (bs : list ub) (s : ust) (c : N * bool) : ust * (list (N * N) * N) :=
  let '(s1, snaps) := fill_snaps s (includes_of bs (fst c)) in
  if is_kube bs (fst c) && snd c
  then let '(s2, v) := read_binding s1 (fst c) in (s2, (snaps, v))
  else (s1, (snaps, 0)).

Fixpoint upd_all (bs : list ub) (s : ust) (cs : list (N * bool)) : ust * list (list (N * N) * N) :=
  match cs with
  | [] => (s, [])
  | c :: r => let '(s1, o) := upd_ctx bs s c in
              let '(s2, os) := upd_all bs s1 r in (s2, o :: os)
  end.

Definition update (i : upd_in) : list (list (N * N) * N) * list N :=
  let '(s, os) := upd_all (ui_bindings i) (mkU [] 0 []) (ui_ctxs i) in (os, u_reads s).

(* ---- two kubernetes bindings sharing a group, named or both left with the default name ----
   (keys of the group's snapshots, objects reachable through them) *)
Definition grp (named : bool) : N * N := if named then (2, 2) else (1, 1).

(* ================================================================================================
   (3) bindings with namespace.labelSelector: dynamic namespaces (monitor.go: CreateInformers,
   Start, the namespace informer's add / delete callbacks, CreateInformersForNamespace,
   cancelForNs, VaryingInformers, Snapshot).  MonitorConfig.namespaces() is empty when a
   labelSelector is given (a namespace nameSelector beside it is ignored): there are no static
   informers, staticNamespaces stays empty, every informer lives in VaryingInformers.

   The cluster now has namespaces, each with or without the label the binding selects.  The
   namespace informer sees them through a filtered watch: a namespace that starts matching
   (created with the label / relabelled) is reported as Added, one that stops matching (deleted /
   label removed) as Deleted, any other change as Modified (OnUpdate: ignored).  A deleted
   namespace's objects are NOT removed by the model's cluster: histories say so explicitly
   (losing the label leaves them in place in a real cluster, too).
   ================================================================================================ *)

Inductive dop :=
| DObj (k : okind) (o : obj)          (* create / modify / delete of an object *)
| DNs (ns : N) (lab : bool)           (* the namespace exists now, with (lab) or without the label *)
| DNsDel (ns : N)                     (* the namespace is deleted *)
| DRestart                            (* the operator restarts: a fresh monitor on the cluster as it is *)
| DRead.                              (* the cluster is quiet and a snapshot is read *)

Record dyn_in := mkDynIn {
  dn_names : list N;                  (* nameSelector.matchNames ([] = any name), may repeat *)
  dn_initial : list obj;              (* objects and ... *)
  dn_nss : list (N * bool);           (* ... namespaces when the operator starts *)
  dn_ghost_ns : option N;             (* this namespace loses the label between CreateInformers and Start *)
  dn_ops : list dop;
  dn_filter : bool; dn_keep : bool
}.

(* the cluster's namespaces: at most one entry per namespace *)
Fixpoint ns_set (ns : N) (lab : bool) (l : list (N * bool)) : list (N * bool) :=
  match l with
  | [] => [(ns, lab)]
  | x :: r => if N.eqb (fst x) ns then (ns, lab) :: r else x :: ns_set ns lab r
  end.
Fixpoint ns_del (ns : N) (l : list (N * bool)) : list (N * bool) :=
  match l with
  | [] => []
  | x :: r => if N.eqb (fst x) ns then r else x :: ns_del ns r
  end.
(* the namespace exists and carries the label: it matches the labelSelector *)
Fixpoint ns_lab (ns : N) (l : list (N * bool)) : bool :=
  match l with
  | [] => false
  | x :: r => if N.eqb (fst x) ns then snd x else ns_lab ns r
  end.

Definition dcl := (list obj * list (N * bool))%type.     (* objects, namespaces *)
Definition dcl_apply (c : dcl) (op : dop) : dcl :=
  match op with
  | DObj k o => (cl_apply (fst c) (k, o), snd c)
  | DNs ns lab => (fst c, ns_set ns lab (snd c))
  | DNsDel ns => (fst c, ns_del ns (snd c))
  | DRestart | DRead => c
  end.
Definition dyn_cluster0 (i : dyn_in) : dcl :=
  (fold_left (fun c o => cl_set o c) (dn_initial i) [],
   fold_left (fun l p => ns_set (fst p) (snd p) l) (dn_nss i) []).
(* the cluster when the monitor starts *)
Definition dyn_cluster1 (i : dyn_in) : dcl :=
  let c := dyn_cluster0 i in
  match dn_ghost_ns i with Some g => (fst c, ns_set g false (snd c)) | None => c end.

(* one resourceInformer of a namespace: its name scope and its cache *)
Definition informer := (option N * list obj)%type.
(* VaryingInformers (namespace -> informers) and the keys of cancelForNs *)
Record dmon := mkDM { dm_vary : list (N * list informer); dm_cancel : list N }.

Definition name_scopes (names : list N) : list (option N) :=
  match uniq names [] with [] => [None] | l => map Some l end.

(* CreateInformersForNamespace: one informer per name; createSharedInformer loads the objects
   that exist (loadExistedObjects) *)
Definition informers_for (names : list N) (objs : list obj) (ns : N) : list informer :=
  map (fun nm => (nm, filter (in_scope (Some ns, nm)) objs)) (name_scopes names).

(* the add callback: "ignore already started informers", else create, store, cancel function, start *)
Definition add_ns (names : list N) (objs : list obj) (m : dmon) (ns : N) : dmon :=
  if mem_N ns (map fst (dm_vary m)) then m
  else mkDM (dm_vary m ++ [(ns, informers_for names objs ns)]) (dm_cancel m ++ [ns]).
(* the delete callback: "ignore already stopped informers" (no cancel function: return), else
   cancel, VaryingInformers.Delete, cancelForNs.Delete *)
Definition del_ns (m : dmon) (ns : N) : dmon :=
  if mem_N ns (dm_cancel m)
  then mkDM (filter (fun e => negb (N.eqb (fst e) ns)) (dm_vary m)) (filter (fun x => negb (N.eqb x ns)) (dm_cancel m))
  else m.

Definition matching_nss (nss : list (N * bool)) : list N := map fst (filter (fun x => snd x) nss).

(* CreateInformers: informers for the namespaces of the initial (filtered) namespace list *)
Definition create_mon (names : list N) (c : dcl) : dmon :=
  mkDM (map (fun ns => (ns, informers_for names (fst c) ns)) (matching_nss (snd c))) [].
(* Start: a cancel function for every namespace in VaryingInformers, their informers start;
   then the namespace informer starts: its own list reports every namespace matching NOW as Added *)
Definition start_mon (names : list N) (c : dcl) (m : dmon) : dmon :=
  fold_left (add_ns names (fst c)) (matching_nss (snd c)) (mkDM (dm_vary m) (map fst (dm_vary m))).

(* a delivered object change reaches the caches of the running informers whose scope holds it *)
Definition deliver (op : okind * obj) (m : dmon) : dmon :=
  mkDM (map (fun e => (fst e, map (fun inf : informer =>
                                     if in_scope (Some (fst e), fst inf) (snd op)
                                     then (fst inf, cl_apply (snd inf) op) else inf) (snd e)))
            (dm_vary m))
       (dm_cancel m).

Definition dstep (names : list N) (st : dcl * dmon) (op : dop) : dcl * dmon :=
  let c := fst st in let m := snd st in
  let c' := dcl_apply c op in
  match op with
  | DObj k o => (c', deliver (k, o) m)
  | DNs ns lab =>
      let was := ns_lab ns (snd c) in
      (c', if negb was && lab then add_ns names (fst c) m ns
           else if was && negb lab then del_ns m ns
           else m)
  | DNsDel ns => (c', if ns_lab ns (snd c) then del_ns m ns else m)
  | DRestart => (c, start_mon names c (create_mon names c))
  | DRead => (c, m)
  end.

(* Snapshot(): the caches of the informers in VaryingInformers, sorted *)
Definition mon_caches (m : dmon) : list obj := flat_map (fun e => flat_map (fun inf : informer => snd inf) (snd e)) (dm_vary m).
Definition mon_snapshot (m : dmon) : list obj := sort_objs (mon_caches m).

Fixpoint drun (names : list N) (st : dcl * dmon) (ops : list dop) : list (list obj) :=
  match ops with
  | [] => []
  | op :: r => let st' := dstep names st op in
               match op with
               | DRead => mon_snapshot (snd st') :: drun names st' r
               | _ => drun names st' r
               end
  end.

Definition dyn_init (i : dyn_in) : dcl * dmon :=
  (dyn_cluster1 i, start_mon (dn_names i) (dyn_cluster1 i) (create_mon (dn_names i) (dyn_cluster0 i))).
(* the snapshots read at the DRead points of the history *)
Definition dyn_snapshots (i : dyn_in) : list (list obj) := drun (dn_names i) (dyn_init i) (dn_ops i).
Definition dshown (i : dyn_in) (o : obj) : view :=
  (o_ns o, o_name o,
   if dn_filter i then Some (proj_of (snd o)) else None,
   if dn_keep i then Some (snd o) else None).
Definition dyn_views (i : dyn_in) : list (list view) := map (map (dshown i)) (dyn_snapshots i).
