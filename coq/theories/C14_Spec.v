(* C14_Spec.v — property C14 as a decidable predicate over observations, written from the
   property text only:

     "An AdmissionReview is answered with allowed=true only when the hook bound to the
      requested webhook path ran, exited zero and wrote a valid response with allowed true;
      hook failure, an empty or malformed response, an unknown path or any internal error
      yields a denial.  The answer echoes the request UID, carries the hook's message,
      warnings and - for mutating hooks - patch with patch type JSONPatch, and a request is
      handed to the hook and binding that registered that path."

   Observations: the bindings of all hooks, each with the path the implementation registered
   for it (what Kubernetes is told to call); the request (path, body); what the hook process
   did if one ran (exit status, response file, and the other files a hook hands back:
   Kubernetes operations, metrics, conversion response); the HTTP answer; which hook process
   ran and for which binding.  Only data types are shared with the model. *)
From Verif Require Import Common C14_Model.

(* a binding as the implementation registered it: C14_Model.reg = (hook, type, name, path) *)

(* two URL paths name the same resource when their non-empty segments agree *)
Fixpoint segs_aux (cur : bytes) (s : bytes) : list bytes :=
  match s with
  | [] => match cur with [] => [] | _ => [rev cur] end
  | c :: r => if N.eqb c 47 then match cur with [] => segs_aux [] r | _ => rev cur :: segs_aux [] r end
              else segs_aux (c :: cur) r
  end.
Definition segs (s : bytes) : list bytes := segs_aux [] s.
Definition same_path (p q : bytes) : bool := list_eqb bytes_eqb (segs p) (segs q).

Definition btype_eqb (a b : btype) : bool :=
  match a, b with Validating, Validating | Mutating, Mutating => true | _, _ => false end.

(* the bindings that registered the requested path *)
Definition registrars (regs : list reg) (path : bytes) : list reg :=
  filter (fun g => same_path (g_path g) path) regs.

Definition ran_is (who : ran) (g : reg) : bool :=
  match who with
  | Some (h, (t, n)) => N.eqb h (g_hook g) && btype_eqb t (g_type g) && bytes_eqb n (g_name g)
  | None => false
  end.

(* a valid response: the file is one JSON object of the documented shape and nothing else *)
Definition valid_response (f : rfile) : option (bool * N * list N * N) :=
  match f with
  | FResp a m w p false => Some (a, m, w, p)
  | _ => None
  end.

(* "hook failure ... or any internal error yields a denial": the run of a hook does not end
   with the exit of its process — shell-operator then has to process what the hook handed
   back.  The run completed without error when none of these outputs was refused: the
   Kubernetes operations could be parsed and the API server accepted every one of them, the
   metric operations could be parsed and were all valid, the conversion response (if any)
   could be decoded.  Otherwise the run failed inside shell-operator ("Hook failed"). *)
Definition run_completed (r : run) : bool :=
  match kpatch r with KUnparsable | KOps _ true => false | KEmpty | KOps _ false => true end
  && match metrics r with MUnparsable | MOps _ true => false | MEmpty | MOps _ false => true end
  && match conv r with CMalformed => false | CEmpty | COk => true end.

Definition allowed_of (a : answer) : bool :=
  match a with AReview r => a_allowed r | AStatus _ => false end.

(* "allowed=true only when the hook bound to the requested path ran, exited zero and wrote a
   valid response with allowed true; hook failure ... or any internal error yields a denial" *)
Definition fail_closed (regs : list reg) (path : bytes) (b : body) (r : run) (a : answer) (who : ran) : bool :=
  if allowed_of a then
    match b with BReview _ => true | _ => false end
    && existsb (ran_is who) (registrars regs path)
    && exit_zero r
    && match valid_response (file r) with Some (true, _, _, _) => true | _ => false end
    && run_completed r
  else true.

(* a body that is not an AdmissionReview with a request is refused by HTTP status, never
   answered with a review; a missing request is a 400 *)
Definition bad_body_refused (b : body) (a : answer) : bool :=
  match b, a with
  | BReview _, _ => true
  | BNoRequest, AStatus c => N.eqb c 400
  | _, AStatus c => negb (N.eqb c 200)
  | _, AReview _ => false
  end.

Definition uid_echo (b : body) (a : answer) : bool :=
  match b, a with
  | BReview uid, AReview r => N.eqb (a_uid r) uid
  | BReview _, AStatus _ => false                    (* a review with a request is answered with a review *)
  | _, _ => true
  end.

(* the verdict of the hook that registered the path is relayed (the verdict of a run that
   failed is not: that is a denial, see fail_closed) *)
Definition relay (regs : list reg) (path : bytes) (r : run) (a : answer) (who : ran) : bool :=
  match a, valid_response (file r) with
  | AReview rv, Some (al, m, w, p) =>
    if exit_zero r && run_completed r && existsb (ran_is who) (registrars regs path) then
      Bool.eqb (a_allowed rv) al
      && list_eqb N.eqb (a_warnings rv) w
      && (if al then true else if N.eqb m 0 then true
          else match a_msg rv with AMHook m' => N.eqb m' m | _ => false end)
      && (match who with
          | Some (_, (Mutating, _)) => N.eqb (a_patch rv) p && Bool.eqb (a_patchtype rv) (negb (N.eqb p 0))
          | _ => true
          end)
    else true
  | _, _ => true
  end.

(* patch type JSONPatch accompanies a patch, and only a patch *)
Definition patchtype_iff_patch (a : answer) : bool :=
  match a with AReview rv => Bool.eqb (a_patchtype rv) (negb (N.eqb (a_patch rv) 0)) | _ => true end.

(* "a request is handed to the hook and binding that registered that path": whoever runs is
   a registrar of the path; when exactly one binding registered it, it runs; nobody runs for
   a path nobody registered *)
Definition routed (regs : list reg) (path : bytes) (b : body) (who : ran) : bool :=
  match who with
  | Some _ => existsb (ran_is who) (registrars regs path) && match b with BReview _ => true | _ => false end
  | None => match b, registrars regs path with BReview _, [_] => false | _, _ => true end
  end.

Definition P (regs : list reg) (path : bytes) (b : body) (r : run) (a : answer) (who : ran) : bool :=
  fail_closed regs path b r a who && bad_body_refused b a && uid_echo b a
  && relay regs path r a who && patchtype_iff_patch a && routed regs path b who.
