(* C14_Properties.v — the property theorems of C14 and nothing else.

   The model (C14_Model.v) is the code after the repair F19 (a response object followed by
   other data is refused); the theorems are the full statement, for every set of hooks and
   bindings, every request path and body, every hook outcome.

   Hypothesis names_ok: binding names are non-empty and contain no '/', which the
   configuration loader guarantees for kubernetesValidating (RFC 1123 subdomains) and every
   generated case satisfies; with it the webhook id of a binding is one URL segment.
   model_regs hooks is the list of (hook, type, binding, registered path) — the
   correspondence checks on every case that the implementation registered exactly these. *)
From Verif Require Import Common C14_Model C14_Spec C14_Proofs.

Theorem C14_fail_closed : forall hooks path b r, names_ok hooks ->
  allowed_of (fst (admit_request hooks path b r)) = true ->
  (exists uid, b = BReview uid)
  /\ (exists g, In g (registrars (model_regs hooks) path) /\ ran_is (snd (admit_request hooks path b r)) g = true)
  /\ exit_zero r = true
  /\ exists m w p, file r = FResp true m w p false.
Proof. exact fail_closed_explicit. Qed.
Print Assumptions C14_fail_closed.

Theorem C14_bad_body_refused : forall hooks path b r,
  bad_body_refused b (fst (admit_request hooks path b r)) = true.
Proof. exact bad_body_refused_holds. Qed.
Print Assumptions C14_bad_body_refused.

Theorem C14_uid_echo : forall hooks path b r, uid_echo b (fst (admit_request hooks path b r)) = true.
Proof. exact uid_echo_holds. Qed.
Print Assumptions C14_uid_echo.

(* warnings, message on denial, and for a mutating binding patch and patchType *)
Theorem C14_relay : forall hooks path b r,
  relay (model_regs hooks) path r (fst (admit_request hooks path b r)) (snd (admit_request hooks path b r)) = true.
Proof. exact relay_holds. Qed.
Print Assumptions C14_relay.

Theorem C14_patchtype_iff_patch : forall hooks path b r,
  patchtype_iff_patch (fst (admit_request hooks path b r)) = true.
Proof. exact patchtype_iff_patch_holds. Qed.
Print Assumptions C14_patchtype_iff_patch.

(* whoever runs registered the path; a registered path makes somebody run; nobody runs for
   an unknown path *)
Theorem C14_routed_to_registrar : forall hooks path b r, names_ok hooks ->
  routed (model_regs hooks) path b (snd (admit_request hooks path b r)) = true.
Proof. exact routed_holds. Qed.
Print Assumptions C14_routed_to_registrar.

(* for binding sets with distinct webhook ids "the registrar" is unique *)
Theorem C14_unique_registrar : forall hooks path, names_ok hooks -> NoDup (all_ids hooks) ->
  length (registrars (model_regs hooks) path) <= 1.
Proof. exact unique_registrar. Qed.
Print Assumptions C14_unique_registrar.

(* the whole predicate of C14_Spec *)
Theorem C14_meets_spec : forall hooks path b r, names_ok hooks ->
  P (model_regs hooks) path b r (fst (admit_request hooks path b r)) (snd (admit_request hooks path b r)) = true.
Proof. exact P_holds. Qed.
Print Assumptions C14_meets_spec.

(* ---- non-vacuity ---- *)

(* hook 0: validating "p.c"; hook 1: mutating "Mu.c" and validating "q.c" *)
Definition ex_hooks : list hook :=
  [ mkHook [[112; 46; 99]] [] ; mkHook [[113; 46; 99]] [[77; 117; 46; 99]] ]%N.

Example C14_hyp_met : names_ok ex_hooks /\ NoDup (all_ids ex_hooks).
Proof.
  split.
  - intros h Hh. unfold ex_hooks in Hh. cbn [In] in Hh.
    destruct Hh as [<- | [<- | []]]; cbn [h_val h_mut]; split;
      repeat (constructor; try (split; [repeat constructor; discriminate | discriminate])).
  - vm_compute. repeat constructor; cbn; intuition discriminate.
Qed.

(* POST /hooks/-mu-c (the registered path of "Mu.c"): the mutating hook runs and its allow
   with warnings 1,2 and patch 5 is relayed; the same request with a hook that exits 1, or
   to "/hooks/nope", is denied *)
Example C14_examples :
  registered_path [77; 117; 46; 99]%N = [47; 104; 111; 111; 107; 115; 47; 45; 109; 117; 45; 99]%N
  /\ admit_request ex_hooks [47; 104; 111; 111; 107; 115; 47; 45; 109; 117; 45; 99]%N (BReview 7)
                   (mkRun true (FResp true 0 [1; 2] 5 false))%N
     = (AReview (mkReview 7 true 0 AMNone [1; 2] 5 true), Some (1, (Mutating, [77; 117; 46; 99])))%N
  /\ allowed_of (fst (admit_request ex_hooks [47; 104; 111; 111; 107; 115; 47; 45; 109; 117; 45; 99]%N (BReview 7)
                   (mkRun false (FResp true 0 [] 0 false))%N)) = false
  /\ allowed_of (fst (admit_request ex_hooks [47; 104; 111; 111; 107; 115; 47; 110; 111; 112; 101]%N (BReview 7)
                   (mkRun true (FResp true 0 [] 0 false))%N)) = false
  /\ allowed_of (fst (admit_request ex_hooks [47; 104; 111; 111; 107; 115; 47; 45; 109; 117; 45; 99]%N (BReview 7)
                   (mkRun true (FResp true 0 [] 0 true))%N)) = false.
Proof. repeat split; vm_compute; reflexivity. Qed.
