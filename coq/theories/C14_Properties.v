(* C14_Properties.v — the property theorems of C14 and nothing else.

   The model (C14_Model.v) is the code after the repair F19 (a response object followed by
   other data is refused); the theorems are the full statement, for every set of hooks and
   bindings, every request path and body, every hook outcome — the exit status and ALL the
   files a hook hands back: the admission response, and the Kubernetes operations, metrics and
   conversion response that shell-operator processes after the process has ended, each of
   which can fail the run (C14_Spec.run_completed).

   Hypothesis names_ok: binding names are non-empty and contain no '/', which the
   configuration loader guarantees for kubernetesValidating (RFC 1123 subdomains) and every
   generated case satisfies; with it the webhook id of a binding is one URL segment.
   model_regs hooks is the list of (hook, type, binding, registered path) — the
   correspondence checks on every case that the implementation registered exactly these.

   Requests that OVERLAP in time (admission hook runs do not go through the queues: every request
   is served in its own goroutine): the transition system of C14_ConcModel - statement-level steps
   of Hook.Run per request, one temp directory, file names made of hook, kind and a uuid drawn from
   an oracle that never repeats - run under ANY schedule of ANY number of requests; the C14_conc_*
   theorems say that every request is answered from what its own hook run wrote. *)
From Verif Require Import Common C14_Model C14_Spec C14_Proofs C14_ConcModel C14_ConcSpec C14_ConcProofs.
From Verif Require Import C14_CtxModel C14_CtxSpec C14_CtxProofs.

Theorem C14_fail_closed : forall hooks path b r, names_ok hooks ->
  allowed_of (fst (admit_request hooks path b r)) = true ->
  (exists uid, b = BReview uid)
  /\ (exists g, In g (registrars (model_regs hooks) path) /\ ran_is (snd (admit_request hooks path b r)) g = true)
  /\ exit_zero r = true
  /\ (exists m w p, file r = FResp true m w p false)
  /\ run_completed r = true.
Proof. exact fail_closed_explicit. Qed.
Print Assumptions C14_fail_closed.

(* the invariant between handleRunHook and the event handler: a HookRun task that failed has
   no "admissionResponse" prop (the response is saved after the last step that can fail) *)
Theorem C14_failed_run_has_no_response : forall r,
  t_fail (handle_run_hook r) = true -> t_prop (handle_run_hook r) = None.
Proof. exact failed_run_has_no_response. Qed.
Print Assumptions C14_failed_run_has_no_response.

(* hook failure or any internal error yields a denial: a non-zero exit, or a failure in any
   step after the exit (Kubernetes operations unparsable or rejected, metrics unparsable or
   invalid, conversion response undecodable), is answered 403 "Hook failed" under the request's
   UID, whatever the response file says *)
Theorem C14_failed_run_denied : forall hooks path uid r,
  exit_zero r = false \/ run_completed r = false ->
  snd (admit_request hooks path (BReview uid) r) <> None ->
  fst (admit_request hooks path (BReview uid) r) = AReview (mkReview uid false 403 AMHookFailed [] 0 false).
Proof. exact failed_run_denied. Qed.
Print Assumptions C14_failed_run_denied.

Theorem C14_failed_run_not_allowed : forall hooks path b r,
  exit_zero r = false \/ run_completed r = false ->
  allowed_of (fst (admit_request hooks path b r)) = false.
Proof. exact failed_run_not_allowed. Qed.
Print Assumptions C14_failed_run_not_allowed.

(* side effects of an exchange (marker operations): metrics are applied only by a run that went
   through entirely; Kubernetes operations only after exit 0, by a hook that ran *)
Theorem C14_effects_sound : forall hooks path b r,
  (snd (admit_effects hooks path b r) = true ->
     exit_zero r = true /\ run_completed r = true /\ (exists i, metrics r = MOps true i)
     /\ snd (admit_request hooks path b r) <> None)
  /\ (fst (admit_effects hooks path b r) = true ->
     exit_zero r = true /\ (exists j, kpatch r = KOps true j) /\ snd (admit_request hooks path b r) <> None).
Proof. exact effects_sound. Qed.
Print Assumptions C14_effects_sound.

(* Kubernetes operations are applied before the metrics are looked at: with accepted operations
   and an invalid metric batch the operations stay applied, no metric is, and the answer is a denial *)
Theorem C14_kube_operations_before_metrics : forall hooks path b r kk mk,
  snd (admit_request hooks path b r) <> None -> hook_run r <> None ->
  kpatch r = KOps kk false -> metrics r = MOps mk true ->
  admit_effects hooks path b r = (kk, false) /\ allowed_of (fst (admit_request hooks path b r)) = false.
Proof. exact kube_operations_before_metrics. Qed.
Print Assumptions C14_kube_operations_before_metrics.

Theorem C14_bad_body_refused : forall hooks path b r,
  bad_body_refused b (fst (admit_request hooks path b r)) = true.
Proof. exact bad_body_refused_holds. Qed.
Print Assumptions C14_bad_body_refused.

Theorem C14_uid_echo : forall hooks path b r, uid_echo b (fst (admit_request hooks path b r)) = true.
Proof. exact uid_echo_holds. Qed.
Print Assumptions C14_uid_echo.

(* warnings, message on denial, and for a mutating binding patch and patchType *)
Theorem C14_relay : forall hooks path b r,
  relay (model_regs hooks) path r (fst (admit_request hooks path b r)) (snd (admit_request hooks path b r)) = true.
Proof. exact relay_holds. Qed.
Print Assumptions C14_relay.

Theorem C14_patchtype_iff_patch : forall hooks path b r,
  patchtype_iff_patch (fst (admit_request hooks path b r)) = true.
Proof. exact patchtype_iff_patch_holds. Qed.
Print Assumptions C14_patchtype_iff_patch.

(* whoever runs registered the path; a registered path makes somebody run; nobody runs for
   an unknown path *)
Theorem C14_routed_to_registrar : forall hooks path b r, names_ok hooks ->
  routed (model_regs hooks) path b (snd (admit_request hooks path b r)) = true.
Proof. exact routed_holds. Qed.
Print Assumptions C14_routed_to_registrar.

(* for binding sets with distinct webhook ids "the registrar" is unique *)
Theorem C14_unique_registrar : forall hooks path, names_ok hooks -> NoDup (all_ids hooks) ->
  length (registrars (model_regs hooks) path) <= 1.
Proof. exact unique_registrar. Qed.
Print Assumptions C14_unique_registrar.

(* the whole predicate of C14_Spec *)
Theorem C14_meets_spec : forall hooks path b r, names_ok hooks ->
  P (model_regs hooks) path b r (fst (admit_request hooks path b r)) (snd (admit_request hooks path b r)) = true.
Proof. exact P_holds. Qed.
Print Assumptions C14_meets_spec.

(* ---- non-vacuity ---- *)

(* hook 0: validating "p.c"; hook 1: mutating "Mu.c" and validating "q.c" *)
Definition ex_hooks : list hook :=
  [ mkHook [[112; 46; 99]] [] ; mkHook [[113; 46; 99]] [[77; 117; 46; 99]] ]%N.

Example C14_hyp_met : names_ok ex_hooks /\ NoDup (all_ids ex_hooks).
Proof.
  split.
  - intros h Hh. unfold ex_hooks in Hh. cbn [In] in Hh.
    destruct Hh as [<- | [<- | []]]; cbn [h_val h_mut]; split;
      repeat (constructor; try (split; [repeat constructor; discriminate | discriminate])).
  - vm_compute. repeat constructor; cbn; intuition discriminate.
Qed.

(* POST /hooks/-mu-c (the registered path of "Mu.c"): the mutating hook runs and its allow
   with warnings 1,2 and patch 5 is relayed; the same request with a hook that exits 1, or
   to "/hooks/nope", is denied *)
Example C14_examples :
  registered_path [77; 117; 46; 99]%N = [47; 104; 111; 111; 107; 115; 47; 45; 109; 117; 45; 99]%N
  /\ admit_request ex_hooks [47; 104; 111; 111; 107; 115; 47; 45; 109; 117; 45; 99]%N (BReview 7)
                   (mkRun true (FResp true 0 [1; 2] 5 false) MEmpty CEmpty KEmpty)%N
     = (AReview (mkReview 7 true 0 AMNone [1; 2] 5 true), Some (1, (Mutating, [77; 117; 46; 99])))%N
  /\ allowed_of (fst (admit_request ex_hooks [47; 104; 111; 111; 107; 115; 47; 45; 109; 117; 45; 99]%N (BReview 7)
                   (mkRun false (FResp true 0 [] 0 false) MEmpty CEmpty KEmpty)%N)) = false
  /\ allowed_of (fst (admit_request ex_hooks [47; 104; 111; 111; 107; 115; 47; 110; 111; 112; 101]%N (BReview 7)
                   (mkRun true (FResp true 0 [] 0 false) MEmpty CEmpty KEmpty)%N)) = false
  /\ allowed_of (fst (admit_request ex_hooks [47; 104; 111; 111; 107; 115; 47; 45; 109; 117; 45; 99]%N (BReview 7)
                   (mkRun true (FResp true 0 [] 0 true) MEmpty CEmpty KEmpty)%N)) = false.
Proof. repeat split; vm_compute; reflexivity. Qed.

(* the same allowing hook whose run fails after its exit: rejected Kubernetes operation (the
   marker operation before it stays applied), invalid metrics after accepted operations,
   unparsable operations, undecodable conversion response — each is the denial "Hook failed";
   with accepted operations and valid metrics the allow is relayed and both are applied *)
Local Open Scope N_scope.
Definition ex_path : bytes := [47; 104; 111; 111; 107; 115; 47; 45; 109; 117; 45; 99]%N.
Definition ex_failed : answer * ran :=
  (AReview (mkReview 7 false 403 AMHookFailed [] 0 false), Some (1, (Mutating, [77; 117; 46; 99])))%N.

Example C14_failed_run_hyp_met :
  run_completed (mkRun true (FResp true 0 [] 0 false) MEmpty CEmpty (KOps true true)) = false
  /\ snd (admit_request ex_hooks ex_path (BReview 7) (mkRun true (FResp true 0 [] 0 false) MEmpty CEmpty (KOps true true))) <> None
  /\ hook_run (mkRun true (FResp true 0 [] 0 false) (MOps true true) CEmpty (KOps true false)) <> None.
Proof. repeat split; vm_compute; discriminate. Qed.

Example C14_post_exit_examples :
  admit_request ex_hooks ex_path (BReview 7) (mkRun true (FResp true 0 [1] 5 false) MEmpty CEmpty (KOps true true)) = ex_failed
  /\ admit_effects ex_hooks ex_path (BReview 7) (mkRun true (FResp true 0 [1] 5 false) MEmpty CEmpty (KOps true true)) = (true, false)
  /\ admit_request ex_hooks ex_path (BReview 7) (mkRun true (FResp true 0 [] 0 false) (MOps true true) CEmpty (KOps true false)) = ex_failed
  /\ admit_effects ex_hooks ex_path (BReview 7) (mkRun true (FResp true 0 [] 0 false) (MOps true true) CEmpty (KOps true false)) = (true, false)
  /\ admit_request ex_hooks ex_path (BReview 7) (mkRun true (FResp true 0 [] 0 false) (MOps true false) CEmpty KUnparsable) = ex_failed
  /\ admit_request ex_hooks ex_path (BReview 7) (mkRun true (FResp true 0 [] 0 false) MUnparsable CEmpty KEmpty) = ex_failed
  /\ admit_request ex_hooks ex_path (BReview 7) (mkRun true (FResp true 0 [] 0 false) MEmpty CMalformed (KOps true false)) = ex_failed
  /\ admit_effects ex_hooks ex_path (BReview 7) (mkRun true (FResp true 0 [] 0 false) MEmpty CMalformed (KOps true false)) = (false, false)
  /\ admit_request ex_hooks ex_path (BReview 7) (mkRun true (FResp true 0 [1] 5 false) (MOps true false) COk (KOps true false))
     = (AReview (mkReview 7 true 0 AMNone [1] 5 true), Some (1, (Mutating, [77; 117; 46; 99])))%N
  /\ admit_effects ex_hooks ex_path (BReview 7) (mkRun true (FResp true 0 [1] 5 false) (MOps true false) COk (KOps true false)) = (true, true).
Proof. repeat split; vm_compute; reflexivity. Qed.

(* ================================================================= requests that overlap in time *)
Local Open Scope N_scope.

(* any number of requests in flight, any interleaving of their steps: a request that has been
   answered got the answer (and its run had the side effects) that C14_Model gives for ITS OWN run -
   the one all theorems above are about; the other requests and the schedule do not occur in it *)
Theorem C14_conc_answer_own_run : forall hooks rs s e, e < N.of_nat (length rs) ->
  e_out (w_exec (conc_run hooks rs s) e) = None
  \/ e_out (w_exec (conc_run hooks rs s) e) = Some (seq_out hooks (nth_req rs e)).
Proof. exact out_own. Qed.
Print Assumptions C14_conc_answer_own_run.

(* two sessions (other requests beside it, another number of them), two interleavings: the same
   request gets the same answer *)
Theorem C14_conc_answer_function_of_request : forall hooks rs rs' s s' e o o',
  e < N.of_nat (length rs) -> e < N.of_nat (length rs') -> nth_req rs e = nth_req rs' e ->
  e_out (w_exec (conc_run hooks rs s) e) = Some o -> e_out (w_exec (conc_run hooks rs' s') e) = Some o' -> o = o'.
Proof. exact out_function_of_request. Qed.
Print Assumptions C14_conc_answer_function_of_request.

(* "a request is handed to the hook and binding that registered that path": the hook process started
   for a request has read the binding context of THAT request (its uid, the binding find_task names)
   and found its four output files empty *)
Theorem C14_conc_hook_sees_own_request : forall hooks rs s e, e < N.of_nat (length rs) ->
  let st := w_exec (conc_run hooks rs s) e in
  match e_pc st with
  | QWrite | QExit | QRead | QRemove | QAnswer =>
      e_seen st = Some (XCtx (uid_of (cq_body (nth_req rs e))) (e_link st)) /\ e_empty st = true
      /\ find_task hooks (fst (detect (cq_path (nth_req rs e)))) (snd (detect (cq_path (nth_req rs e)))) = Some (e_hook st, e_link st)
  | _ => True
  end.
Proof. exact hook_saw_own. Qed.
Print Assumptions C14_conc_hook_sees_own_request.

(* when Run reads the four files back, each holds what the hook process of the same request wrote *)
Theorem C14_conc_reads_own_outputs : forall hooks rs s e, e < N.of_nat (length rs) ->
  let st := w_exec (conc_run hooks rs s) e in
  let w := conc_run hooks rs s in
  e_pc st = QRead ->
  as_rfile (w_fs w (name_of st KAdm)) = file (cq_run (nth_req rs e))
  /\ as_mfile (w_fs w (name_of st KMet)) = metrics (cq_run (nth_req rs e))
  /\ as_cfile (w_fs w (name_of st KConv)) = conv (cq_run (nth_req rs e))
  /\ as_kfile (w_fs w (name_of st KPatch)) = kpatch (cq_run (nth_req rs e)).
Proof. exact reads_own_outputs. Qed.
Print Assumptions C14_conc_reads_own_outputs.

(* what this rests on: files held by different requests never have the same name - also when the
   requests are for the same hook and the same binding *)
Theorem C14_conc_names_distinct : forall hooks rs s e e' k k',
  e < N.of_nat (length rs) -> e' < N.of_nat (length rs) -> e <> e' ->
  let w := conc_run hooks rs s in
  holds (e_pc (w_exec w e)) k = true -> holds (e_pc (w_exec w e')) k' = true ->
  name_of (w_exec w e) k <> name_of (w_exec w e') k'.
Proof. exact names_distinct. Qed.
Print Assumptions C14_conc_names_distinct.

(* the moves by which the correspondence harness drives the held hook processes are schedules of the
   transition system ... *)
Theorem C14_conc_moves_are_schedules : forall hooks rs moves, exists s, moves_run hooks rs moves = conc_run hooks rs s.
Proof. exact moves_run_is_schedule. Qed.
Print Assumptions C14_conc_moves_are_schedules.

(* ... under which EVERY request is answered, each with the answer for its own run: the model side of
   the correspondence (C14_Corr.model_obs of a CConc case) in closed form *)
Theorem C14_conc_every_request_answered : forall hooks rs moves,
  outs rs (moves_run hooks rs moves) = map (fun q => Some (seq_out hooks q)) rs.
Proof. exact moves_run_outs. Qed.
Print Assumptions C14_conc_every_request_answered.

(* and these answers meet the predicate of C14_ConcSpec: every request judged by C14_Spec.P against
   its own run *)
Theorem C14_conc_meets_spec : forall hooks rs, names_ok hooks ->
  P_conc (model_regs hooks) (map (obs_of hooks) rs) = true.
Proof. exact conc_P_holds. Qed.
Print Assumptions C14_conc_meets_spec.

(* ---- non-vacuity ---- *)
(* two reviews for the SAME binding of the same hook ("p.c" of hook 0): run 0 denies with message 4
   and warning 2, run 1 allows.  Schedule: 0 starts and writes, 1 starts and writes, 0 ends, 1 ends.
   While both processes are held after writing, each request holds five files, all names differ;
   at the end 0 is denied with its message and 1 is allowed. *)
Definition ex_pc_path : bytes := [47; 104; 111; 111; 107; 115; 47; 112; 45; 99].     (* /hooks/p-c *)
Definition ex_conc : list creq :=
  [ mkCR ex_pc_path (BReview 1) (mkRun true (FResp false 4 [2] 0 false) MEmpty CEmpty KEmpty);
    mkCR ex_pc_path (BReview 2) (mkRun true (FResp true 0 [] 0 false) MEmpty CEmpty KEmpty) ].
Definition ex_held : world := fold_left (advance ex_hooks ex_conc 8) [0; 0; 1; 1] (init ex_conc).

Example C14_conc_hyp_met :
  0 < N.of_nat (length ex_conc) /\ 1 < N.of_nat (length ex_conc)
  /\ e_pc (w_exec ex_held 0) = QExit /\ e_pc (w_exec ex_held 1) = QExit
  /\ holds (e_pc (w_exec ex_held 0)) KAdm = true /\ holds (e_pc (w_exec ex_held 1)) KAdm = true
  /\ name_of (w_exec ex_held 0) KAdm = (0, KAdm, 2) /\ name_of (w_exec ex_held 1) KAdm = (0, KAdm, 7)
  /\ w_fs ex_held (0, KAdm, 2) = Some (XResp (FResp false 4 [2] 0 false))
  /\ w_fs ex_held (0, KAdm, 7) = Some (XResp (FResp true 0 [] 0 false)).
Proof. repeat split; vm_compute; reflexivity. Qed.

Example C14_conc_example :
  outs ex_conc (moves_run ex_hooks ex_conc [0; 0; 1; 1; 0; 1])
  = [ Some (AReview (mkReview 1 false 403 (AMHook 4) [2] 0 false), Some (0, (Validating, [112; 46; 99])), (false, false), true);
      Some (AReview (mkReview 2 true 0 AMNone [] 0 false), Some (0, (Validating, [112; 46; 99])), (false, false), true) ]
  /\ outs ex_conc (moves_run ex_hooks ex_conc [1; 0; 1; 0; 1; 0]) = outs ex_conc (moves_run ex_hooks ex_conc [0; 0; 1; 1; 0; 1]).
Proof. split; vm_compute; reflexivity. Qed.

(* ---- bindings with `group` / `includeSnapshotsFrom`, hooks with `kubernetes` bindings: what the hook
   of a request is shown (C14_CtxModel: HandleEvent, UpdateSnapshots, MapV1 statement by statement) ---- *)

(* MapV1 on an admission context: type Validating / Mutating and the review, no groupName - whatever the
   group, the included snapshots and the snapshot map of the context *)
Theorem C14_ctx_admission_context_never_group : forall t inc all g name snaps rv,
  map_v1 (mkBC (of_btype t) inc all g name snaps rv)
  = mkR name (rt_of t) (if C14_CtxModel.nonempty inc || all then Some snaps else None) None rv.
Proof. exact map_v1_admission. Qed.
Print Assumptions C14_ctx_admission_context_never_group.

(* "a request is handed to the hook and binding that registered that path": the hook that runs reads
   the request's uid in a context of the type and name of its link, for EVERY configuration *)
Theorem C14_ctx_request_handed : forall hooks path b r,
  handed b (c_who (ctx_request hooks path b r)) (c_shown (ctx_request hooks path b r)) = true.
Proof. exact handed_holds. Qed.
Print Assumptions C14_ctx_request_handed.

(* a hook that looks before it answers always finds its request: the exchange is the one of C14_Model on
   the scripted run - the relayed verdict is a verdict on this request *)
Theorem C14_ctx_verdict_about_request : forall hooks path b r,
  ctx_request hooks path b r
  = (admit_request (map strip hooks) path b r, admit_effects (map strip hooks) path b r, shown_of hooks path b).
Proof. exact ctx_request_eq. Qed.
Print Assumptions C14_ctx_verdict_about_request.

(* the parameters change nothing of what the hook is shown but the "snapshots" field *)
Theorem C14_ctx_parameters_only_bring_snapshots : forall hooks hooks' path b,
  map strip hooks = map strip hooks' ->
  option_map (fun x => (r_binding x, r_type x, r_group x, r_review x)) (shown_of hooks path b)
  = option_map (fun x => (r_binding x, r_type x, r_group x, r_review x)) (shown_of hooks' path b).
Proof. exact shown_modulo_snapshots. Qed.
Print Assumptions C14_ctx_parameters_only_bring_snapshots.

(* the snapshots shown are snapshots of `kubernetes` bindings of the hook that runs *)
Theorem C14_ctx_snapshots_sound : forall hooks path b r, includes_ok hooks ->
  snapshots_sound hooks (c_who (ctx_request hooks path b r)) (c_shown (ctx_request hooks path b r)) = true.
Proof. exact snapshots_sound_holds. Qed.
Print Assumptions C14_ctx_snapshots_sound.

(* the whole predicate of C14_CtxSpec (C14_Spec.P and the two clauses above) *)
Theorem C14_ctx_meets_spec : forall hooks path b r, names_ok (map strip hooks) -> includes_ok hooks ->
  P_ctx hooks (model_regs (map strip hooks)) path b r
        (c_ans (ctx_request hooks path b r)) (c_who (ctx_request hooks path b r)) (c_shown (ctx_request hooks path b r)) = true.
Proof. exact P_ctx_holds. Qed.
Print Assumptions C14_ctx_meets_spec.

(* non-vacuity.  One hook: kubernetes bindings 1 (group 7) and 2 (no group); validating "p.c" with group 7
   and includeSnapshotsFrom [2]; mutating "Mu.c" without parameters *)
Definition ex_phooks : list phook :=
  [ mkPHook [(1, Some 7); (2, None)] [mkPB [112; 46; 99] (Some 7) [2]] [mkPB [77; 117; 46; 99] None []] ]%N.

Example C14_ctx_hyp_met : names_ok (map strip ex_phooks) /\ includes_ok ex_phooks.
Proof.
  split.
  - intros h Hh. cbn in Hh. destruct Hh as [<- | []]. cbn [h_val h_mut]. split;
      repeat (constructor; try (split; [repeat constructor; discriminate | discriminate])).
  - intros cfg Hc. cbn in Hc. destruct Hc as [<- | []]. intros pb Hpb. cbn in Hpb.
    destruct Hpb as [<- | [<- | []]]; cbn; intros k Hk; intuition.
Qed.

(* POST /hooks/p-c uid 5: the hook is shown type Validating, the review with uid 5, snapshots {2, 1}
   (included by name, and brought in by the group) and no groupName; its allow is relayed.
   POST /hooks/-mu-c: type Mutating, no snapshots field *)
Example C14_ctx_examples :
  ctx_request ex_phooks [47; 104; 111; 111; 107; 115; 47; 112; 45; 99]%N (BReview 5)
              (mkRun true (FResp true 0 [] 0 false) MEmpty CEmpty KEmpty)
  = (AReview (mkReview 5 true 0 AMNone [] 0 false), Some (0, (Validating, [112; 46; 99])), (false, false),
     Some (mkR [112; 46; 99] RtValidating (Some [2; 1]) None (Some 5)))%N
  /\ c_shown (ctx_request ex_phooks [47; 104; 111; 111; 107; 115; 47; 45; 109; 117; 45; 99]%N (BReview 6)
              (mkRun true FEmpty MEmpty CEmpty KEmpty))
  = Some (mkR [77; 117; 46; 99] RtMutating None None (Some 6))%N.
Proof. split; vm_compute; reflexivity. Qed.

(* ================================================================= the SIZE of what the hook answers

   C14_SizeModel: message, every warning and the JSONPatch document as byte strings of ANY length and
   number (admission.Response as decoded from the response file), the log step of handleRunHook
   (Response.Dump() on the very object that becomes the task's prop) and handleReviewRequest copying
   from it.  The theorems quantify over all lists of warnings and all byte strings. *)
From Verif Require Import C14_SizeModel C14_SizeSpec C14_SizeProofs.

(* the log helper leaves the response object as it is *)
Theorem C14_size_dump_preserves : forall r, snd (dump_step r) = r.
Proof. exact dump_step_preserves. Qed.
Print Assumptions C14_size_dump_preserves.

(* when a hook ran, exited zero and wrote a valid response, the answer IS that response, field by
   field: identity on warnings (element for element, in order), patch bytes and the message of a denial *)
Theorem C14_size_relay_identity : forall hooks path uid r who,
  snd (size_review hooks path uid true (SResp r)) = Some who ->
  fst (size_review hooks path uid true (SResp r)) =
  mkSReview uid (s_allowed r) (if s_allowed r then 0 else 403)%N
            (if s_allowed r then SMClass AMNone else match s_msg r with [] => SMClass AMNone | m => SMText m end)
            (s_warnings r) (s_patch r) (nonempty (s_patch r)).
Proof. exact size_relay_identity. Qed.
Print Assumptions C14_size_relay_identity.

Theorem C14_size_answer_function_of_content : forall hooks path uid r who,
  snd (size_review hooks path uid true (SResp r)) = Some who ->
  sa_warnings (fst (size_review hooks path uid true (SResp r))) = s_warnings r
  /\ sa_patch (fst (size_review hooks path uid true (SResp r))) = s_patch r
  /\ sa_patchtype (fst (size_review hooks path uid true (SResp r))) = nonempty (s_patch r)
  /\ sa_allowed (fst (size_review hooks path uid true (SResp r))) = s_allowed r
  /\ (s_allowed r = false -> s_msg r <> [] -> sa_msg (fst (size_review hooks path uid true (SResp r))) = SMText (s_msg r))
  /\ st_log (size_task true (SResp r)) = Some (dump_text r).
Proof. exact size_answer_function_of_content. Qed.
Print Assumptions C14_size_answer_function_of_content.

(* C14_Model is this model with the content forgotten (every byte string seen as empty / non-empty):
   all theorems above hold of the sized answers too *)
Theorem C14_size_abstraction : forall hooks path uid ez f,
  (abs_review (fst (size_review hooks path uid ez f)), snd (size_review hooks path uid ez f))
  = admit_review hooks path uid (abs_run ez f).
Proof. exact abs_commutes. Qed.
Print Assumptions C14_size_abstraction.

Theorem C14_size_relay_full : forall hooks path uid ez f,
  relay_full (model_regs hooks) path ez f (SRev (fst (size_review hooks path uid ez f))) (snd (size_review hooks path uid ez f)) = true.
Proof. exact relay_full_holds. Qed.
Print Assumptions C14_size_relay_full.

(* the whole predicate of C14_SizeSpec: C14_Spec.P + full relay + nothing invented *)
Theorem C14_size_meets_spec : forall hooks path uid ez f, names_ok hooks ->
  P_size (model_regs hooks) path uid ez f (SRev (fst (size_review hooks path uid ez f))) (snd (size_review hooks path uid ez f)) = true.
Proof. exact P_size_holds. Qed.
Print Assumptions C14_size_meets_spec.

(* non-vacuity: the mutating hook "Mu.c" of ex_hooks (names_ok: C14_hyp_met) answers with 7 warnings
   (one empty, one of 300 bytes) and a patch of 1100 bytes: it ran, and all of it is relayed; the
   predicate is not trivially true: an answer whose 6th warning or whose 1022nd patch byte differs is refused *)
Definition ex_sresp : sresp :=
  mkSResp true [] [[119; 49]; []; repeat 120 300; [119; 52]; [119; 53]; [119; 54]; [119; 55]] (repeat 118 1100).
Example C14_size_examples :
  snd (size_review ex_hooks ex_path 7 true (SResp ex_sresp)) = Some (1, (Mutating, [77; 117; 46; 99]))
  /\ sa_warnings (fst (size_review ex_hooks ex_path 7 true (SResp ex_sresp))) = s_warnings ex_sresp
  /\ length (sa_patch (fst (size_review ex_hooks ex_path 7 true (SResp ex_sresp)))) = 1100%nat
  /\ P_size (model_regs ex_hooks) ex_path 7 true (SResp ex_sresp)
            (SRev (mkSReview 7 true 0 (SMClass AMNone)
                             [[119; 49]; []; repeat 120 300; [119; 52]; [119; 53]; [46; 46; 46]; [119; 55]] (repeat 118 1100) true))
            (Some (1, (Mutating, [77; 117; 46; 99]))) = false
  /\ P_size (model_regs ex_hooks) ex_path 7 true (SResp ex_sresp)
            (SRev (mkSReview 7 true 0 (SMClass AMNone) (s_warnings ex_sresp) (repeat 118 1021 ++ [46; 46; 46] ++ repeat 118 76) true))
            (Some (1, (Mutating, [77; 117; 46; 99]))) = false.
Proof. repeat split; vm_compute; reflexivity. Qed.
