(* C08_WinProofs.v — proofs about the saved-events window (eventCbEnabled / eventBuf):
   the model [run_w] against the unlocked run [run_d], and the specification's window clause
   [P_win] for the model's observations. *)
From Verif Require Import Common Json C08_Model C08_Spec C08_Proofs C08_MergeProofs.

(* the events a run fires, in order *)
Definition fired (rs : list (cache * option event)) : list event :=
  flat_map (fun r => opt_list (snd r)) rs.

(* a fired event as the specification speaks of it: type, object id, object *)
Definition ev_step (e : event) : step := (ev_type e, ev_id e, e_obj (ev_entry e)).

(* the steps of a locked informer, from the steps of the unlocked run *)
Fixpoint locked_steps (buf : list event) (rs : list (cache * option event)) : list (wstate * list event) :=
  match rs with
  | [] => []
  | (c', ev) :: r => (mkW c' false (buf ++ opt_list ev), []) :: locked_steps (buf ++ opt_list ev) r
  end.

Definition enabled_step (buf : list event) (r : cache * option event) : wstate * list event :=
  (mkW (fst r) true buf, opt_list (snd r)).

(* what the specification sees of one operation of the window model *)
Definition w_to_obs (r : wstate * list event) : obs :=
  mkObs (map ev_type (snd r)) (map (fun ie => (fst ie, e_obj (snd ie))) (w_cache (fst r))).

Lemma skipn_S_app A (a : list A) x b : skipn (S (length a)) (a ++ x :: b) = b.
Proof. induction a as [|y a IH]; [reflexivity|]. cbn [length app]. exact IH. Qed.

Section WithOracle.

  Variable jq : json -> list json * bool.

  Lemma fired_app a b : fired (a ++ b) = fired a ++ fired b.
  Proof. unfold fired. apply flat_map_app. Qed.

  Lemma run_d_app cfg h1 : forall c h2,
    run_d jq cfg c (h1 ++ h2) = run_d jq cfg c h1 ++ run_d jq cfg (final_cache_d jq cfg c h1) h2.
  Proof.
    induction h1 as [|[[t id] d] r IH]; intros c h2; [reflexivity|].
    cbn [app run_d]. unfold final_cache_d. cbn [fold_left].
    destruct (handle_d jq cfg c t id d) as [c' ev] eqn:E. cbn [fst app]. f_equal. apply IH.
  Qed.

  (* ---- the locked informer: nothing reaches the callback, the buffer grows by exactly the
     events the unlocked run fires, the cache moves as in the unlocked run ---- *)
  Lemma run_w_locked cfg h : forall c buf,
    run_w jq cfg (mkW c false buf) (map WDeliver h) = locked_steps buf (run_d jq cfg c h).
  Proof.
    induction h as [|[[t id] d] r IH]; intros c buf; [reflexivity|].
    cbn [map run_w step_w run_d]. unfold handle_w. cbn [w_cache w_enabled w_buf].
    destruct (handle_d jq cfg c t id d) as [c' [e|]]; cbn [locked_steps opt_list].
    - f_equal. apply IH.
    - rewrite app_nil_r. f_equal. apply IH.
  Qed.

  Lemma final_w_locked cfg h : forall c buf,
    final_w jq cfg (mkW c false buf) (map WDeliver h)
    = mkW (final_cache_d jq cfg c h) false (buf ++ fired (run_d jq cfg c h)).
  Proof.
    induction h as [|[[t id] d] r IH]; intros c buf.
    - cbn. rewrite app_nil_r. reflexivity.
    - unfold final_w, final_cache_d. cbn [map fold_left step_w run_d]. unfold handle_w.
      cbn [w_cache w_enabled w_buf].
      destruct (handle_d jq cfg c t id d) as [c' [e|]]; cbn [fst].
      + fold (final_w jq cfg (mkW c' false (buf ++ [e])) (map WDeliver r)). rewrite IH.
        unfold final_cache_d, fired. cbn [flat_map snd opt_list]. rewrite <- app_assoc. reflexivity.
      + fold (final_w jq cfg (mkW c' false buf) (map WDeliver r)). rewrite IH.
        unfold final_cache_d, fired. cbn [flat_map snd opt_list app]. reflexivity.
  Qed.

  (* ---- the unlocked informer: every fired event goes straight to the callback ---- *)
  Lemma run_w_enabled cfg h : forall c buf,
    run_w jq cfg (mkW c true buf) (map WDeliver h) = map (enabled_step buf) (run_d jq cfg c h).
  Proof.
    induction h as [|[[t id] d] r IH]; intros c buf; [reflexivity|].
    cbn [map run_w step_w run_d]. unfold handle_w. cbn [w_cache w_enabled w_buf].
    destruct (handle_d jq cfg c t id d) as [c' [e|]]; cbn [map]; unfold enabled_step at 1;
      cbn [fst snd opt_list]; f_equal; apply IH.
  Qed.

  Lemma run_w_app cfg ops1 : forall w ops2,
    run_w jq cfg w (ops1 ++ ops2) = run_w jq cfg w ops1 ++ run_w jq cfg (final_w jq cfg w ops1) ops2.
  Proof.
    induction ops1 as [|op r IH]; intros w ops2; [reflexivity|].
    cbn [app run_w]. unfold final_w. cbn [fold_left].
    destruct (step_w jq cfg w op) as [w' evs]. cbn [fst app]. f_equal. apply IH.
  Qed.

  (* ---- the window: deliveries [h1] while the events are saved, the unlock, deliveries [h2] ----
     for ALL histories: no delivery of the window hands anything to the callback, the unlock
     hands over exactly the events the deliveries of the window fire - one per passing delivery,
     in delivery order, nothing compared with older entries - and empties the buffer; afterwards
     the informer is the unlocked one *)
  Lemma window_run cfg c h1 h2 :
    run_w jq cfg (mkW c false []) (window_ops h1 h2)
    = locked_steps [] (run_d jq cfg c h1)
      ++ (mkW (final_cache_d jq cfg c h1) true [], fired (run_d jq cfg c h1))
         :: map (enabled_step []) (run_d jq cfg (final_cache_d jq cfg c h1) h2).
  Proof.
    unfold window_ops. rewrite run_w_app, run_w_locked, final_w_locked. cbn [app]. f_equal.
    cbn [run_w step_w]. unfold enable_w. cbn [w_enabled w_cache w_buf]. f_equal.
    apply run_w_enabled.
  Qed.

  Lemma locked_steps_silent rs : forall buf,
    Forall (fun r : wstate * list event => snd r = [] /\ w_enabled (fst r) = false) (locked_steps buf rs).
  Proof.
    induction rs as [|[c' ev] r IH]; intros buf; cbn [locked_steps]; constructor.
    - split; reflexivity.
    - apply IH.
  Qed.

  (* ---- for ALL sequences of deliveries and unlocks: nothing is lost, doubled or reordered:
     what the callback got so far followed by what is still saved is the sequence of events
     the deliveries fire ---- *)
  Definition w_wf (w : wstate) : Prop := w_enabled w = true -> w_buf w = [].

  Lemma step_w_wf cfg w op : w_wf w -> w_wf (fst (step_w jq cfg w op)).
  Proof.
    intros Hwf. destruct op as [[[t id] d]|]; cbn [step_w].
    - unfold handle_w. destruct (handle_d jq cfg (w_cache w) t id d) as [c' [e|]].
      + destruct (w_enabled w) eqn:En; cbn [fst]; unfold w_wf; cbn [w_enabled w_buf].
        * intros _. apply Hwf. exact En.
        * discriminate.
      + cbn [fst]. unfold w_wf. cbn [w_enabled w_buf]. exact Hwf.
    - unfold enable_w. destruct (w_enabled w) eqn:En; cbn [fst]; [exact Hwf|].
      unfold w_wf. cbn [w_buf]. reflexivity.
  Qed.

  Lemma conservation cfg ops : forall w, w_wf w ->
    flat_map snd (run_w jq cfg w ops) ++ w_buf (final_w jq cfg w ops)
    = w_buf w ++ fired (run_d jq cfg (w_cache w) (deliveries ops)).
  Proof.
    induction ops as [|op r IH]; intros w Hwf.
    - cbn. rewrite app_nil_r. reflexivity.
    - pose proof (step_w_wf cfg w op Hwf) as Hwf'.
      cbn [run_w]. unfold final_w. cbn [fold_left].
      destruct (step_w jq cfg w op) as [w' evs] eqn:Es. cbn [fst] in *.
      fold (final_w jq cfg w' r). cbn [flat_map snd]. rewrite <- app_assoc, (IH w' Hwf').
      destruct op as [[[t id] d]|]; cbn [step_w deliveries flat_map] in *.
      + cbn [app run_d]. unfold handle_w in Es.
        destruct (handle_d jq cfg (w_cache w) t id d) as [c' [e|]].
        * destruct (w_enabled w) eqn:En; inversion Es; subst w' evs; cbn [w_buf w_cache].
          -- rewrite (Hwf En). unfold fired. cbn [flat_map snd opt_list app]. reflexivity.
          -- unfold fired. cbn [flat_map snd opt_list app]. rewrite <- app_assoc. reflexivity.
        * inversion Es; subst w' evs. cbn [w_buf w_cache app]. unfold fired.
          cbn [flat_map snd opt_list app]. reflexivity.
      + cbn [app]. unfold enable_w in Es. destruct (w_enabled w) eqn:En; inversion Es; subst w' evs.
        * reflexivity.
        * cbn [w_buf w_cache app]. reflexivity.
  Qed.

  (* ---- the shape of a fired event: its type is the handler's, its object the delivered one ---- *)
  Lemma handle_event_shape cfg c t id o ev :
    snd (handle jq cfg c t id o) = Some ev -> ev_step ev = (t, id, o).
  Proof.
    unfold handle, apply_filter.
    assert (Hfire : forall e, e_obj e = o -> forall b : bool,
              (if b then None else if should_fire cfg t then Some (mkEvent t id e) else None) = Some ev ->
              ev_step ev = (t, id, o)).
    { intros e He b Hb. destruct b; [discriminate|]. destruct (should_fire cfg t); [|discriminate].
      inversion Hb. unfold ev_step. cbn [ev_type ev_id ev_entry]. rewrite He. reflexivity. }
    destruct (c_filter cfg).
    - destruct (jq o) as [outs err]. destruct err; [cbn; discriminate|].
      set (e := mkEntry o (glue outs) (Some (glue outs))).
      destruct t; cbn [snd]; intros H.
      + apply (Hfire e eq_refl _ H).
      + apply (Hfire e eq_refl _ H).
      + apply (Hfire e eq_refl false H).
    - set (e := mkEntry o o None).
      destruct t; cbn [snd]; intros H.
      + apply (Hfire e eq_refl _ H).
      + apply (Hfire e eq_refl _ H).
      + apply (Hfire e eq_refl false H).
  Qed.

  (* ---- the specification's side ---- *)
  Lemma P_from_app types filter h1 : forall k o1 h2 o2,
    length h1 = length o1 ->
    P_from jq types filter k (h1 ++ h2) (o1 ++ o2)
    = P_from jq types filter k h1 o1 && P_from jq types filter (k_after jq filter k h1) h2 o2.
  Proof.
    induction h1 as [|[[t id] o] r IH]; intros k o1 h2 o2 Hl.
    - destruct o1; [|discriminate]. reflexivity.
    - destruct o1 as [|ob o1]; [discriminate|]. cbn [app P_from]. unfold k_after. cbn [fold_left].
      fold (k_after jq filter (k_next jq filter k t id o) r).
      rewrite IH by (cbn in Hl; congruence). rewrite andb_assoc. reflexivity.
  Qed.

  (* a history judged right by P_from shows the right snapshots *)
  Lemma P_from_snaps types filter h : forall k obs_l,
    P_from jq types filter k h obs_l = true -> snaps_ok jq filter k h (map o_snapshot obs_l) = true.
  Proof.
    induction h as [|[[t id] o] r IH]; intros k obs_l H.
    - destruct obs_l; [reflexivity|discriminate].
    - destruct obs_l as [|ob obs']; [discriminate|]. cbn [P_from] in H.
      apply andb_prop in H. destruct H as [Hs Hr]. unfold step_ok in Hs.
      apply andb_prop in Hs. destruct Hs as [_ Hsn].
      cbn [map snaps_ok]. rewrite Hsn. cbn [andb]. apply IH. exact Hr.
  Qed.

  (* a history of the model judged right by P_from fires exactly the passing changes *)
  Lemma P_from_triggers types filter cfg h : forall c k,
    P_from jq types filter k (map change_of h) (map to_obs (run_d jq cfg c h)) = true ->
    map ev_step (fired (run_d jq cfg c h)) = triggers_of jq types filter k (map change_of h).
  Proof.
    induction h as [|[[t id] d] r IH]; intros c k H; [reflexivity|].
    cbn [map change_of run_d] in *. unfold handle_d in *.
    destruct (handle jq cfg c t id (unwrap d)) as [c' ev] eqn:Eh.
    cbn [map P_from triggers_of] in *. apply andb_prop in H. destruct H as [Hs Hr].
    unfold fired. cbn [flat_map snd]. fold (fired (run_d jq cfg c' r)).
    rewrite map_app, (IH c' _ Hr). f_equal.
    unfold step_ok in Hs. apply andb_prop in Hs. destruct Hs as [Hf _].
    unfold to_obs in Hf. cbn [o_fired snd] in Hf.
    destruct ev as [e|]; cbn [opt_list map].
    - assert (Hsh : ev_step e = (t, id, unwrap d)).
      { apply (handle_event_shape cfg c). rewrite Eh. reflexivity. }
      rewrite Hsh.
      destruct (expected_fire jq types filter k t id (unwrap d)); [reflexivity|].
      cbn in Hf. discriminate.
    - destruct (expected_fire jq types filter k t id (unwrap d)); [|reflexivity].
      cbn in Hf. discriminate.
  Qed.

  Lemma step_eqb_refl s : step_eqb s s = true.
  Proof.
    destruct s as [[t id] o]. unfold step_eqb, pair_eqb. cbn [fst snd].
    rewrite N.eqb_refl, json_eqb_refl. destruct t; reflexivity.
  Qed.

  Lemma locked_obs rs : forall buf,
    map w_to_obs (locked_steps buf rs)
    = map (fun r => mkObs [] (o_snapshot (to_obs r))) rs.
  Proof.
    induction rs as [|[c' ev] r IH]; intros buf; [reflexivity|].
    cbn [locked_steps map]. f_equal. apply IH.
  Qed.

  Lemma locked_obs_snaps rs buf :
    map o_snapshot (map w_to_obs (locked_steps buf rs)) = map o_snapshot (map to_obs rs).
  Proof. rewrite locked_obs, !map_map. reflexivity. Qed.

  Lemma locked_obs_recv rs : forall buf (h : list step),
    recv_of h (map w_to_obs (locked_steps buf rs)) = [].
  Proof.
    induction rs as [|[c' ev] r IH]; intros buf h; destruct h as [|[[t id] o] h']; try reflexivity.
    cbn [locked_steps map recv_of]. unfold w_to_obs at 1. cbn [snd map o_fired app]. apply IH.
  Qed.

  Lemma enabled_obs rs : map w_to_obs (map (enabled_step []) rs) = map to_obs rs.
  Proof.
    rewrite map_map. apply map_ext. intros [c' [e|]]; reflexivity.
  Qed.

  Lemma final_cache_d_app cfg c h1 h2 :
    final_cache_d jq cfg c (h1 ++ h2) = final_cache_d jq cfg (final_cache_d jq cfg c h1) h2.
  Proof. unfold final_cache_d. apply fold_left_app. Qed.

  (* from the property of the unlocked run to the window clause, for any split of the history *)
  Lemma P_win_of_P_from types filter cfg c k h1 h2 :
    P_from jq types filter k (map change_of (h1 ++ h2)) (map to_obs (run_d jq cfg c (h1 ++ h2))) = true ->
    P_win jq types filter k
          (map change_of h1) (map w_to_obs (locked_steps [] (run_d jq cfg c h1)))
          (map ev_step (fired (run_d jq cfg c h1)))
          (map change_of h2) (map to_obs (run_d jq cfg (final_cache_d jq cfg c h1) h2)) = true.
  Proof.
    intros H. rewrite run_d_app, !map_app in H.
    rewrite P_from_app in H.
    2:{ rewrite !map_length. clear. revert c. induction h1 as [|[[t id] d] r IH]; intros c; [reflexivity|].
        cbn [run_d length]. destruct (handle_d jq cfg c t id d) as [c' ev]. cbn [length]. f_equal. apply IH. }
    apply andb_prop in H. destruct H as [H1 H2].
    unfold P_win. rewrite locked_obs_snaps, (P_from_snaps _ _ _ _ _ H1).
    rewrite locked_obs_recv. cbn [app]. rewrite (P_from_triggers _ _ _ _ _ _ H1).
    rewrite (list_eqb_refl step_eqb step_eqb_refl). rewrite H2. reflexivity.
  Qed.

  (* ---- the window clause for the model: every declared binding, every set of existing
     objects, every pair of histories (in the window, after it), outside the findings ---- *)
  Lemma window_partial d filter listed (h1 h2 : list dstep) :
    T_F8m jq filter (listed_steps listed ++ map change_of (h1 ++ h2)) = false ->
    T_F16 jq filter (listed_steps listed ++ map change_of (h1 ++ h2)) = false ->
    exists c0, load_existed jq (mkConfig (effective_types d) filter) listed [] = Some c0 /\
      let cfg := mkConfig (effective_types d) filter in
      let rs := run_w jq cfg (mkW c0 false []) (window_ops h1 h2) in
      let n := length h1 in
      P_win_decl jq d filter listed
                 (map change_of h1) (map w_to_obs (firstn n rs))
                 (map ev_step (snd (nth n rs (mkW [] true [], []))))
                 (map change_of h2) (map w_to_obs (skipn (S n) rs)) = true.
  Proof.
    intros H8 H16.
    destruct (partial_merge_declared jq d filter listed (h1 ++ h2) H8 H16) as (c0 & Hl & HP).
    exists c0. split; [exact Hl|]. cbv zeta.
    set (cfg := mkConfig (effective_types d) filter) in *.
    rewrite window_run.
    assert (Hlen : length (locked_steps [] (run_d jq cfg c0 h1)) = length h1).
    { generalize (@nil event). generalize c0. clear.
      induction h1 as [|[[t id] dd] r IH]; intros c buf; [reflexivity|].
      cbn [run_d]. destruct (handle_d jq cfg c t id dd) as [c' ev]. cbn [locked_steps length]. f_equal. apply IH. }
    rewrite <- Hlen at 1. rewrite firstn_app, Nat.sub_diag, firstn_all. cbn [firstn]. rewrite app_nil_r.
    rewrite <- Hlen at 1. rewrite app_nth2 by lia. rewrite Nat.sub_diag. cbn [nth snd].
    rewrite <- Hlen at 1. rewrite skipn_S_app.
    rewrite enabled_obs.
    unfold P_decl in HP. apply andb_prop in HP. destruct HP as [HP Hol].
    unfold P_start in HP. unfold P_win_decl.
    rewrite (P_win_of_P_from _ _ _ _ _ _ _ HP). cbn [andb].
    (* only_listed: over the observations and over the flushed events *)
    unfold only_listed in *. destruct (d_exec d) as [l|] eqn:Hd; [|reflexivity].
    pose proof (declared_only_listed jq d filter l c0 (h1 ++ h2) Hd) as HF. fold cfg in HF.
    rewrite run_d_app in HF. apply Forall_app in HF. destruct HF as [HF1 HF2].
    apply andb_true_intro. split.
    - rewrite forallb_app. apply andb_true_intro. split.
      + rewrite locked_obs. rewrite forallb_forall. intros ob Hin. apply in_map_iff in Hin.
        destruct Hin as (r & Hr & _). subst ob. reflexivity.
      + rewrite run_d_app, map_app, forallb_app in Hol. apply andb_prop in Hol. exact (proj2 Hol).
    - rewrite forallb_forall. intros s Hs. apply in_map_iff in Hs. destruct Hs as (e & He & Hin).
      subst s. unfold ev_step. cbn [fst]. apply listed_In.
      unfold fired in Hin. apply in_flat_map in Hin. destruct Hin as (r & Hr & Her).
      rewrite Forall_forall in HF1. apply (HF1 r Hr e).
      destruct (snd r); cbn [opt_list] in Her; [|contradiction]. destruct Her as [->|[]]. reflexivity.
  Qed.

End WithOracle.
