(* C19_Spec.v — the property C19 as a decidable predicate over what a run of a hook
   script shows: which handler functions were invoked, in which order, with which
   context selected, the exit status and whether the configuration was printed.

   Written from the property text: "for every binding context in order, exactly one
   handler function is invoked with that context selected as current - the first one
   defined among the documented names from most to least specific for the context's
   type, binding and event, falling back to __main__.  The run stops with a non-zero
   status at the first context whose handler fails or for which no candidate is
   defined, and succeeds otherwise.  hook::run --config prints the configuration."

   The "documented names" are given per KIND of context, the kind being what the
   operator put into the context (pkg/hook/binding_context MapV1): an onStartup
   context is {"binding": ...} without a type; every other kind carries its type.
   This file never mentions the model's table or loop; it shares with C19_Model only
   the vocabulary (ctx, entry, obs, byte strings, and the syntax [cmd] of handler bodies).

   "whose handler fails", for a hook that loads the library "(strict mode)": the last
   part of this file says when a handler written as a sequence of commands fails in
   strict mode ([strict_status]); it never mentions the model's interpreter
   (run_cmd / exec_from). *)
From Coq Require Import String.
From Verif Require Import Common C19_Model.

Inductive event := Added | Modified | Deleted.

Inductive kind :=
| KStartup
| KSchedule
| KSynchronization
| KEvent (e : event)
| KGroup (g : bytes)
| KValidating
| KMutating
| KConversion (from to : bytes)
| KOther.                          (* no documented specific handler: only __main__ *)

(* the kind of a context, read off the operator's JSON rendering *)
Definition kind_of (c : ctx) : kind :=
  match c_type c with
  | None => if is "onStartup" (cur_binding c) then KStartup else KOther
  | Some t =>
    if is "Schedule" t then KSchedule
    else if is "Synchronization" t then KSynchronization
    else if is "Event" t then
      match c_event c with
      | Some e => if is "Added" e then KEvent Added
                  else if is "Modified" e then KEvent Modified
                  else if is "Deleted" e then KEvent Deleted
                  else KOther
      | None => KOther
      end
    else if is "Group" t then match c_group c with Some g => KGroup g | None => KOther end
    else if is "Validating" t then KValidating
    else if is "Mutating" t then KMutating
    else if is "Conversion" t then
      match c_from c, c_to c with Some f, Some t' => KConversion f t' | _, _ => KOther end
    else KOther
  end.

(* contexts the operator can produce: a binding name is always present; Group carries
   its groupName; Conversion carries both versions *)
Definition wf_ctx (c : ctx) : bool :=
  match c_binding c with None => false | Some _ => true end &&
  match c_type c with
  | None => true
  | Some t =>
    if is "Group" t then match c_group c with Some _ => true | None => false end
    else if is "Conversion" t then
      match c_from c, c_to c with Some _, Some _ => true | _, _ => false end
    else true
  end.

Definition kube (b : bytes) : name := B "__on_kubernetes::" ++ b.

(* a version "group/v1" appears in handler names as "group.v1" *)
Definition dotted (v : bytes) : bytes := sub_slash v.

(* the documented specific handler names of a context, most specific first *)
Definition doc_specific (c : ctx) : list name :=
  let b := cur_binding c in
  match kind_of c with
  | KStartup => [B "__on_startup"]
  | KSchedule => [B "__on_schedule::" ++ b]
  | KSynchronization => [kube b ++ B "::synchronization"; kube b]
  | KEvent Added => [kube b ++ B "::added"; kube b ++ B "::added_or_modified"; kube b]
  | KEvent Modified => [kube b ++ B "::modified"; kube b ++ B "::added_or_modified"; kube b]
  | KEvent Deleted => [kube b ++ B "::deleted"; kube b]
  | KGroup g => [B "__on_group::" ++ g]
  | KValidating => [B "__on_validating::" ++ b]
  | KMutating => [B "__on_mutating::" ++ b]
  | KConversion f t =>
      [B "__on_conversion::" ++ b ++ B "::" ++ dotted f ++ B "::" ++ dotted t;
       B "__on_conversion::" ++ b]
  | KOther => []
  end.

(* ... then the fallback *)
Definition doc_candidates (c : ctx) : list name := doc_specific c ++ [main_name].

(* the handler that must serve a context: the first defined one among the documented names *)
Definition chosen (defined : list name) (c : ctx) : option name :=
  first_defined defined (doc_candidates c).

Definition entry_eqb (a b : entry) : bool :=
  bytes_eqb (fst (fst a)) (fst (fst b)) && N.eqb (snd (fst a)) (snd (fst b)) && bytes_eqb (snd a) (snd b).

Definition is_nil {A} (l : list A) : bool := match l with [] => true | _ => false end.

(* the observed trace [tr] and status [st] are what the property allows for the
   contexts [cs], numbered from [i] *)
Fixpoint follows (defined : list name) (results : name -> N -> N) (i : N) (cs : list ctx)
         (tr : trace) (st : N) : bool :=
  match cs with
  | [] => is_nil tr && N.eqb st 0
  | c :: r =>
    match chosen defined c with
    | None => is_nil tr && negb (N.eqb st 0)
    | Some h =>
      match tr with
      | [] => false
      | e :: tr' =>
        entry_eqb e (h, i, cur_binding c) &&
        (if N.eqb (results h i) 0 then follows defined results (N.succ i) r tr' st
         else is_nil tr' && negb (N.eqb st 0))
      end
    end
  end.

Record input := mkInput {
  i_args    : list bytes;
  i_defined : list name;
  i_results : name -> N -> N;
  i_ctxs    : list ctx
}.

Definition P (i : input) (o : obs) : bool :=
  if is_config (i_args i) then
    (* --config: nothing but the configuration handler ever runs; if it is defined and
       succeeds, the configuration is printed and the run succeeds *)
    forallb (fun e => bytes_eqb (fst (fst e)) config_name) (o_trace o) &&
    (if mem config_name (i_defined i) && N.eqb (i_results i config_name 0%N) 0
     then negb (is_nil (o_trace o)) && o_printed o && N.eqb (o_status o) 0
     else true)
  else follows (i_defined i) (i_results i) 0%N (i_ctxs i) (o_trace o) (o_status o).

(* the property speaks about contexts the operator produces *)
Definition in_domain (i : input) : bool := forallb wf_ctx (i_ctxs i).

(* Trigger of the candidate finding "reserved binding name": a context that HAS a type
   (schedule, kubernetes, ...) whose binding the user named "onStartup". *)
Definition reserved (c : ctx) : bool :=
  is "onStartup" (cur_binding c) && match c_type c with Some _ => true | None => false end.
Definition T (i : input) : bool := negb (is_config (i_args i)) && existsb reserved (i_ctxs i).

(* ====================================================================================
   "the first context whose handler fails" when the handler is a sequence of commands
   run in strict mode (set -e -u -o pipefail, inherit_errexit), after bash(1):

   -e  "Exit immediately if a pipeline (which may consist of a single simple command), a
        list, or a compound command returns a non-zero status.  The shell does not exit
        if the command that fails is part of the command list immediately following a
        while or until keyword, part of the test following the if or elif reserved
        words, part of any command executed in a && or || list except the command
        following the final && or ||, any command in a pipeline but the last, or if the
        command's return value is being inverted with !."
   -o pipefail  "the return value of a pipeline is the value of the last (rightmost)
        command to exit with a non-zero status, or zero if all commands exit successfully"
   -u  "Treat unset variables ... as an error ... a non-interactive shell will exit."
   inherit_errexit  "command substitution inherits the value of the errexit option"
   functions: "the return status is the exit status of the last command executed in the body". *)

Definition nonzero (s : N) : bool := negb (N.eqb s 0).

(* the status of the first failing one of a series of commands, 0 when none fails *)
Definition first_failure (sts : list N) : N :=
  match find nonzero sts with Some s => s | None => 0%N end.

(* the status a command leaves *)
Definition leaves (c : cmd) : N :=
  match c with
  | Plain st => st
  | Pipe sts => first_failure (rev sts)          (* pipefail: the rightmost failing component *)
  | OrTrue _ => 0%N
  | AndTrue st => st
  | IfCond _ => 0%N
  | Not st => if N.eqb st 0 then 1%N else 0%N
  | Return st => st
  | Exit st => st
  | Unset => 1%N
  | Group sts => first_failure sts               (* errexit inside the subshell               *)
  | Call sts => first_failure sts                (* ... inside the called function            *)
  | Subst sts => first_failure sts               (* ... inside the substitution (inherit_errexit) *)
  | LocalSubst _ => 0%N                          (* the status of `local`                     *)
  end.

(* strict mode ends the handler at this command *)
Definition ends (c : cmd) : bool :=
  match c with
  | Return _ | Exit _ => true
  | Unset => true                                                    (* -u *)
  | Plain _ | Pipe _ | Group _ | Call _ | Subst _ => nonzero (leaves c)   (* -e *)
  | OrTrue _ | AndTrue _ | IfCond _ | Not _ | LocalSubst _ => false  (* the exempt positions *)
  end.

(* the status of a handler: that of the first command that ends it; if none does, that
   of its last command (0 for an empty body) *)
Definition strict_status (b : body) : N :=
  match find ends b with
  | Some c => leaves c
  | None => last (map leaves b) 0%N
  end.

(* an input whose handlers are given by their bodies: [ib_bodies h i] is what handler h
   executes when context number i is current *)
Record inputB := mkInputB {
  ib_args    : list bytes;
  ib_defined : list name;
  ib_bodies  : name -> N -> body;
  ib_ctxs    : list ctx
}.

(* a handler fails iff its strict-mode status is not 0 *)
Definition results_of_bodies (bodies : name -> N -> body) : name -> N -> N :=
  fun h i => strict_status (bodies h i).

Definition to_input (i : inputB) : input :=
  mkInput (ib_args i) (ib_defined i) (results_of_bodies (ib_bodies i)) (ib_ctxs i).

(* the property for handlers given by their bodies: P with "fails" read in strict mode *)
Definition PB (i : inputB) (o : obs) : bool := P (to_input i) o.

(* ====================================================================================
   "`hook::run --config` prints the configuration" as a statement about bytes.

   The configuration of a hook is what its `__config__` writes ([ic_text]: any byte string -
   YAML that begins with `---`, JSON with escaped quotes and backslashes inside a jqFilter, `%`, no final
   newline, ...): the operator parses the stdout of `hook --config`, so "prints the
   configuration" means that this stdout IS that byte string - not a rendering, an
   expansion or a normalisation of it.  `__config__` decides about success: when it fails
   there is no configuration to print and the run must not report success (what is on
   stdout then is not constrained). *)
Record inputC := mkInputC {
  ic_in   : inputB;
  ic_text : bytes          (* what __config__ writes to its stdout *)
}.

Definition config_clause (i : inputC) (o : obsC) : bool :=
  if is_config (ib_args (ic_in i)) && mem config_name (ib_defined (ic_in i)) then
    if N.eqb (strict_status (ib_bodies (ic_in i) config_name 0%N)) 0
    then bytes_eqb (oc_stdout o) (ic_text i)                       (* printed verbatim *)
    else nonzero (o_status (ob_obs (oc_run o)))                    (* its failure is the run's *)
  else true.

Definition PC (i : inputC) (o : obsC) : bool :=
  PB (ic_in i) (ob_obs (oc_run o)) && config_clause i o.
