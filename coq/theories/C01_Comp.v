(* C01_Comp.v — a SECOND binding beside the namespace.labelSelector binding of C01_Hist: a binding
   of the same kind that names its namespaces statically (namespace.nameSelector.matchNames),
   typically of another hook.  Both bindings live in one operator: their monitors are created in
   the same process, on the same cluster, and - when kind, namespace, name and label selectors
   coincide - their resource informers of a namespace share ONE client-go shared informer of
   the process-wide factory store (factory.go, FactoryIndex).  The property is stated per
   binding: what one binding's namespaces do (stop matching, match again: its informers are
   cancelled and created) must not be visible in the other binding's Events.

   monitor.go CreateInformers: for a static namespace list the informers go to
   ResourceInformers, one per (namespace, name) through the same CreateInformersForNamespace
   the namespace callback uses, they are started by Start and never cancelled while the monitor
   lives.  That is the informer set of C02_Model section 3 over a VIRTUAL namespace list in
   which exactly the named namespaces carry the label and nothing ever changes: [create_mon],
   [start_mon] (its add_ns calls find every namespace there already), and from then on only
   [deliver].  So the companion's events are, by definition here, those of the history model
   run on the object operations of the history alone.  (A static list that names a namespace
   twice would get two informers for it; the generator never repeats one, and the virtual list
   has one entry per name.)  No proofs here. *)
From Verif Require Import Common C01_Model C02_Model C01_Hist.
Open Scope N_scope.

Record comp_in := mkCompIn {
  k_nss : list N;               (* namespace.nameSelector.matchNames *)
  k_names : list N;             (* nameSelector.matchNames ([] = any name) *)
  k_types : list wkind;         (* executeHookOnEvent *)
  k_filter : bool               (* jqFilter *)
}.

Definition is_obj_op (op : hop) : bool := match op with HSet _ | HDel _ _ => true | _ => false end.
Definition virt (S : list N) : list (N * bool) := map (fun n => (n, true)) S.

(* the companion seen as a history input: its own options, the same objects, its static
   namespaces, and of the history the object operations only *)
Definition comp_as_hist (i : hist_in) (k : comp_in) : hist_in :=
  mkHistIn (k_names k) (k_types k) (k_filter k) (h_initial i) (virt (k_nss k)) (filter is_obj_op (h_ops i)).

(* the events handed to the companion's hook after its unlock *)
Definition comp_out (i : hist_in) (k : comp_in) : list hevent := hist_out (comp_as_hist i k).
