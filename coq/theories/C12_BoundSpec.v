(* C12_BoundSpec.v - "after a zero exit the output files are parsed and applied and a malformed output fails
   the execution", for files of the shape  first document ++ tail.  Written from the property text and the
   documentation of the files, for the text as a byte string - the length of the first document does not occur:

   * admission / validating response, conversion response: the file holds ONE response object.  With a
     well-formed first document the file is well formed iff the tail is white space only; any other tail (a
     second verdict appended with >>, a lone closing brace, a word) makes it malformed: the execution fails.
   * metrics, object patch: the file holds a SEQUENCE of documents.  With a well-formed first document the
     file is well formed iff the tail is a well-formed sequence (white space only: the empty one).
     For the patch file the text side decides white space (fine), a tail that begins with a stray } ] , :
     (malformed in JSON and in YAML) and a tail of further well-formed operations (fine); other tails are left
     to the comparison with the model.

   The verdict on the FIRST document is C12_Spec's (documented members and shapes); for the patch file the one
   documented operation the harness writes. *)
From Verif Require Import Common Json JsonText C12_Model C12_Spec C12_BoundModel.
Open Scope N_scope.

(* the documented shape of the operation the harness writes: "operation: CreateOrUpdate, object: <manifest>" *)
Definition patch_documented (j : json) : bool :=
  match j with
  | JObj m =>
      match m with
      | [(k1, v1); (k2, v2)] =>
          ((bytes_eqb k1 k_operation && bytes_eqb k2 k_object
            && match v1 with JStr s => bytes_eqb s s_CreateOrUpdate | _ => false end && is_obj v2)
           || (bytes_eqb k2 k_operation && bytes_eqb k1 k_object
               && match v2 with JStr s => bytes_eqb s s_CreateOrUpdate | _ => false end && is_obj v1))
      | _ => false
      end
  | _ => false
  end.

Definition stray_byte (c : N) : bool := (c =? 125) || (c =? 93) || (c =? 44) || (c =? 58).   (* } ] , : *)

(* exactly one document, and it is a well-formed output of its file *)
Definition first_wf (b : binput) : verdict :=
  match parse_single (b_first b) with
  | None => Some false
  | Some d =>
      if bi_file b =? file_metrics then doc_verdict metric_doc metric_rules d
      else if bi_file b =? file_admission then doc_verdict admission_doc no_rules d
      else if bi_file b =? file_conversion then doc_verdict conversion_doc no_rules d
      else if bi_file b =? file_patch then (if patch_documented d then Some true else None)
      else None
  end.

(* is the tail an acceptable continuation of the file? *)
Definition tail_verdict (b : binput) : verdict :=
  let t := b_tail b in
  if bi_file b =? file_metrics then v_metrics (FText t)
  else if (bi_file b =? file_admission) || (bi_file b =? file_conversion) then Some (all_ws t)
  else if bi_file b =? file_patch then
    (if all_ws t then Some true
     else match skip_ws t with
          | c :: _ => if stray_byte c then Some false
                      else match parse_stream t with
                           | Some docs => if forallb patch_documented docs then Some true else None
                           | None => None
                           end
          | [] => None
          end)
  else None.

(* observation: status 0 success, 1 fail, 2 none (C12_Spec.observation) *)
Definition P_bound (b : binput) (o : observation) : bool :=
  if ob_started o && Z.eqb (bi_exit b) 0
  then match first_wf b, tail_verdict b with
       | Some true, Some v => Bool.eqb (N.eqb (ob_status o) 0) v
       | _, _ => true
       end
  else true.
