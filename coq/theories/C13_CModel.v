(* C13_CModel.v — the patch-file path of C13_Model.v with ANOTHER WRITER on the cluster.

   The environment (an oracle, played in the correspondence by a layer in front of the fake
   cluster): an API server that keeps a resourceVersion per object, changes it on every
   write, refuses an Update whose resourceVersion is not the stored one (409 Conflict), and
   another writer that gets in right before the server handles a MUTATING request (create,
   update, patch, delete) of the operator - that is, for a read-modify-write, between the
   operator's Get and its Update.  Every operation of the stream comes with the queue of
   writes the other writer has ready for the operation's object: each mutating request of
   the operation lets the head of the queue happen first.

   The code (patch.go), statement by statement: executeFilterOperation (JQPatch) is
   retry.RetryOnConflict(retry.DefaultBackoff, func { Get; filter; DeepEqual -> return;
   Update }) - the Get is INSIDE the retried function; CreateOrUpdate is Create, on
   AlreadyExists RetryOnConflict(func { Get; copy resourceVersion; Update }); MergePatch /
   JSONPatch are one Patch request (no resourceVersion, applied by the server to what it
   holds); Delete is one Delete request.

   No proofs in this file. *)
From Coq Require Import String NArith.
From Verif Require Import Common Json C13_Model.

(* ---------- the other writer (environment, shared vocabulary with the spec) ---------- *)

(* [WSet dk v]: read-modify-write of the object, .data.dk = v (nothing when the object does
   not exist); [WPut obj]: creates the object (nothing when it exists).  The writer never
   deletes. *)
Inductive write := WSet (dk : bytes) (v : json) | WPut (obj : json).

(* what the write stores, given what the cluster holds under the key; None: no write *)
Definition write_obj (w : write) (cur : option json) : option json :=
  match w, cur with
  | WSet dk v, Some o => Some (set_path_lax [B "data"; dk] v o)
  | WSet _ _, None => None
  | WPut obj, None => Some obj
  | WPut _, Some _ => None
  end.

Definition apply_write (k : key) (w : write) (c : cluster) : cluster :=
  match write_obj w (cl_get k c) with Some o' => cl_set k o' c | None => c end.

Fixpoint apply_writes (k : key) (ws : list write) (c : cluster) : cluster :=
  match ws with [] => c | w :: r => apply_writes k r (apply_write k w c) end.

(* ---------- the object store with resourceVersions ---------- *)

Record store := mkStore { st_objs : cluster; st_vers : list (key * N) }.

Fixpoint ver_in (k : key) (vs : list (key * N)) : N :=
  match vs with [] => 0%N | (k', n) :: r => if bytes_eqb k k' then n else ver_in k r end.
Definition ver (k : key) (s : store) : N := ver_in k (st_vers s).

(* every write (also a delete) gives the key a resourceVersion it never had *)
Definition st_put (k : key) (o : json) (s : store) : store :=
  mkStore (cl_set k o (st_objs s)) ((k, (ver k s + 1)%N) :: st_vers s).
Definition st_del (k : key) (s : store) : store :=
  mkStore (cl_del k (st_objs s)) ((k, (ver k s + 1)%N) :: st_vers s).
Definition st_write (k : key) (w : write) (s : store) : store :=
  match write_obj w (cl_get k (st_objs s)) with Some o' => st_put k o' s | None => s end.

(* ---------- the API server as one operation of the operator sees it ---------- *)

Record sys := mkSys {
  y_store : store;
  y_queue : list write;   (* what the other writer still has ready *)
  y_used  : nat;          (* how many of its writes have happened *)
  y_calls : list call     (* the operator's requests *)
}.

Definition rec_call (v : verb) (k : key) (sub : bytes) (y : sys) : sys :=
  mkSys (y_store y) (y_queue y) (y_used y) (y_calls y ++ [(v, k, sub)]).

(* the other writer gets in right before the server handles a mutating request for [k] *)
Definition interfere (k : key) (y : sys) : sys :=
  match y_queue y with
  | [] => y
  | w :: q => mkSys (st_write k w (y_store y)) q (S (y_used y)) (y_calls y)
  end.

Definition with_store (s : store) (y : sys) : sys := mkSys s (y_queue y) (y_used y) (y_calls y).

Definition srv_get (k : key) (y : sys) : sys * option (json * N) :=
  (rec_call VGet k [] y,
   match cl_get k (st_objs (y_store y)) with Some o => Some (o, ver k (y_store y)) | None => None end).

Definition srv_update (k : key) (obj : json) (rv : N) (sub : bytes) (y : sys) : sys * option err :=
  let y1 := interfere k (rec_call VUpdate k sub y) in
  match cl_get k (st_objs (y_store y1)) with
  | None => (y1, Some ENotFound)
  | Some _ => if N.eqb rv (ver k (y_store y1)) then (with_store (st_put k obj (y_store y1)) y1, None)
              else (y1, Some EConflict)
  end.

Definition srv_create (k : key) (obj : json) (y : sys) : sys * option err :=
  let y1 := interfere k (rec_call VCreate k [] y) in
  match cl_get k (st_objs (y_store y1)) with
  | Some _ => (y1, Some EAlreadyExists)
  | None => (with_store (st_put k obj (y_store y1)) y1, None)
  end.

Definition srv_delete (k : key) (y : sys) : sys * option err :=
  let y1 := interfere k (rec_call VDelete k [] y) in
  match cl_get k (st_objs (y_store y1)) with
  | Some _ => (with_store (st_del k (y_store y1)) y1, None)
  | None => (y1, Some ENotFound)
  end.

Definition srv_patch (k : key) (f : json -> option json) (sub : bytes) (y : sys) : sys * option err :=
  let y1 := interfere k (rec_call VPatch k sub y) in
  match cl_get k (st_objs (y_store y1)) with
  | None => (y1, Some ENotFound)
  | Some o => match f o with
              | Some o' => (with_store (st_put k o' (y_store y1)) y1, None)
              | None => (y1, Some EPatchFailed)
              end
  end.

(* ---------- patch.go ---------- *)

(* retry.RetryOnConflict(retry.DefaultBackoff, fn): fn runs; while it returns a Conflict and
   steps are left it runs again (DefaultBackoff.Steps = 4: [retry 3] is 4 attempts); the last
   Conflict is returned *)
Fixpoint retry (more : nat) (fn : sys -> sys * option err) (y : sys) : sys * option err :=
  match fn y with
  | (y', Some EConflict) => match more with 0 => (y', Some EConflict) | S n => retry n fn y' end
  | r => r
  end.

Definition retry_more : nat := 3.
Definition attempts : nat := S retry_more.

(* the function executeFilterOperation retries (patch.go:215-257) *)
Definition filter_attempt (k : key) (f : jqf) (sub : bytes) (im : bool) (y : sys) : sys * option err :=
  match srv_get k y with
  | (y1, None) => (y1, if im then None else Some ENotFound)
  | (y1, Some (o, rv)) =>
    match apply_jq f o with
    | None => (y1, Some EJqFailed)
    | Some o' =>
      if json_eqb o o' && negb (has_int o) then (y1, None)
      else srv_update k o' rv sub y1          (* the filtered object carries the resourceVersion it was read with *)
    end
  end.

(* the function CreateOrUpdate retries (patch.go:122-143) *)
Definition update_attempt (k : key) (obj : json) (y : sys) : sys * option err :=
  match srv_get k y with
  | (y1, None) => (y1, Some ENotFound)
  | (y1, Some (_, rv)) => srv_update k obj rv [] y1
  end.

Definition cexec_create (m : create_mode) (obj : json) (y : sys) : sys * option err :=
  let k := key_of_object obj in
  match srv_create k obj y with
  | (y1, None) => (y1, None)
  | (y1, Some e) =>
    match m with
    | CIfNotExists => (y1, None)
    | CPlain => (y1, Some e)
    | COrUpdate => retry retry_more (update_attempt k obj) y1
    end
  end.

Definition cexec_delete (m : del_mode) (k : key) (y : sys) : sys * option err :=
  match srv_delete k y with
  | (y1, Some _) => (y1, None)
  | (y1, None) => match m with DForeground => (fst (srv_get k y1), None) | _ => (y1, None) end
  end.

Definition ignore_nf (im : bool) (r : sys * option err) : sys * option err :=
  match r with
  | (y1, Some ENotFound) => (y1, if im then None else Some ENotFound)
  | r => r
  end.

Definition cexec_patch (k : key) (body : patch_body) (sub : bytes) (im : bool) (y : sys) : sys * option err :=
  match body with
  | PMerge p => ignore_nf im (srv_patch k (fun o => Some (merge_patch o p)) sub y)
  | PJson ops => ignore_nf im (srv_patch k (apply_jps ops) sub y)
  | PJq f => retry retry_more (filter_attempt k f sub im) y
  end.

Definition cexec_sys (o : op) (y : sys) : sys * option err :=
  match o with
  | OCreate m obj => cexec_create m obj y
  | ODelete m k => cexec_delete m k y
  | OPatch k body sub im => cexec_patch k body sub im y
  end.

(* one operation against the store, the other writer having [q] ready for its object:
   new store, requests, error, number of the writer's writes that happened *)
Definition cexec_op (s : store) (o : op) (q : list write) : store * list call * option err * nat :=
  match cexec_sys o (mkSys s q 0 []) with
  | (y, e) => (y_store y, y_calls y, e, y_used y)
  end.

(* ExecuteOperations: every operation in slice order, errors collected *)
Fixpoint cexec (s : store) (steps : list (op * list write)) : store * list call * list err * list nat :=
  match steps with
  | [] => (s, [], [], [])
  | (o, q) :: r =>
    match cexec_op s o q with
    | (s1, calls1, e1, m1) =>
      match cexec s1 r with
      | (s2, calls2, es, ms) => (s2, calls1 ++ calls2, opt_list e1 ++ es, m1 :: ms)
      end
    end
  end.

(* operation i of the stream with the i-th queue (no queue: nothing ready) *)
Fixpoint zipq (os : list op) (qs : list (list write)) : list (op * list write) :=
  match os with
  | [] => []
  | o :: r => match qs with [] => (o, []) :: zipq r [] | q :: qr => (o, q) :: zipq r qr end
  end.

(* one hook run (operator.go:667-676): parse all, then execute, or nothing *)
Definition chandle_run (c : cluster) (ds : list doc) (qs : list (list write)) : outcome * list nat :=
  match parse ds with
  | None => (mkOutcome false c [] [], [])
  | Some os =>
    match cexec (mkStore c []) (zipq os qs) with
    | (s, calls, es, ms) => (mkOutcome true (st_objs s) calls es, ms)
    end
  end.
