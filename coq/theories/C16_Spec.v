(* C16_Spec.v — property C16 as a decidable predicate over what is observable: the
   metric operations hooks wrote (batch after batch) and, after every batch, whether
   the execution failed and what the registry's Gather() shows.

   The reference is a registry keyed by (group, metric name, labels).  It is written
   from the property text:
     - an invalid operation anywhere in a batch: nothing changes, the execution fails;
     - for every group mentioned in the batch: what was reported under that group
       disappears and exactly the series of this batch remain, with the values given
       (`expire` = the group's series disappear at that point; `add` accumulates from
       zero, `set` stores);
     - ungrouped add / set / observe update the named series;
     - every series carries the `hook` label; other groups and ungrouped series are
       left untouched.
   It never mentions collectors, label-value keys or the vault of the model.  Shared
   with C16_Model: the operation record, the label-map helpers and the series type. *)
From Verif Require Import Common C16_Model.
Local Open Scope N_scope.

(* ---- the operation a hook means (the file format's add / set shortcuts) ---- *)
Definition eff (o : op) : action * option Z :=
  match o_set o, o_add o with
  | Some v, None => (ASet, Some v)
  | None, Some v => (AAdd, Some v)
  | _, _ => (o_action o, o_value o)
  end.

(* validity of one written operation, by action *)
Definition spec_valid (o : op) : bool :=
  negb (is_some (o_set o) && is_some (o_add o))                 (* set and add are mutually exclusive *)
  && match eff o with
     | (ASet, v) | (AAdd, v) => negb (N.eqb (o_name o) 0) && is_some v
     | (AObserve, v) => N.eqb (o_group o) 0 && negb (N.eqb (o_name o) 0) && is_some v && is_some (o_buckets o)
     | (AExpire, _) => negb (N.eqb (o_group o) 0)
     | (ANone, _) | (AOther, _) => false
     end.

(* ---- the reference registry ---- *)
Notation skey := (N * N * list (N * N))%type (only parsing).                (* group, name, labels *)
Notation sentry := (N * N * list (N * N) * (N * (Z * list N)))%type (only parsing).           (* ... -> kind code, value *)
Notation sreg := (list (N * N * list (N * N) * (N * (Z * list N)))) (only parsing).

Definition labels_eqb (a b : labels) : bool := list_eqb (pair_eqb N.eqb N.eqb) a b.
Definition skey_eqb (a b : skey) : bool :=
  N.eqb (fst (fst a)) (fst (fst b)) && N.eqb (snd (fst a)) (snd (fst b)) && labels_eqb (snd a) (snd b).

Definition sget : skey -> sreg -> option (N * sval) := aget skey_eqb.
Definition sset : skey -> N * sval -> sreg -> sreg := aset skey_eqb.
Definition sdrop_group (g : N) (r : sreg) : sreg :=
  filter (fun x => negb (N.eqb (fst (fst (fst x))) g)) r.

(* the labels of a series: the operation's labels with the `hook` label added; a label
   with an empty value is no label *)
Definition spec_labels (hook : N) (l : labels) : labels :=
  filter (fun kv => negb (N.eqb (snd kv) 0)) (merge_labels l [(hook_label, hook)]).

Definition spec_num (o : option (N * sval)) : Z := match o with Some (_, (x, _)) => x | None => 0%Z end.

(* a histogram series: sum, count :: cumulative bucket counts *)
Definition spec_observe (x : Z) (buckets : list Z) (o : option (N * sval)) : sval :=
  let '(s, cs) := match o with Some (_, v) => v | None => (0%Z, 0 :: map (fun _ => 0) buckets) end in
  match cs with
  | [] => ((s + x)%Z, [])
  | cnt :: cums => ((s + x)%Z, (cnt + 1) :: map (fun bc => if Z.leb x (fst bc) then snd bc + 1 else snd bc) (combine buckets cums))
  end.

Definition spec_apply (hook : N) (r : sreg) (o : op) : sreg :=
  let k := (o_group o, o_name o, spec_labels hook (o_labels o)) in
  match eff o with
  | (AExpire, _) => sdrop_group (o_group o) r
  | (ASet, Some x) => sset k (2, (x, [])) r
  | (AAdd, Some x) => sset k (1, ((spec_num (sget k r) + x)%Z, [])) r
  | (AObserve, Some x) =>
      match o_buckets o with
      | Some b => sset k (3, spec_observe x b (sget k r)) r
      | None => r
      end
  | _ => r
  end.

(* groups mentioned in a batch, in order of first mention *)
Fixpoint mentioned (ops : list op) (seen : list N) : list N :=
  match ops with
  | [] => []
  | o :: r => if N.eqb (o_group o) 0 || mem_N (o_group o) seen then mentioned r seen
              else o_group o :: mentioned r (o_group o :: seen)
  end.
Definition in_group (g : N) (ops : list op) : list op := filter (fun o => N.eqb (o_group o) g) ops.

(* one group of the batch: what it held disappears, the batch's operations build it anew *)
Definition spec_group (hook : N) (ops : list op) (r : sreg) (g : N) : sreg :=
  fold_left (spec_apply hook) (in_group g ops) (sdrop_group g r).

Definition spec_batch (r : sreg) (hook : N) (ops : list op) : sreg * bool :=
  if forallb spec_valid ops
  then (fold_left (spec_apply hook) (in_group 0 ops) (fold_left (spec_group hook ops) (mentioned ops []) r), false)
  else (r, true).

(* what Gather shows of the registry *)
Definition project (r : sreg) : list series :=
  map (fun x => (fst (snd x), snd (fst (fst x)), snd (fst x), snd (snd x))) r.

(* ---- comparing sets of series ---- *)
Definition sval_eqb (a b : sval) : bool := Z.eqb (fst a) (fst b) && list_eqb N.eqb (snd a) (snd b).
Definition series_eqb (a b : series) : bool :=
  match a, b with
  | (k1, n1, l1, v1), (k2, n2, l2, v2) => N.eqb k1 k2 && N.eqb n1 n2 && labels_eqb l1 l2 && sval_eqb v1 v2
  end.
Definition series_mem (x : series) (l : list series) : bool := existsb (series_eqb x) l.
Definition series_subset (a b : list series) : bool := forallb (fun x => series_mem x b) a.
Definition same_series (a b : list series) : bool := series_subset a b && series_subset b a.

(* ---- P ---- *)
Definition obs := list (bool * list series).       (* per batch: failed?, Gather *)

Fixpoint P_from (r : sreg) (bs : list batch) (os : obs) : bool :=
  match bs, os with
  | [], [] => true
  | (hook, ops) :: bs', (failed, shown) :: os' =>
      let '(r', e) := spec_batch r hook ops in
      Bool.eqb failed e && same_series shown (project r') && P_from r' bs' os'
  | _, _ => false
  end.
Definition P (bs : list batch) (os : obs) : bool := P_from [] bs os.

(* ---- the domain: what prometheus can represent ----
   a metric name is used with one kind (add -> counter, set -> gauge, observe ->
   histogram), either always in a group or never, ungrouped uses of a name carry one
   set of label names and (histograms) one list of buckets; counter increments are not
   negative; buckets increase strictly.  Operations of rejected batches do not count. *)
Definition usage := list (N * (N * bool * list N * list Z)).

Definition use_eqb (a b : N * bool * list N * list Z) : bool :=
  match a, b with
  | (k1, g1, n1, b1), (k2, g2, n2, b2) => N.eqb k1 k2 && Bool.eqb g1 g2 && list_eqb N.eqb n1 n2 && list_eqb Z.eqb b1 b2
  end.

Fixpoint increasing (b : list Z) : bool :=
  match b with
  | x :: ((y :: _) as r) => Z.ltb x y && increasing r
  | _ => true
  end.

Definition dom_use (u : usage) (name : N) (rec : N * bool * list N * list Z) : option usage :=
  match name_get name u with
  | None => Some ((name, rec) :: u)
  | Some rec' => if use_eqb rec rec' then Some u else None
  end.

Definition dom_op (hook : N) (u : usage) (o : op) : option usage :=
  let grouped := negb (N.eqb (o_group o) 0) in
  let names := if grouped then [] else label_names (merge_labels (o_labels o) [(hook_label, hook)]) in
  match eff o with
  | (ASet, Some _) => dom_use u (o_name o) (2, grouped, names, [])
  | (AAdd, Some x) => if Z.leb 0 x then dom_use u (o_name o) (1, grouped, names, []) else None
  | (AObserve, Some _) =>
      match o_buckets o with
      | Some ((_ :: _) as b) => if increasing b then dom_use u (o_name o) (3, grouped, names, b) else None
      | _ => None
      end
  | _ => Some u
  end.

Fixpoint dom_ops (hook : N) (u : usage) (ops : list op) : option usage :=
  match ops with
  | [] => Some u
  | o :: r => match dom_op hook u o with
              | Some u' => dom_ops hook u' r
              | None => None
              end
  end.

Fixpoint dom_from (u : usage) (bs : list batch) : bool :=
  match bs with
  | [] => true
  | (hook, ops) :: r =>
      if forallb spec_valid ops
      then match dom_ops hook u ops with
           | Some u' => dom_from u' r
           | None => false
           end
      else dom_from u r
  end.
Definition in_domain (bs : list batch) : bool := dom_from [] bs.

(* ---- trigger predicates of the findings ---- *)

(* F5a: a grouped set/add arrives while ANOTHER group holds a series with the same
   metric name and the same labels *)
Definition collides (hook : N) (r : sreg) (o : op) : bool :=
  match eff o with
  | (ASet, Some _) | (AAdd, Some _) =>
      negb (N.eqb (o_group o) 0) &&
      existsb (fun x => N.eqb (snd (fst (fst x))) (o_name o)
                        && labels_eqb (snd (fst x)) (spec_labels hook (o_labels o))
                        && negb (N.eqb (fst (fst (fst x))) (o_group o))) r
  | _ => false
  end.

(* Go iterates over the batch's groups in an arbitrary order, so "holds" means: before
   the batch (a group processed later still has its old series) or after it (a group
   processed earlier already has its new ones) *)
Definition batch_collides (hook : N) (r : sreg) (ops : list op) : bool :=
  existsb (fun o => collides hook r o || collides hook (fst (spec_batch r hook ops)) o) ops.

Fixpoint T_F5a_from (r : sreg) (bs : list batch) : bool :=
  match bs with
  | [] => false
  | (hook, ops) :: bs' =>
      if forallb spec_valid ops
      then batch_collides hook r ops || T_F5a_from (fst (spec_batch r hook ops)) bs'
      else T_F5a_from r bs'
  end.
Definition T_F5a (bs : list batch) : bool := T_F5a_from [] bs.

(* ---- batches arriving at the same time (hooks of different queues run in parallel) ----
   The property text speaks of "sequences of batches from several hooks".  When several
   executions hand in their batches concurrently, nothing fixes the order in which they
   take effect, so the text is read as: the concurrent batches take effect as SOME
   sequence (each batch as a whole, exactly once).  Observed: for every batch of the
   round whether its execution failed (in the order the round lists them), and Gather()
   after all of them have returned.
     - an execution fails iff its batch has an invalid operation (no matter what the
       others do);
     - the registry shows what the reference registry holds after the round's batches
       in one of their orders, applied to what the history before the round left; and
       the batches that follow one after the other behave as the text says from there.
   For batches over pairwise different groups every order gives the same grouped series
   (C16_concurrent_order_independent), each group as its last batch gave it
   (C16_last_batch_wins). *)
Fixpoint linsert {A} (x : A) (l : list A) : list (list A) :=
  match l with
  | [] => [[x]]
  | y :: r => (x :: l) :: map (cons y) (linsert x r)
  end.
Fixpoint lperms {A} (l : list A) : list (list A) :=
  match l with
  | [] => [[]]
  | x :: r => flat_map (linsert x) (lperms r)
  end.

Definition spec_step (r : sreg) (b : batch) : sreg := fst (spec_batch r (fst b) (snd b)).
Definition spec_final (bs : list batch) : sreg := fold_left spec_step bs [].

Definition cobs := (list bool * list series)%type.      (* per batch of the round: failed?; Gather at the end *)

(* after the round the history may go on (batches one after the other again, observed
   after each): everything seen from the round on must fit ONE order of the round *)
Definition P_conc (r0 : sreg) (round : list batch) (co : cobs) (after : list batch) (aos : obs) : bool :=
  list_eqb Bool.eqb (fst co) (map (fun b => negb (forallb spec_valid (snd b))) round)
  && existsb (fun il => let r := fold_left spec_step il r0 in
                        same_series (snd co) (project r) && P_from r after aos) (lperms round).

(* a case: a history of batches one after the other (observed after each), then one
   round of concurrent batches (none = no round, and then nothing after it), then
   batches one after the other again *)
Definition P_case (bs : list batch) (os : obs) (round : list batch) (co : cobs) (after : list batch) (aos : obs) : bool :=
  P bs os && match round, after with
             | [], [] => true
             | [], _ => false
             | _, _ => P_conc (spec_final bs) round co after aos
             end.

(* the domain and the F5a trigger of a case: those of the history, the round in any of
   its orders, and what follows (the domain does not depend on the order; a collision may) *)
Definition in_domain_case (bs round after : list batch) : bool :=
  forallb (fun il => in_domain (bs ++ il ++ after)) (lperms round).
Definition T_F5a_case (bs round after : list batch) : bool :=
  existsb (fun il => T_F5a (bs ++ il ++ after)) (lperms round).

(* the last accepted batch of a history that mentions group g *)
Definition touches (g : N) (b : batch) : bool := forallb spec_valid (snd b) && mem_N g (mentioned (snd b) []).
Definition last_touch (g : N) (bs : list batch) : option batch := last (map Some (filter (touches g) bs)) None.
(* what that batch gives the group: its operations for g, applied to nothing *)
Definition group_view (g : N) (ob : option batch) : sreg :=
  match ob with
  | None => []
  | Some (h, ops) => fold_left (spec_apply h) (in_group g ops) []
  end.

(* batches over pairwise different groups: no group is mentioned by two accepted batches *)
Definition distinct_groups (bs : list batch) : Prop := forall g, (length (filter (touches g) bs) <= 1)%nat.
