(* C01_HistSpec.v — C01 for a binding with namespace.labelSelector, over histories of
   namespaces and objects, as a predicate over the history and the events the hook was given
   after the unlock.  Written from the property text against the CLUSTER alone (no informers):

     "once the hook has been given its Synchronization view, every later change to a matching
      object that passes the binding's event-type and change filters reaches the hook as an Event
      binding context; per object the Events arrive in the order the changes happened, so that
      applying the delivered Events on top of the Synchronization view reproduces the final
      matching state of the cluster.  No Event of a binding is handed to the hook before that
      binding's Synchronization step has completed successfully."

   An object matches NOW when its namespace exists and carries the selected label now and its
   name is selected.  A change of an object that matches at that moment must be reported as
   exactly one Event - Added when the object appears, Modified when the part the change filter
   looks at differs, Deleted when it goes - if that type is listed; per object in the order of
   the changes; nothing else (no Event for an object of a namespace that does not match, none
   for the objects of the Synchronization view).  When a namespace starts matching after the
   start, the objects it brings along become matching objects the hook has never been told
   about: they must be reported as Added, too ("applying the delivered Events on top of the
   Synchronization view reproduces the final matching state"); the code loads them silently -
   the recorded finding F24, whose trigger [HT] is exactly "a step brings objects along". *)
From Verif Require Import Common C01_Model C02_Model C02_Spec C01_Hist.
Open Scope N_scope.

Record hobs := mkHOb {
  ho_out : list hevent;          (* KubeEvents handed to the event callback, in order *)
  ho_before : N;                 (* how many of them before EnableKubeEventCb was called *)
  ho_bad : bool
}.

Definition name_sel (names : list N) (n : N) : bool := match names with [] => true | l => mem_N n l end.

(* the Event a change of a matching object must produce *)
Definition exp_change (i : hist_in) (c : dcl) (op : hop) : list hevent :=
  match op with
  | HSet o =>
      if dmatching (h_names i) c o then
        match lookup o (fst c) with
        | None => listed (h_types i) Added o
        | Some old => if N.eqb (csum (h_filter i) (snd old)) (csum (h_filter i) (snd o)) then []
                      else listed (h_types i) Modified o
        end
      else []
  | HDel ns name =>
      match lookup (ns, name, 0) (fst c) with
      | Some old => if dmatching (h_names i) c old then listed (h_types i) Deleted old else []
      | None => []
      end
  | HNs _ _ | HNsDel _ => []
  end.

(* the objects a namespace that starts matching brings along *)
Definition exp_brought (i : hist_in) (c : dcl) (op : hop) : list hevent :=
  match op with
  | HNs ns true =>
      if ns_lab ns (snd c) then []
      else flat_map (fun o => if N.eqb (o_ns o) ns && name_sel (h_names i) (o_name o)
                              then listed (h_types i) Added o else [])
                    (fst c)
  | _ => []
  end.

Fixpoint expected_from (i : hist_in) (c : dcl) (ops : list hop) : list hevent :=
  match ops with
  | [] => []
  | op :: r => exp_change i c op ++ exp_brought i c op ++ expected_from i (dcl_apply c (dop_of op)) r
  end.
Definition expected (i : hist_in) : list hevent := expected_from i (hcluster0 i) (h_ops i).

(* ... and the same without the objects brought along: the changes only *)
Fixpoint changes_from (i : hist_in) (c : dcl) (ops : list hop) : list hevent :=
  match ops with
  | [] => []
  | op :: r => exp_change i c op ++ changes_from i (dcl_apply c (dop_of op)) r
  end.
Definition changes_only (i : hist_in) : list hevent := changes_from i (hcluster0 i) (h_ops i).

Definition hevent_eqb (a b : hevent) : bool :=
  match a, b with
  | (n1, m1, k1, c1), (n2, m2, k2, c2) => N.eqb n1 n2 && N.eqb m1 m2 && wkind_eqb k1 k2 && N.eqb c1 c2
  end.
Definition hkey (e : hevent) : N * N := (fst (fst (fst e)), snd (fst (fst e))).
Definition hkey_eqb (a b : N * N) : bool := N.eqb (fst a) (fst b) && N.eqb (snd a) (snd b).
Definition by_key (k : N * N) (l : list hevent) : list hevent := filter (fun e => hkey_eqb (hkey e) k) l.

(* per object the same Events in the same order (and so no Event of an object without an
   expected one); the order between different objects is not constrained *)
Definition same_per_object (a b : list hevent) : bool :=
  forallb (fun k => list_eqb hevent_eqb (by_key k a) (by_key k b)) (map hkey a ++ map hkey b).

Definition HP (i : hist_in) (o : hobs) : bool :=
  negb (ho_bad o)
  && N.eqb (ho_before o) 0                              (* no Event before the unlock *)
  && same_per_object (expected i) (ho_out o).

(* trigger of the recorded finding F24: some step of the history makes a namespace match that
   holds selected objects whose appearance the binding listens to *)
Fixpoint brings_along (i : hist_in) (c : dcl) (ops : list hop) : bool :=
  match ops with
  | [] => false
  | op :: r => match exp_brought i c op with [] => false | _ => true end
               || brings_along i (dcl_apply c (dop_of op)) r
  end.
Definition HT (i : hist_in) : bool := brings_along i (hcluster0 i) (h_ops i).
