(* JsonText_Proofs.v — machine-checked facts about the byte-level JSON reader/printer of JsonText.v:
   fuel sufficiency and monotonicity, print/parse round trip, rejection classes (stray closers and
   separators after a stream, truncated containers), whitespace, and the link between
   parse_single / parse_stream / parse_first.  Everything is for ALL inputs (induction), except the
   Examples at the end. *)
From Verif Require Import Common Json JsonText.
Open Scope N_scope.

Definition stray (c : N) : bool := (c =? 125) || (c =? 93) || (c =? 44) || (c =? 58).   (* } ] , : *)

(* ------------------------------------------------------------------------------------------ *)
(* byte tests -> arithmetic                                                                      *)
(* ------------------------------------------------------------------------------------------ *)
Definition starter (c : N) : bool :=
  (c =? 110) || (c =? 116) || (c =? 102) || (c =? 34) || (c =? 91) || (c =? 123) || (c =? 45) || is_digit c.

Ltac b2p :=
  unfold stray, starter, is_ws, numcont, is_digit in *;
  repeat (rewrite ?negb_true_iff, ?negb_false_iff, ?orb_true_iff, ?orb_false_iff,
                  ?andb_true_iff, ?andb_false_iff in * );
  rewrite ?N.eqb_eq, ?N.eqb_neq, ?N.leb_le, ?N.leb_gt, ?N.ltb_lt, ?N.ltb_ge in *.
Ltac blia := b2p; lia.

(* ------------------------------------------------------------------------------------------ *)
(* unfolding lemmas                                                                              *)
(* ------------------------------------------------------------------------------------------ *)
Lemma parse_value_S f s :
  parse_value (S f) s =
    match skip_ws s with
    | [] => Err
    | c :: r =>
      if c =? 123 then
        match skip_ws r with
        | c1 :: r1 =>
            if c1 =? 125 then Ok (JObj [], r1)
            else match parse_members (parse_value f) f r with
                 | Ok (m, t) => Ok (JObj m, t)
                 | Err => Err
                 | OutOfFuel => OutOfFuel
                 end
        | [] => Err
        end
      else if c =? 91 then
        match skip_ws r with
        | c1 :: r1 =>
            if c1 =? 93 then Ok (JArr [], r1)
            else match parse_elems (parse_value f) f r with
                 | Ok (l, t) => Ok (JArr l, t)
                 | Err => Err
                 | OutOfFuel => OutOfFuel
                 end
        | [] => Err
        end
      else if c =? 34 then
        match scan_string r with
        | Some (raw, t) => Ok (JStr (unescape raw), t)
        | None => Err
        end
      else if c =? 116 then
        match strip_prefix [114; 117; 101] r with Some t => Ok (JBool true, t) | None => Err end
      else if c =? 102 then
        match strip_prefix [97; 108; 115; 101] r with Some t => Ok (JBool false, t) | None => Err end
      else if c =? 110 then
        match strip_prefix [117; 108; 108] r with Some t => Ok (JNull, t) | None => Err end
      else
        match scan_number (c :: r) with
        | Some (lit, t) => Ok (JFlt lit, t)
        | None => Err
        end
    end.
Proof. reflexivity. Qed.

Lemma parse_elems_S pv n s :
  parse_elems pv (S n) s =
    match pv s with
    | Ok (v, t) =>
      match skip_ws t with
      | c :: t' =>
          if c =? 44 then
            match parse_elems pv n t' with
            | Ok (vs, u) => Ok (v :: vs, u)
            | Err => Err
            | OutOfFuel => OutOfFuel
            end
          else if c =? 93 then Ok ([v], t')
          else Err
      | [] => Err
      end
    | Err => Err
    | OutOfFuel => OutOfFuel
    end.
Proof. reflexivity. Qed.

Lemma parse_members_S pv n s :
  parse_members pv (S n) s =
    match skip_ws s with
    | c :: r =>
      if c =? 34 then
        match scan_string r with
        | None => Err
        | Some (raw, t) =>
          match skip_ws t with
          | c2 :: t2 =>
            if c2 =? 58 then
              match pv t2 with
              | Ok (v, t3) =>
                match skip_ws t3 with
                | c3 :: t4 =>
                    if c3 =? 44 then
                      match parse_members pv n t4 with
                      | Ok (ms, u) => Ok ((unescape raw, v) :: ms, u)
                      | Err => Err
                      | OutOfFuel => OutOfFuel
                      end
                    else if c3 =? 125 then Ok ([(unescape raw, v)], t4)
                    else Err
                | [] => Err
                end
              | Err => Err
              | OutOfFuel => OutOfFuel
              end
            else Err
          | [] => Err
          end
        end
      else Err
    | [] => Err
    end.
Proof. reflexivity. Qed.

Lemma parse_stream_n_S n s :
  parse_stream_n (S n) s =
    match skip_ws s with
    | [] => Ok []
    | _ :: _ =>
      match parse_value (fuel_for s) s with
      | Ok (v, t) =>
          match parse_stream_n n t with
          | Ok vs => Ok (v :: vs)
          | Err => Err
          | OutOfFuel => OutOfFuel
          end
      | Err => Err
      | OutOfFuel => OutOfFuel
      end
    end.
Proof. reflexivity. Qed.

(* ------------------------------------------------------------------------------------------ *)
(* whitespace                                                                                    *)
(* ------------------------------------------------------------------------------------------ *)
Lemma skip_ws_len s : (length (skip_ws s) <= length s)%nat.
Proof.
  induction s as [|a s IH]; cbn [skip_ws]; [lia|].
  destruct (is_ws a); cbn [length] in *; lia.
Qed.

Lemma skip_ws_nonws c r : is_ws c = false -> skip_ws (c :: r) = c :: r.
Proof. intros H. cbn [skip_ws]. now rewrite H. Qed.

Lemma skip_ws_head s : forall c r, skip_ws s = c :: r -> is_ws c = false.
Proof.
  induction s as [|a s IH]; intros c r H; cbn [skip_ws] in H; [discriminate|].
  destruct (is_ws a) eqn:E; [eauto|]. inversion H; subst. exact E.
Qed.

Lemma skip_ws_suffix s : exists w, s = w ++ skip_ws s /\ all_ws w = true.
Proof.
  induction s as [|a s [w [E W]]]; cbn [skip_ws].
  - exists []. split; reflexivity.
  - destruct (is_ws a) eqn:A.
    + exists (a :: w). split; [cbn [app]; now rewrite <- E|]. unfold all_ws in *. cbn [forallb]. now rewrite A, W.
    + exists []. split; reflexivity.
Qed.

Lemma skip_ws_app_ws w s : all_ws w = true -> skip_ws (w ++ s) = skip_ws s.
Proof.
  unfold all_ws. induction w as [|a w IH]; intros H; [reflexivity|].
  cbn [forallb] in H. apply andb_true_iff in H as [A W].
  cbn [app skip_ws]. rewrite A. auto.
Qed.

Lemma skip_ws_ext a b : forall c r, skip_ws a = c :: r -> skip_ws (a ++ b) = c :: r ++ b.
Proof.
  induction a as [|x a IH]; intros c r H; cbn [skip_ws] in H; [discriminate|].
  cbn [app skip_ws]. destruct (is_ws x) eqn:E; [auto|].
  inversion H; subst. reflexivity.
Qed.

Lemma skip_ws_nil s : skip_ws s = [] <-> all_ws s = true.
Proof.
  unfold all_ws. induction s as [|a s IH]; cbn [skip_ws forallb]; [tauto|].
  destruct (is_ws a) eqn:E; cbn [andb]; [exact IH|]. split; discriminate.
Qed.

Lemma skip_ws_idem s : skip_ws (skip_ws s) = skip_ws s.
Proof.
  destruct (skip_ws s) as [|c r] eqn:E; [reflexivity|].
  apply skip_ws_nonws. eapply skip_ws_head; eauto.
Qed.

Lemma all_ws_app a b : all_ws (a ++ b) = all_ws a && all_ws b.
Proof. unfold all_ws. apply forallb_app. Qed.

(* ------------------------------------------------------------------------------------------ *)
(* literals and numbers: decomposition of the input                                              *)
(* ------------------------------------------------------------------------------------------ *)
Lemma strip_prefix_app p : forall s t, strip_prefix p s = Some t -> s = p ++ t.
Proof.
  induction p as [|a p IH]; intros s t H; cbn [strip_prefix] in H.
  - inversion H; reflexivity.
  - destruct s as [|b s]; [discriminate|].
    destruct (a =? b) eqn:E; [|discriminate]. apply N.eqb_eq in E; subst b.
    cbn [app]. f_equal. auto.
Qed.

Lemma strip_prefix_ext p b : forall s t, strip_prefix p s = Some t -> strip_prefix p (s ++ b) = Some (t ++ b).
Proof.
  induction p as [|a p IH]; intros s t H; cbn [strip_prefix] in H.
  - inversion H; reflexivity.
  - destruct s as [|x s]; [discriminate|]. cbn [app strip_prefix].
    destruct (a =? x); [auto|discriminate].
Qed.

Lemma span_digits_app s : forall d t, span_digits s = (d, t) -> s = d ++ t.
Proof.
  induction s as [|c r IH]; intros d t H; cbn [span_digits] in H.
  - inversion H; reflexivity.
  - destruct (is_digit c).
    + destruct (span_digits r) as [d' t'] eqn:E. inversion H; subst.
      cbn [app]. f_equal. auto.
    + inversion H; reflexivity.
Qed.

(* the side condition of every extension lemma for numbers: either the scanner stopped before the
   end of the input, or what is appended cannot continue a number *)
Definition extok (t b : bytes) : bool := match t with [] => no_numcont b | _ :: _ => true end.

Lemma extok_app l t b : extok t b = true -> extok (l ++ t) b = true.
Proof. destruct l; [auto|reflexivity]. Qed.

Lemma span_digits_ext b a : forall d t, span_digits a = (d, t) -> extok t b = true ->
  span_digits (a ++ b) = (d, t ++ b).
Proof.
  induction a as [|c r IH]; intros d t H X; cbn [span_digits] in H.
  - inversion H; subst. cbn [app extok] in *. destruct b as [|x b]; [reflexivity|].
    cbn [no_numcont] in X. cbn [span_digits].
    assert (D : is_digit x = false).
    { unfold numcont in X. apply negb_true_iff in X. repeat (apply orb_false_iff in X as [X _]). exact X. }
    now rewrite D.
  - cbn [app span_digits]. destruct (is_digit c).
    + destruct (span_digits r) as [d' t'] eqn:E. inversion H; subst.
      now rewrite (IH _ _ eq_refl X).
    + inversion H; subst. reflexivity.
Qed.

Lemma scan_int_app s i t : scan_int s = Some (i, t) -> s = i ++ t /\ i <> [].
Proof.
  unfold scan_int. destruct s as [|c r]; [discriminate|].
  destruct (c =? 48) eqn:E0.
  - apply N.eqb_eq in E0; subst c. intros H; inversion H; subst. split; [reflexivity|discriminate].
  - destruct (is_digit c); [|discriminate].
    destruct (span_digits r) as [d t'] eqn:E. intros H; inversion H; subst.
    apply span_digits_app in E; subst r. split; [reflexivity|discriminate].
Qed.

Lemma scan_int_ext b s i t : scan_int s = Some (i, t) -> extok t b = true ->
  scan_int (s ++ b) = Some (i, t ++ b).
Proof.
  unfold scan_int. destruct s as [|c r]; [discriminate|]. cbn [app].
  destruct (c =? 48).
  - intros H _; inversion H; subst. reflexivity.
  - destruct (is_digit c); [|discriminate].
    destruct (span_digits r) as [d t'] eqn:E. intros H X; inversion H; subst.
    now rewrite (span_digits_ext b _ _ _ E X).
Qed.

Lemma scan_frac_app s l t : scan_frac s = Some (l, t) -> s = l ++ t.
Proof.
  unfold scan_frac. destruct s as [|c r]; [intros H; inversion H; reflexivity|].
  destruct (c =? 46) eqn:E0.
  - apply N.eqb_eq in E0; subst c.
    destruct (span_digits r) as [d t'] eqn:E. destruct d as [|x d]; [discriminate|].
    intros H; inversion H; subst. apply span_digits_app in E; subst r. reflexivity.
  - intros H; inversion H; reflexivity.
Qed.

Lemma scan_frac_ext b s l t : scan_frac s = Some (l, t) -> extok t b = true ->
  scan_frac (s ++ b) = Some (l, t ++ b).
Proof.
  unfold scan_frac. destruct s as [|c r].
  - intros H X; inversion H; subst. cbn [app extok] in *. destruct b as [|x b]; [reflexivity|].
    cbn [no_numcont] in X. assert (D : (x =? 46) = false) by blia. now rewrite D.
  - cbn [app]. destruct (c =? 46).
    + destruct (span_digits r) as [d t'] eqn:E. destruct d as [|x d]; [discriminate|].
      intros H X; inversion H; subst. now rewrite (span_digits_ext b _ _ _ E X).
    + intros H _; inversion H; subst. reflexivity.
Qed.

Lemma scan_exp_app s l t : scan_exp s = Some (l, t) -> s = l ++ t.
Proof.
  unfold scan_exp. destruct s as [|c r]; [intros H; inversion H; reflexivity|].
  destruct ((c =? 101) || (c =? 69)).
  - destruct r as [|x r'].
    + cbn [span_digits]. discriminate.
    + destruct ((x =? 43) || (x =? 45)).
      * destruct (span_digits r') as [d t'] eqn:E. destruct d as [|y d]; [discriminate|].
        intros H; inversion H; subst. apply span_digits_app in E; subst r'. reflexivity.
      * destruct (span_digits (x :: r')) as [d t'] eqn:E. destruct d as [|y d]; [discriminate|].
        intros H; inversion H; subst. apply span_digits_app in E. cbn [app] in *. now rewrite E.
  - intros H; inversion H; reflexivity.
Qed.

Lemma scan_exp_ext b s l t : scan_exp s = Some (l, t) -> extok t b = true ->
  scan_exp (s ++ b) = Some (l, t ++ b).
Proof.
  unfold scan_exp. destruct s as [|c r].
  - intros H X; inversion H; subst. cbn [app extok] in *. destruct b as [|x b]; [reflexivity|].
    cbn [no_numcont] in X. assert (D : ((x =? 101) || (x =? 69)) = false) by blia. now rewrite D.
  - cbn [app]. destruct ((c =? 101) || (c =? 69)).
    + destruct r as [|x r'].
      * cbn [span_digits]. discriminate.
      * cbn [app]. destruct ((x =? 43) || (x =? 45)).
        -- destruct (span_digits r') as [d t'] eqn:E. destruct d as [|y d]; [discriminate|].
           intros H X; inversion H; subst. now rewrite (span_digits_ext b _ _ _ E X).
        -- destruct (span_digits (x :: r')) as [d t'] eqn:E. destruct d as [|y d]; [discriminate|].
           intros H X; inversion H; subst.
           change (x :: r' ++ b) with ((x :: r') ++ b). now rewrite (span_digits_ext b _ _ _ E X).
    + intros H _; inversion H; subst. reflexivity.
Qed.

Lemma scan_number_app s l t : scan_number s = Some (l, t) -> s = l ++ t /\ l <> [].
Proof.
  unfold scan_number.
  assert (G : forall sg r0, s = sg ++ r0 ->
     match scan_int r0 with
     | None => None
     | Some (i, r1) => match scan_frac r1 with
                       | None => None
                       | Some (f, r2) => match scan_exp r2 with
                                         | None => None
                                         | Some (e, r3) => Some (sg ++ i ++ f ++ e, r3)
                                         end
                       end
     end = Some (l, t) -> s = l ++ t /\ l <> []).
  { intros sg r0 Hs H.
    destruct (scan_int r0) as [[i r1]|] eqn:EI; [|discriminate].
    destruct (scan_frac r1) as [[f r2]|] eqn:EF; [|discriminate].
    destruct (scan_exp r2) as [[e r3]|] eqn:EE; [|discriminate].
    inversion H; subst.
    apply scan_int_app in EI as [EI NI]. apply scan_frac_app in EF. apply scan_exp_app in EE. subst.
    split; [now rewrite <- !app_assoc|].
    destruct sg; [|discriminate]. destruct i; [congruence|discriminate]. }
  destruct s as [|c r].
  - apply (G [] []). reflexivity.
  - destruct (c =? 45) eqn:E.
    + apply N.eqb_eq in E; subst c. apply (G [45] r). reflexivity.
    + apply (G [] (c :: r)). reflexivity.
Qed.

Lemma scan_number_ext b s l t : scan_number s = Some (l, t) -> extok t b = true ->
  scan_number (s ++ b) = Some (l, t ++ b).
Proof.
  unfold scan_number.
  assert (G : forall sg r0,
     match scan_int r0 with
     | None => None
     | Some (i, r1) => match scan_frac r1 with
                       | None => None
                       | Some (f, r2) => match scan_exp r2 with
                                         | None => None
                                         | Some (e, r3) => Some (sg ++ i ++ f ++ e, r3)
                                         end
                       end
     end = Some (l, t) -> extok t b = true ->
     match scan_int (r0 ++ b) with
     | None => None
     | Some (i, r1) => match scan_frac r1 with
                       | None => None
                       | Some (f, r2) => match scan_exp r2 with
                                         | None => None
                                         | Some (e, r3) => Some (sg ++ i ++ f ++ e, r3)
                                         end
                       end
     end = Some (l, t ++ b)).
  { intros sg r0 H X.
    destruct (scan_int r0) as [[i r1]|] eqn:EI; [|discriminate].
    destruct (scan_frac r1) as [[f r2]|] eqn:EF; [|discriminate].
    destruct (scan_exp r2) as [[e r3]|] eqn:EE; [|discriminate].
    inversion H; subst.
    pose proof (scan_frac_app _ _ _ EF) as AF. pose proof (scan_exp_app _ _ _ EE) as AE.
    assert (X2 : extok r2 b = true) by (subst r2; now apply extok_app).
    assert (X1 : extok r1 b = true) by (subst r1; now apply extok_app).
    rewrite (scan_int_ext b _ _ _ EI X1), (scan_frac_ext b _ _ _ EF X2), (scan_exp_ext b _ _ _ EE X).
    reflexivity. }
  destruct s as [|c r].
  - intros H. exfalso. cbn in H. discriminate.
  - cbn [app]. destruct (c =? 45).
    + apply (G [45] r).
    + apply (G [] (c :: r)).
Qed.

(* a number literal starts with '-' or a digit *)
Lemma scan_number_first s l t : scan_number s = Some (l, t) ->
  exists c r, s = c :: r /\ ((c =? 45) || is_digit c) = true.
Proof.
  unfold scan_number. destruct s as [|c r]; [cbn; discriminate|].
  intros H. exists c, r. split; [reflexivity|].
  destruct (c =? 45); [reflexivity|]. cbn [orb].
  unfold scan_int in H. destruct (c =? 48) eqn:E0.
  - apply N.eqb_eq in E0; subst c. reflexivity.
  - destruct (is_digit c); [reflexivity|discriminate].
Qed.

(* ------------------------------------------------------------------------------------------ *)
(* strings: decomposition and extension                                                          *)
(* ------------------------------------------------------------------------------------------ *)
Lemma scan_string_app_n n : forall s raw t, (length s <= n)%nat ->
  scan_string s = Some (raw, t) -> s = raw ++ 34 :: t.
Proof.
  induction n as [|n IH]; intros s raw t L H.
  - destruct s; [cbn in H; discriminate | cbn [length] in L; lia].
  - destruct s as [|c r]; [cbn in H; discriminate|]. cbn [scan_string] in H. cbn [length] in L.
    destruct (c =? 34) eqn:E34.
    { apply N.eqb_eq in E34. inversion H; subst. reflexivity. }
    destruct (c =? 92) eqn:E92.
    { apply N.eqb_eq in E92; subst c. destruct r as [|e r1]; [discriminate|].
      destruct (e =? 117) eqn:E117.
      - apply N.eqb_eq in E117; subst e.
        destruct r1 as [|a [|b [|c2 [|d r2]]]]; try discriminate.
        destruct (is_hex a && is_hex b && is_hex c2 && is_hex d); [|discriminate].
        destruct (scan_string r2) as [[x t']|] eqn:ES; [|discriminate].
        cbn [opt_prepend] in H. inversion H; subst.
        apply IH in ES; [|cbn [length] in L; lia]. subst r2. reflexivity.
      - destruct (simple_escape e); [|discriminate].
        destruct (scan_string r1) as [[x t']|] eqn:ES; [|discriminate].
        cbn [opt_prepend] in H. inversion H; subst.
        apply IH in ES; [|cbn [length] in L; lia]. subst r1. reflexivity. }
    destruct (c <? 32); [discriminate|].
    destruct (scan_string r) as [[x t']|] eqn:ES; [|discriminate].
    cbn [opt_prepend] in H. inversion H; subst.
    apply IH in ES; [|lia]. subst r. reflexivity.
Qed.

Lemma scan_string_app s raw t : scan_string s = Some (raw, t) -> s = raw ++ 34 :: t.
Proof. apply (scan_string_app_n (length s)). lia. Qed.

Lemma scan_string_len s raw t : scan_string s = Some (raw, t) -> (length t < length s)%nat.
Proof. intros H. apply scan_string_app in H. subst s. rewrite app_length. cbn [length]. lia. Qed.

Lemma scan_string_ext_n b n : forall s raw t, (length s <= n)%nat ->
  scan_string s = Some (raw, t) -> scan_string (s ++ b) = Some (raw, t ++ b).
Proof.
  induction n as [|n IH]; intros s raw t L H.
  - destruct s; [cbn in H; discriminate | cbn [length] in L; lia].
  - destruct s as [|c r]; [cbn in H; discriminate|]. cbn [length] in L.
    cbn [app]. cbn [scan_string] in H |- *.
    destruct (c =? 34) eqn:E34.
    { inversion H; subst. reflexivity. }
    destruct (c =? 92) eqn:E92.
    { destruct r as [|e r1]; [discriminate|]. cbn [app] in H |- *.
      destruct (e =? 117) eqn:E117.
      - destruct r1 as [|a [|b0 [|c2 [|d r2]]]]; try discriminate. cbn [app] in H |- *.
        destruct (is_hex a && is_hex b0 && is_hex c2 && is_hex d); [|discriminate].
        destruct (scan_string r2) as [[x t']|] eqn:ES; [|discriminate].
        cbn [opt_prepend] in H. inversion H; subst.
        cbn [length] in L. rewrite (IH r2 _ _ ltac:(lia) ES). reflexivity.
      - destruct (simple_escape e); [|discriminate].
        destruct (scan_string r1) as [[x t']|] eqn:ES; [|discriminate].
        cbn [opt_prepend] in H. inversion H; subst.
        cbn [length] in L. rewrite (IH r1 _ _ ltac:(lia) ES). reflexivity. }
    destruct (c <? 32); [discriminate|].
    destruct (scan_string r) as [[x t']|] eqn:ES; [|discriminate].
    cbn [opt_prepend] in H. inversion H; subst.
    rewrite (IH r _ _ ltac:(lia) ES). reflexivity.
Qed.

Lemma scan_string_ext b s raw t : scan_string s = Some (raw, t) -> scan_string (s ++ b) = Some (raw, t ++ b).
Proof. apply (scan_string_ext_n b (length s)). lia. Qed.

(* ------------------------------------------------------------------------------------------ *)
(* (a) consumption: a successful parse consumes at least one byte                                *)
(* ------------------------------------------------------------------------------------------ *)
Lemma skip_ws_cons_len s c r : skip_ws s = c :: r -> (length r < length s)%nat.
Proof. intros H. pose proof (skip_ws_len s) as L. rewrite H in L. cbn [length] in L. lia. Qed.

Lemma parse_elems_len pv :
  (forall s v t, pv s = Ok (v, t) -> (length t <= length s)%nat) ->
  forall n s vs u, parse_elems pv n s = Ok (vs, u) -> (length u < length s)%nat.
Proof.
  intros Hpv. induction n as [|n IH]; intros s vs u H; [cbn in H; discriminate|].
  rewrite parse_elems_S in H.
  destruct (pv s) as [[v t]| |] eqn:E; try discriminate.
  apply Hpv in E.
  destruct (skip_ws t) as [|c t'] eqn:ES; [discriminate|].
  apply skip_ws_cons_len in ES.
  destruct (c =? 44).
  - destruct (parse_elems pv n t') as [[vs' u']| |] eqn:EP; try discriminate.
    inversion H; subst. apply IH in EP. lia.
  - destruct (c =? 93); [|discriminate]. inversion H; subst. lia.
Qed.

Lemma parse_members_len pv :
  (forall s v t, pv s = Ok (v, t) -> (length t <= length s)%nat) ->
  forall n s ms u, parse_members pv n s = Ok (ms, u) -> (length u < length s)%nat.
Proof.
  intros Hpv. induction n as [|n IH]; intros s ms u H; [cbn in H; discriminate|].
  rewrite parse_members_S in H.
  destruct (skip_ws s) as [|c r] eqn:ES; [discriminate|]. apply skip_ws_cons_len in ES.
  destruct (c =? 34); [|discriminate].
  destruct (scan_string r) as [[raw t]|] eqn:ESS; [|discriminate]. apply scan_string_len in ESS.
  destruct (skip_ws t) as [|c2 t2] eqn:ES2; [discriminate|]. apply skip_ws_cons_len in ES2.
  destruct (c2 =? 58); [|discriminate].
  destruct (pv t2) as [[v t3]| |] eqn:E; try discriminate. apply Hpv in E.
  destruct (skip_ws t3) as [|c3 t4] eqn:ES3; [discriminate|]. apply skip_ws_cons_len in ES3.
  destruct (c3 =? 44).
  - destruct (parse_members pv n t4) as [[ms' u']| |] eqn:EP; try discriminate.
    inversion H; subst. apply IH in EP. lia.
  - destruct (c3 =? 125); [|discriminate]. inversion H; subst. lia.
Qed.

Lemma parse_value_len : forall f s v t, parse_value f s = Ok (v, t) -> (length t < length s)%nat.
Proof.
  induction f as [|f IH]; intros s v t H; [cbn in H; discriminate|].
  assert (Hpv : forall s v t, parse_value f s = Ok (v, t) -> (length t <= length s)%nat).
  { intros s0 v0 t0 H0. apply IH in H0. lia. }
  rewrite parse_value_S in H.
  destruct (skip_ws s) as [|c r] eqn:ES; [discriminate|]. apply skip_ws_cons_len in ES.
  destruct (c =? 123).
  { destruct (skip_ws r) as [|c1 r1] eqn:ES1; [discriminate|]. apply skip_ws_cons_len in ES1.
    destruct (c1 =? 125); [inversion H; subst; lia|].
    destruct (parse_members (parse_value f) f r) as [[m t']| |] eqn:EP; try discriminate.
    inversion H; subst. apply (parse_members_len _ Hpv) in EP. lia. }
  destruct (c =? 91).
  { destruct (skip_ws r) as [|c1 r1] eqn:ES1; [discriminate|]. apply skip_ws_cons_len in ES1.
    destruct (c1 =? 93); [inversion H; subst; lia|].
    destruct (parse_elems (parse_value f) f r) as [[l t']| |] eqn:EP; try discriminate.
    inversion H; subst. apply (parse_elems_len _ Hpv) in EP. lia. }
  destruct (c =? 34).
  { destruct (scan_string r) as [[raw t']|] eqn:ESS; [|discriminate].
    inversion H; subst. apply scan_string_len in ESS. lia. }
  destruct (c =? 116).
  { destruct (strip_prefix [114; 117; 101] r) as [t'|] eqn:EL; [|discriminate].
    inversion H; subst. apply strip_prefix_app in EL. subst r. rewrite app_length in ES. lia. }
  destruct (c =? 102).
  { destruct (strip_prefix [97; 108; 115; 101] r) as [t'|] eqn:EL; [|discriminate].
    inversion H; subst. apply strip_prefix_app in EL. subst r. rewrite app_length in ES. lia. }
  destruct (c =? 110).
  { destruct (strip_prefix [117; 108; 108] r) as [t'|] eqn:EL; [|discriminate].
    inversion H; subst. apply strip_prefix_app in EL. subst r. rewrite app_length in ES. lia. }
  destruct (scan_number (c :: r)) as [[lit t']|] eqn:EN; [|discriminate].
  inversion H; subst. apply scan_number_app in EN as [EN NE].
  assert (L : length (c :: r) = length (lit ++ t)) by now rewrite EN.
  rewrite app_length in L. cbn [length] in L. destruct lit; [congruence|]. cbn [length] in L. lia.
Qed.

(* ------------------------------------------------------------------------------------------ *)
(* 1. fuel                                                                                       *)
(* ------------------------------------------------------------------------------------------ *)
Lemma parse_elems_fuel pv L :
  (forall s, (length s < L)%nat -> pv s <> OutOfFuel) ->
  (forall s v t, pv s = Ok (v, t) -> (length t <= length s)%nat) ->
  forall n s, (length s < n)%nat -> (length s < L)%nat -> parse_elems pv n s <> OutOfFuel.
Proof.
  intros Hf Hpv. induction n as [|n IH]; intros s Ln LL; [lia|].
  rewrite parse_elems_S.
  destruct (pv s) as [[v t]| |] eqn:E; [|discriminate|exfalso; exact (Hf s LL E)].
  apply Hpv in E.
  destruct (skip_ws t) as [|c t'] eqn:ES; [discriminate|]. apply skip_ws_cons_len in ES.
  destruct (c =? 44).
  - destruct (parse_elems pv n t') as [[vs u]| |] eqn:EP; try discriminate.
    exfalso. apply (IH t'); [lia|lia|exact EP].
  - destruct (c =? 93); discriminate.
Qed.

Lemma parse_members_fuel pv L :
  (forall s, (length s < L)%nat -> pv s <> OutOfFuel) ->
  (forall s v t, pv s = Ok (v, t) -> (length t <= length s)%nat) ->
  forall n s, (length s < n)%nat -> (length s < L)%nat -> parse_members pv n s <> OutOfFuel.
Proof.
  intros Hf Hpv. induction n as [|n IH]; intros s Ln LL; [lia|].
  rewrite parse_members_S.
  destruct (skip_ws s) as [|c r] eqn:ES; [discriminate|]. apply skip_ws_cons_len in ES.
  destruct (c =? 34); [|discriminate].
  destruct (scan_string r) as [[raw t]|] eqn:ESS; [|discriminate]. apply scan_string_len in ESS.
  destruct (skip_ws t) as [|c2 t2] eqn:ES2; [discriminate|]. apply skip_ws_cons_len in ES2.
  destruct (c2 =? 58); [|discriminate].
  destruct (pv t2) as [[v t3]| |] eqn:E; [|discriminate|exfalso; apply (Hf t2); [lia|exact E]].
  apply Hpv in E.
  destruct (skip_ws t3) as [|c3 t4] eqn:ES3; [discriminate|]. apply skip_ws_cons_len in ES3.
  destruct (c3 =? 44).
  - destruct (parse_members pv n t4) as [[ms u]| |] eqn:EP; try discriminate.
    exfalso. apply (IH t4); [lia|lia|exact EP].
  - destruct (c3 =? 125); discriminate.
Qed.

Theorem parse_value_fuel : forall f s, (length s < f)%nat -> parse_value f s <> OutOfFuel.
Proof.
  induction f as [|f IH]; intros s L; [lia|].
  assert (Hpv : forall s v t, parse_value f s = Ok (v, t) -> (length t <= length s)%nat).
  { intros s0 v0 t0 H0. apply parse_value_len in H0. lia. }
  rewrite parse_value_S.
  destruct (skip_ws s) as [|c r] eqn:ES; [discriminate|]. apply skip_ws_cons_len in ES.
  destruct (c =? 123).
  { destruct (skip_ws r) as [|c1 r1] eqn:ES1; [discriminate|].
    destruct (c1 =? 125); [discriminate|].
    pose proof (@parse_members_fuel (parse_value f) f IH Hpv f r ltac:(lia) ltac:(lia)) as NF.
    destruct (parse_members (parse_value f) f r) as [[m t']| |]; try discriminate. congruence. }
  destruct (c =? 91).
  { destruct (skip_ws r) as [|c1 r1] eqn:ES1; [discriminate|].
    destruct (c1 =? 93); [discriminate|].
    pose proof (@parse_elems_fuel (parse_value f) f IH Hpv f r ltac:(lia) ltac:(lia)) as NF.
    destruct (parse_elems (parse_value f) f r) as [[l t']| |]; try discriminate. congruence. }
  destruct (c =? 34). { destruct (scan_string r) as [[raw t']|]; discriminate. }
  destruct (c =? 116). { destruct (strip_prefix [114; 117; 101] r); discriminate. }
  destruct (c =? 102). { destruct (strip_prefix [97; 108; 115; 101] r); discriminate. }
  destruct (c =? 110). { destruct (strip_prefix [117; 108; 108] r); discriminate. }
  destruct (scan_number (c :: r)) as [[lit t']|]; discriminate.
Qed.
Print Assumptions parse_value_fuel.

(* (b) monotonicity in the fuel *)
Lemma parse_elems_mono pv pv' :
  (forall s, pv s <> OutOfFuel -> pv' s = pv s) ->
  forall n s, parse_elems pv n s <> OutOfFuel ->
  forall n', (n <= n')%nat -> parse_elems pv' n' s = parse_elems pv n s.
Proof.
  intros Hpv. induction n as [|n IH]; intros s NF n' Ln; [cbn in NF; congruence|].
  destruct n' as [|n']; [lia|]. rewrite parse_elems_S in NF. rewrite !parse_elems_S.
  destruct (pv s) as [[v t]| |] eqn:E; [| |congruence].
  - rewrite (Hpv s) by (rewrite E; discriminate). rewrite E.
    destruct (skip_ws t) as [|c t'] eqn:ES; [reflexivity|].
    destruct (c =? 44); [|reflexivity].
    destruct (parse_elems pv n t') as [[vs u]| |] eqn:EP; [| |congruence].
    + rewrite (IH t') by (try rewrite EP; try discriminate; lia). now rewrite EP.
    + rewrite (IH t') by (try rewrite EP; try discriminate; lia). now rewrite EP.
  - rewrite (Hpv s) by (rewrite E; discriminate). now rewrite E.
Qed.

Lemma parse_members_mono pv pv' :
  (forall s, pv s <> OutOfFuel -> pv' s = pv s) ->
  forall n s, parse_members pv n s <> OutOfFuel ->
  forall n', (n <= n')%nat -> parse_members pv' n' s = parse_members pv n s.
Proof.
  intros Hpv. induction n as [|n IH]; intros s NF n' Ln; [cbn in NF; congruence|].
  destruct n' as [|n']; [lia|]. rewrite parse_members_S in NF. rewrite !parse_members_S.
  destruct (skip_ws s) as [|c r] eqn:ES; [reflexivity|].
  destruct (c =? 34); [|reflexivity].
  destruct (scan_string r) as [[raw t]|] eqn:ESS; [|reflexivity].
  destruct (skip_ws t) as [|c2 t2] eqn:ES2; [reflexivity|].
  destruct (c2 =? 58); [|reflexivity].
  destruct (pv t2) as [[v t3]| |] eqn:E; [| |congruence].
  - rewrite (Hpv t2) by (rewrite E; discriminate). rewrite E.
    destruct (skip_ws t3) as [|c3 t4] eqn:ES3; [reflexivity|].
    destruct (c3 =? 44); [|reflexivity].
    destruct (parse_members pv n t4) as [[ms u]| |] eqn:EP; [| |congruence].
    + rewrite (IH t4) by (try rewrite EP; try discriminate; lia). now rewrite EP.
    + rewrite (IH t4) by (try rewrite EP; try discriminate; lia). now rewrite EP.
  - rewrite (Hpv t2) by (rewrite E; discriminate). now rewrite E.
Qed.

Lemma parse_value_mono' : forall f s, parse_value f s <> OutOfFuel ->
  forall f', (f <= f')%nat -> parse_value f' s = parse_value f s.
Proof.
  induction f as [|f IH]; intros s NF f' Lf; [cbn in NF; congruence|].
  destruct f' as [|f']; [lia|].
  assert (Hpv : forall s, parse_value f s <> OutOfFuel -> parse_value f' s = parse_value f s).
  { intros s0 H0. apply IH; [exact H0|lia]. }
  rewrite parse_value_S in NF. rewrite !parse_value_S.
  destruct (skip_ws s) as [|c r] eqn:ES; [reflexivity|].
  destruct (c =? 123).
  { destruct (skip_ws r) as [|c1 r1] eqn:ES1; [reflexivity|].
    destruct (c1 =? 125); [reflexivity|].
    rewrite (@parse_members_mono _ _ Hpv f r); [reflexivity| |lia].
    intros C. rewrite C in NF. congruence. }
  destruct (c =? 91).
  { destruct (skip_ws r) as [|c1 r1] eqn:ES1; [reflexivity|].
    destruct (c1 =? 93); [reflexivity|].
    rewrite (@parse_elems_mono _ _ Hpv f r); [reflexivity| |lia].
    intros C. rewrite C in NF. congruence. }
  reflexivity.
Qed.

Theorem parse_value_mono : forall f s r, parse_value f s = r -> r <> OutOfFuel ->
  forall f', (f <= f')%nat -> parse_value f' s = r.
Proof. intros f s r H NR f' L. subst r. now apply parse_value_mono'. Qed.
Print Assumptions parse_value_mono.

(* fuel irrelevance: any two sufficient amounts give the same result *)
Lemma parse_value_irrel f f' s : (length s < f)%nat -> (length s < f')%nat ->
  parse_value f s = parse_value f' s.
Proof.
  intros L L'.
  pose proof (@parse_value_fuel (fuel_for s) s ltac:(unfold fuel_for; lia)) as NF.
  rewrite (parse_value_mono' _ _ NF f) by (unfold fuel_for; lia).
  rewrite (parse_value_mono' _ _ NF f') by (unfold fuel_for; lia). reflexivity.
Qed.

Lemma parse_value_ff f s : (length s < f)%nat -> parse_value f s = parse_value (fuel_for s) s.
Proof. intros L. apply parse_value_irrel; [exact L|unfold fuel_for; lia]. Qed.

Theorem parse_single_fuel : forall s, parse_single_res s <> OutOfFuel.
Proof.
  intros s. unfold parse_single_res.
  pose proof (@parse_value_fuel (fuel_for s) s ltac:(unfold fuel_for; lia)) as NF.
  destruct (parse_value (fuel_for s) s) as [[v t]| |]; [|discriminate|congruence].
  destruct (all_ws t); discriminate.
Qed.
Print Assumptions parse_single_fuel.

Lemma parse_stream_n_fuel : forall n s, (length s < n)%nat -> parse_stream_n n s <> OutOfFuel.
Proof.
  induction n as [|n IH]; intros s L; [lia|].
  rewrite parse_stream_n_S.
  destruct (skip_ws s) as [|c r]; [discriminate|].
  pose proof (@parse_value_fuel (fuel_for s) s ltac:(unfold fuel_for; lia)) as NF.
  destruct (parse_value (fuel_for s) s) as [[v t]| |] eqn:E; [|discriminate|congruence].
  apply parse_value_len in E.
  pose proof (IH t ltac:(lia)) as NT.
  destruct (parse_stream_n n t); [discriminate|discriminate|congruence].
Qed.

Theorem parse_stream_fuel : forall s, parse_stream_res s <> OutOfFuel.
Proof. intros s. apply parse_stream_n_fuel. unfold fuel_for. lia. Qed.
Print Assumptions parse_stream_fuel.

(* (c) monotonicity of the stream loop *)
Lemma parse_stream_n_mono : forall n s, parse_stream_n n s <> OutOfFuel ->
  forall n', (n <= n')%nat -> parse_stream_n n' s = parse_stream_n n s.
Proof.
  induction n as [|n IH]; intros s NF n' L; [cbn in NF; congruence|].
  destruct n' as [|n']; [lia|]. rewrite parse_stream_n_S in NF. rewrite !parse_stream_n_S.
  destruct (skip_ws s) as [|c r]; [reflexivity|].
  destruct (parse_value (fuel_for s) s) as [[v t]| |]; [|reflexivity|reflexivity].
  destruct (parse_stream_n n t) as [vs| |] eqn:EP; [| |congruence].
  - rewrite (IH t) by (try rewrite EP; try discriminate; lia). now rewrite EP.
  - rewrite (IH t) by (try rewrite EP; try discriminate; lia). now rewrite EP.
Qed.

(* the loop with any sufficient count is the official one *)
Lemma parse_stream_n_res n s : (length s < n)%nat -> parse_stream_n n s = parse_stream_res s.
Proof.
  intros L. unfold parse_stream_res.
  apply parse_stream_n_mono; [apply parse_stream_fuel|unfold fuel_for; lia].
Qed.

(* ------------------------------------------------------------------------------------------ *)
(* (d) stability of a successful parse when bytes are appended to the input                      *)
(* ------------------------------------------------------------------------------------------ *)
Definition ext_ok (v : json) (t b : bytes) : bool :=
  match v with JFlt _ => extok t b | _ => true end.

Lemma ext_ok_skip v t b c t' : skip_ws t = c :: t' -> ext_ok v t b = true.
Proof. destruct t; [cbn; discriminate|]. intros _. destruct v; reflexivity. Qed.

Lemma ext_ok_nonnum v t b : no_numcont b = true -> ext_ok v t b = true.
Proof. intros H. destruct v; try reflexivity. cbn [ext_ok]. destruct t; [exact H|reflexivity]. Qed.

Lemma parse_elems_ext b pv :
  (forall a v t, pv a = Ok (v, t) -> ext_ok v t b = true -> pv (a ++ b) = Ok (v, t ++ b)) ->
  forall n a vs u, parse_elems pv n a = Ok (vs, u) -> parse_elems pv n (a ++ b) = Ok (vs, u ++ b).
Proof.
  intros Hpv. induction n as [|n IH]; intros a vs u H; [cbn in H; discriminate|].
  rewrite parse_elems_S in H. rewrite parse_elems_S.
  destruct (pv a) as [[v t]| |] eqn:E; try discriminate.
  destruct (skip_ws t) as [|c t'] eqn:ES; [discriminate|].
  rewrite (Hpv _ _ _ E (ext_ok_skip v t b _ _ ES)). rewrite (skip_ws_ext _ b _ _ ES).
  destruct (c =? 44).
  - destruct (parse_elems pv n t') as [[vs' u']| |] eqn:EP; try discriminate. inversion H; subst.
    rewrite (IH _ _ _ EP). reflexivity.
  - destruct (c =? 93); [|discriminate]. inversion H; subst. reflexivity.
Qed.

Lemma parse_members_ext b pv :
  (forall a v t, pv a = Ok (v, t) -> ext_ok v t b = true -> pv (a ++ b) = Ok (v, t ++ b)) ->
  forall n a ms u, parse_members pv n a = Ok (ms, u) -> parse_members pv n (a ++ b) = Ok (ms, u ++ b).
Proof.
  intros Hpv. induction n as [|n IH]; intros a ms u H; [cbn in H; discriminate|].
  rewrite parse_members_S in H. rewrite parse_members_S.
  destruct (skip_ws a) as [|c r] eqn:ES; [discriminate|]. rewrite (skip_ws_ext _ b _ _ ES).
  destruct (c =? 34); [|discriminate].
  destruct (scan_string r) as [[raw t]|] eqn:ESS; [|discriminate]. rewrite (scan_string_ext b _ _ _ ESS).
  destruct (skip_ws t) as [|c2 t2] eqn:ES2; [discriminate|]. rewrite (skip_ws_ext _ b _ _ ES2).
  destruct (c2 =? 58); [|discriminate].
  destruct (pv t2) as [[v t3]| |] eqn:E; try discriminate.
  destruct (skip_ws t3) as [|c3 t4] eqn:ES3; [discriminate|].
  rewrite (Hpv _ _ _ E (ext_ok_skip v t3 b _ _ ES3)). rewrite (skip_ws_ext _ b _ _ ES3).
  destruct (c3 =? 44).
  - destruct (parse_members pv n t4) as [[ms' u']| |] eqn:EP; try discriminate. inversion H; subst.
    rewrite (IH _ _ _ EP). reflexivity.
  - destruct (c3 =? 125); [|discriminate]. inversion H; subst. reflexivity.
Qed.

Lemma parse_value_ext b : forall f a v t, parse_value f a = Ok (v, t) -> ext_ok v t b = true ->
  parse_value f (a ++ b) = Ok (v, t ++ b).
Proof.
  induction f as [|f IH]; intros a v t H X; [cbn in H; discriminate|].
  rewrite parse_value_S in H. rewrite parse_value_S.
  destruct (skip_ws a) as [|c r] eqn:ES; [discriminate|]. rewrite (skip_ws_ext _ b _ _ ES).
  destruct (c =? 123).
  { destruct (skip_ws r) as [|c1 r1] eqn:ES1; [discriminate|]. rewrite (skip_ws_ext _ b _ _ ES1).
    destruct (c1 =? 125); [inversion H; subst; reflexivity|].
    destruct (parse_members (parse_value f) f r) as [[m t']| |] eqn:EP; try discriminate.
    inversion H; subst. rewrite (parse_members_ext b _ IH _ _ _ _ EP). reflexivity. }
  destruct (c =? 91).
  { destruct (skip_ws r) as [|c1 r1] eqn:ES1; [discriminate|]. rewrite (skip_ws_ext _ b _ _ ES1).
    destruct (c1 =? 93); [inversion H; subst; reflexivity|].
    destruct (parse_elems (parse_value f) f r) as [[l t']| |] eqn:EP; try discriminate.
    inversion H; subst. rewrite (parse_elems_ext b _ IH _ _ _ _ EP). reflexivity. }
  destruct (c =? 34).
  { destruct (scan_string r) as [[raw t']|] eqn:ESS; [|discriminate].
    inversion H; subst. rewrite (scan_string_ext b _ _ _ ESS). reflexivity. }
  destruct (c =? 116).
  { destruct (strip_prefix [114; 117; 101] r) as [t'|] eqn:EL; [|discriminate].
    inversion H; subst. rewrite (strip_prefix_ext _ b _ _ EL). reflexivity. }
  destruct (c =? 102).
  { destruct (strip_prefix [97; 108; 115; 101] r) as [t'|] eqn:EL; [|discriminate].
    inversion H; subst. rewrite (strip_prefix_ext _ b _ _ EL). reflexivity. }
  destruct (c =? 110).
  { destruct (strip_prefix [117; 108; 108] r) as [t'|] eqn:EL; [|discriminate].
    inversion H; subst. rewrite (strip_prefix_ext _ b _ _ EL). reflexivity. }
  destruct (scan_number (c :: r)) as [[lit t']|] eqn:EN; [|discriminate].
  inversion H; subst. cbn [ext_ok] in X.
  change (c :: r ++ b) with ((c :: r) ++ b). rewrite (scan_number_ext b _ _ _ EN X). reflexivity.
Qed.

(* leading whitespace is invisible *)
Lemma parse_value_ws f w s : all_ws w = true -> parse_value f (w ++ s) = parse_value f s.
Proof.
  intros W. destruct f as [|f]; [reflexivity|]. rewrite !parse_value_S. now rewrite (skip_ws_app_ws _ s W).
Qed.

(* ------------------------------------------------------------------------------------------ *)
(* the stream loop as an equation over parse_first                                               *)
(* ------------------------------------------------------------------------------------------ *)
Lemma parse_first_len s v t : parse_first s = Some (v, t) -> (length t < length s)%nat.
Proof.
  unfold parse_first. destruct (parse_value (fuel_for s) s) as [[v' t']| |] eqn:E; try discriminate.
  intros H; inversion H; subst. eapply parse_value_len; eauto.
Qed.

Lemma parse_first_any f s : (length s < f)%nat ->
  parse_first s = match parse_value f s with Ok (v, t) => Some (v, t) | _ => None end.
Proof. intros L. unfold parse_first. now rewrite (parse_value_ff f s L). Qed.

Lemma parse_stream_step s :
  parse_stream s =
    match skip_ws s with
    | [] => Some []
    | _ :: _ => match parse_first s with
                | Some (v, t) => match parse_stream t with Some vs => Some (v :: vs) | None => None end
                | None => None
                end
    end.
Proof.
  unfold parse_stream at 1. unfold parse_stream_res, fuel_for. rewrite parse_stream_n_S.
  destruct (skip_ws s) as [|c r]; [reflexivity|].
  unfold parse_first. destruct (parse_value (fuel_for s) s) as [[v t]| |] eqn:E; try reflexivity.
  rewrite (parse_stream_n_res (length s) t) by (apply parse_value_len in E; lia).
  unfold parse_stream. destruct (parse_stream_res t); reflexivity.
Qed.

Lemma parse_first_ext b a v t : parse_first a = Some (v, t) -> ext_ok v t b = true ->
  parse_first (a ++ b) = Some (v, t ++ b).
Proof.
  unfold parse_first at 1. destruct (parse_value (fuel_for a) a) as [[v' t']| |] eqn:E; try discriminate.
  intros H X; inversion H; subst.
  rewrite (parse_first_any (fuel_for (a ++ b)) (a ++ b)) by (unfold fuel_for; lia).
  assert (E' : parse_value (fuel_for (a ++ b)) a = Ok (v, t)).
  { apply (parse_value_mono (fuel_for a) a); [exact E|discriminate|].
    unfold fuel_for. rewrite app_length. lia. }
  now rewrite (parse_value_ext b _ _ _ _ E' X).
Qed.

(* ------------------------------------------------------------------------------------------ *)
(* 4. whitespace                                                                                 *)
(* ------------------------------------------------------------------------------------------ *)
Theorem stream_ws : forall s, all_ws s = true -> parse_stream s = Some [].
Proof. intros s W. rewrite parse_stream_step. apply skip_ws_nil in W. now rewrite W. Qed.
Print Assumptions stream_ws.

Theorem single_ws : forall s, all_ws s = true -> parse_single s = None.
Proof.
  intros s W. unfold parse_single, parse_single_res, fuel_for. rewrite parse_value_S.
  apply skip_ws_nil in W. now rewrite W.
Qed.
Print Assumptions single_ws.

(* ------------------------------------------------------------------------------------------ *)
(* 5. link between the three entry points                                                        *)
(* ------------------------------------------------------------------------------------------ *)
Theorem parse_single_first : forall s j, parse_single s = Some j ->
  exists t, parse_first s = Some (j, t) /\ all_ws t = true.
Proof.
  intros s j. unfold parse_single, parse_single_res, parse_first.
  destruct (parse_value (fuel_for s) s) as [[v t]| |]; try discriminate.
  destruct (all_ws t) eqn:W; try discriminate.
  intros H; inversion H; subst. exists t. split; [reflexivity|exact W].
Qed.
Print Assumptions parse_single_first.

Theorem parse_stream_first : forall s j js, parse_stream s = Some (j :: js) ->
  exists t, parse_first s = Some (j, t) /\ parse_stream t = Some js.
Proof.
  intros s j js H. rewrite parse_stream_step in H.
  destruct (skip_ws s) as [|c r]; [discriminate|].
  destruct (parse_first s) as [[v t]|]; [|discriminate].
  destruct (parse_stream t) as [vs|] eqn:E; [|discriminate].
  inversion H; subst. exists t. split; [reflexivity|exact E].
Qed.
Print Assumptions parse_stream_first.

Theorem parse_first_stream_none : forall s, skip_ws s <> [] -> parse_first s = None -> parse_stream s = None.
Proof.
  intros s NE H. rewrite parse_stream_step, H. destruct (skip_ws s); [congruence|reflexivity].
Qed.
Print Assumptions parse_first_stream_none.

(* ------------------------------------------------------------------------------------------ *)
(* 3. rejection: a stray closer or separator after accepted input                                *)
(* ------------------------------------------------------------------------------------------ *)
Lemma stray_not_ws c : stray c = true -> is_ws c = false.
Proof. intros H. blia. Qed.

Lemma parse_value_stray f c rest : stray c = true -> parse_value (S f) (c :: rest) = Err.
Proof.
  intros H. rewrite parse_value_S, (skip_ws_nonws _ _ (stray_not_ws _ H)).
  assert (E1 : (c =? 123) = false) by blia. assert (E2 : (c =? 91) = false) by blia.
  assert (E3 : (c =? 34) = false) by blia. assert (E4 : (c =? 116) = false) by blia.
  assert (E5 : (c =? 102) = false) by blia. assert (E6 : (c =? 110) = false) by blia.
  assert (E7 : (c =? 45) = false) by blia. assert (E8 : (c =? 48) = false) by blia.
  assert (E9 : is_digit c = false) by blia.
  rewrite E1, E2, E3, E4, E5, E6. unfold scan_number. rewrite E7. unfold scan_int. now rewrite E8, E9.
Qed.

Lemma tail_no_numcont w c rest : all_ws w = true -> stray c = true -> no_numcont (w ++ c :: rest) = true.
Proof.
  intros W C. destruct w as [|x w]; cbn [app no_numcont].
  - blia.
  - unfold all_ws in W. cbn [forallb] in W. apply andb_true_iff in W as [W _]. blia.
Qed.

Theorem stream_stray_rejected : forall a js w c rest,
  parse_stream a = Some js -> all_ws w = true -> stray c = true ->
  parse_stream (a ++ w ++ c :: rest) = None.
Proof.
  intros a js w c rest H W C. revert a H.
  induction js as [|v vs IH]; intros a H; rewrite parse_stream_step in H;
    destruct (skip_ws a) as [|x r] eqn:ES.
  - (* only whitespace is left of [a]: the stray byte is where a value must start *)
    apply skip_ws_nil in ES. rewrite parse_stream_step.
    rewrite (skip_ws_app_ws _ _ ES), (skip_ws_app_ws _ _ W), (skip_ws_nonws _ _ (stray_not_ws _ C)).
    unfold parse_first, fuel_for.
    rewrite (parse_value_ws _ _ _ ES), (parse_value_ws _ _ _ W), parse_value_stray by exact C.
    reflexivity.
  - destruct (parse_first a) as [[v' t]|]; [|discriminate].
    destruct (parse_stream t); discriminate.
  - discriminate.
  - destruct (parse_first a) as [[v' t]|] eqn:EF; [|discriminate].
    destruct (parse_stream t) as [vs'|] eqn:ET; [|discriminate]. inversion H; subst.
    rewrite parse_stream_step, (skip_ws_ext _ _ _ _ ES).
    rewrite (parse_first_ext _ _ _ _ EF (ext_ok_nonnum _ _ _ (tail_no_numcont _ _ rest W C))).
    now rewrite (IH _ ET).
Qed.
Print Assumptions stream_stray_rejected.

Theorem single_stray_rejected : forall a j w c rest,
  parse_single a = Some j -> all_ws w = true -> stray c = true ->
  parse_single (a ++ w ++ c :: rest) = None.
Proof.
  intros a j w c rest H W C.
  apply parse_single_first in H as [t [EF WT]].
  pose proof (parse_first_ext _ _ _ _ EF (ext_ok_nonnum _ _ _ (tail_no_numcont _ _ rest W C))) as EF'.
  unfold parse_first in EF'. unfold parse_single, parse_single_res.
  destruct (parse_value (fuel_for (a ++ w ++ c :: rest)) (a ++ w ++ c :: rest)) as [[v' t']| |];
    try discriminate.
  inversion EF'; subst. rewrite !all_ws_app, WT, W. unfold all_ws. cbn [forallb].
  now rewrite (stray_not_ws _ C).
Qed.
Print Assumptions single_stray_rejected.

(* ------------------------------------------------------------------------------------------ *)
(* (e) round trip: strings                                                                       *)
(* ------------------------------------------------------------------------------------------ *)
Definition ctl_ok (c : N) : bool :=
  is_hex 48 && is_hex 48 && is_hex (hex_digit (c / 16)) && is_hex (hex_digit (c mod 16))
  && (hex4 48 48 (hex_digit (c / 16)) (hex_digit (c mod 16)) =? c).

Lemma ctl_ok_32 c : c < 32 -> ctl_ok c = true.
Proof.
  intros H. rewrite <- (N2Nat.id c). assert (L : (N.to_nat c < 32)%nat) by lia.
  revert L. generalize (N.to_nat c) as k. intros k L.
  do 32 (destruct k as [|k]; [vm_compute; reflexivity|]). lia.
Qed.

Lemma scan_print_char c X : scan_string (print_char c ++ X) = opt_prepend (print_char c) (scan_string X).
Proof.
  unfold print_char. destruct (c =? 34) eqn:E34; [reflexivity|].
  destruct (c =? 92) eqn:E92; [reflexivity|].
  destruct (c <? 32) eqn:E32.
  - apply N.ltb_lt in E32. pose proof (ctl_ok_32 c E32) as K. unfold ctl_ok in K.
    apply andb_true_iff in K as [K _].
    change (scan_string ([92; 117; 48; 48; hex_digit (c / 16); hex_digit (c mod 16)] ++ X))
      with (if is_hex 48 && is_hex 48 && is_hex (hex_digit (c / 16)) && is_hex (hex_digit (c mod 16))
            then opt_prepend [92; 117; 48; 48; hex_digit (c / 16); hex_digit (c mod 16)] (scan_string X)
            else None).
    now rewrite K.
  - cbn [app scan_string]. now rewrite E34, E92, E32.
Qed.

Lemma unescape_u a b c d r : is_surrogate (hex4 a b c d) = false ->
  unescape (92 :: 117 :: a :: b :: c :: d :: r) = utf8_encode (hex4 a b c d) ++ unescape r.
Proof.
  intros H. cbn [unescape]. change (92 =? 92) with true. change (117 =? 117) with true.
  cbv beta iota zeta. now rewrite H.
Qed.

Lemma unescape_print_char c X : unescape (print_char c ++ X) = c :: unescape X.
Proof.
  unfold print_char. destruct (c =? 34) eqn:E34.
  { apply N.eqb_eq in E34; subst c. reflexivity. }
  destruct (c =? 92) eqn:E92.
  { apply N.eqb_eq in E92; subst c. reflexivity. }
  destruct (c <? 32) eqn:E32.
  - apply N.ltb_lt in E32. pose proof (ctl_ok_32 c E32) as K. unfold ctl_ok in K.
    apply andb_true_iff in K as [_ K]. apply N.eqb_eq in K.
    cbn [app]. rewrite unescape_u; rewrite K.
    + unfold utf8_encode. assert (E : (c <? 128) = true) by (apply N.ltb_lt; lia). now rewrite E.
    + unfold is_surrogate. apply andb_false_iff. left. apply N.leb_gt. lia.
  - cbn [app unescape]. now rewrite E92.
Qed.

Lemma scan_string_print s rest :
  scan_string (print_string_body s ++ 34 :: rest) = Some (print_string_body s, rest).
Proof.
  induction s as [|c s IH]; cbn [print_string_body app]; [reflexivity|].
  rewrite <- app_assoc, scan_print_char, IH. reflexivity.
Qed.

Lemma unescape_print s : unescape (print_string_body s) = s.
Proof.
  induction s as [|c s IH]; cbn [print_string_body]; [reflexivity|].
  now rewrite unescape_print_char, IH.
Qed.

(* ------------------------------------------------------------------------------------------ *)
(* round trip: numbers                                                                           *)
(* ------------------------------------------------------------------------------------------ *)
Lemma is_number_scan lit : is_number lit = true -> scan_number lit = Some (lit, []).
Proof.
  unfold is_number. destruct (scan_number lit) as [[l t]|] eqn:E; [|discriminate].
  destruct t; [|discriminate]. intros _.
  apply scan_number_app in E as [E _]. rewrite app_nil_r in E. now subst.
Qed.

Lemma number_roundtrip lit rest : is_number lit = true -> no_numcont rest = true ->
  scan_number (lit ++ rest) = Some (lit, rest).
Proof.
  intros H X. apply is_number_scan in H.
  apply (scan_number_ext rest _ _ _ H). exact X.
Qed.

Lemma parse_value_number f lit rest : is_number lit = true -> no_numcont rest = true ->
  parse_value (S f) (lit ++ rest) = Ok (JFlt lit, rest).
Proof.
  intros H X. pose proof (number_roundtrip lit rest H X) as R.
  destruct (scan_number_first _ _ _ (is_number_scan _ H)) as [c [r [EL C]]]. subst lit.
  cbn [app] in *. rewrite parse_value_S.
  assert (W : is_ws c = false) by blia. rewrite (skip_ws_nonws _ _ W).
  assert (E1 : (c =? 123) = false) by blia. assert (E2 : (c =? 91) = false) by blia.
  assert (E3 : (c =? 34) = false) by blia. assert (E4 : (c =? 116) = false) by blia.
  assert (E5 : (c =? 102) = false) by blia. assert (E6 : (c =? 110) = false) by blia.
  rewrite E1, E2, E3, E4, E5, E6, R. reflexivity.
Qed.

(* ------------------------------------------------------------------------------------------ *)
(* round trip: the first byte of a printed value                                                 *)
(* ------------------------------------------------------------------------------------------ *)
Definition starts (s : bytes) : Prop := exists c r, s = c :: r /\ starter c = true.

Lemma starts_print j : wf_json j = true -> starts (print_value j).
Proof.
  unfold starts. destruct j as [| b | z | t | s | l | m]; cbn [wf_json print_value]; intros H.
  - eexists _, _. split; reflexivity.
  - destruct b; eexists _, _; split; reflexivity.
  - discriminate.
  - destruct (scan_number_first _ _ _ (is_number_scan _ H)) as [c [r [EL C]]].
    exists c, r. split; [exact EL|]. blia.
  - unfold print_string. eexists _, _. split; reflexivity.
  - eexists _, _. split; reflexivity.
  - eexists _, _. split; reflexivity.
Qed.

Lemma starts_app s b : starts s -> starts (s ++ b).
Proof. intros [c [r [E C]]]. subst s. exists c, (r ++ b). split; [reflexivity|exact C]. Qed.

Lemma starts_skip s : starts s -> exists c r, skip_ws s = c :: r /\ starter c = true.
Proof.
  intros [c [r [E C]]]. subst s. exists c, r. split; [|exact C].
  apply skip_ws_nonws. blia.
Qed.

Lemma sep_concat_one sep x : sep_concat sep [x] = x.
Proof. reflexivity. Qed.
Lemma sep_concat_cons2 sep x y l : sep_concat sep (x :: y :: l) = x ++ sep :: sep_concat sep (y :: l).
Proof. reflexivity. Qed.

Lemma sep_first sep x l b : exists r, sep_concat sep (x :: l) ++ b = x ++ r.
Proof.
  destruct l as [|y l].
  - exists b. reflexivity.
  - exists (sep :: sep_concat sep (y :: l) ++ b). rewrite sep_concat_cons2, <- app_assoc. reflexivity.
Qed.

(* ------------------------------------------------------------------------------------------ *)
(* round trip: containers, generically in the elements                                           *)
(* ------------------------------------------------------------------------------------------ *)
Definition rt (j : json) : Prop :=
  wf_json j = true -> forall rest f, no_numcont rest = true ->
  (length (print_value j ++ rest) < f)%nat -> parse_value f (print_value j ++ rest) = Ok (j, rest).

Lemma roundtrip_elems f rest : forall l, l <> [] -> Forall rt l -> forallb wf_json l = true ->
  forall n, (length (sep_concat 44 (map print_value l) ++ 93 :: rest)%N < n)%nat ->
  (length (sep_concat 44 (map print_value l) ++ 93 :: rest)%N < f)%nat ->
  parse_elems (parse_value f) n (sep_concat 44 (map print_value l) ++ 93 :: rest) = Ok (l, rest).
Proof.
  induction l as [|x l IH]; intros NE FA WF n Ln Lf; [congruence|].
  inversion FA as [|? ? RX FL]; subst. cbn [forallb] in WF. apply andb_true_iff in WF as [WX WL].
  destruct n as [|n]; [lia|]. rewrite parse_elems_S.
  destruct l as [|y l'].
  - cbn [map] in *. rewrite sep_concat_one in *. rewrite (RX WX (93 :: rest) f eq_refl Lf).
    rewrite skip_ws_nonws by reflexivity. reflexivity.
  - remember (y :: l') as l1 eqn:El1. cbn [map] in *. subst l1. cbn [map] in *.
    rewrite sep_concat_cons2 in *. rewrite <- app_assoc in *. cbn [app] in *.
    rewrite (RX WX (44 :: _) f eq_refl Lf). rewrite skip_ws_nonws by reflexivity.
    rewrite app_length in Ln, Lf. cbn [length] in Ln, Lf.
    assert (NE' : y :: l' <> []) by discriminate.
    rewrite (IH NE' FL WL n) by lia. reflexivity.
Qed.

Definition print_member (kv : bytes * json) : bytes := print_string (fst kv) ++ 58 :: print_value (snd kv).

Lemma print_value_obj m : print_value (JObj m) = 123 :: sep_concat 44 (map print_member m) ++ [125].
Proof. reflexivity. Qed.

Lemma member_shape k v tail :
  print_member (k, v) ++ tail = 34 :: print_string_body k ++ 34 :: 58 :: print_value v ++ tail.
Proof.
  unfold print_member, print_string. cbn [fst snd app]. rewrite <- !app_assoc. reflexivity.
Qed.

Lemma parse_member_step f n k v c t4 :
  parse_value f (print_value v ++ c :: t4) = Ok (v, c :: t4) -> is_ws c = false ->
  parse_members (parse_value f) (S n) (print_member (k, v) ++ c :: t4) =
    if c =? 44 then
      match parse_members (parse_value f) n t4 with
      | Ok (ms, u) => Ok ((k, v) :: ms, u)
      | Err => Err
      | OutOfFuel => OutOfFuel
      end
    else if c =? 125 then Ok ([(k, v)], t4)
    else Err.
Proof.
  intros H W. rewrite member_shape, parse_members_S, skip_ws_nonws by reflexivity.
  change (34 =? 34) with true. cbv beta iota. rewrite scan_string_print.
  rewrite skip_ws_nonws by reflexivity. change (58 =? 58) with true. cbv beta iota.
  rewrite H. rewrite (skip_ws_nonws _ _ W). rewrite unescape_print. reflexivity.
Qed.

Lemma roundtrip_members f rest : forall m, m <> [] ->
  Forall (fun kv => rt (snd kv)) m -> forallb (fun kv => wf_json (snd kv)) m = true ->
  forall n, (length (sep_concat 44 (map print_member m) ++ 125 :: rest)%N < n)%nat ->
  (length (sep_concat 44 (map print_member m) ++ 125 :: rest)%N < f)%nat ->
  parse_members (parse_value f) n (sep_concat 44 (map print_member m) ++ 125 :: rest) = Ok (m, rest).
Proof.
  induction m as [|[k v] m IH]; intros NE FA WF n Ln Lf; [congruence|].
  inversion FA as [|? ? RX FL]; subst. cbn [forallb snd] in WF, RX. apply andb_true_iff in WF as [WX WL].
  destruct n as [|n]; [lia|].
  destruct m as [|y m'].
  - cbn [map] in *. rewrite sep_concat_one in *.
    rewrite parse_member_step; [reflexivity| |reflexivity].
    apply (RX WX); [reflexivity|].
    rewrite member_shape in Lf. cbn [length] in Lf. rewrite app_length in Lf. cbn [length] in Lf. lia.
  - remember (y :: m') as m1 eqn:Em1. cbn [map] in *. subst m1. cbn [map] in *.
    rewrite sep_concat_cons2 in *. rewrite <- app_assoc in *. cbn [app] in *.
    rewrite member_shape in Ln, Lf. cbn [length] in Ln, Lf. rewrite app_length in Ln, Lf.
    cbn [length] in Ln, Lf. rewrite app_length in Ln, Lf. cbn [length] in Ln, Lf.
    rewrite parse_member_step; [| |reflexivity].
    + change (44 =? 44) with true. cbv beta iota.
      assert (NE' : y :: m' <> []) by discriminate.
      rewrite (IH NE' FL WL n) by lia. reflexivity.
    + apply (RX WX); [reflexivity|]. rewrite app_length. cbn [length]. lia.
Qed.

(* ------------------------------------------------------------------------------------------ *)
(* 2. round trip                                                                                 *)
(* ------------------------------------------------------------------------------------------ *)
Lemma parse_value_arr f r c1 r1 : skip_ws r = c1 :: r1 -> (c1 =? 93) = false ->
  parse_value (S f) (91 :: r) =
    match parse_elems (parse_value f) f r with
    | Ok (l, t) => Ok (JArr l, t)
    | Err => Err
    | OutOfFuel => OutOfFuel
    end.
Proof. intros H1 H2. rewrite parse_value_S, skip_ws_nonws by reflexivity. rewrite H1, H2. reflexivity. Qed.

Lemma parse_value_obj f r c1 r1 : skip_ws r = c1 :: r1 -> (c1 =? 125) = false ->
  parse_value (S f) (123 :: r) =
    match parse_members (parse_value f) f r with
    | Ok (m, t) => Ok (JObj m, t)
    | Err => Err
    | OutOfFuel => OutOfFuel
    end.
Proof. intros H1 H2. rewrite parse_value_S, skip_ws_nonws by reflexivity. rewrite H1, H2. reflexivity. Qed.

Theorem roundtrip_value : forall j, wf_json j = true -> forall rest f, no_numcont rest = true ->
  (length (print_value j ++ rest) < f)%nat -> parse_value f (print_value j ++ rest) = Ok (j, rest).
Proof.
  intros j. change (rt j).
  induction j as [| b | z | t | s | l IHl | m IHm] using json_ind2; intros WF rest f X L;
    (destruct f as [|f]; [lia|]).
  - reflexivity.
  - destruct b; reflexivity.
  - discriminate.
  - apply parse_value_number; assumption.
  - cbn [print_value]. unfold print_string. cbn [app]. rewrite <- app_assoc. cbn [app].
    rewrite parse_value_S, skip_ws_nonws by reflexivity.
    rewrite scan_string_print, unescape_print. reflexivity.
  - cbn [wf_json] in WF. cbn [print_value app] in *. rewrite <- app_assoc in *. cbn [app] in *.
    destruct l as [|x l]; [reflexivity|]. cbn [length] in L.
    assert (S0 : starts (sep_concat 44 (map print_value (x :: l)) ++ 93 :: rest)).
    { cbn [map]. destruct (sep_first 44 (print_value x) (map print_value l) (93 :: rest)) as [r E].
      rewrite E. apply starts_app, starts_print. cbn [forallb] in WF. now apply andb_true_iff in WF as [WX _]. }
    destruct (starts_skip _ S0) as [c1 [r1 [ES C1]]].
    assert (N93 : (c1 =? 93) = false) by blia.
    rewrite (parse_value_arr f _ _ _ ES N93).
    rewrite (roundtrip_elems f rest (x :: l)); [reflexivity|discriminate|exact IHl|exact WF|lia|lia].
  - cbn [wf_json] in WF. rewrite print_value_obj in *. cbn [app] in *. rewrite <- app_assoc in *. cbn [app] in *.
    destruct m as [|[k v] m]; [reflexivity|]. cbn [length] in L.
    assert (S0 : starts (sep_concat 44 (map print_member ((k, v) :: m)) ++ 125 :: rest)).
    { cbn [map]. destruct (sep_first 44 (print_member (k, v)) (map print_member m) (125 :: rest)) as [r E].
      rewrite E, member_shape. eexists _, _. split; reflexivity. }
    destruct (starts_skip _ S0) as [c1 [r1 [ES C1]]].
    assert (N125 : (c1 =? 125) = false) by blia.
    rewrite (parse_value_obj f _ _ _ ES N125).
    rewrite (roundtrip_members f rest ((k, v) :: m)); [reflexivity|discriminate|exact IHm|exact WF|lia|lia].
Qed.
Print Assumptions roundtrip_value.

Lemma parse_first_print j rest : wf_json j = true -> no_numcont rest = true ->
  parse_first (print_value j ++ rest) = Some (j, rest).
Proof.
  intros WF X. unfold parse_first.
  rewrite (roundtrip_value j WF rest _ X); [reflexivity|unfold fuel_for; lia].
Qed.

Theorem roundtrip_single : forall j, wf_json j = true -> parse_single (print_value j) = Some j.
Proof.
  intros j WF. pose proof (parse_first_print j [] WF eq_refl) as H. rewrite app_nil_r in H.
  unfold parse_first in H. unfold parse_single, parse_single_res.
  destruct (parse_value (fuel_for (print_value j)) (print_value j)) as [[v t]| |]; try discriminate.
  inversion H; subst. reflexivity.
Qed.
Print Assumptions roundtrip_single.

Lemma parse_stream_ws w s : all_ws w = true -> parse_stream (w ++ s) = parse_stream s.
Proof.
  intros W. rewrite (parse_stream_step (w ++ s)), (parse_stream_step s), (skip_ws_app_ws _ s W).
  rewrite (parse_first_any (fuel_for (w ++ s)) (w ++ s)) by (unfold fuel_for; lia).
  rewrite (parse_first_any (fuel_for (w ++ s)) s) by (unfold fuel_for; rewrite app_length; lia).
  now rewrite (parse_value_ws _ _ _ W).
Qed.

Lemma skip_ws_print j rest : wf_json j = true -> exists c r, skip_ws (print_value j ++ rest) = c :: r.
Proof.
  intros WF. destruct (starts_skip _ (starts_app _ rest (starts_print j WF))) as [c [r [E _]]]. eauto.
Qed.

Theorem roundtrip_stream : forall js, forallb wf_json js = true -> parse_stream (print_docs js) = Some js.
Proof.
  induction js as [|j js IH]; intros WF.
  - reflexivity.
  - cbn [forallb] in WF. apply andb_true_iff in WF as [WJ WS].
    unfold print_docs. cbn [map concat]. fold (print_docs js). unfold print_doc.
    rewrite <- app_assoc. cbn [app].
    rewrite parse_stream_step. destruct (skip_ws_print j (10 :: print_docs js) WJ) as [c [r E]]. rewrite E.
    rewrite (parse_first_print j (10 :: print_docs js) WJ eq_refl).
    change (10 :: print_docs js) with ([10] ++ print_docs js).
    rewrite (parse_stream_ws [10] (print_docs js) eq_refl), (IH WS). reflexivity.
Qed.
Print Assumptions roundtrip_stream.

Theorem roundtrip_stream_one : forall j, wf_json j = true -> parse_stream (print_value j) = Some [j].
Proof.
  intros j WF. rewrite parse_stream_step.
  destruct (skip_ws_print j [] WF) as [c [r E]]. rewrite app_nil_r in E. rewrite E.
  pose proof (parse_first_print j [] WF eq_refl) as H. rewrite app_nil_r in H. rewrite H.
  reflexivity.
Qed.
Print Assumptions roundtrip_stream_one.

(* ------------------------------------------------------------------------------------------ *)
(* 3. rejection (continued): printed streams, truncated containers                               *)
(* ------------------------------------------------------------------------------------------ *)
Theorem printed_stream_stray_rejected : forall js w c rest,
  forallb wf_json js = true -> all_ws w = true -> stray c = true ->
  parse_stream (print_docs js ++ w ++ c :: rest) = None.
Proof.
  intros js w c rest WF W C. apply (stream_stray_rejected _ js); [|exact W|exact C].
  now apply roundtrip_stream.
Qed.
Print Assumptions printed_stream_stray_rejected.

Lemma parse_value_container f c r v t : ((c =? 123) || (c =? 91)) = true ->
  parse_value f (c :: r) = Ok (v, t) -> is_scalar v = false.
Proof.
  intros C H. destruct f as [|f]; [cbn in H; discriminate|].
  assert (W : is_ws c = false) by blia.
  rewrite parse_value_S, (skip_ws_nonws _ _ W) in H.
  destruct (c =? 123).
  - destruct (skip_ws r) as [|c1 r1]; [discriminate|].
    destruct (c1 =? 125); [inversion H; reflexivity|].
    destruct (parse_members (parse_value f) f r) as [[m t']| |]; try discriminate.
    inversion H; reflexivity.
  - cbn [orb] in C. rewrite C in H.
    destruct (skip_ws r) as [|c1 r1]; [discriminate|].
    destruct (c1 =? 93); [inversion H; reflexivity|].
    destruct (parse_elems (parse_value f) f r) as [[l t']| |]; try discriminate.
    inversion H; reflexivity.
Qed.

Lemma print_container j : is_scalar j = false ->
  exists c r, print_value j = c :: r /\ ((c =? 123) || (c =? 91)) = true.
Proof.
  destruct j; try discriminate; intros _; cbn [print_value]; eexists _, _; split; reflexivity.
Qed.

Lemma parse_first_none_single s : parse_first s = None -> parse_single s = None.
Proof.
  unfold parse_first, parse_single, parse_single_res.
  destruct (parse_value (fuel_for s) s) as [[v t]| |]; [discriminate|reflexivity|reflexivity].
Qed.

(* one Decoder.Decode on a proper non-empty prefix of a printed object or array fails *)
Theorem truncation_first_rejected : forall j p q, wf_json j = true -> is_scalar j = false ->
  print_value j = p ++ q -> p <> [] -> q <> [] -> parse_first p = None.
Proof.
  intros j p q WF SC E NP NQ.
  destruct (print_container j SC) as [c [r [EP C]]].
  destruct p as [|c' p']; [congruence|]. rewrite EP in E. cbn [app] in E. inversion E; subst c' r.
  destruct (parse_first (c :: p')) as [[v t]|] eqn:EF; [exfalso|reflexivity].
  assert (X : ext_ok v t q = true).
  { unfold parse_first in EF.
    destruct (parse_value (fuel_for (c :: p')) (c :: p')) as [[v' t']| |] eqn:EV; try discriminate.
    inversion EF; subst. apply (parse_value_container _ _ _ _ _ C) in EV. destruct v; try discriminate; reflexivity. }
  pose proof (parse_first_ext q _ _ _ EF X) as EF'.
  pose proof (parse_first_print j [] WF eq_refl) as RT. rewrite app_nil_r, EP in RT.
  change (c :: p' ++ q) with ((c :: p') ++ q) in RT. rewrite RT in EF'.
  inversion EF' as [[EJ ET]]. symmetry in ET. apply app_eq_nil in ET as [_ ET]. congruence.
Qed.
Print Assumptions truncation_first_rejected.

Theorem truncation_rejected : forall j p q, wf_json j = true -> is_scalar j = false ->
  print_value j = p ++ q -> p <> [] -> q <> [] -> parse_single p = None /\ parse_stream p = None.
Proof.
  intros j p q WF SC E NP NQ.
  pose proof (truncation_first_rejected j p q WF SC E NP NQ) as F.
  destruct (print_container j SC) as [c [r [EP C]]].
  destruct p as [|c' p']; [congruence|]. rewrite EP in E. cbn [app] in E. inversion E; subst c' r.
  split.
  - now apply parse_first_none_single.
  - apply parse_first_stream_none; [|exact F].
    rewrite skip_ws_nonws by blia. discriminate.
Qed.
Print Assumptions truncation_rejected.

(* a stray closer or separator where the FIRST document should start: every entry point rejects *)
Theorem leading_stray_rejected : forall w c rest, all_ws w = true -> stray c = true ->
  parse_first (w ++ c :: rest) = None /\ parse_single (w ++ c :: rest) = None /\ parse_stream (w ++ c :: rest) = None.
Proof.
  intros w c rest W S.
  assert (F : parse_first (w ++ c :: rest) = None).
  { unfold parse_first, fuel_for. rewrite (parse_value_ws _ w (c :: rest) W).
    now rewrite (parse_value_stray _ c rest S). }
  split; [exact F|]. split; [now apply parse_first_none_single|].
  apply (stream_stray_rejected [] [] w c rest eq_refl W S).
Qed.
Print Assumptions leading_stray_rejected.

(* ------------------------------------------------------------------------------------------ *)
(* 6. examples                                                                                   *)
(* ------------------------------------------------------------------------------------------ *)
(* {"a":[-1.5e+10,"<quote><backslash><LF>x",null,true],"":{}}  - the string holds a quote, a
   backslash and a control byte *)
Definition ex_j : json :=
  JObj [([97], JArr [JFlt [45; 49; 46; 53; 101; 43; 49; 48]; JStr [34; 92; 10; 120]; JNull; JBool true]);
        ([], JObj [])].

Example ex_wf : wf_json ex_j = true.
Proof. reflexivity. Qed.

Example ex_print :
  print_value ex_j =
    [123; 34; 97; 34; 58; 91; 45; 49; 46; 53; 101; 43; 49; 48; 44;
     34; 92; 34; 92; 92; 92; 117; 48; 48; 48; 97; 120; 34; 44;
     110; 117; 108; 108; 44; 116; 114; 117; 101; 93; 44; 34; 34; 58; 123; 125; 125].
Proof. vm_compute. reflexivity. Qed.

Example ex_roundtrip : parse_single (print_value ex_j) = Some ex_j.
Proof. exact (roundtrip_single ex_j ex_wf). Qed.

Example ex_roundtrip_computed : parse_stream (print_docs [ex_j; JFlt [48]; ex_j]) = Some [ex_j; JFlt [48]; ex_j].
Proof. vm_compute. reflexivity. Qed.

(* `1 {}` is a stream of two documents; followed by ` ]x` it is rejected *)
Example ex_stray_hyps :
  parse_stream [49; 32; 123; 125] = Some [JFlt [49]; JObj []] /\ all_ws [32] = true /\ stray 93 = true.
Proof. split; [|split]; vm_compute; reflexivity. Qed.

Example ex_stray : parse_stream ([49; 32; 123; 125] ++ [32] ++ 93 :: [120]) = None.
Proof.
  destruct ex_stray_hyps as [H1 [H2 H3]].
  exact (stream_stray_rejected [49; 32; 123; 125] [JFlt [49]; JObj []] [32] 93 [120] H1 H2 H3).
Qed.

Example ex_stray_computed : parse_stream [49; 32; 123; 125; 32; 93; 120] = None.
Proof. vm_compute. reflexivity. Qed.

(* the first 39 bytes of the printed example (up to and including the inner "]") *)
Definition ex_p : bytes := firstn 39 (print_value ex_j).
Definition ex_q : bytes := skipn 39 (print_value ex_j).

Example ex_trunc_hyps :
  wf_json ex_j = true /\ is_scalar ex_j = false /\ print_value ex_j = ex_p ++ ex_q /\ ex_p <> [] /\ ex_q <> [].
Proof.
  split; [reflexivity|]. split; [reflexivity|]. split; [vm_compute; reflexivity|].
  split; vm_compute; discriminate.
Qed.

Example ex_trunc : parse_single ex_p = None /\ parse_stream ex_p = None.
Proof.
  destruct ex_trunc_hyps as [H1 [H2 [H3 [H4 H5]]]].
  exact (truncation_rejected ex_j ex_p ex_q H1 H2 H3 H4 H5).
Qed.

Example ex_trunc_computed : parse_single ex_p = None /\ parse_stream ex_p = None.
Proof. split; vm_compute; reflexivity. Qed.
