(* C19_Corr.v — correspondence vocabulary for C19.  A case is what the harness fed to a
   generated hook script (arguments, the binding contexts reduced to the fields the
   framework reads, the handler functions the script defines with their scripted exit
   status per context index) together with what the run showed (trace file, exit
   status, whether the configuration text was on stdout).  Evaluated by vm_compute in
   the generated cases files.

   [exotic] marks the separate stream of binding names the model does not speak about
   (blanks, glob characters, quotes, ...): those
   cases are never judged; how many of them disagree with the model / fail the
   predicate is reported through trigger_XMODEL / trigger_XSPEC for triage. *)
From Verif Require Import Common C19_Model C19_Spec.

Record case := mkCase {
  k_exotic  : bool;
  k_args    : list bytes;
  k_ctxs    : list ctx;
  k_defined : list (name * list N);     (* handler name, exit status per context index (missing = 0) *)
  k_obs     : obs
}.

Fixpoint lookup (n : name) (l : list (name * list N)) : option (list N) :=
  match l with
  | [] => None
  | (m, sts) :: r => if bytes_eqb n m then Some sts else lookup n r
  end.

Definition results_of (c : case) : name -> N -> N :=
  fun n i => match lookup n (k_defined c) with
             | Some sts => nth (N.to_nat i) sts 0%N
             | None => 0%N
             end.

Definition defined_of (c : case) : list name := map fst (k_defined c).

Definition input_of (c : case) : input :=
  mkInput (k_args c) (defined_of c) (results_of c) (k_ctxs c).

Definition model_obs (c : case) : obs :=
  run (k_args c) (defined_of c) (results_of c) (k_ctxs c).

Definition obs_eqb (a b : obs) : bool :=
  list_eqb entry_eqb (o_trace a) (o_trace b)
  && N.eqb (o_status a) (o_status b)
  && Bool.eqb (o_printed a) (o_printed b).

Definition agrees (c : case) : bool := obs_eqb (model_obs c) (k_obs c).
Definition spec_ok (c : case) : bool := negb (in_domain (input_of c)) || P (input_of c) (k_obs c).

Definition mismatches (cs : list case) : list N :=
  indices_where (fun c => negb (k_exotic c) && negb (agrees c)) cs.
Definition spec_violations (cs : list case) : list N :=
  indices_where (fun c => negb (k_exotic c) && negb (spec_ok c)) cs.

(* triage counters of the exotic stream (not findings) *)
Definition trigger_XMODEL (cs : list case) : list N :=
  indices_where (fun c => k_exotic c && negb (agrees c)) cs.
Definition trigger_XSPEC (cs : list case) : list N :=
  indices_where (fun c => k_exotic c && negb (spec_ok c)) cs.
(* cases inside the trigger T of the recorded finding F20 (reserved binding name): these
   are judged like any other case; a violation among them is excused by the finding *)
Definition trigger_F20 (cs : list case) : list N :=
  indices_where (fun c => T (input_of c)) cs.
