(* C19_Corr.v — correspondence vocabulary for C19.  A case is what the harness fed to a
   generated hook script (arguments, the binding contexts reduced to the fields the
   framework reads, the handler functions the script defines - each with its body of
   commands (one for all context indices plus arms for particular indices) and its final
   explicit `return` status per context index, or none: the function runs to its end)
   together with what the run showed (trace file: invocations and, per invocation, the
   marks of the commands that started; exit status; whether the configuration text was on
   stdout) - and the text its __config__ writes together with the complete stdout of the run.  Evaluated by vm_compute in the generated cases files.

   Binding names, group names and versions are arbitrary strings (blanks, tabs, glob characters,
   quotes, backslashes, $, empty) in every position of the array: the model (C19_Model, the code
   after a686454) takes a name as one candidate whatever it contains, and every case is judged by
   PW (C19_WSpec: PC + own_context) - the names that hook.sh mishandled before a686454 included,
   as regression cases.  The harness runs every hook in an empty working directory.

   [exotic] marks cases whose context file the harness could not read back into [ctx] (a
   non-string member); together with strings holding a NUL or a newline (a newline still
   separates two candidate lines; command substitution and the trace file do not carry them)
   they are outside the model: never judged; how many of them disagree with the model / fail
   the predicate is reported through trigger_XMODEL / trigger_XSPEC for triage. *)
From Coq Require Import String.
From Verif Require Import Common C19_Model C19_Spec C19_WSpec.

(* one handler function of the generated script:
     function NAME() { <trace line>; case $INDEX in i[)] <arm i> [return s_i];; ... default[)] <body> [return s];; esac; }
   (without the `case` when there is no arm); every command is preceded by its mark *)
Record hdef := mkH {
  h_name    : name;
  h_sts     : list N;            (* status of the final explicit `return` per context index (missing = 0) *)
  h_falloff : bool;              (* true: no final `return`, the function runs to its end *)
  h_body    : body;              (* the commands for every context index without an arm *)
  h_arms    : list (N * body)    (* the commands for particular context indices *)
}.

(* A byte string in run-length form: the chunks in order, each a byte string written
   [count] times.  Used for the text the generated __config__ writes (a text may be longer
   than a command argument can be: 128 KiB) and for the raw stdout of the run, which the
   harness records completely and encodes losslessly in the same form. *)
Definition chunk := (N * bytes)%type.

Fixpoint rep (n : nat) (b : bytes) : bytes :=
  match n with O => [] | S k => b ++ rep k b end.

Definition written (l : list chunk) : bytes :=
  concat (map (fun c : chunk => rep (N.to_nat (fst c)) (snd c)) l).

Record case := mkCase {
  k_exotic  : bool;
  k_args    : list bytes;
  k_ctxs    : list ctx;
  k_defined : list hdef;
  k_config  : list chunk;        (* what the script's __config__ writes (before its commands) *)
  k_obs     : obsB;
  k_stdout  : list chunk         (* the stdout of the run, every byte of it *)
}.

Fixpoint lookup_h (n : name) (l : list hdef) : option hdef :=
  match l with
  | [] => None
  | h :: r => if bytes_eqb n (h_name h) then Some h else lookup_h n r
  end.

Fixpoint lookup_arm (i : N) (l : list (N * body)) : option body :=
  match l with
  | [] => None
  | (j, b) :: r => if N.eqb i j then Some b else lookup_arm i r
  end.

(* what the function executes when context number i is current *)
Definition body_at (h : hdef) (i : N) : body :=
  (match lookup_arm i (h_arms h) with Some a => a | None => h_body h end)
  ++ (if h_falloff h then [] else [Return (nth (N.to_nat i) (h_sts h) 0%N)]).

Definition bodies_of (c : case) : name -> N -> body :=
  fun n i => match lookup_h n (k_defined c) with
             | Some h => body_at h i
             | None => []
             end.

Definition defined_of (c : case) : list name := map h_name (k_defined c).

Definition inputB_of (c : case) : inputB :=
  mkInputB (k_args c) (defined_of c) (bodies_of c) (k_ctxs c).

Definition input_of (c : case) : input := to_input (inputB_of c).

Definition inputC_of (c : case) : inputC := mkInputC (inputB_of c) (written (k_config c)).

Definition model_obs (c : case) : obsC :=
  runC (k_args c) (defined_of c) (bodies_of c) (k_ctxs c) (written (k_config c)).

(* strings the model speaks about: no NUL, no newline *)
Definition clean_bytes (o : option bytes) : bool :=
  match o with
  | None => true
  | Some s => forallb (fun x => negb (N.eqb x 0) && negb (N.eqb x 10)) s
  end.
Definition clean_ctx (c : ctx) : bool :=
  clean_bytes (c_binding c) && clean_bytes (c_type c) && clean_bytes (c_event c) &&
  clean_bytes (c_group c) && clean_bytes (c_from c) && clean_bytes (c_to c).
Definition outside (c : case) : bool := k_exotic c || negb (forallb clean_ctx (k_ctxs c)).

Definition observed (c : case) : obsC := mkObsC (k_obs c) (written (k_stdout c)).

Definition obs_eqb (a b : obs) : bool :=
  list_eqb entry_eqb (o_trace a) (o_trace b)
  && N.eqb (o_status a) (o_status b)
  && Bool.eqb (o_printed a) (o_printed b).

Definition step_eqb (a b : step) : bool := N.eqb (fst a) (fst b) && N.eqb (snd a) (snd b).

Definition obsB_eqb (a b : obsB) : bool :=
  obs_eqb (ob_obs a) (ob_obs b) && list_eqb (list_eqb step_eqb) (ob_steps a) (ob_steps b).

(* raw bytes of stdout are compared, nothing is trimmed or normalised *)
Definition obsC_eqb (a b : obsC) : bool :=
  obsB_eqb (oc_run a) (oc_run b) && bytes_eqb (oc_stdout a) (oc_stdout b).

Definition agrees (c : case) : bool := obsC_eqb (model_obs c) (observed c).
Definition spec_ok (c : case) : bool :=
  negb (in_domain (input_of c)) || PW (inputC_of c) (observed c).

Definition mismatches (cs : list case) : list N :=
  indices_where (fun c => negb (outside c) && negb (agrees c)) cs.
Definition spec_violations (cs : list case) : list N :=
  indices_where (fun c => negb (outside c) && negb (spec_ok c)) cs.

(* triage counters of the cases outside the model (not findings) *)
Definition trigger_XMODEL (cs : list case) : list N :=
  indices_where (fun c => outside c && negb (agrees c)) cs.
Definition trigger_XSPEC (cs : list case) : list N :=
  indices_where (fun c => outside c && negb (spec_ok c)) cs.
(* cases inside the trigger T of the recorded finding F20 (reserved binding name): these
   are judged like any other case; a violation among them is excused by the finding *)
Definition trigger_F20 (cs : list case) : list N :=
  indices_where (fun c => T (input_of c)) cs.
