(* C20_NameProofs.v — the file-name rule of C20, character by character (seeded change C20-6).

   A. the extension of a name = its suffix from the last dot; the model's filepath.Ext
      (C20_Model.ext, a backward scan) computes it
   B. "ends in .yaml/.json/.md/.txt" (C20_Spec.excluded_ending) = "the extension is one of
      .yaml/.json/.md/.txt" (C20_Spec.has_excluded_extension), for every byte string
   C. which names checkExecutableHookFile excludes - exactly; the letters of an extension
      without the dot in front of them do not exclude a name
   D. the paths of the files of a file-system tree are pairwise different
   E. the model satisfies the file-by-file predicates P_each_file / P_each_file_init *)
From Coq Require Import Permutation Sorted.
From Verif Require Import Common C20_Model C20_Spec C20_Corr C20_Proofs.
Local Open Scope N_scope.

(* ------------------------------------------------------------------ *)
(* A. the last dot                                                     *)
(* ------------------------------------------------------------------ *)

Lemma lds_no_dot s : ~ In dot s -> last_dot_suffix s = [].
Proof.
  induction s as [|x s IH]; intros H; cbn [last_dot_suffix]; [reflexivity|].
  rewrite IH by (intros Hin; apply H; right; exact Hin).
  change 46 with dot. destruct (N.eqb_spec x dot) as [E|NE]; [|reflexivity].
  exfalso. apply H. left. exact E.
Qed.

Lemma lds_app pre : forall s, ~ In dot s -> last_dot_suffix (pre ++ dot :: s) = dot :: s.
Proof.
  induction pre as [|x pre IH]; intros s H; cbn [app last_dot_suffix].
  - rewrite (lds_no_dot s H). reflexivity.
  - rewrite (IH s H). reflexivity.
Qed.

(* a name has no dot, or it splits at its last dot *)
Lemma split_last_dot n :
  ~ In dot n \/ exists pre s, n = pre ++ dot :: s /\ ~ In dot s.
Proof.
  induction n as [|x n IH].
  - left. intros [].
  - destruct IH as [Hno|[pre [s [-> Hs]]]].
    + destruct (N.eqb_spec x dot) as [E|NE].
      * right. exists [], n. subst x. split; [reflexivity | exact Hno].
      * left. intros [E|Hin]; [apply NE; exact E | apply Hno; exact Hin].
    + right. exists (x :: pre), s. split; [reflexivity | exact Hs].
Qed.

Lemma last_dot_suffix_spec n :
  (~ In dot n /\ last_dot_suffix n = [])
  \/ exists pre s, n = pre ++ dot :: s /\ ~ In dot s /\ last_dot_suffix n = dot :: s.
Proof.
  destruct (split_last_dot n) as [Hno|[pre [s [-> Hs]]]].
  - left. split; [exact Hno | apply lds_no_dot; exact Hno].
  - right. exists pre, s. split; [reflexivity | split; [exact Hs | apply lds_app; exact Hs]].
Qed.

Lemma plain_rev s : ~ In dot s -> ~ In slash s -> forallb plain_char (rev s) = true.
Proof.
  intros Hd Hs. apply forallb_forall. intros c Hc. apply in_rev in Hc.
  unfold plain_char. apply andb_true_iff. split; apply negb_true_iff, N.eqb_neq; intros ->; contradiction.
Qed.

(* filepath.Ext of a single path element is its suffix from the last dot *)
Lemma ext_last_dot n : ~ In slash n -> ext n = last_dot_suffix n.
Proof.
  intros Hsl. unfold ext.
  destruct (last_dot_suffix_spec n) as [[Hno ->]|[pre [s [-> [Hs ->]]]]].
  - rewrite <- (app_nil_r (rev n)). rewrite ext_scan_plain by (apply plain_rev; assumption). reflexivity.
  - rewrite rev_app_distr. cbn [rev]. rewrite <- app_assoc. cbn [app].
    rewrite ext_scan_plain.
    + cbn [ext_scan]. change (N.eqb dot slash) with false. rewrite N.eqb_refl.
      rewrite rev_involutive, app_nil_r. reflexivity.
    + apply plain_rev; [exact Hs|]. intros Hin. apply Hsl. apply in_or_app. right. right. exact Hin.
Qed.

(* ------------------------------------------------------------------ *)
(* B. "ends in .xyz" = "the extension is .xyz"                         *)
(* ------------------------------------------------------------------ *)

Lemma ends_with_is_extension l n :
  ~ In dot l -> ends_with (dot :: l) n = bytes_eqb (last_dot_suffix n) (dot :: l).
Proof.
  intros Hl. apply eq_true_iff_eq. rewrite bytes_eqb_eq, ends_with_spec. split.
  - intros [pre ->]. apply lds_app. exact Hl.
  - intros E. destruct (last_dot_suffix_spec n) as [[_ E']|[pre [s [-> [_ E']]]]].
    + rewrite E' in E. discriminate.
    + rewrite E' in E. injection E as ->. exists pre. reflexivity.
Qed.

Lemma letters_no_dot l : In l ext_letters -> ~ In dot l.
Proof.
  unfold ext_letters, dot. intros [<-|[<-|[<-|[<-|[]]]]] Hin; cbn in Hin;
    repeat (destruct Hin as [Hin|Hin]; [discriminate|]); exact Hin.
Qed.

Lemma excluded_ending_extension n : excluded_ending n = has_excluded_extension n.
Proof.
  unfold excluded_ending, has_excluded_extension, excluded_exts, ext_letters, mem_bytes.
  cbn [map existsb]. change 46 with dot.
  rewrite !ends_with_is_extension by (apply letters_no_dot; unfold ext_letters; cbn; tauto).
  rewrite orb_false_r, !orb_assoc. reflexivity.
Qed.

Lemma excluded_ending_iff n :
  excluded_ending n = true <-> exists pre e, In e excluded_exts /\ n = pre ++ e.
Proof.
  unfold excluded_ending. rewrite !orb_true_iff, !ends_with_spec. unfold excluded_exts, ext_letters. cbn [map].
  split.
  - intros [[[[pre ->]|[pre ->]]|[pre ->]]|[pre ->]]; exists pre; eexists; (split; [|reflexivity]); cbn; tauto.
  - intros [pre [e [[<-|[<-|[<-|[<-|[]]]]] ->]]]; [left; left; left | left; left; right | left; right | right];
      exists pre; reflexivity.
Qed.

(* ------------------------------------------------------------------ *)
(* C. which names are excluded                                         *)
(* ------------------------------------------------------------------ *)

(* checkExecutableHookFile, as a function of the name and the mode *)
Lemma check_executable_hook_file_spec n m :
  check_executable_hook_file n m =
  if hidden n then Some ErrFileIsHidden
  else if excluded_ending n then Some ErrFileHasWrongExtension
  else if has_exec_bit m then None else Some ErrFileNoExecutablePermissions.
Proof.
  unfold check_executable_hook_file, check_executable_permissions.
  rewrite excluded_ending_ext, hidden_dot, land_0o111.
  destruct (has_dot_prefix n), (excluded_ending n), (has_exec_bit m); reflexivity.
Qed.

(* exactly the names with one of the four extensions (and no leading dot) are reported as
   "file has wrong extension": in both readings of the rule *)
Lemma excluded_names n m :
  (check_executable_hook_file n m = Some ErrFileHasWrongExtension
     <-> hidden n = false /\ exists pre e, In e excluded_exts /\ n = pre ++ e)
  /\ (check_executable_hook_file n m = Some ErrFileHasWrongExtension
     <-> hidden n = false /\ In (last_dot_suffix n) excluded_exts).
Proof.
  rewrite check_executable_hook_file_spec. split.
  - rewrite <- excluded_ending_iff.
    destruct (hidden n), (excluded_ending n), (has_exec_bit m); split; try discriminate; try tauto;
      intros [H1 H2]; discriminate.
  - rewrite <- mem_bytes_In. fold (has_excluded_extension n). rewrite <- excluded_ending_extension.
    destruct (hidden n), (excluded_ending n), (has_exec_bit m); split; try discriminate; try tauto;
      intros [H1 H2]; discriminate.
Qed.

(* a file is accepted iff it carries an execute bit, its name does not start with a dot
   and does not end in one of the four extensions *)
Lemma file_rule n m :
  check_executable_hook_file n m = None
  <-> has_exec_bit m = true /\ hidden n = false
      /\ ~ (exists pre e, In e excluded_exts /\ n = pre ++ e).
Proof.
  rewrite check_executable_hook_file_spec, <- excluded_ending_iff.
  destruct (hidden n), (excluded_ending n), (has_exec_bit m); split; try discriminate; try tauto;
    try (intros _; split; [reflexivity | split; [reflexivity | discriminate]]);
    intros [H1 [H2 H3]]; try discriminate; exfalso; apply H3; reflexivity.
Qed.

(* the letters of an extension exclude a name only when the character in front of them IS the
   dot: whatever else stands there (and whatever stands before it), the name is not excluded *)
Lemma letters_need_the_dot pre c l :
  In l ext_letters -> excluded_ending (pre ++ c :: l) = N.eqb c dot.
Proof.
  unfold ext_letters, excluded_ending, ends_with.
  rewrite (N.eqb_sym c dot). unfold dot.
  intros [<-|[<-|[<-|[<-|[]]]]]; rewrite rev_app_distr; cbn [rev app is_prefix];
    generalize (N.eqb 46 c); intros b; destruct b; reflexivity.
Qed.

(* ... and the bare letters, with nothing in front, are an ordinary name *)
Lemma bare_letters_not_excluded l : In l ext_letters -> excluded_ending l = false /\ hidden l = false.
Proof.
  unfold ext_letters. intros [<-|[<-|[<-|[<-|[]]]]]; split; reflexivity.
Qed.

(* anything (without a dot) behind the extension makes it another extension *)
Lemma suffix_after_extension pre e s :
  In e excluded_exts -> s <> [] -> ~ In dot s -> excluded_ending (pre ++ e ++ s) = false.
Proof.
  intros He Hs Hd. rewrite excluded_ending_extension. unfold has_excluded_extension.
  unfold excluded_exts in He. apply in_map_iff in He as [l [<- Hl]].
  cbn [app]. change 46 with dot. rewrite lds_app.
  - destruct s as [|y s]; [contradiction|]. clear Hs Hd.
    unfold ext_letters in Hl. destruct Hl as [<-|[<-|[<-|[<-|[]]]]]; unfold excluded_exts, ext_letters, mem_bytes;
      cbn [map existsb app]; unfold bytes_eqb; cbn [list_eqb N.eqb Pos.eqb andb orb];
      rewrite ?andb_false_r; reflexivity.
  - intros Hin. apply in_app_or in Hin as [Hin|Hin]; [exact (letters_no_dot l Hl Hin) | exact (Hd Hin)].
Qed.

(* ------------------------------------------------------------------ *)
(* D. the paths of a file-system tree are pairwise different            *)
(* ------------------------------------------------------------------ *)

Definition paths_of (t : tree) : list bytes := map entry_path (files [] t).

Lemma entry_path_prepend n e : entry_path (prepend [n] e) = n ++ 47 :: entry_path e.
Proof.
  destruct e as [[anc x] y]. unfold prepend, entry_path. cbn [app].
  apply join_cons. destruct anc; discriminate.
Qed.

Lemma paths_of_dir n cs :
  paths_of (Dir n cs) = map (fun q => n ++ 47 :: q) (flat_map paths_of cs).
Proof.
  unfold paths_of. cbn [files app]. rewrite !flat_map_concat_map, !concat_map, !map_map. f_equal.
  apply map_ext. intros c. rewrite files_anc, !map_map. apply map_ext. intros e. apply entry_path_prepend.
Qed.

Lemma paths_of_shape t p : In p (paths_of t) -> exists r, p = tree_name t ++ r /\ tail_ok r.
Proof.
  destruct t as [n m|n cs].
  - intros [<-|[]]. exists []. split; [cbn; symmetry; apply app_nil_r | left; reflexivity].
  - rewrite paths_of_dir. intros Hin. apply in_map_iff in Hin as [q [<- _]].
    exists (47 :: q). split; [reflexivity | right; exists q; reflexivity].
Qed.

Lemma forest_paths_nodup cs :
  Forall (fun t => wf_tree t = true -> NoDup (paths_of t)) cs ->
  nodupb (map tree_name cs) = true -> forallb wf_tree cs = true ->
  NoDup (flat_map paths_of cs).
Proof.
  induction cs as [|c cs IHcs]; intros IH Hnd Hwf; cbn [flat_map]; [constructor|].
  inversion IH as [|? ? IHc IHrest]; subst.
  cbn [map nodupb forallb] in Hnd, Hwf.
  apply andb_true_iff in Hnd as [Hc Hnd]. apply andb_true_iff in Hwf as [Hwc Hwf].
  apply NoDup_app_intro.
  - apply IHc. exact Hwc.
  - apply IHcs; assumption.
  - intros q Hq1 Hq2. apply in_flat_map in Hq2 as [c' [Hc' Hq2]].
    apply paths_of_shape in Hq1 as [r1 [E1 T1]]. apply paths_of_shape in Hq2 as [r2 [E2 T2]].
    rewrite E1 in E2.
    assert (Hwc' : wf_tree c' = true) by (rewrite forallb_forall in Hwf; apply Hwf; exact Hc').
    apply no_slash_split in E2; [| apply wf_tree_name; assumption | apply wf_tree_name; assumption | assumption | assumption].
    apply negb_true_iff in Hc.
    assert (Hin : In (tree_name c) (map tree_name cs)) by (rewrite E2; apply in_map; exact Hc').
    apply mem_bytes_In in Hin. congruence.
Qed.

Lemma NoDup_map_inj {A B} (f : A -> B) l :
  (forall x y, f x = f y -> x = y) -> NoDup l -> NoDup (map f l).
Proof.
  intros Hinj. induction l as [|a l IH]; intros Hn; cbn [map]; [constructor|].
  inversion Hn as [|? ? Hni Hn']; subst. constructor; [|apply IH; exact Hn'].
  intros Hin. apply in_map_iff in Hin as [x [E Hx]]. apply Hinj in E. subst x. contradiction.
Qed.

Lemma tree_paths_nodup t : wf_tree t = true -> NoDup (paths_of t).
Proof.
  induction t as [n m|n cs IH] using tree_ind'; intros Hwf.
  - cbn. constructor; [intros [] | constructor].
  - rewrite paths_of_dir. apply NoDup_map_inj.
    + intros x y E. apply app_inv_head in E. injection E as E. exact E.
    + cbn [wf_tree] in Hwf. apply andb_true_iff in Hwf as [_ Hwf]. apply andb_true_iff in Hwf as [Hnd Hwf].
      apply forest_paths_nodup; assumption.
Qed.

Lemma all_paths_nodup cs : wf_children cs = true -> NoDup (map entry_path (all_files cs)).
Proof.
  intros Hwf. unfold wf_children in Hwf. apply andb_true_iff in Hwf as [Hnd Hwf].
  unfold all_files. rewrite flat_map_concat_map, concat_map, map_map, <- flat_map_concat_map.
  apply (forest_paths_nodup cs); [|assumption|assumption].
  apply Forall_forall. intros t _. apply tree_paths_nodup.
Qed.

Lemma NoDup_map_In_inj {A B} (f : A -> B) l :
  NoDup (map f l) -> forall x y, In x l -> In y l -> f x = f y -> x = y.
Proof.
  induction l as [|a l IH]; intros Hn x y Hx Hy E; [destruct Hx|].
  cbn [map] in Hn. inversion Hn as [|? ? Hni Hn']; subst.
  destruct Hx as [<-|Hx], Hy as [<-|Hy].
  - reflexivity.
  - exfalso. apply Hni. rewrite E. apply in_map. exact Hy.
  - exfalso. apply Hni. rewrite <- E. apply in_map. exact Hx.
  - apply IH; assumption.
Qed.

(* the path determines the file *)
Lemma entry_path_inj cs e e' :
  wf_children cs = true -> In e (all_files cs) -> In e' (all_files cs) ->
  entry_path e = entry_path e' -> e = e'.
Proof. intros Hwf. apply NoDup_map_In_inj. apply all_paths_nodup. exact Hwf. Qed.

(* a file of the tree is a hook (in the sense of is_hook, a statement about its PATH) iff the
   file itself meets the conditions *)
Lemma is_hook_entry cs e :
  wf_children cs = true -> In e (all_files cs) -> (is_hook cs (entry_path e) <-> entry_is_hook e = true).
Proof.
  intros Hwf He. split.
  - intros [e' [He' [Hh E]]]. rewrite (entry_path_inj cs e e' Hwf He He' E). exact Hh.
  - intros Hh. exists e. split; [exact He | split; [exact Hh | reflexivity]].
Qed.

(* through discovery: a file directly in the hooks directory is a hook iff the rule on its
   name and mode says so *)
Lemma top_level_file_rule parent root cs n m :
  wf_children cs = true -> In (File n m) cs ->
  (In n (discover parent root cs) <-> file_ok n m = true).
Proof.
  intros Hwf Hin. rewrite discover_iff.
  assert (He : In ([], n, m) (all_files cs)).
  { unfold all_files. apply in_flat_map. exists (File n m). split; [exact Hin | left; reflexivity]. }
  change n with (entry_path ([], n, m)) at 1. rewrite (is_hook_entry cs _ Hwf He).
  unfold entry_is_hook, file_ok. cbn [forallb]. rewrite andb_true_r. reflexivity.
Qed.

(* ------------------------------------------------------------------ *)
(* E. the file-by-file predicates                                      *)
(* ------------------------------------------------------------------ *)

Lemma count_notin x l : ~ In x l -> count x l = 0%nat.
Proof.
  unfold count. induction l as [|a l IH]; intros H; cbn [filter]; [reflexivity|].
  destruct (bytes_eqb x a) eqn:E.
  - apply bytes_eqb_eq in E. subst a. exfalso. apply H. left; reflexivity.
  - apply IH. intros Hin. apply H. right; exact Hin.
Qed.

Lemma count_nodup x l : NoDup l -> In x l -> count x l = 1%nat.
Proof.
  unfold count. induction l as [|a l IH]; intros Hn Hin; [destruct Hin|].
  inversion Hn as [|? ? Hni Hn']; subst. cbn [filter].
  destruct (bytes_eqb x a) eqn:E.
  - apply bytes_eqb_eq in E. subst a. cbn [length]. f_equal. apply (count_notin x l Hni).
  - destruct Hin as [<-|Hin]; [rewrite bytes_eqb_refl in E; discriminate|]. apply IH; assumption.
Qed.

Lemma P_each_file_model i :
  wf_children (i_children i) = true -> P_each_file i (model_of i) = true.
Proof.
  intros Hwf. unfold P_each_file, model_of. cbn [o_paths]. rewrite wd_of_eq.
  rewrite strip_all_shape by apply paths_shape.
  set (rels := map (rel (working_dir (i_parent i) (i_root i))) (get_executable_paths (i_parent i) (i_root i) (i_children i))).
  assert (Hnd : NoDup rels).
  { apply NoDup_map_rel; [apply paths_shape | apply paths_nodup; exact Hwf]. }
  apply forallb_forall. intros e He. apply Nat.eqb_eq.
  pose proof (is_hook_entry _ e Hwf He) as Hiff.
  destruct (entry_is_hook e) eqn:Hh.
  - apply count_nodup; [exact Hnd|]. apply rel_paths_iff. apply Hiff. reflexivity.
  - apply count_notin. intros Hin. apply rel_paths_iff in Hin. apply Hiff in Hin. discriminate.
Qed.

Lemma io_asked_init_obs_of r : io_asked (init_obs_of r) = asked r.
Proof. unfold init_obs_of. destruct (result r); reflexivity. Qed.

Lemma P_each_file_init_model i :
  wf_children (i_children i) = true ->
  P_each_file_init i (init_obs_of (init (i_parent i) (i_root i) (i_children i) (beh_of i))) = true.
Proof.
  intros Hwf.
  set (parent := i_parent i). set (root := i_root i). set (cs := i_children i).
  set (wd := working_dir parent root). set (r := init parent root cs (beh_of i)).
  unfold P_each_file_init. rewrite io_asked_init_obs_of, wd_of_eq. fold parent root wd cs.
  destruct (init_asked_prefix parent root cs (beh_of i)) as [rest E]. fold r in E.
  assert (Hshape : forall q, In q (asked r) -> q = join_path wd (rel wd q)).
  { intros q Hq. apply (sorted_paths_shape parent root cs). rewrite E. apply in_or_app. left; exact Hq. }
  rewrite strip_all_shape by exact Hshape.
  assert (Hsub : forall x, In x (map (rel wd) (asked r)) -> In x (discover parent root cs)).
  { intros x Hx. unfold discover. fold wd. rewrite E, map_app. apply in_or_app. left; exact Hx. }
  assert (Hnd : NoDup (map (rel wd) (asked r))).
  { pose proof (discover_nodup parent root cs Hwf) as Hn. unfold discover in Hn. fold wd in Hn.
    rewrite E, map_app in Hn. exact (NoDup_app_l _ _ Hn). }
  apply forallb_forall. intros e He.
  pose proof (is_hook_entry cs e Hwf He) as Hiff. cbn zeta.
  destruct (entry_is_hook e) eqn:Hh.
  - destruct (N.eqb (io_status (init_obs_of r)) 0) eqn:Est.
    + apply io_status_init_obs_of in Est. destruct (init_ok_all parent root cs (beh_of i) Est) as [Ha _].
      fold r in Ha. apply Nat.eqb_eq. apply count_nodup; [exact Hnd|].
      rewrite Ha. fold (discover parent root cs). apply discover_iff. apply Hiff. reflexivity.
    + apply Nat.leb_le.
      destruct (in_dec (list_eq_dec N.eq_dec) (entry_path e) (map (rel wd) (asked r))) as [Hin|Hni].
      * rewrite (count_nodup _ _ Hnd Hin). apply le_n.
      * rewrite (count_notin _ _ Hni). apply le_S, le_n.
  - apply Nat.eqb_eq. apply count_notin. intros Hin. apply Hsub in Hin. apply discover_iff in Hin.
    apply Hiff in Hin. discriminate.
Qed.

Lemma P_files_model i : wf_children (i_children i) = true -> P_files i (model_of i) = true.
Proof.
  intros Hwf. unfold P_files. rewrite (P_each_file_model i Hwf). cbn [andb].
  unfold model_of. cbn [o_init]. destruct (i_with_init i); [|reflexivity].
  apply P_each_file_init_model. exact Hwf.
Qed.
