(* C10_Model.v — executable model of hook-config loading of /repo, AFTER parsing:

     pkg/hook/config/versioned_untyped.go   version detection
     pkg/hook/config/schemas.go             the v1 / v0 OpenAPI schemas (written below as data,
                                            key by key after the YAML) + validator.go
     pkg/hook/config/config_v1.go           ConvertAndCheck v1: checks (after the repair of F18: namespace.labelSelector
                                            of kubernetes bindings is validated too), defaults, includes, group merge, settings
     pkg/hook/config/config_v0.go           ConvertAndCheck v0 (after the repairs of F15: full objects kept, and
                                            F17: no 'event' key means all three events)
     pkg/hook/config/config.go              LoadAndValidate, CheckIncludeSnapshots
     pkg/hook/config/util.go                MergeArrays

   [load : json -> result] takes the parsed document (what yaml.Unmarshal hands to the code).
   The Go code interleaves checking and converting binding by binding and returns the first
   error; every error is observed as "rejected", so the model checks first ([checks_v1]) and
   converts afterwards ([convert_v1]) — observationally the same.
   External validators are oracles (Section variables): robfig/cron (crontab), apimachinery
   LabelSelectorAsSelector (label selectors: keys and values; its operator-versus-values rule is
   written out, [lsel_opvals_ok]), time.ParseDuration (settings), the webhook
   validation adapted from kubernetes (IsFullyQualifiedName, rules, timeout range, selectors).
   No proofs in this file. *)
From Coq Require Import String.
From Verif Require Import Common Json.

Definition bs (s : string) : bytes := map Ascii.N_of_ascii (list_ascii_of_string s).
Arguments bs s%string_scope.

Definition is_some {A} (o : option A) : bool := match o with Some _ => true | None => false end.
Definition is_nil {A} (l : list A) : bool := match l with [] => true | _ => false end.
Definition mem_bytes (x : bytes) (l : list bytes) : bool := existsb (bytes_eqb x) l.

(* ---- validator.go + go-openapi: the subset of JSON schema that schemas.go uses ---- *)

Inductive sch :=
| SAny
| SStr | SBool | SInt                       (* type: string | boolean | integer *)
| SEnum (vals : list bytes)                 (* type: string with enum *)
| SArr (min : nat) (item : sch)             (* type: array, minItems, items *)
| SObj (required : list bytes)              (* type: object *)
       (props : list (bytes * sch))         (*   properties (and the anchored patternProperties) *)
       (additional : option sch)            (*   None = additionalProperties: false *)
       (minp : nat) (maxp : option nat).    (*   minProperties / maxProperties *)

Fixpoint check (s : sch) (j : json) {struct s} : bool :=
  match s with
  | SAny => true
  | SStr => match j with JStr _ => true | _ => false end
  | SBool => match j with JBool _ => true | _ => false end
  | SInt => match j with JNum _ => true | _ => false end
  | SEnum vs => match j with JStr x => mem_bytes x vs | _ => false end
  | SArr min it =>
      match j with
      | JArr l => Nat.leb min (length l) && forallb (check it) l
      | _ => false
      end
  | SObj req props add minp maxp =>
      match j with
      | JObj m =>
          forallb (fun k => is_some (assoc k m)) req
          && forallb (fun kv =>
                        (fix look (ps : list (bytes * sch)) : bool :=
                           match ps with
                           | [] => match add with Some a => check a (snd kv) | None => false end
                           | (k', s') :: r => if bytes_eqb (fst kv) k' then check s' (snd kv) else look r
                           end) props) m
          && Nat.leb minp (length m)
          && match maxp with Some n => Nat.leb (length m) n | None => true end
      | _ => false
      end
  end.

(* ---- schemas.go, "v1" ---- *)

Definition obj (req : list bytes) (props : list (bytes * sch)) : sch := SObj req props None 0 None.

Definition nameSelector_s : sch :=
  obj [bs "matchNames"] [(bs "matchNames", SArr 0 SStr)].

Definition labelSelector_s : sch :=
  SObj [] [(bs "matchLabels", SObj [] [] (Some SStr) 0 None);
           (bs "matchExpressions",
            SArr 0 (obj [bs "key"; bs "operator"]
                        [(bs "key", SStr);
                         (bs "operator", SEnum [bs "In"; bs "NotIn"; bs "Exists"; bs "DoesNotExist"]);
                         (bs "values", SArr 0 SStr)]))]
       None 1 (Some 2).

Definition events_s : sch := SArr 0 (SEnum [bs "Added"; bs "Modified"; bs "Deleted"]).

Definition includes_s : sch := SArr 1 SStr.

Definition schedule_item_s : sch :=
  obj [bs "crontab"]
      [(bs "name", SStr); (bs "crontab", SStr); (bs "allowFailure", SBool);
       (bs "includeSnapshotsFrom", includes_s); (bs "queue", SStr); (bs "group", SStr)].

Definition fieldSelector_s : sch :=
  obj [bs "matchExpressions"]
      [(bs "matchExpressions",
        SArr 0 (SObj [] [(bs "field", SStr);
                         (bs "operator", SEnum [bs "="; bs "=="; bs "Equals"; bs "!="; bs "NotEquals"]);
                         (bs "value", SStr)]
                     None 3 (Some 3)))].

Definition namespace_s : sch :=
  SObj [] [(bs "nameSelector", nameSelector_s); (bs "labelSelector", labelSelector_s)] None 1 (Some 2).

Definition kubernetes_item_s : sch :=
  obj [bs "kind"]
      [(bs "watchEvent", events_s); (bs "executeHookOnEvent", events_s);
       (bs "name", SStr); (bs "apiVersion", SStr); (bs "kind", SStr);
       (bs "includeSnapshotsFrom", includes_s); (bs "queue", SStr); (bs "jqFilter", SStr);
       (bs "keepFullObjectsInMemory", SBool); (bs "allowFailure", SBool);
       (bs "executeHookOnSynchronization", SBool); (bs "waitForSynchronization", SBool);
       (bs "resynchronizationPeriod", SStr);
       (bs "nameSelector", nameSelector_s); (bs "labelSelector", labelSelector_s);
       (bs "fieldSelector", fieldSelector_s); (bs "group", SStr); (bs "namespace", namespace_s)].

Definition rule_s : sch :=
  obj [bs "apiVersions"; bs "apiGroups"; bs "resources"; bs "operations"]
      [(bs "apiVersions", SArr 1 SStr); (bs "apiGroups", SArr 1 SStr); (bs "resources", SArr 1 SStr);
       (bs "operations", SArr 1 (SEnum [bs "CREATE"; bs "UPDATE"; bs "DELETE"; bs "CONNECT"; bs "*"]));
       (bs "scope", SEnum [bs "Cluster"; bs "Namespaced"; bs "*"])].

Definition admission_item_s : sch :=
  obj [bs "name"]
      [(bs "name", SStr); (bs "group", SStr); (bs "includeSnapshotsFrom", includes_s);
       (bs "failurePolicy", SEnum [bs "Ignore"; bs "Fail"]);
       (bs "sideEffects", SEnum [bs "None"; bs "NoneOnDryRun"]);
       (bs "timeoutSeconds", SInt);
       (bs "matchConditions",
        SArr 0 (SObj [bs "expression"; bs "name"] [(bs "expression", SStr); (bs "name", SStr)] (Some SAny) 0 None));
       (bs "labelSelector", labelSelector_s);
       (bs "namespace", obj [bs "labelSelector"] [(bs "labelSelector", labelSelector_s)]);
       (bs "rules", SArr 1 rule_s)].

Definition conversion_item_s : sch :=
  obj [bs "name"; bs "crdName"; bs "conversions"]
      [(bs "name", SStr); (bs "group", SStr); (bs "includeSnapshotsFrom", includes_s);
       (bs "crdName", SStr);
       (bs "conversions",
        SArr 1 (obj [bs "fromVersion"; bs "toVersion"] [(bs "fromVersion", SStr); (bs "toVersion", SStr)]))].

Definition schema_v1 : sch :=
  SObj [bs "configVersion"]
       [(bs "configVersion", SEnum [bs "v1"]);
        (bs "settings", obj [] [(bs "executionMinInterval", SStr); (bs "executionBurst", SInt)]);
        (bs "onStartup", SInt);
        (bs "schedule", SArr 1 schedule_item_s);
        (bs "kubernetes", SArr 1 kubernetes_item_s);
        (bs "kubernetesMutating", SArr 1 admission_item_s);
        (bs "kubernetesValidating", SArr 1 admission_item_s);
        (bs "kubernetesCustomResourceConversion", SArr 1 conversion_item_s)]
       None 2 None.

(* ---- schemas.go, "v0" ---- *)

Definition any_object_s : sch := SObj [] [] (Some SAny) 0 None.

Definition schema_v0 : sch :=
  SObj [] [(bs "onStartup", SInt); (bs "schedule", SArr 0 any_object_s);
           (bs "onKubernetesEvent", SArr 0 any_object_s)]
       None 1 None.

(* ---- accessors on the parsed document ---- *)

Definition get_str (k : bytes) (j : json) : bytes :=
  match jget k j with Some (JStr s) => s | _ => [] end.
Definition get_bool (k : bytes) (d : bool) (j : json) : bool :=
  match jget k j with Some (JBool b) => b | _ => d end.
Definition get_arr (k : bytes) (j : json) : list json :=
  match jget k j with Some (JArr l) => l | _ => [] end.
Definition strs (l : list json) : list bytes :=
  flat_map (fun x => match x with JStr s => [s] | _ => [] end) l.
Definition get_strs (k : bytes) (j : json) : list bytes := strs (get_arr k j).
Definition or_default (s d : bytes) : bytes := if is_nil s then d else s.

(* ---- the effective configuration ---- *)

Record sched := mkSched {
  s_name : bytes; s_queue : bytes; s_allow : bool; s_group : bytes; s_incl : list bytes; s_crontab : bytes }.

Record kube := mkKube {
  k_name : bytes; k_queue : bytes; k_allow : bool; k_group : bytes; k_incl : list bytes;
  k_events : list bytes;
  k_exec_sync : bool; k_wait_sync : bool; k_keep : bool;
  k_kind : bytes; k_api : bytes; k_jq : bytes;
  k_names : option (list bytes);          (* Monitor.NameSelector *)
  k_namespaces : option (list bytes);     (* Monitor.NamespaceSelector.NameSelector *)
  k_lsel : option json; k_fsel : option json; k_ns_lsel : option json }.

Record adm := mkAdm {
  a_name : bytes; a_group : bytes; a_incl : list bytes;
  a_failure : bytes; a_side : bytes; a_timeout : Z }.

Record conv := mkConv {
  v_name : bytes; v_group : bytes; v_incl : list bytes; v_crd : bytes; v_rules : list (bytes * bytes) }.

Record cfg := mkCfg {
  c_version : bytes;
  c_startup : option Z;
  c_settings : option (Z * Z);            (* ExecutionMinInterval in ns, ExecutionBurst *)
  c_scheds : list sched;
  c_kubes : list kube;
  c_validating : list adm;
  c_mutating : list adm;
  c_conv : list conv }.

Inductive result := Loaded (c : cfg) | Rejected.

(* ---- util.go: MergeArrays (unique elements of a2 that are not in a1, appended to a1) ---- *)

Fixpoint merge_extra (a1 a2 : list bytes) (seen : list bytes) : list bytes :=
  match a2 with
  | [] => []
  | x :: r => if mem_bytes x a1 || mem_bytes x seen then merge_extra a1 r seen
              else x :: merge_extra a1 r (x :: seen)
  end.
Definition merge_arrays (a1 a2 : list bytes) : list bytes := a1 ++ merge_extra a1 a2 [].

(* ---- config.go: CheckIncludeSnapshots ---- *)

Definition count_name (n : bytes) (names : list bytes) : nat := length (filter (bytes_eqb n) names).
Definition include_ok (kube_names : list bytes) (n : bytes) : bool := Nat.eqb (count_name n kube_names) 1.
Definition includes_ok (kube_names : list bytes) (incl : list bytes) : bool := forallb (include_ok kube_names) incl.

Definition all3 : list bytes := [bs "Added"; bs "Modified"; bs "Deleted"].

Section Oracles.
  Variable cron_ok : bytes -> bool.            (* robfig/cron.v2 Parse succeeds *)
  Variable label_selector_ok : json -> bool.   (* metav1.LabelSelectorAsSelector succeeds *)
  Variable duration_ns : bytes -> option Z.    (* time.ParseDuration *)
  Variable webhook_ok : json -> bool.          (* validation.ValidateValidatingWebhook on the binding *)

  (* ---- config_v1.go ---- *)

  Definition kube_eff_name (j : json) : bytes := or_default (get_str (bs "name") j) (bs "kubernetes").
  Definition kube_names_v1 (doc : json) : list bytes := map kube_eff_name (get_arr (bs "kubernetes") doc).

  (* schema.ParseGroupVersion: at most one "/" *)
  Definition api_version_ok (s : bytes) : bool := Nat.leb (length (filter (N.eqb 47) s)) 1.

  (* FormatLabelSelector = metav1.LabelSelectorAsSelector.  Its operator-versus-values rule is written
     out (labels.NewRequirement: "for 'in', 'notin' operators, values set can't be empty", "values set
     must be empty for exists and does not exist"); everything else it checks (label keys, label
     values) stays with the oracle. *)
  Definition lexpr_opvals_ok (e : json) : bool :=
    let op := get_str (bs "operator") e in
    let vals := get_arr (bs "values") e in
    if bytes_eqb op (bs "In") || bytes_eqb op (bs "NotIn") then negb (is_nil vals)
    else if bytes_eqb op (bs "Exists") || bytes_eqb op (bs "DoesNotExist") then is_nil vals
    else true.                                   (* any other operator: the schema's enum rejects it *)
  Definition lsel_opvals_ok (s : json) : bool := forallb lexpr_opvals_ok (get_arr (bs "matchExpressions") s).

  Definition opt_sel_ok (k : bytes) (j : json) : bool :=
    match jget k j with Some s => lsel_opvals_ok s && label_selector_ok s | None => true end.

  (* CheckOnKubernetesEvent *)
  Definition check_kube (j : json) : bool :=
    api_version_ok (get_str (bs "apiVersion") j)
    && opt_sel_ok (bs "labelSelector") j
    && match jget (bs "namespace") j with Some ns => opt_sel_ok (bs "labelSelector") ns | None => true end  (* F18 repair *)
    && negb (negb (is_nil (match jget (bs "nameSelector") j with Some ns => get_arr (bs "matchNames") ns | None => [] end))
             && existsb (fun e => bytes_eqb (get_str (bs "field") e) (bs "metadata.name"))
                        (match jget (bs "fieldSelector") j with Some fs => get_arr (bs "matchExpressions") fs | None => [] end)).

  (* CheckSchedule / CheckAdmission / CheckConversion *)
  Definition check_sched (names : list bytes) (j : json) : bool :=
    cron_ok (get_str (bs "crontab") j) && includes_ok names (get_strs (bs "includeSnapshotsFrom") j).

  Definition check_adm (names : list bytes) (j : json) : bool :=
    includes_ok names (get_strs (bs "includeSnapshotsFrom") j)
    && opt_sel_ok (bs "labelSelector") j
    && match jget (bs "namespace") j with Some ns => opt_sel_ok (bs "labelSelector") ns | None => true end.

  Definition check_conv (names : list bytes) (j : json) : bool :=
    includes_ok names (get_strs (bs "includeSnapshotsFrom") j).

  Fixpoint nodup_nonempty (l : list bytes) : bool :=
    match l with
    | [] => true
    | x :: r => (is_nil x || negb (mem_bytes x r)) && nodup_nonempty r
    end.

  (* CheckAndConvertSettings: both values must parse ("" does not) *)
  Definition settings_of (doc : json) : option (option (Z * Z)) :=
    match jget (bs "settings") doc with
    | None => Some None
    | Some s =>
        match duration_ns (get_str (bs "executionMinInterval") s), jget (bs "executionBurst") s with
        | Some ns, Some (JNum b) => if (Z.leb (-2147483648) b && Z.leb b 2147483647)%Z then Some (Some (ns, b)) else None
        | _, _ => None
        end
    end.

  Definition checks_v1 (doc : json) : bool :=
    let names := kube_names_v1 doc in
    is_some (settings_of doc)
    && forallb check_kube (get_arr (bs "kubernetes") doc)
    && forallb (fun j => includes_ok names (get_strs (bs "includeSnapshotsFrom") j)) (get_arr (bs "kubernetes") doc)
    && forallb (check_sched names) (get_arr (bs "schedule") doc)
    && forallb (check_adm names) (get_arr (bs "kubernetesValidating") doc)
    && forallb webhook_ok (get_arr (bs "kubernetesValidating") doc)
    && nodup_nonempty (map (get_str (bs "name")) (get_arr (bs "kubernetesValidating") doc))
    && forallb (check_adm names) (get_arr (bs "kubernetesMutating") doc)
    && forallb (check_conv names) (get_arr (bs "kubernetesCustomResourceConversion") doc).

  (* group -> names of its kubernetes bindings, in declaration order *)
  Definition group_names (doc : json) (g : bytes) : list bytes :=
    map kube_eff_name (filter (fun j => bytes_eqb (get_str (bs "group") j) g) (get_arr (bs "kubernetes") doc)).

  (* "Update IncludeSnapshotsFrom for every binding with a group" *)
  Definition eff_incl (doc : json) (j : json) : list bytes :=
    let incl := get_strs (bs "includeSnapshotsFrom") j in
    let g := get_str (bs "group") j in
    if is_nil g then incl
    else if is_nil (group_names doc g) then incl
    else merge_arrays incl (group_names doc g).

  Definition queue_of (j : json) : bytes := or_default (get_str (bs "queue") j) (bs "main").

  Definition conv_sched (doc j : json) : sched :=
    mkSched (or_default (get_str (bs "name") j) (bs "schedule")) (queue_of j)
            (get_bool (bs "allowFailure") false j) (get_str (bs "group") j) (eff_incl doc j)
            (get_str (bs "crontab") j).

  Definition opt_names (o : option json) : option (list bytes) :=
    match o with Some ns => Some (get_strs (bs "matchNames") ns) | None => None end.

  Definition conv_kube (doc j : json) : kube :=
    mkKube (kube_eff_name j) (queue_of j) (get_bool (bs "allowFailure") false j) (get_str (bs "group") j)
           (eff_incl doc j)
           (match jget (bs "executeHookOnEvent") j with
            | Some (JArr l) => strs l
            | _ => match jget (bs "watchEvent") j with Some (JArr l) => strs l | _ => all3 end
            end)
           (get_bool (bs "executeHookOnSynchronization") true j)
           (negb (negb (get_bool (bs "waitForSynchronization") true j) && negb (is_nil (get_str (bs "queue") j))))
           (get_bool (bs "keepFullObjectsInMemory") true j)
           (get_str (bs "kind") j) (get_str (bs "apiVersion") j) (get_str (bs "jqFilter") j)
           (opt_names (jget (bs "nameSelector") j))
           (match jget (bs "namespace") j with Some ns => opt_names (jget (bs "nameSelector") ns) | None => None end)
           (jget (bs "labelSelector") j) (jget (bs "fieldSelector") j)
           (match jget (bs "namespace") j with Some ns => jget (bs "labelSelector") ns | None => None end).

  Definition conv_adm (default_failure : bytes) (doc j : json) : adm :=
    mkAdm (get_str (bs "name") j) (get_str (bs "group") j) (eff_incl doc j)
          (or_default (get_str (bs "failurePolicy") j) default_failure)
          (or_default (get_str (bs "sideEffects") j) (bs "None"))
          (match jget (bs "timeoutSeconds") j with Some (JNum z) => z | _ => 10%Z end).

  Definition conv_conv (doc j : json) : conv :=
    mkConv (get_str (bs "name") j) (get_str (bs "group") j) (eff_incl doc j) (get_str (bs "crdName") j)
           (map (fun r => (get_str (bs "fromVersion") r, get_str (bs "toVersion") r)) (get_arr (bs "conversions") j)).

  Definition startup_of (doc : json) : option Z :=
    match jget (bs "onStartup") doc with Some (JNum z) => Some z | _ => None end.

  Definition convert_v1 (doc : json) : cfg :=
    mkCfg (bs "v1") (startup_of doc)
          (match settings_of doc with Some s => s | None => None end)
          (map (conv_sched doc) (get_arr (bs "schedule") doc))
          (map (conv_kube doc) (get_arr (bs "kubernetes") doc))
          (map (conv_adm (bs "Fail") doc) (get_arr (bs "kubernetesValidating") doc))
          (map (conv_adm (bs "Fail") doc) (get_arr (bs "kubernetesMutating") doc))
          (map (conv_conv doc) (get_arr (bs "kubernetesCustomResourceConversion") doc)).

  (* ---- config_v0.go (typed unmarshal of the items + ConvertAndCheck) ---- *)

  (* a Go string field: sigs.k8s.io/yaml renders scalars as strings; arrays/objects fail *)
  Definition v0_str_ok (k : bytes) (j : json) : bool :=
    match jget k j with Some (JArr _) | Some (JObj _) => false | _ => true end.
  Definition v0_bool_ok (k : bytes) (j : json) : bool :=
    match jget k j with Some (JBool _) | Some JNull | None => true | _ => false end.
  Definition v0_strs_ok (k : bytes) (j : json) : bool :=
    match jget k j with
    | Some (JArr l) => forallb (fun x => match x with JArr _ | JObj _ => false | _ => true end) l
    | Some JNull | None => true
    | _ => false
    end.

  Definition check_sched_v0 (j : json) : bool :=
    v0_str_ok (bs "name") j && v0_str_ok (bs "crontab") j && v0_bool_ok (bs "allowFailure") j
    && cron_ok (get_str (bs "crontab") j).

  Definition v0_event (e : json) : option bytes :=
    match e with
    | JStr s => if bytes_eqb s (bs "add") then Some (bs "Added")
                else if bytes_eqb s (bs "update") then Some (bs "Modified")
                else if bytes_eqb s (bs "delete") then Some (bs "Deleted")
                else None
    | _ => None
    end.

  Definition check_kube_v0 (j : json) : bool :=
    v0_str_ok (bs "name") j && v0_str_ok (bs "kind") j && v0_str_ok (bs "objectName") j
    && v0_str_ok (bs "jqFilter") j && v0_bool_ok (bs "allowFailure") j
    && v0_strs_ok (bs "event") j
    && forallb (fun e => is_some (v0_event e)) (get_arr (bs "event") j)
    && match jget (bs "selector") j with Some (JObj _) | Some JNull | None => true | _ => false end
    && match jget (bs "namespaceSelector") j with
       | Some (JObj _ as ns) => v0_strs_ok (bs "matchNames") ns && v0_bool_ok (bs "any") ns
       | Some JNull | None => true
       | _ => false
       end.

  Definition checks_v0 (doc : json) : bool :=
    forallb check_sched_v0 (get_arr (bs "schedule") doc)
    && forallb check_kube_v0 (get_arr (bs "onKubernetesEvent") doc).

  Definition conv_sched_v0 (j : json) : sched :=
    mkSched (or_default (get_str (bs "name") j) (bs "schedule")) (bs "main")
            (get_bool (bs "allowFailure") false j) [] [] (get_str (bs "crontab") j).

  Definition conv_kube_v0 (j : json) : kube :=
    mkKube (or_default (get_str (bs "name") j) (bs "onKubernetesEvent")) (bs "main")
           (get_bool (bs "allowFailure") false j) [] []
           (match jget (bs "event") j with
            | Some (JArr l) => flat_map (fun e => match v0_event e with Some x => [x] | None => [] end) l
            | _ => all3                 (* no 'event' key: all three (F17 repair) *)
            end)
           false false true        (* no Synchronization run in v0; full objects kept (F15) *)
           (get_str (bs "kind") j) [] (get_str (bs "jqFilter") j)
           (if is_nil (get_str (bs "objectName") j) then None else Some [get_str (bs "objectName") j])
           (match jget (bs "namespaceSelector") j with
            | Some (JObj _ as ns) => if get_bool (bs "any") false ns then None else Some (get_strs (bs "matchNames") ns)
            | _ => None
            end)
           (match jget (bs "selector") j with Some (JObj m) => Some (JObj m) | _ => None end)
           None None.

  Definition convert_v0 (doc : json) : cfg :=
    mkCfg (bs "v0") (startup_of doc) None
          (map conv_sched_v0 (get_arr (bs "schedule") doc))
          (map conv_kube_v0 (get_arr (bs "onKubernetesEvent") doc))
          [] [] [].

  (* ---- versioned_untyped.go + config.go: LoadAndValidate ---- *)

  Inductive vers := VerV0 | VerV1 | VerBad.

  Definition detect_version (doc : json) : vers :=
    match doc with
    | JObj m =>
        match assoc (bs "configVersion") m with
        | None => VerV0                                  (* key absent: legacy v0 *)
        | Some (JStr s) => if bytes_eqb s (bs "v1") then VerV1
                           else if bytes_eqb s (bs "v0") then VerV0   (* Schemas has a "v0" entry *)
                           else VerBad
        | Some _ => VerBad                               (* null or not a string *)
        end
    | JNull => VerV0                                     (* empty document: nil map, no key *)
    | _ => VerBad                                        (* yaml.Unmarshal into a map fails *)
    end.

  Definition load (doc : json) : result :=
    match detect_version doc with
    | VerBad => Rejected
    | VerV1 => if check schema_v1 doc && checks_v1 doc then Loaded (convert_v1 doc) else Rejected
    | VerV0 => if check schema_v0 doc && checks_v0 doc then Loaded (convert_v0 doc) else Rejected
    end.
End Oracles.

(* ---- the canonical JSON projection of an effective config (what the harness dumps) ---- *)

Definition mkobj (l : list (bytes * json)) : json :=
  JObj (fold_left (fun a kv => obj_set (fst kv) (snd kv) a) l []).
Definition jstrs (l : list bytes) : json := JArr (map JStr l).
Definition jopt {A} (f : A -> json) (o : option A) : json := match o with Some x => f x | None => JNull end.

Definition sched_json (s : sched) : json :=
  mkobj [(bs "name", JStr (s_name s)); (bs "queue", JStr (s_queue s)); (bs "allowFailure", JBool (s_allow s));
         (bs "group", JStr (s_group s)); (bs "includeSnapshotsFrom", jstrs (s_incl s));
         (bs "crontab", JStr (s_crontab s))].

Definition kube_json (k : kube) : json :=
  mkobj [(bs "name", JStr (k_name k)); (bs "queue", JStr (k_queue k)); (bs "allowFailure", JBool (k_allow k));
         (bs "group", JStr (k_group k)); (bs "includeSnapshotsFrom", jstrs (k_incl k));
         (bs "events", jstrs (k_events k));
         (bs "executeHookOnSynchronization", JBool (k_exec_sync k));
         (bs "waitForSynchronization", JBool (k_wait_sync k));
         (bs "keepFullObjectsInMemory", JBool (k_keep k));
         (bs "monitorKeepFullObjectsInMemory", JBool (k_keep k));
         (bs "kind", JStr (k_kind k)); (bs "apiVersion", JStr (k_api k)); (bs "jqFilter", JStr (k_jq k));
         (bs "names", jopt jstrs (k_names k)); (bs "namespaces", jopt jstrs (k_namespaces k));
         (bs "labelSelector", jopt (fun x => x) (k_lsel k)); (bs "fieldSelector", jopt (fun x => x) (k_fsel k));
         (bs "namespaceLabelSelector", jopt (fun x => x) (k_ns_lsel k))].

Definition adm_json (a : adm) : json :=
  mkobj [(bs "name", JStr (a_name a)); (bs "group", JStr (a_group a)); (bs "includeSnapshotsFrom", jstrs (a_incl a));
         (bs "failurePolicy", JStr (a_failure a)); (bs "sideEffects", JStr (a_side a));
         (bs "timeoutSeconds", JNum (a_timeout a))].

Definition conv_json (v : conv) : json :=
  mkobj [(bs "name", JStr (v_name v)); (bs "group", JStr (v_group v)); (bs "includeSnapshotsFrom", jstrs (v_incl v));
         (bs "crdName", JStr (v_crd v));
         (bs "conversions", JArr (map (fun r => JArr [JStr (fst r); JStr (snd r)]) (v_rules v)))].

Definition cfg_json (c : cfg) : json :=
  mkobj [(bs "version", JStr (c_version c));
         (bs "onStartup", jopt JNum (c_startup c));
         (bs "settings", jopt (fun s => mkobj [(bs "intervalNs", JNum (fst s)); (bs "burst", JNum (snd s))]) (c_settings c));
         (bs "schedule", JArr (map sched_json (c_scheds c)));
         (bs "kubernetes", JArr (map kube_json (c_kubes c)));
         (bs "kubernetesValidating", JArr (map adm_json (c_validating c)));
         (bs "kubernetesMutating", JArr (map adm_json (c_mutating c)));
         (bs "kubernetesCustomResourceConversion", JArr (map conv_json (c_conv c)))].
