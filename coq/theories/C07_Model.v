(* C07_Model.v — executable model of
     pkg/shell-operator/combine_binding_context.go : combineBindingContextForHook
     pkg/shell-operator/operator.go:705-810        : CombineBindingContextForHook (exported twin,
                                                     the same text with op.TaskQueues for tqs)
     pkg/task/queue/task_queue.go                  : Iterate, Filter
   No proofs here.

   The Go function reads the queue twice: [q.Iterate] (under the read lock) collects the
   tasks to merge, later [tqs.GetByName(t.GetQueueName()).Filter] (under the write lock)
   deletes them by id.  Between the two the lock is free, so the queue that Filter sees
   may have grown.  The model therefore takes BOTH states: [qi] the items seen by Iterate
   and [qf] the items seen by Filter ([qf = qi] sequentially, [qf = qi ++ appended] when
   tasks were appended in between). *)
From Verif Require Import Common.

(* a binding context: [c_tag] identifies it (binding name etc.), [c_group] is
   Metadata.Group with 0 standing for the empty string *)
Record ctx := mkCtx { c_tag : N; c_group : N }.

(* a queued task.  [t_meta = false] is a task whose GetMetadata() is nil (the other
   metadata fields are then meaningless).  [t_ty] is GetType(). *)
Record task := mkTask {
  t_id : N; t_hook : N; t_ty : N; t_meta : bool; t_ctxs : list ctx; t_mids : list N }.

Record result := mkResult { r_ctxs : list ctx; r_mids : list N }.
(* Not modelled: the field CombineResult.AllowFailure (commit b66e651: false iff some
   merged task does not allow failure; the caller and-s it into hookMeta.AllowFailure for
   the retry decision, property C04).  It does not influence contexts, monitor ids or the
   queue; the exported twin does not compute it. *)

(* ---- q.Iterate(func(tsk) {...}) : lines 38-68 ---- *)
(* state of the closure: (stopIterate, otherTasks).  [stopfn] is stopCombineFn
   (nil is the constantly-false function). *)
Definition iter_step (t : task) (stopfn : task -> bool)
           (st : bool * list task) (tsk : task) : bool * list task :=
  let '(stopIterate, otherTasks) := st in
  if stopIterate then st                                   (* if stopIterate { return } *)
  else if N.eqb (t_id tsk) (t_id t) then st                (* ignore current task *)
  else if negb (t_meta tsk) then (true, otherTasks)        (* stop on task without metadata *)
  else
    let stopIterate' :=
      if N.eqb (t_hook tsk) (t_hook t) && N.eqb (t_ty t) (t_ty tsk)
      then stopfn tsk                                      (* stopCombineFn(tsk), false when nil *)
      else true in
    if negb stopIterate' then (stopIterate', otherTasks ++ [tsk])
    else (stopIterate', otherTasks).

Definition iterate_collect (t : task) (stopfn : task -> bool) (qi : list task) : list task :=
  snd (fold_left (iter_step t stopfn) qi (false, [])).

(* ---- tasksFilter : map[string]bool, as an association list, newest binding first ---- *)
Definition fmap := list (N * bool).
Definition fmap_set (k : N) (v : bool) (m : fmap) : fmap := (k, v) :: m.
Fixpoint fmap_get (k : N) (m : fmap) : option bool :=
  match m with
  | [] => None
  | (k', v) :: r => if N.eqb k' k then Some v else fmap_get k r
  end.

(* ---- the loop over otherTasks : lines 82-89 ---- *)
Definition merge_step (st : list ctx * list N * fmap) (tsk : task) : list ctx * list N * fmap :=
  let '(combinedContext, monitorIDs, tasksFilter) := st in
  (combinedContext ++ t_ctxs tsk,
   match t_mids tsk with [] => monitorIDs | _ :: _ => monitorIDs ++ t_mids tsk end,
   fmap_set (t_id tsk) false tasksFilter).

(* ---- Filter(func(tsk) bool {...}) : lines 91-98, task_queue.go Filter ---- *)
Definition keep_task (tasksFilter : fmap) (tsk : task) : bool :=
  match fmap_get (t_id tsk) tasksFilter with
  | Some v => v
  | None => true
  end.

(* ---- compaction loop : lines 100-115 ----
   for i := 0; i < len; i++ { keep := true
     if group != "" && i+1 <= len-1 && combined[i+1].group == group { keep = false } ... } *)
Fixpoint compact (l : list ctx) : list ctx :=
  match l with
  | [] => []
  | c :: r =>
      let keep :=
        negb (negb (N.eqb (c_group c) 0)
              && match r with
                 | nxt :: _ => N.eqb (c_group nxt) (c_group c)
                 | [] => false
                 end) in
      if keep then c :: compact r else compact r
  end.

(* ---- the whole function ---- *)
Definition combine_at (stopfn : task -> bool) (t : task) (qi qf : list task)
  : option result * list task :=
  if negb (t_meta t) then (None, qf)                        (* taskMeta == nil *)
  else
    let otherTasks := iterate_collect t stopfn qi in
    match otherTasks with
    | [] => (None, qf)                                      (* no tasks found to combine *)
    | _ :: _ =>
        let '(combinedContext, monitorIDs, tasksFilter) :=
          fold_left merge_step otherTasks
                    (t_ctxs t, t_mids t, fmap_set (t_id t) true []) in
        let qf' := filter (keep_task tasksFilter) qf in
        (Some (mkResult (compact combinedContext) monitorIDs), qf')
    end.

(* sequential call, and a call during which [appended] arrived between Iterate and Filter *)
Definition combine (stopfn : task -> bool) (t : task) (q : list task) :=
  combine_at stopfn t q q.
Definition combine_concurrent (stopfn : task -> bool) (t : task) (q appended : list task) :=
  combine_at stopfn t q (q ++ appended).

(* ---- the caller, operator.go:574-582: what the hook is then run with ---- *)
Definition delivered_ctxs (t : task) (r : option result) : list ctx :=
  match r with
  | None => t_ctxs t
  | Some r => r_ctxs r                     (* hookMeta.BindingContext = combineResult.BindingContexts *)
  end.
Definition delivered_mids (t : task) (r : option result) : list N :=
  match r with
  | None => t_mids t
  | Some r => match r_mids r with [] => t_mids t | _ :: _ => r_mids r end
                                           (* if len(MonitorIDs) > 0 { hookMeta.MonitorIDs = ... } *)
  end.

(* operator.go, taskHandleHookRun: the gate in front of the call (documented here, not part
   of the function under study): combine is attempted only for a v1 hook that is going to
   run, and not for a kubernetes Synchronization context without a group.  Since commit
   7b8a7f4 the caller passes a non-nil stopCombineFn when the head is a Synchronization
   (stop at the first same-hook Synchronization task with ExecuteOnSynchronization =
   false); the model, the spec and every theorem take [stopfn] as an arbitrary predicate,
   so this is an instance. *)
Definition should_combine (should_run_hook is_v1 is_kube_event first_is_synchronization : bool)
           (group : N) : bool :=
  should_run_hook && is_v1
  && negb (is_kube_event && first_is_synchronization && N.eqb group 0).

(* ---- inputs and observations ---- *)
(* [i_t] the task being executed, [i_stop] ids at which the caller's stopCombineFn says
   stop ([] = nil function), [i_q] the queue when the call starts, [i_app] tasks appended
   to the queue while the combination is in progress *)
Record input := mkIn { i_t : task; i_stop : list N; i_q : list task; i_app : list task }.
(* [o_res] = the returned CombineResult (None = nil): contexts and monitor ids;
   [o_queue] = ids of the queue afterwards *)
Record obs := mkObs { o_res : option (list ctx * list N); o_queue : list N }.

Definition stop_of (ids : list N) (x : task) : bool := mem_N (t_id x) ids.

(* one observed call: what the function returned and the ids left in the queue *)
Definition run_model (i : input) : obs :=
  let '(r, q') := combine_concurrent (stop_of (i_stop i)) (i_t i) (i_q i) (i_app i) in
  mkObs (option_map (fun r => (r_ctxs r, r_mids r)) r) (map t_id q').
