(* C07_Model.v — executable model of
     pkg/shell-operator/combine_binding_context.go : combineBindingContextForHook
     pkg/shell-operator/operator.go:705-810        : CombineBindingContextForHook (exported twin,
                                                     the same text with op.TaskQueues for tqs)
     pkg/task/queue/task_queue.go                  : Iterate, Filter
   No proofs here.

   The Go function reads the queue twice: [q.Iterate] (under the read lock) collects the
   tasks to merge, later [tqs.GetByName(t.GetQueueName()).Filter] (under the write lock)
   deletes them by id.  Between the two the lock is free, so the queue that Filter sees
   may have grown.  The model therefore takes BOTH states: [qi] the items seen by Iterate
   and [qf] the items seen by Filter ([qf = qi] sequentially, [qf = qi ++ appended] when
   tasks were appended in between). *)
From Verif Require Import Common.

(* a binding context: [c_tag] identifies it (binding name etc.), [c_group] is
   Metadata.Group with 0 standing for the empty string, [c_sync] is BindingContext.IsSynchronization():
   Metadata.BindingType == OnKubernetesEvent && Type == Synchronization (part 3: the task
   handler looks at it; the function of parts 1 and 2 never does) *)
Record ctx := mkCtxK { c_tag : N; c_group : N; c_sync : bool }.
(* a context that is not a Synchronization (schedule, kubernetes Event, admission, ...) *)
Definition mkCtx (tag group : N) : ctx := mkCtxK tag group false.

(* a queued task.  [t_meta = false] is a task whose GetMetadata() is nil (the other
   metadata fields are then meaningless).  [t_ty] is GetType().  [t_qn] is GetQueueName(),
   the queue name the task CARRIES (0 stands for the empty string; queue names are numbered
   densely by the harness, 1 = "main"): the function under study never looks at the name of
   a queued task, only at the name of the executed one (part 2 below: the lookup in the
   queue set).  Tasks normally carry the name of the queue they sit in; the bootstrap tasks
   sit in "main" and carry "", the tasks of the admission / conversion webhook handlers
   carry "" and sit in no queue. *)
Record task := mkTaskK {
  t_id : N; t_hook : N; t_ty : N; t_meta : bool; t_ctxs : list ctx; t_mids : list N; t_qn : N;
  (* three more fields of HookMetadata, read by the task handler only (part 3):
     [t_kube] BindingType == OnKubernetesEvent, [t_group] HookMetadata.Group (0 = ""),
     [t_exec] ExecuteOnSynchronization (set from the binding's executeHookOnSynchronization by
     taskHandleEnableKubernetesBindings; false in every task built elsewhere) *)
  t_kube : bool; t_group : N; t_exec : bool;
  (* [t_af] HookMetadata.AllowFailure: the failure policy of the task's binding (`allowFailure` of a
     schedule / kubernetes binding; false in the tasks of the webhook handlers).  The combiner reads it
     for CombineResult.AllowFailure only ([collected_af] below); it takes no part in the choice of
     the tasks that are merged. *)
  t_af : bool }.
(* a task that is not of a kubernetes binding, with the default failure policy *)
Definition mkTask (id hook ty : N) (meta : bool) (cs : list ctx) (mids : list N) (qn : N) : task :=
  mkTaskK id hook ty meta cs mids qn false 0 false false.
(* the same task with another failure policy *)
Definition with_af (af : bool) (t : task) : task :=
  mkTaskK (t_id t) (t_hook t) (t_ty t) (t_meta t) (t_ctxs t) (t_mids t) (t_qn t)
          (t_kube t) (t_group t) (t_exec t) af.

Record result := mkResult { r_ctxs : list ctx; r_mids : list N }.
(* The field CombineResult.AllowFailure (commit b66e651: false iff some merged task does not
   allow failure; the caller and-s it into hookMeta.AllowFailure for the retry decision,
   property C04) is [collected_af] below, kept outside [result]: it does not influence
   contexts, monitor ids or the queue; the exported twin does not compute it. *)

(* ---- q.Iterate(func(tsk) {...}) : lines 38-68 ---- *)
(* state of the closure: (stopIterate, otherTasks).  [stopfn] is stopCombineFn
   (nil is the constantly-false function). *)
Definition iter_step (t : task) (stopfn : task -> bool)
           (st : bool * list task) (tsk : task) : bool * list task :=
  let '(stopIterate, otherTasks) := st in
  if stopIterate then st                                   (* if stopIterate { return } *)
  else if N.eqb (t_id tsk) (t_id t) then st                (* ignore current task *)
  else if negb (t_meta tsk) then (true, otherTasks)        (* stop on task without metadata *)
  else
    let stopIterate' :=
      if N.eqb (t_hook tsk) (t_hook t) && N.eqb (t_ty t) (t_ty tsk)
      then stopfn tsk                                      (* stopCombineFn(tsk), false when nil *)
      else true in
    if negb stopIterate' then (stopIterate', otherTasks ++ [tsk])
    else (stopIterate', otherTasks).

Definition iterate_collect (t : task) (stopfn : task -> bool) (qi : list task) : list task :=
  snd (fold_left (iter_step t stopfn) qi (false, [])).

(* res.AllowFailure = true; for _, tsk := range otherTasks { if !tsk.AllowFailure { res.AllowFailure = false } } *)
Definition collected_af (t : task) (stopfn : task -> bool) (qi : list task) : bool :=
  forallb t_af (iterate_collect t stopfn qi).

(* ---- tasksFilter : map[string]bool, as an association list, newest binding first ---- *)
Definition fmap := list (N * bool).
Definition fmap_set (k : N) (v : bool) (m : fmap) : fmap := (k, v) :: m.
Fixpoint fmap_get (k : N) (m : fmap) : option bool :=
  match m with
  | [] => None
  | (k', v) :: r => if N.eqb k' k then Some v else fmap_get k r
  end.

(* ---- the loop over otherTasks : lines 82-89 ---- *)
Definition merge_step (st : list ctx * list N * fmap) (tsk : task) : list ctx * list N * fmap :=
  let '(combinedContext, monitorIDs, tasksFilter) := st in
  (combinedContext ++ t_ctxs tsk,
   match t_mids tsk with [] => monitorIDs | _ :: _ => monitorIDs ++ t_mids tsk end,
   fmap_set (t_id tsk) false tasksFilter).

(* ---- Filter(func(tsk) bool {...}) : lines 91-98, task_queue.go Filter ---- *)
Definition keep_task (tasksFilter : fmap) (tsk : task) : bool :=
  match fmap_get (t_id tsk) tasksFilter with
  | Some v => v
  | None => true
  end.

(* ---- compaction loop : lines 100-115 ----
   for i := 0; i < len; i++ { keep := true
     if group != "" && i+1 <= len-1 && combined[i+1].group == group { keep = false } ... } *)
Fixpoint compact (l : list ctx) : list ctx :=
  match l with
  | [] => []
  | c :: r =>
      let keep :=
        negb (negb (N.eqb (c_group c) 0)
              && match r with
                 | nxt :: _ => N.eqb (c_group nxt) (c_group c)
                 | [] => false
                 end) in
      if keep then c :: compact r else compact r
  end.

(* ---- the whole function ---- *)
Definition combine_at (stopfn : task -> bool) (t : task) (qi qf : list task)
  : option result * list task :=
  if negb (t_meta t) then (None, qf)                        (* taskMeta == nil *)
  else
    let otherTasks := iterate_collect t stopfn qi in
    match otherTasks with
    | [] => (None, qf)                                      (* no tasks found to combine *)
    | _ :: _ =>
        let '(combinedContext, monitorIDs, tasksFilter) :=
          fold_left merge_step otherTasks
                    (t_ctxs t, t_mids t, fmap_set (t_id t) true []) in
        let qf' := filter (keep_task tasksFilter) qf in
        (Some (mkResult (compact combinedContext) monitorIDs), qf')
    end.

(* sequential call, and a call during which [appended] arrived between Iterate and Filter *)
Definition combine (stopfn : task -> bool) (t : task) (q : list task) :=
  combine_at stopfn t q q.
Definition combine_concurrent (stopfn : task -> bool) (t : task) (q appended : list task) :=
  combine_at stopfn t q (q ++ appended).

(* ---- the caller, operator.go:574-582: what the hook is then run with ---- *)
Definition delivered_ctxs (t : task) (r : option result) : list ctx :=
  match r with
  | None => t_ctxs t
  | Some r => r_ctxs r                     (* hookMeta.BindingContext = combineResult.BindingContexts *)
  end.
Definition delivered_mids (t : task) (r : option result) : list N :=
  match r with
  | None => t_mids t
  | Some r => match r_mids r with [] => t_mids t | _ :: _ => r_mids r end
                                           (* if len(MonitorIDs) > 0 { hookMeta.MonitorIDs = ... } *)
  end.

(* operator.go, taskHandleHookRun: the gate in front of the call (documented here, not part
   of the function under study): combine is attempted only for a v1 hook that is going to
   run, and not for a kubernetes Synchronization context without a group.  Since commit
   7b8a7f4 the caller passes a non-nil stopCombineFn when the head is a Synchronization
   (stop at the first same-hook Synchronization task with ExecuteOnSynchronization =
   false); the model, the spec and every theorem take [stopfn] as an arbitrary predicate,
   so this is an instance. *)
Definition should_combine (should_run_hook is_v1 is_kube_event first_is_synchronization : bool)
           (group : N) : bool :=
  should_run_hook && is_v1
  && negb (is_kube_event && first_is_synchronization && N.eqb group 0).

(* ---- inputs and observations ---- *)
(* [i_t] the task being executed, [i_stop] ids at which the caller's stopCombineFn says
   stop ([] = nil function), [i_q] the queue when the call starts, [i_app] tasks appended
   to the queue while the combination is in progress *)
Record input := mkIn { i_t : task; i_stop : list N; i_q : list task; i_app : list task }.
(* [o_res] = the returned CombineResult (None = nil): contexts and monitor ids;
   [o_queue] = ids of the queue afterwards *)
Record obs := mkObs { o_res : option (list ctx * list N); o_queue : list N }.

Definition stop_of (ids : list N) (x : task) : bool := mem_N (t_id x) ids.

(* one observed call: what the function returned and the ids left in the queue *)
Definition run_model (i : input) : obs :=
  let '(r, q') := combine_concurrent (stop_of (i_stop i)) (i_t i) (i_q i) (i_app i) in
  mkObs (option_map (fun r => (r_ctxs r, r_mids r)) r) (map t_id q').

(* ====================================================================== part 2: the queue SET
   pkg/task/queue/queue_set.go : TaskQueueSet.GetByName
   pkg/shell-operator/operator.go:587 (taskHandleHookRun), the only call in shell-operator:

     op.combineBindingContextForHook(op.TaskQueues, op.TaskQueues.GetByName(t.GetQueueName()), t, stopCombineFn)

   The queue the function iterates is LOOKED UP by the name the executed task carries, and
   the Filter step looks the same name up again.  A task whose name no queue has (the empty
   name of the bootstrap tasks and of the tasks the admission / conversion webhook handlers
   run synchronously, outside every queue) gets q == nil and the function returns at its
   first guard.  [qset] is tqs.Queues (map name -> queue; names are unique, the first match
   of the association list is the map entry). *)
Definition qset := list (N * list task).

(* GetByName: ts, exists := tqs.Queues[name]; if exists { return ts }; return nil *)
Fixpoint get_by_name (name : N) (qs : qset) : option (list task) :=
  match qs with
  | [] => None
  | p :: r => if N.eqb (fst p) name then Some (snd p) else get_by_name name r
  end.

(* the content of queue [name] becomes [q'] (the queue object is changed in place) *)
Fixpoint set_queue (name : N) (q' : list task) (qs : qset) : qset :=
  match qs with
  | [] => []
  | p :: r => if N.eqb (fst p) name then (fst p, q') :: r else p :: set_queue name q' r
  end.

(* tasks that arrive (AddLast) while the combination is in progress, as (queue name, task)
   in arrival order, to any queue of the set; [arrivals name app] are those for one queue *)
Fixpoint arrivals (name : N) (app : list (N * task)) : list task :=
  match app with
  | [] => []
  | p :: r => if N.eqb (fst p) name then snd p :: arrivals name r else arrivals name r
  end.
Definition arrive (app : list (N * task)) (qs : qset) : qset :=
  map (fun p => (fst p, snd p ++ arrivals (fst p) app)) qs.

(* the call of taskHandleHookRun.  Iterate sees the looked-up queue as it is when the call
   starts, Filter (second lookup of the same name) sees it with the arrivals; every other
   queue is never touched by the function and just receives its arrivals. *)
Definition combine_set (stopfn : task -> bool) (t : task) (qs : qset) (app : list (N * task))
  : option result * qset :=
  match get_by_name (t_qn t) qs with
  | None => (None, arrive app qs)                         (* if q == nil { return nil } *)
  | Some qi =>
      let p := combine_at stopfn t qi (qi ++ arrivals (t_qn t) app) in
      (fst p, set_queue (t_qn t) (snd p) (arrive app qs))
  end.

(* [s_t] the executed task (it carries its queue name [t_qn]), [s_stop] as [i_stop],
   [s_qs] the queue set when the call starts, [s_app] the arrivals *)
Record sinput := mkSIn { s_t : task; s_stop : list N; s_qs : qset; s_app : list (N * task) }.
(* the returned CombineResult and the ids left in EVERY queue of the set *)
Record sobs := mkSObs { so_res : option (list ctx * list N); so_queues : list (N * list N) }.

Definition run_set (i : sinput) : sobs :=
  let p := combine_set (stop_of (s_stop i)) (s_t i) (s_qs i) (s_app i) in
  mkSObs (option_map (fun r => (r_ctxs r, r_mids r)) (fst p))
         (map (fun q => (fst q, map t_id (snd q))) (snd p)).

(* ====================================================================== part 3: the task handler
   operator.go: taskHandler / taskHandleHookRun, the queue worker (task_queue.go Start), and
   the two callers that run a task which is in NO queue: the admission event handler of
   initValidatingWebhookManager and conversionEventHandler build
       task.NewTask(HookRun).WithMetadata(...)            -- no WithQueueName: the name is ""
   and call op.taskHandler(task) synchronously, from the HTTP handler's goroutine, while the
   queues hold whatever they hold.

   taskHandleHookRun decides FIRST whether the hook is to be run at all and only then combines:

       isSynchronization := hookMeta.IsSynchronization()
       shouldRunHook := true
       if isSynchronization {
           if taskHook.Config.Version == "v0" { shouldRunHook = false }
           if !hookMeta.ExecuteOnSynchronization { shouldRunHook = false }
       }
       if shouldRunHook && taskHook.Config.Version == "v1" {
           shouldCombine := true
           if hookMeta.BindingType == OnKubernetesEvent {
               if hookMeta.BindingContext[0].Type == TypeSynchronization && hookMeta.Group == "" { shouldCombine = false }
           }
           if shouldCombine {
               var stopCombineFn func(tsk) bool
               if isSynchronization { stopCombineFn = tsk is a Synchronization && !ExecuteOnSynchronization }
               combineResult := op.combineBindingContextForHook(tqs, tqs.GetByName(t.GetQueueName()), t, stopCombineFn)
               if combineResult != nil { BindingContext, MonitorIDs = ...
                                         hookMeta.AllowFailure = hookMeta.AllowFailure && combineResult.AllowFailure
                                         t.UpdateMetadata(hookMeta) }
           }
       }
       res.Status = "Success"                              -- default when shouldRunHook is false
       if shouldRunHook { run the hook; on a non-zero exit: Success if hookMeta.AllowFailure, else Fail }
       if Success: unlock the monitors of hookMeta.MonitorIDs

   A head that is not executed (a Synchronization of a v0 hook, or of a binding with
   executeHookOnSynchronization: false) never reaches the combiner: it leaves the queue alone.

   Scope of this part: HookRun tasks with metadata; a task with BindingType kubernetes has at least one
   binding context (BindingContext[0] is read); the Type field is set in kubernetes contexts only, so
   "BindingContext[0].Type == Synchronization" is [c_sync] of the first context; AllowFailure
   is [t_af] (seeded change C07-7: tasks of bindings with different `allowFailure` in one backlog; a failing
   run of a task that - after the merge - allows failure is a Success, the rule itself is property C04's).  Task types: 0 = HookRun; any other
   type is handled by another branch of taskHandler that never runs a hook and never combines (the
   harness uses EnableScheduleBindings). *)

(* one step of a session *)
Inductive ostep :=
| SHead (qn : N) (ok : bool)     (* the worker of queue [qn] takes its head (GetFirst), calls the
                                    handler; [ok]: the hook process exits 0 *)
| SLoose (t : task) (ok : bool). (* a HookRun task that sits in no queue is handed to taskHandler:
                                    what the webhook handlers do ([t_qn t] = 0) *)

(* one execution of a hook: which hook, the binding contexts in its context file *)
Record orun := mkRun { ru_hook : N; ru_ctxs : list ctx }.
(* what a step did: executions, the handler's status is Success, the queue set afterwards *)
Record ostepobs := mkSO { st_runs : list orun; st_success : bool; st_state : qset }.

(* HookMetadata.IsSynchronization(): "Synchronization binding contexts are not combined with others,
   so check the first item is enough" *)
Definition is_sync (t : task) : bool :=
  match t_ctxs t with c :: _ => c_sync c | [] => false end.

(* shouldRunHook; [v0]: the hook's config version is v0 *)
Definition should_run (v0 : bool) (t : task) : bool :=
  negb (is_sync t && (v0 || negb (t_exec t))).

(* stopCombineFn: nil unless the head is a Synchronization *)
Definition stop_combine (t : task) : task -> bool :=
  if is_sync t then (fun tsk => is_sync tsk && negb (t_exec tsk)) else (fun _ => false).

(* whether the combiner is called at all *)
Definition gate (v0 : bool) (t : task) : bool :=
  should_combine (should_run v0 t) (negb v0) (t_kube t) (is_sync t) (t_group t).

(* hookMeta.BindingContext / MonitorIDs = ...; t.UpdateMetadata(hookMeta) *)
Definition set_combined (t : task) (cs : list ctx) (ms : list N) (af : bool) : task :=
  mkTaskK (t_id t) (t_hook t) (t_ty t) (t_meta t) cs ms (t_qn t) (t_kube t) (t_group t) (t_exec t) af.

(* hookMeta.AllowFailure after the call: and-ed with CombineResult.AllowFailure when there is a result *)
Definition combined_af (t : task) (qs : qset) (r : option result) : bool :=
  match r with
  | None => t_af t
  | Some _ =>
      t_af t && match get_by_name (t_qn t) qs with
                | Some qi => collected_af t (stop_combine t) qi
                | None => true
                end
  end.

(* taskHandleHookRun up to the hook execution; returns the executions (none when the hook is not to
   be run), the task's metadata afterwards, the queue set *)
Definition handle_hook_run (v0 : bool) (t : task) (qs : qset) : list orun * task * qset :=
  if gate v0 t then
    let p := combine_set (stop_combine t) t qs [] in
    ([mkRun (t_hook t) (delivered_ctxs t (fst p))],
     set_combined t (delivered_ctxs t (fst p)) (delivered_mids t (fst p)) (combined_af t qs (fst p)),
     snd p)
  else
    ((if should_run v0 t then [mkRun (t_hook t) (t_ctxs t)] else []), t, qs).

(* the handler's status: Success when nothing was run, otherwise by the exit code *)
Definition status_ok (runs : list orun) (ok : bool) : bool :=
  match runs with [] => true | _ :: _ => ok end.
(* ... and a failed run of a task that (after the merge) allows failure is a Success all the same:
   [t'] is the task's metadata after the handler's combine *)
Definition forgiven (ok : bool) (t' : task) : bool := ok || t_af t'.

(* q.remove(id): the first task with that id *)
Fixpoint remove_id (id : N) (q : list task) : list task :=
  match q with
  | [] => []
  | x :: r => if N.eqb (t_id x) id then r else x :: remove_id id r
  end.
(* UpdateMetadata on the task object the worker holds (the first with that id) *)
Fixpoint replace_id (t' : task) (q : list task) : list task :=
  match q with
  | [] => []
  | x :: r => if N.eqb (t_id x) (t_id t') then t' :: r else x :: replace_id t' r
  end.

(* [v0s]: the hooks whose config version is v0 *)
Definition model_step (v0s : list N) (qs : qset) (st : ostep) : ostepobs :=
  match st with
  | SHead qn ok =>
      match get_by_name qn qs with
      | Some (t :: rest) =>
          if N.eqb (t_ty t) 0 then
            let h := handle_hook_run (mem_N (t_hook t) v0s) t qs in
            let q' := match get_by_name qn (snd h) with Some q' => q' | None => [] end in
            let success := status_ok (fst (fst h)) (forgiven ok (snd (fst h))) in
            (* Success: the worker removes the task by id; Fail: it stays, with the metadata
               the handler stored, and is retried after the back-off delay *)
            mkSO (fst (fst h)) success
                 (set_queue qn (if success then remove_id (t_id t) q' else replace_id (snd (fst h)) q') (snd h))
          else
            mkSO [] true (set_queue qn (remove_id (t_id t) (t :: rest)) qs)
      | _ => mkSO [] true qs                       (* waitForTask: nothing to handle *)
      end
  | SLoose t ok =>
      let h := handle_hook_run (mem_N (t_hook t) v0s) t qs in
      mkSO (fst (fst h)) (status_ok (fst (fst h)) (forgiven ok (snd (fst h)))) (snd h)   (* nobody removes anything: the task is in no queue *)
  end.

Fixpoint run_session (v0s : list N) (qs : qset) (steps : list ostep) : list ostepobs :=
  match steps with
  | [] => []
  | st :: r => let o := model_step v0s qs st in o :: run_session v0s (st_state o) r
  end.

Record oinput := mkOIn { oi_v0 : list N; oi_qs : qset; oi_steps : list ostep }.
