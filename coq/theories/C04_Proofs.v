(* C04_Proofs.v — retry / allowFailure theorems over the operator model. *)
From Verif Require Import Common Op_Model Op_Corr Op_Spec Op_Proofs C04_Spec.
Open Scope N_scope.

Lemma ckind_eqb_refl k : ckind_eqb k k = true. Proof. destruct k; reflexivity. Qed.
Lemma ctx_eqb_refl c : ctx_eqb c c = true.
Proof. unfold ctx_eqb. now rewrite !N.eqb_refl, ckind_eqb_refl. Qed.

(* compaction keeps, for the group of the first context, some context of that group *)
Lemma compact_has_group : forall l n, hd_error l = Some n -> c_group n <> 0 ->
  existsb (fun d => N.eqb (c_group d) (c_group n)) (compact l) = true.
Proof.
  induction l as [|c r IH]; intros n H Hg; [discriminate|]. simpl in H. inversion H; subst c. clear H.
  cbn [compact]. destruct r as [|m r'].
  - simpl. now rewrite N.eqb_refl.
  - destruct (negb (N.eqb (c_group n) 0) && N.eqb (c_group m) (c_group n)) eqn:E.
    + apply andb_true_iff in E as [_ E]. apply N.eqb_eq in E.
      rewrite <- E. apply IH; [reflexivity | now rewrite E].
    + simpl. now rewrite N.eqb_refl.
Qed.

Lemma retained_cons c r next :
  retained (c :: r) next =
  ((fix find_in (nx : list ctx) : bool :=
      match nx with
      | [] => false
      | d :: nx' => if ctx_eqb c d then retained r nx' else find_in nx'
      end) next
   || (negb (N.eqb (c_group c) 0) && existsb (fun d => N.eqb (c_group d) (c_group c)) next && retained r next)).
Proof. reflexivity. Qed.

(* every context handed to a failed execution is handed to the next one again: it
   reappears in order, or — grouped — is subsumed by a later context of its group *)
Lemma retained_compact_app : forall l m, retained l (compact (l ++ m)) = true.
Proof.
  induction l as [|c r IH]; intros m; [reflexivity|].
  rewrite retained_cons. change ((c :: r) ++ m) with (c :: (r ++ m)). cbn [compact].
  destruct (r ++ m) as [|n x] eqn:E.
  - destruct r; [|discriminate]. simpl. now rewrite ctx_eqb_refl.
  - destruct (negb (N.eqb (c_group c) 0) && N.eqb (c_group n) (c_group c)) eqn:D.
    + apply andb_true_iff in D as [D1 D2]. apply orb_true_iff. right.
      rewrite D1. cbn [andb].
      assert (R1 : retained r (compact (n :: x)) = true) by (rewrite <- E; apply IH).
      rewrite R1, andb_true_r.
      apply N.eqb_eq in D2. rewrite <- D2. apply compact_has_group; [reflexivity|].
      rewrite D2. now apply N.eqb_neq, negb_true_iff.
    + apply orb_true_iff. left. rewrite ctx_eqb_refl. rewrite <- E. apply IH.
Qed.

Lemma retained_refl l : retained l l = true.
Proof.
  induction l as [|c r IH]; [reflexivity|].
  rewrite retained_cons. apply orb_true_iff. left. now rewrite ctx_eqb_refl.
Qed.

Lemma take_block_split t rest : rest = fst (take_block t rest) ++ snd (take_block t rest).
Proof.
  induction rest as [|x r IH]; [reflexivity|]. simpl.
  destruct (N.eqb (t_hook x) (t_hook t) && same_ttype (t_type x) (t_type t)
            && negb (is_sync t && is_sync x && negb (t_execsync x))); [|reflexivity].
  destruct (take_block t r) as [b rs]. simpl in *. now rewrite IH at 1.
Qed.

Lemma take_block_same_hook t rest : Forall (fun x => t_hook x = t_hook t) (fst (take_block t rest)).
Proof.
  induction rest as [|x r IH]; [constructor|]. simpl.
  destruct (N.eqb (t_hook x) (t_hook t) && same_ttype (t_type x) (t_type t)
            && negb (is_sync t && is_sync x && negb (t_execsync x))) eqn:E; [|constructor].
  destruct (take_block t r) as [b rs]. simpl in *. constructor; [|exact IH].
  apply andb_true_iff in E as [E _]. apply andb_true_iff in E as [E _]. now apply N.eqb_eq.
Qed.

(* what combining does to the head task *)
Theorem combine_spec t rest :
  let t' := fst (combine t rest) in
  let block := fst (take_block t rest) in
  t_hook t' = t_hook t /\ t_fail t' = t_fail t /\ t_type t' = t_type t /\ t_queue t' = t_queue t
  /\ rest = block ++ snd (combine t rest)
  /\ t_ctxs t' = match block with [] => t_ctxs t | _ => compact (t_ctxs t ++ flat_map t_ctxs block) end
  /\ t_mids t' = t_mids t ++ flat_map t_mids block
  /\ t_allow t' = (t_allow t && forallb t_allow block)
  /\ retained (t_ctxs t) (t_ctxs t') = true
  /\ Forall (fun x => t_hook x = t_hook t) block.
Proof.
  unfold combine. pose proof (take_block_split t rest) as S. pose proof (take_block_same_hook t rest) as H.
  destruct (take_block t rest) as [block rest']. simpl in *.
  destruct block as [|b bs]; simpl.
  - repeat split; auto; try now rewrite ?app_nil_r, ?andb_true_r.
    apply retained_refl.
  - repeat split; auto. apply retained_compact_app.
Qed.

(* the worker picking a task that failed before (failure count already incremented): the very
   same task is run again, with all its contexts (plus whatever was queued behind it for the
   same hook meanwhile) *)
Lemma retry_picks_same_task cfg qok name t rest :
  t_type t = HookRun -> t_allow t = false ->
  should_run (hook_v0 cfg (t_hook t)) (incr_fail t) = true ->
  let q' := adv_one cfg qok (mkQ name (incr_fail t :: rest) None false) in
  in_handler q' = true /\
  exists t' rest' block,
    q_items q' = t' :: rest' /\ rest = block ++ rest'
    /\ t_hook t' = t_hook t /\ t_fail t' = t_fail t + 1 /\ t_allow t' = false
    /\ retained (t_ctxs t) (t_ctxs t') = true
    /\ Forall (fun x => t_hook x = t_hook t) block.
Proof.
  intros Ty Al SR q'. unfold q'.
  unfold adv_one. unfold is_running at 1. cbn [q_running q_items q_name].
  unfold fuel_for. rewrite advance_q_hookrun by exact Ty.
  unfold hook_v0 in SR. change (t_hook (incr_fail t)) with (t_hook t). cbv zeta.
  rewrite SR.
  destruct (negb match find_hook cfg (t_hook t) with Some h => h_v0 h | None => false end
            && should_combine (incr_fail t) && qok (t_queue (incr_fail t))).
  - pose proof (combine_spec (incr_fail t) rest) as C.
    destruct (combine (incr_fail t) rest) as [t' rest']. simpl in C.
    destruct C as (C1 & C2 & C3 & C4 & C5 & C6 & C7 & C8 & C9 & C10).
    split; [reflexivity|]. exists t', rest', (fst (take_block (incr_fail t) rest)).
    simpl. repeat split; auto.
    + rewrite C2. simpl. lia.
    + rewrite C8. simpl. now rewrite Al.
  - split; [reflexivity|]. exists (incr_fail t), rest, []. simpl. repeat split; auto.
    + lia.
    + apply retained_refl.
Qed.

(* A failed execution of a task that does not allow failure, zero back-off: the worker keeps
   the task at the head, counts the failure, and runs the very same task again at once;
   no other task of the queue is started in between. *)
Theorem fail_retries_same_task cfg qok q sy t rest :
  q_running q = Some sy -> q_items q = t :: rest -> q_delay q = false ->
  t_type t = HookRun -> t_allow t = false ->
  should_run (hook_v0 cfg (t_hook t)) (incr_fail t) = true ->
  let q' := adv_one cfg qok (finish_one false false false q) in
  in_handler q' = true /\
  exists t' rest' block,
    q_items q' = t' :: rest' /\ rest = block ++ rest'
    /\ t_hook t' = t_hook t /\ t_fail t' = t_fail t + 1 /\ t_allow t' = false
    /\ retained (t_ctxs t) (t_ctxs t') = true
    /\ Forall (fun x => t_hook x = t_hook t) block.
Proof.
  intros R I D Ty Al SR q'. unfold q', finish_one. rewrite R, I, D, Al. cbn [orb].
  now apply retry_picks_same_task.
Qed.

(* The same with a positive back-off: the worker waits - the failed task stays the head,
   the failure is counted, no execution is open and the worker's next rounds start nothing
   ([adv_one] leaves the queue as it is), whatever [extra] tasks are queued meanwhile
   (Op_Proofs.delayed_queue_only_grows: every action but the end of the delay only appends);
   when the delay is over, the very same task is run again with all its contexts. *)
Theorem fail_waits_then_retries cfg qok q sy t rest extra :
  q_running q = Some sy -> q_items q = t :: rest -> q_delay q = false ->
  t_type t = HookRun -> t_allow t = false ->
  should_run (hook_v0 cfg (t_hook t)) (incr_fail t) = true ->
  let q1 := finish_one false false true q in
  q1 = mkQ (q_name q) (incr_fail t :: rest) (Some false) true
  /\ in_handler q1 = false /\ adv_one cfg qok q1 = q1
  /\ let q2 := mkQ (q_name q) (q_items q1 ++ extra) (q_running q1) true in
     adv_one cfg qok q2 = q2
     /\ let q' := adv_one cfg qok (elapse_one q2) in
        in_handler q' = true /\
        exists t' rest' block,
          q_items q' = t' :: rest' /\ rest ++ extra = block ++ rest'
          /\ t_hook t' = t_hook t /\ t_fail t' = t_fail t + 1 /\ t_allow t' = false
          /\ retained (t_ctxs t) (t_ctxs t') = true
          /\ Forall (fun x => t_hook x = t_hook t) block.
Proof.
  intros R I D Ty Al SR q1.
  assert (E1 : q1 = mkQ (q_name q) (incr_fail t :: rest) (Some false) true).
  { unfold q1, finish_one. rewrite R, I, D, Al. reflexivity. }
  rewrite E1. split; [reflexivity|]. split; [reflexivity|]. split; [reflexivity|].
  cbn [q_items q_running]. split; [reflexivity|].
  unfold elapse_one. cbn [q_delay q_name q_items]. change ((incr_fail t :: rest) ++ extra) with (incr_fail t :: (rest ++ extra)).
  now apply retry_picks_same_task.
Qed.

(* with allowFailure the failed execution is dropped and the queue proceeds with what follows,
   whatever the back-off function would say *)
Theorem allow_failure_drops q sy t rest ok wait :
  q_running q = Some sy -> q_items q = t :: rest -> q_delay q = false -> t_allow t = true ->
  finish_one ok false wait q = mkQ (q_name q) rest None false.
Proof. intros R I D Al. unfold finish_one. rewrite R, I, D, Al, orb_true_r. reflexivity. Qed.

(* a successful execution removes the task, once *)
Theorem success_removes q sy t rest wait :
  q_running q = Some sy -> q_items q = t :: rest -> q_delay q = false ->
  finish_one true false wait q = mkQ (q_name q) rest None false.
Proof. intros R I D. unfold finish_one. rewrite R, I, D. reflexivity. Qed.

(* a combined task may be dropped on failure only if every merged task allows failure *)
Theorem combined_allow_iff_all t rest :
  t_allow (fst (combine t rest)) = true <->
  t_allow t = true /\ Forall (fun x => t_allow x = true) (fst (take_block t rest)).
Proof.
  destruct (combine_spec t rest) as (_ & _ & _ & _ & _ & _ & _ & C8 & _). rewrite C8.
  rewrite andb_true_iff, forallb_forall, Forall_forall. tauto.
Qed.
