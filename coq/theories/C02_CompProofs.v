(* C02_CompProofs.v — the companion binding shows, at every read point of every history, exactly
   the objects of its named namespaces: nothing the namespaces do shows. *)
From Verif Require Import Common C02_Model C02_Spec C02_Proofs C02_DynProofs C02_Comp C02_CompSpec.
Open Scope N_scope.

Lemma ns_lab_fold_dvirt S : forall acc n,
  ns_lab n (fold_left (fun l p => ns_set (fst p) (snd p) l) (dvirt S) acc) = mem_N n S || ns_lab n acc.
Proof.
  induction S as [|s r IH]; intros acc n; [reflexivity|].
  cbn [dvirt map fold_left fst snd]. fold (dvirt r). rewrite IH, ns_lab_set.
  unfold mem_N. cbn [existsb].
  destruct (N.eqb n s) eqn:E; [now rewrite orb_true_r | reflexivity].
Qed.

Lemma forallb_ext_in {A} (f g : A -> bool) : forall l, (forall x, In x l -> f x = g x) -> forallb f l = forallb g l.
Proof.
  induction l as [|x r IH]; intros H; [reflexivity|]. cbn [forallb].
  rewrite (H x (or_introl eq_refl)), IH; [reflexivity|]. intros y Hy. apply H. now right.
Qed.
Lemma existsb_ext_in {A} (f g : A -> bool) : forall l, (forall x, In x l -> f x = g x) -> existsb f l = existsb g l.
Proof.
  induction l as [|x r IH]; intros H; [reflexivity|]. cbn [existsb].
  rewrite (H x (or_introl eq_refl)), IH; [reflexivity|]. intros y Hy. apply H. now right.
Qed.

Lemma dmatching_virtual i k c : (forall n, ns_lab n (snd c) = mem_N n (dk_nss k)) ->
  forall o, dmatching (dn_names (comp_dyn_in i k)) c o = cmatching k o.
Proof. intros Hn o. unfold dmatching, cmatching. cbn [dn_names comp_dyn_in]. rewrite Hn. now destruct (dk_names k). Qed.

Lemma view_list_virtual i k c vs : (forall n, ns_lab n (snd c) = mem_N n (dk_nss k)) ->
  P_dview_list (comp_dyn_in i k) c vs = P_cview_list k (fst c) vs.
Proof.
  intros Hn. unfold P_dview_list, P_cview_list. f_equal; [f_equal|].
  - apply forallb_ext_in. intros v _. apply existsb_ext_in. intros o _.
    now rewrite (dmatching_virtual i k c Hn).
  - apply forallb_ext_in. intros o _. now rewrite (dmatching_virtual i k c Hn).
Qed.

(* the read clusters of the history without its namespace operations, over the virtual namespace
   list, hold the same objects as those of the whole history *)
Lemma reads_transfer i k : forall ops c c' reads,
  fst c = fst c' -> (forall n, ns_lab n (snd c') = mem_N n (dk_nss k)) ->
  all2 (P_dview_list (comp_dyn_in i k)) (read_clusters c' (filter not_ns_op ops)) reads
  = all2 (P_cview_list k) (map fst (read_clusters c ops)) reads.
Proof.
  induction ops as [|op r IH]; intros c c' reads Hf Hn; [reflexivity|].
  cbn [filter read_clusters]. destruct op as [kd o|ns lab|ns| |]; cbn [not_ns_op].
  - cbn [read_clusters]. apply IH; [cbn [dcl_apply fst]; now rewrite Hf | exact Hn].
  - apply IH; [exact Hf | exact Hn].
  - apply IH; [exact Hf | exact Hn].
  - cbn [read_clusters]. apply IH; [exact Hf | exact Hn].
  - cbn [read_clusters dcl_apply map]. destruct reads as [|v vs]; [reflexivity|]. cbn [all2].
    rewrite (view_list_virtual i k c' v Hn), Hf. f_equal. apply IH; [exact Hf | exact Hn].
Qed.

Theorem comp_views_are_matching i k : P_comp i k (comp_views i k) false = true.
Proof.
  unfold P_comp, comp_views. cbn [negb andb].
  assert (G : T_nsghost (comp_dyn_in i k) = false) by reflexivity.
  pose proof (dyn_views_are_matching (comp_dyn_in i k) G) as H.
  unfold P_dyn in H. cbn [negb andb] in H. unfold dyn_read_clusters in *.
  rewrite <- (reads_transfer i k (dn_ops i) (dyn_cluster1 i) (dyn_cluster1 (comp_dyn_in i k))).
  - exact H.
  - unfold dyn_cluster1, dyn_cluster0. cbn [dn_ghost_ns comp_dyn_in dn_initial fst].
    destruct (dn_ghost_ns i); reflexivity.
  - intros n. unfold dyn_cluster1, dyn_cluster0. cbn [dn_ghost_ns comp_dyn_in dn_nss snd].
    rewrite ns_lab_fold_dvirt. cbn [ns_lab]. apply orb_false_r.
Qed.

(* both bindings, outside the trigger of F32 (which concerns the first binding only) *)
Theorem dyn2_partial i k : T_nsghost i = false ->
  P_dyn2 i k (dyn_views i) (comp_views i k) false = true.
Proof. intros H. unfold P_dyn2. now rewrite (dyn_views_are_matching i H), comp_views_are_matching. Qed.
