(* C20_Proofs.v — lemmas and proofs for C20. *)
From Coq Require Import Permutation Sorted.
From Verif Require Import Common C20_Model C20_Spec C20_Corr.
Local Open Scope N_scope.

(* ------------------------------------------------------------------ *)
(* A. the bytewise order                                               *)
(* ------------------------------------------------------------------ *)

Lemma bytes_ltb_irrefl a : bytes_ltb a a = false.
Proof.
  induction a as [|x a IH]; cbn [bytes_ltb]; [reflexivity|].
  rewrite N.ltb_irrefl, N.eqb_refl. exact IH.
Qed.

Lemma bytes_ltb_cons x a y b :
  bytes_ltb (x :: a) (y :: b) = true <-> x < y \/ (x = y /\ bytes_ltb a b = true).
Proof.
  cbn [bytes_ltb]. destruct (N.ltb_spec x y) as [Hlt|Hge].
  - split; [intros _; left; exact Hlt | reflexivity].
  - destruct (N.eqb_spec x y) as [E|NE].
    + split; [intros H; right; split; assumption | intros [H|[_ H]]; [lia | exact H]].
    + split; [discriminate | intros [H|[H _]]; [lia | contradiction]].
Qed.

Lemma bytes_ltb_trans a : forall b c,
  bytes_ltb a b = true -> bytes_ltb b c = true -> bytes_ltb a c = true.
Proof.
  induction a as [|x a IH]; intros [|y b] [|z c] Hab Hbc; try discriminate; try reflexivity.
  apply bytes_ltb_cons in Hab. apply bytes_ltb_cons in Hbc. apply bytes_ltb_cons.
  destruct Hab as [Hab|[Exy Hab]], Hbc as [Hbc|[Eyz Hbc]].
  - left; lia.
  - left; lia.
  - left; lia.
  - right; split; [congruence | eapply IH; eassumption].
Qed.

Lemma bytes_ltb_total a : forall b, a = b \/ bytes_ltb a b = true \/ bytes_ltb b a = true.
Proof.
  induction a as [|x a IH]; intros [|y b].
  - left; reflexivity.
  - right; left; reflexivity.
  - right; right; reflexivity.
  - destruct (N.lt_trichotomy x y) as [H|[H|H]].
    + right; left; apply bytes_ltb_cons; left; exact H.
    + subst y. destruct (IH b) as [E|[L|G]].
      * left; congruence.
      * right; left; apply bytes_ltb_cons; right; split; [reflexivity | exact L].
      * right; right; apply bytes_ltb_cons; right; split; [reflexivity | exact G].
    + right; right; apply bytes_ltb_cons; left; exact H.
Qed.

Lemma bytes_ltb_asym a b : bytes_ltb a b = true -> bytes_ltb b a = false.
Proof.
  intros Hab. destruct (bytes_ltb b a) eqn:Hba; [|reflexivity].
  pose proof (bytes_ltb_trans _ _ _ Hab Hba) as H. rewrite bytes_ltb_irrefl in H. discriminate.
Qed.

(* "not greater" *)
Definition ble (a b : bytes) : Prop := bytes_ltb b a = false.

Lemma ble_trans a b c : ble a b -> ble b c -> ble a c.
Proof.
  unfold ble; intros Hab Hbc.
  destruct (bytes_ltb c a) eqn:Hca; [|reflexivity].
  destruct (bytes_ltb_total b c) as [E|[L|G]].
  - subst c. congruence.
  - pose proof (bytes_ltb_trans _ _ _ L Hca). congruence.
  - congruence.
Qed.

Lemma ble_neq_lt a b : ble a b -> a <> b -> bytes_ltb a b = true.
Proof.
  unfold ble; intros H NE. destruct (bytes_ltb_total a b) as [E|[L|G]]; [contradiction | exact L | congruence].
Qed.

Lemma bytes_ltb_app p : forall a b, bytes_ltb (p ++ a) (p ++ b) = bytes_ltb a b.
Proof.
  induction p as [|x p IH]; intros a b; cbn [app bytes_ltb]; [reflexivity|].
  rewrite N.ltb_irrefl, N.eqb_refl. apply IH.
Qed.

(* ------------------------------------------------------------------ *)
(* B. the insertion sort                                               *)
(* ------------------------------------------------------------------ *)

Section SortBy.
  Context {A : Type} (key : A -> bytes).

  Lemma insert_by_perm x l : Permutation (insert_by key x l) (x :: l).
  Proof.
    induction l as [|y l IH]; cbn [insert_by]; [apply Permutation_refl|].
    destruct (bytes_ltb (key x) (key y)); [apply Permutation_refl|].
    eapply perm_trans; [apply perm_skip, IH | apply perm_swap].
  Qed.

  Lemma sort_by_perm l : Permutation (sort_by key l) l.
  Proof.
    induction l as [|x l IH]; cbn [sort_by]; [apply perm_nil|].
    eapply perm_trans; [apply insert_by_perm | apply perm_skip, IH].
  Qed.

  Definition kle (a b : A) : Prop := ble (key a) (key b).

  Lemma insert_by_sorted x l : StronglySorted kle l -> StronglySorted kle (insert_by key x l).
  Proof.
    induction l as [|y l IH]; intros Hs; cbn [insert_by].
    - constructor; [constructor | constructor].
    - inversion Hs as [|? ? Hs' Hall]; subst.
      destruct (bytes_ltb (key x) (key y)) eqn:Hxy.
      + constructor; [exact Hs|].
        constructor.
        * unfold kle. apply bytes_ltb_asym. exact Hxy.
        * eapply Forall_impl; [|exact Hall]. intros z Hz. unfold kle in *.
          eapply ble_trans; [|exact Hz]. apply bytes_ltb_asym. exact Hxy.
      + constructor; [apply IH; exact Hs'|].
        eapply Permutation_Forall; [apply Permutation_sym, insert_by_perm|].
        constructor; [exact Hxy | exact Hall].
  Qed.

  Lemma sort_by_sorted l : StronglySorted kle (sort_by key l).
  Proof.
    induction l as [|x l IH]; cbn [sort_by]; [constructor | apply insert_by_sorted, IH].
  Qed.
End SortBy.

Lemma Permutation_concat {A} {l l' : list (list A)} :
  Permutation l l' -> Permutation (concat l) (concat l').
Proof.
  induction 1 as [|x l l' _ IH|x y l|l l' l'' _ IH1 _ IH2]; cbn [concat].
  - apply perm_nil.
  - apply Permutation_app_head, IH.
  - rewrite !app_assoc. apply Permutation_app_tail, Permutation_app_comm.
  - eapply perm_trans; eassumption.
Qed.

Lemma Permutation_in_iff {A} (x : A) {l l' : list A} :
  Permutation l l' -> (In x l <-> In x l').
Proof.
  intros H; split; intros Hin; [eapply Permutation_in; eassumption|].
  eapply Permutation_in; [apply Permutation_sym|]; eassumption.
Qed.

(* ------------------------------------------------------------------ *)
(* C. prefixes, suffixes, filepath.Ext                                 *)
(* ------------------------------------------------------------------ *)

Lemma is_prefix_spec a : forall b, is_prefix a b = true <-> exists t, b = a ++ t.
Proof.
  induction a as [|x a IH]; intros b; cbn [is_prefix].
  - split; [intros _; exists b; reflexivity | reflexivity].
  - destruct b as [|y b].
    + split; [discriminate | intros [t Ht]; discriminate].
    + rewrite andb_true_iff, N.eqb_eq, IH. split.
      * intros [-> [t ->]]. exists t; reflexivity.
      * intros [t Ht]. cbn [app] in Ht. inversion Ht; subst. split; [reflexivity | exists t; reflexivity].
Qed.

Lemma ends_with_spec s n : ends_with s n = true <-> exists pre, n = pre ++ s.
Proof.
  unfold ends_with. rewrite is_prefix_spec. split.
  - intros [t Ht]. exists (rev t). apply (f_equal (@rev N)) in Ht.
    rewrite rev_involutive, rev_app_distr, rev_involutive in Ht. exact Ht.
  - intros [pre ->]. exists (rev pre). apply rev_app_distr.
Qed.

Lemma ext_scan_suffix rn : forall acc e,
  ext_scan rn acc = e -> e <> [] -> exists pre, rev rn ++ acc = pre ++ e.
Proof.
  induction rn as [|x r IH]; intros acc e He Hne; cbn [ext_scan] in He.
  - subst e. contradiction.
  - destruct (N.eqb x slash); [subst e; contradiction|].
    destruct (N.eqb x dot).
    + subst e. exists (rev r). cbn [rev]. rewrite <- app_assoc. reflexivity.
    + destruct (IH _ _ He Hne) as [pre Hpre]. exists pre. cbn [rev].
      rewrite <- app_assoc. exact Hpre.
Qed.

Definition plain_char (c : N) : bool := negb (N.eqb c dot) && negb (N.eqb c slash).

Lemma ext_scan_plain r : forall acc rest,
  forallb plain_char r = true -> ext_scan (r ++ rest) acc = ext_scan rest (rev r ++ acc).
Proof.
  induction r as [|x r IH]; intros acc rest Hp; cbn [app rev]; [reflexivity|].
  cbn [forallb] in Hp. apply andb_true_iff in Hp as [Hx Hr].
  unfold plain_char in Hx. apply andb_true_iff in Hx as [Hd Hs].
  cbn [ext_scan]. apply negb_true_iff in Hd, Hs. rewrite Hs, Hd.
  rewrite IH by exact Hr. rewrite <- app_assoc. reflexivity.
Qed.

(* for an ending ".xyz" made of a dot and plain characters, Ext(name) = ".xyz" iff the name ends in ".xyz" *)
Lemma ext_is_ending s' n :
  forallb plain_char s' = true ->
  bytes_eqb (ext n) (dot :: s') = ends_with (dot :: s') n.
Proof.
  intros Hp. apply eq_true_iff_eq. rewrite bytes_eqb_eq, ends_with_spec. split.
  - intros He. unfold ext in He.
    destruct (ext_scan_suffix (rev n) [] _ He) as [pre Hpre]; [discriminate|].
    exists pre. rewrite rev_involutive, app_nil_r in Hpre. exact Hpre.
  - intros [pre ->]. unfold ext. rewrite rev_app_distr. cbn [rev]. rewrite <- app_assoc.
    rewrite ext_scan_plain.
    + cbn [app ext_scan]. change (N.eqb dot slash) with false. rewrite N.eqb_refl.
      rewrite rev_involutive, app_nil_r. reflexivity.
    + rewrite forallb_forall in *. intros c Hc. apply Hp. apply in_rev. exact Hc.
Qed.

Lemma excluded_ending_ext n :
  (bytes_eqb (ext n) s_yaml || bytes_eqb (ext n) s_json || bytes_eqb (ext n) s_md || bytes_eqb (ext n) s_txt)
  = excluded_ending n.
Proof.
  unfold excluded_ending, s_yaml, s_json, s_md, s_txt.
  change 46 with dot.
  rewrite !ext_is_ending by reflexivity. reflexivity.
Qed.

(* ------------------------------------------------------------------ *)
(* D. the mode test                                                    *)
(* ------------------------------------------------------------------ *)

Lemma land_0o111 mode : N.eqb (N.land mode 73) 0 = negb (has_exec_bit mode).
Proof.
  unfold has_exec_bit.
  destruct mode as [|p]; [reflexivity|].
  destruct p as [p|p|]; try reflexivity;
  destruct p as [p|p|]; try reflexivity;
  destruct p as [p|p|]; try reflexivity;
  destruct p as [p|p|]; try reflexivity;
  destruct p as [p|p|]; try reflexivity;
  destruct p as [p|p|]; try reflexivity;
  destruct p as [p|p|]; reflexivity.
Qed.

Lemma hidden_dot n : hidden n = has_dot_prefix n.
Proof.
  unfold hidden, has_dot_prefix. destruct n as [|x r]; cbn [is_prefix]; [reflexivity|].
  rewrite andb_true_r. apply N.eqb_sym.
Qed.

(* file_ok (the conditions on the file itself) is defined in C20_Spec *)
Lemma check_file_ok n m :
  check_executable_hook_file n m = None <-> file_ok n m = true.
Proof.
  unfold check_executable_hook_file, file_ok, check_executable_permissions.
  rewrite excluded_ending_ext, hidden_dot, land_0o111.
  destruct (has_dot_prefix n), (excluded_ending n), (has_exec_bit m); cbn; split; intros H; congruence.
Qed.

Lemma excluded_dir_spec n :
  (has_dot_prefix n || existsb (bytes_eqb n) excluded_dirs) = negb (negb (named_lib n) && negb (hidden n)).
Proof.
  unfold excluded_dirs, named_lib, s_lib. cbn [existsb]. rewrite hidden_dot, orb_false_r.
  destruct (has_dot_prefix n), (bytes_eqb n [108; 105; 98]); reflexivity.
Qed.

(* ------------------------------------------------------------------ *)
(* E. trees                                                            *)
(* ------------------------------------------------------------------ *)

Fixpoint tree_ind' (Q : tree -> Prop)
         (HF : forall n m, Q (File n m))
         (HD : forall n cs, Forall Q cs -> Q (Dir n cs)) (t : tree) : Q t :=
  match t with
  | File n m => HF n m
  | Dir n cs => HD n cs ((fix go (l : list tree) : Forall Q l :=
                            match l with
                            | [] => Forall_nil Q
                            | c :: r => Forall_cons c (tree_ind' Q HF HD c) (go r)
                            end) cs)
  end.

Definition prepend (a : list bytes) (e : entry) : entry :=
  let '(anc, n, m) := e in (a ++ anc, n, m).

Lemma files_anc t : forall anc, files anc t = map (prepend anc) (files [] t).
Proof.
  induction t as [n m|n cs IH] using tree_ind'; intros anc; cbn [files].
  - cbn. rewrite app_nil_r. reflexivity.
  - rewrite !flat_map_concat_map, concat_map, map_map. f_equal.
    apply map_ext_Forall. eapply Forall_impl; [|exact IH]. intros c Hc; cbn beta.
    rewrite (Hc (anc ++ [n])), (Hc ([] ++ [n])), map_map. apply map_ext.
    intros [[a x] y]; cbn. rewrite <- app_assoc. reflexivity.
Qed.

Lemma join_cons c r : r <> [] -> join (c :: r) = c ++ 47 :: join r.
Proof. destruct r; [contradiction | reflexivity]. Qed.

(* the paths the walk yields for the subtree t reached as base/<name of t> *)
Lemma walk_spec t : forall base q,
  In q (walk false (join_path base (tree_name t)) t) <->
  exists e, In e (files [] t) /\ entry_is_hook e = true /\ q = join_path base (entry_path e).
Proof.
  induction t as [n m|n cs IH] using tree_ind'; intros base q; cbn [walk tree_name files].
  - destruct (check_executable_hook_file n m) eqn:Hc.
    + split; [intros [] |].
      intros [e [[<-|[]] [Hh _]]]. cbn in Hh.
      assert (Hok : file_ok n m = true).
      { unfold file_ok. rewrite andb_true_r in Hh. exact Hh. }
      apply check_file_ok in Hok. congruence.
    + apply check_file_ok in Hc. split.
      * intros [<-|[]]. exists ([], n, m). split; [left; reflexivity|]. split.
        -- cbn. rewrite andb_true_r. exact Hc.
        -- reflexivity.
      * intros [e [[<-|[]] [_ ->]]]. left; reflexivity.
  - cbn [negb andb]. rewrite excluded_dir_spec.
    destruct (negb (named_lib n) && negb (hidden n)) eqn:Hn; cbn [negb].
    + (* visited *)
      rewrite (Permutation_in_iff q (Permutation_concat (Permutation_map snd (sort_by_perm fst _)))).
      rewrite map_map. cbn [snd]. rewrite <- flat_map_concat_map, in_flat_map.
      split.
      * intros [c [Hc Hq]]. rewrite Forall_forall in IH.
        apply (IH c Hc) in Hq. destruct Hq as [[[anc x] y] [He [Hh ->]]].
        exists (n :: anc, x, y). split; [|split].
        -- apply in_flat_map. exists c. split; [exact Hc|].
           rewrite files_anc. apply in_map_iff. exists (anc, x, y). split; [reflexivity | exact He].
        -- cbn [entry_is_hook forallb] in *. rewrite Hn. cbn [andb]. exact Hh.
        -- unfold entry_path, join_path. cbn [app]. rewrite join_cons by (destruct anc; discriminate).
           rewrite <- !app_assoc. reflexivity.
      * intros [e [He [Hh ->]]]. apply in_flat_map in He as [c [Hc He]].
        rewrite files_anc in He. apply in_map_iff in He as [[[anc x] y] [<- He]].
        exists c. split; [exact Hc|]. rewrite Forall_forall in IH. apply (IH c Hc).
        exists (anc, x, y). split; [exact He|]. split.
        -- cbn [prepend entry_is_hook app forallb] in Hh. rewrite Hn in Hh. exact Hh.
        -- unfold prepend, entry_path, join_path. cbn [app]. rewrite join_cons by (destruct anc; discriminate).
           rewrite <- !app_assoc. reflexivity.
    + (* SkipDir *)
      split; [intros [] |]. intros [e [He [Hh _]]]. apply in_flat_map in He as [c [_ He]].
      rewrite files_anc in He. apply in_map_iff in He as [[[anc x] y] [<- _]].
      cbn [prepend entry_is_hook app forallb] in Hh. rewrite Hn in Hh.
      rewrite andb_false_r in Hh. discriminate.
Qed.

(* ------------------------------------------------------------------ *)
(* F. discovery = the hooks of the statement                           *)
(* ------------------------------------------------------------------ *)

Lemma root_walk_spec parent root cs q :
  In q (get_executable_paths parent root cs) <->
  exists e, In e (all_files cs) /\ entry_is_hook e = true
            /\ q = join_path (working_dir parent root) (entry_path e).
Proof.
  unfold get_executable_paths. cbn [walk negb andb].
  rewrite (Permutation_in_iff q (Permutation_concat (Permutation_map snd (sort_by_perm fst _)))).
  rewrite map_map; cbn [snd]. rewrite <- flat_map_concat_map, in_flat_map. unfold all_files.
  split.
  - intros [c [Hc Hq]]. apply walk_spec in Hq as [e [He [Hh ->]]]. exists e.
    split; [apply in_flat_map; exists c; split; assumption | split; [assumption | reflexivity]].
  - intros [e [He [Hh ->]]]. apply in_flat_map in He as [c [Hc He]]. exists c; split; [assumption|].
    apply walk_spec. exists e. split; [assumption | split; [assumption | reflexivity]].
Qed.

(* filepath.Rel on the elements of the paths: whatever the remainder r contains - the
   elements of wd, or the whole text of wd, any number of times - the result is r *)
Lemma split_path_nonempty p : split_path p <> [].
Proof.
  destruct p as [|x r]; cbn [split_path]; [discriminate|].
  destruct (N.eqb x slash); [discriminate|]. destruct (split_path r); discriminate.
Qed.

Lemma split_path_app a : forall b, split_path (a ++ slash :: b) = split_path a ++ split_path b.
Proof.
  induction a as [|x a IH]; intros b.
  - cbn [app split_path]. rewrite N.eqb_refl. reflexivity.
  - cbn [app split_path]. destruct (N.eqb x slash).
    + rewrite IH. reflexivity.
    + rewrite IH. pose proof (split_path_nonempty a) as Hne.
      destruct (split_path a) as [|c cs]; [contradiction|]. reflexivity.
Qed.

Lemma join_split_path p : join_comps (split_path p) = p.
Proof.
  induction p as [|x r IH]; [reflexivity|].
  cbn [split_path]. pose proof (split_path_nonempty r) as Hne.
  destruct (N.eqb x slash) eqn:Ex.
  - apply N.eqb_eq in Ex. subst x.
    destruct (split_path r) as [|c cs]; [contradiction|].
    cbn [join_comps app]. cbn [join_comps] in IH. rewrite IH. reflexivity.
  - destruct (split_path r) as [|c cs]; [contradiction|].
    destruct cs as [|c' cs]; cbn [join_comps app] in *; rewrite IH; reflexivity.
Qed.

Lemma bytes_eqb_refl a : bytes_eqb a a = true.
Proof. apply bytes_eqb_eq. reflexivity. Qed.

Lemma strip_common_prefix l : forall t, strip_common l (l ++ t) = ([], t).
Proof.
  induction l as [|c l IH]; intros t; cbn [app strip_common].
  - destruct t; reflexivity.
  - rewrite bytes_eqb_refl. apply IH.
Qed.

Lemma rel_join wd r : rel wd (join_path wd r) = r.
Proof.
  unfold rel, join_path.
  destruct (bytes_eqb wd (wd ++ slash :: r)) eqn:E.
  - apply bytes_eqb_eq in E. apply (f_equal (@length N)) in E.
    rewrite app_length in E. cbn [length] in E. lia.
  - rewrite split_path_app, strip_common_prefix. cbn [map app]. apply join_split_path.
Qed.

Lemma sorted_paths_in parent root cs q :
  In q (sorted_paths parent root cs) <-> In q (get_executable_paths parent root cs).
Proof. unfold sorted_paths, sort_strings. apply Permutation_in_iff, sort_by_perm. Qed.

Lemma paths_shape parent root cs q :
  In q (get_executable_paths parent root cs) ->
  q = join_path (working_dir parent root) (rel (working_dir parent root) q).
Proof. intros H. apply root_walk_spec in H as [e [_ [_ ->]]]. rewrite rel_join. reflexivity. Qed.

Lemma rel_paths_iff parent root cs p :
  In p (map (rel (working_dir parent root)) (get_executable_paths parent root cs)) <-> is_hook cs p.
Proof.
  rewrite in_map_iff. unfold is_hook. split.
  - intros [q [<- Hq]]. apply root_walk_spec in Hq as [e [He [Hh ->]]]. exists e.
    rewrite rel_join. split; [assumption | split; [assumption | reflexivity]].
  - intros [e [He [Hh ->]]]. exists (join_path (working_dir parent root) (entry_path e)).
    split; [apply rel_join|]. apply root_walk_spec. exists e. split; [assumption | split; [assumption | reflexivity]].
Qed.

Lemma discover_iff parent root cs p : In p (discover parent root cs) <-> is_hook cs p.
Proof.
  rewrite <- rel_paths_iff. unfold discover. rewrite !in_map_iff. split.
  - intros [q [E Hq]]. exists q. split; [exact E | apply sorted_paths_in; exact Hq].
  - intros [q [E Hq]]. exists q. split; [exact E | apply sorted_paths_in; exact Hq].
Qed.

Lemma spec_hooks_iff cs p : In p (spec_hooks cs) <-> is_hook cs p.
Proof.
  unfold spec_hooks, is_hook. rewrite in_map_iff. split.
  - intros [e [<- He]]. apply filter_In in He as [He Hh]. exists e. auto.
  - intros [e [He [Hh ->]]]. exists e. split; [reflexivity | apply filter_In; auto].
Qed.

(* ------------------------------------------------------------------ *)
(* G. no duplicates (file-system trees)                                *)
(* ------------------------------------------------------------------ *)

Lemma mem_bytes_In x l : mem_bytes x l = true <-> In x l.
Proof.
  unfold mem_bytes. rewrite existsb_exists. split.
  - intros [y [Hy E]]. apply bytes_eqb_eq in E. subst. exact Hy.
  - intros H. exists x. split; [exact H | apply bytes_eqb_eq; reflexivity].
Qed.

Lemma nodupb_NoDup l : nodupb l = true <-> NoDup l.
Proof.
  induction l as [|x l IH]; cbn [nodupb].
  - split; [constructor | reflexivity].
  - rewrite andb_true_iff, negb_true_iff, IH. split.
    + intros [Hm Hn]. constructor; [|exact Hn]. intros Hin. apply mem_bytes_In in Hin. congruence.
    + intros Hn. inversion Hn as [|? ? Hni Hn']; subst. split; [|exact Hn'].
      destruct (mem_bytes x l) eqn:E; [|reflexivity]. apply mem_bytes_In in E. contradiction.
Qed.

Lemma subset_spec a b : subset a b = true <-> (forall x, In x a -> In x b).
Proof.
  unfold subset. rewrite forallb_forall. split; intros H x Hx.
  - apply mem_bytes_In, H, Hx.
  - apply mem_bytes_In, H, Hx.
Qed.

Lemma NoDup_app_intro {A} (a b : list A) :
  NoDup a -> NoDup b -> (forall x, In x a -> ~ In x b) -> NoDup (a ++ b).
Proof.
  induction a as [|x a IH]; intros Ha Hb Hd; cbn [app]; [exact Hb|].
  inversion Ha as [|? ? Hni Ha']; subst. constructor.
  - intros Hin. apply in_app_or in Hin as [Hin|Hin]; [contradiction|]. apply (Hd x); [left; reflexivity | exact Hin].
  - apply IH; [exact Ha' | exact Hb|]. intros y Hy. apply Hd. right; exact Hy.
Qed.

Definition tail_ok (r : bytes) : Prop := r = [] \/ exists r', r = slash :: r'.

Lemma walk_shape t : forall path q, In q (walk false path t) -> exists r, q = path ++ r /\ tail_ok r.
Proof.
  induction t as [n m|n cs IH] using tree_ind'; intros path q Hq; cbn [walk negb andb] in Hq.
  - destruct (check_executable_hook_file n m); [destruct Hq|].
    destruct Hq as [<-|[]]. exists []. split; [symmetry; apply app_nil_r | left; reflexivity].
  - destruct (has_dot_prefix n || existsb (bytes_eqb n) excluded_dirs); [destruct Hq|].
    rewrite (Permutation_in_iff q (Permutation_concat (Permutation_map snd (sort_by_perm fst _)))) in Hq.
    rewrite map_map in Hq; cbn [snd] in Hq. rewrite <- flat_map_concat_map, in_flat_map in Hq.
    destruct Hq as [c [Hc Hq]]. rewrite Forall_forall in IH.
    destruct (IH c Hc _ _ Hq) as [r [-> _]].
    exists (slash :: tree_name c ++ r). split.
    + unfold join_path. rewrite <- app_assoc. reflexivity.
    + right. eexists; reflexivity.
Qed.

Lemma no_slash_split n1 : forall n2 r1 r2,
  ~ In slash n1 -> ~ In slash n2 -> tail_ok r1 -> tail_ok r2 ->
  n1 ++ r1 = n2 ++ r2 -> n1 = n2.
Proof.
  induction n1 as [|x n1 IH]; intros [|y n2] r1 r2 H1 H2 T1 T2 E; cbn [app] in E.
  - reflexivity.
  - exfalso. destruct T1 as [->|[r' ->]]; [discriminate|]. inversion E; subst. apply H2; left; reflexivity.
  - exfalso. destruct T2 as [->|[r' ->]]; [discriminate|]. inversion E; subst. apply H1; left; reflexivity.
  - inversion E; subst. f_equal. eapply IH; [| |exact T1|exact T2|eassumption].
    + intros Hin; apply H1; right; exact Hin.
    + intros Hin; apply H2; right; exact Hin.
Qed.

Lemma wf_tree_name t : wf_tree t = true -> ~ In slash (tree_name t).
Proof.
  intros H. assert (Hn : name_ok (tree_name t) = true).
  { destruct t; cbn [wf_tree] in H; apply andb_true_iff in H as [H _]; exact H. }
  unfold name_ok in Hn. apply andb_true_iff in Hn as [Hn _]. apply negb_true_iff in Hn.
  intros Hin. apply mem_N_In in Hin. unfold slash in Hin. congruence.
Qed.

Lemma children_nodup path cs :
  Forall (fun t => forall b p, wf_tree t = true -> NoDup (walk b p t)) cs ->
  nodupb (map tree_name cs) = true -> forallb wf_tree cs = true ->
  NoDup (flat_map (fun c => walk false (join_path path (tree_name c)) c) cs).
Proof.
  induction cs as [|c cs IHcs]; intros IH Hnd Hwf; cbn [flat_map]; [constructor|].
  inversion IH as [|? ? IHc IHrest]; subst.
  cbn [map nodupb forallb] in Hnd, Hwf.
  apply andb_true_iff in Hnd as [Hc Hnd]. apply andb_true_iff in Hwf as [Hwc Hwf].
  apply NoDup_app_intro.
  - apply IHc. exact Hwc.
  - apply IHcs; assumption.
  - intros q Hq1 Hq2. apply in_flat_map in Hq2 as [c' [Hc' Hq2]].
    apply walk_shape in Hq1 as [r1 [E1 T1]]. apply walk_shape in Hq2 as [r2 [E2 T2]].
    rewrite E1 in E2. unfold join_path in E2. rewrite <- !app_assoc in E2.
    apply app_inv_head in E2. cbn [app] in E2. inversion E2 as [E].
    assert (Hwc' : wf_tree c' = true) by (rewrite forallb_forall in Hwf; apply Hwf; exact Hc').
    apply no_slash_split in E; [| apply wf_tree_name; assumption | apply wf_tree_name; assumption | assumption | assumption].
    apply negb_true_iff in Hc.
    assert (Hin : In (tree_name c) (map tree_name cs)) by (rewrite E; apply in_map; exact Hc').
    apply mem_bytes_In in Hin. congruence.
Qed.

Lemma walk_nodup t : forall b path, wf_tree t = true -> NoDup (walk b path t).
Proof.
  induction t as [n m|n cs IH] using tree_ind'; intros b path Hwf; cbn [walk].
  - destruct (check_executable_hook_file n m); [constructor|]. constructor; [intros []|constructor].
  - destruct (negb b && (has_dot_prefix n || existsb (bytes_eqb n) excluded_dirs)); [constructor|].
    eapply Permutation_NoDup.
    { apply Permutation_sym. apply (Permutation_concat (Permutation_map snd (sort_by_perm fst _))). }
    rewrite map_map; cbn [snd]. rewrite <- flat_map_concat_map.
    cbn [wf_tree] in Hwf. apply andb_true_iff in Hwf as [_ Hwf]. apply andb_true_iff in Hwf as [Hnd Hwf].
    apply children_nodup; assumption.
Qed.

Lemma paths_nodup parent root cs :
  wf_children cs = true -> NoDup (get_executable_paths parent root cs).
Proof.
  intros Hwf. unfold get_executable_paths. cbn [walk negb andb].
  eapply Permutation_NoDup.
  { apply Permutation_sym. apply (Permutation_concat (Permutation_map snd (sort_by_perm fst _))). }
  rewrite map_map; cbn [snd]. rewrite <- flat_map_concat_map.
  unfold wf_children in Hwf. apply andb_true_iff in Hwf as [Hnd Hwf].
  apply children_nodup; [|assumption|assumption].
  apply Forall_forall. intros t _ b p. apply walk_nodup.
Qed.

Lemma NoDup_map_rel wd l :
  (forall q, In q l -> q = join_path wd (rel wd q)) -> NoDup l -> NoDup (map (rel wd) l).
Proof.
  induction l as [|a l IH]; intros Hs Hn; cbn [map]; [constructor|].
  inversion Hn as [|? ? Hni Hn']; subst. constructor.
  - intros Hin. apply in_map_iff in Hin as [q [E Hq]]. apply Hni.
    rewrite (Hs a (or_introl eq_refl)), <- E, <- (Hs q (or_intror Hq)). exact Hq.
  - apply IH; [|exact Hn']. intros q Hq. apply Hs. right; exact Hq.
Qed.

(* ------------------------------------------------------------------ *)
(* H. order of loading                                                 *)
(* ------------------------------------------------------------------ *)

Definition blt (a b : bytes) : Prop := bytes_ltb a b = true.

Lemma sorted_map_rel wd l :
  (forall q, In q l -> q = join_path wd (rel wd q)) ->
  StronglySorted ble l -> StronglySorted ble (map (rel wd) l).
Proof.
  induction l as [|a l IH]; intros Hs Hsrt; cbn [map]; [constructor|].
  inversion Hsrt as [|? ? Hsrt' Hall]; subst. constructor.
  - apply IH; [|exact Hsrt']. intros q Hq. apply Hs. right; exact Hq.
  - apply Forall_forall. intros rb Hrb. apply in_map_iff in Hrb as [b [<- Hb]].
    rewrite Forall_forall in Hall. specialize (Hall b Hb). unfold ble in *.
    rewrite (Hs a (or_introl eq_refl)), (Hs b (or_intror Hb)) in Hall.
    unfold join_path in Hall. rewrite bytes_ltb_app in Hall. cbn [bytes_ltb] in Hall.
    rewrite N.ltb_irrefl, N.eqb_refl in Hall. exact Hall.
Qed.

Lemma sorted_strict l : StronglySorted ble l -> NoDup l -> StronglySorted blt l.
Proof.
  induction l as [|a l IH]; intros Hs Hn; [constructor|].
  inversion Hs as [|? ? Hs' Hall]; subst. inversion Hn as [|? ? Hni Hn']; subst.
  constructor; [apply IH; assumption|].
  apply Forall_forall. intros x Hx. rewrite Forall_forall in Hall.
  apply ble_neq_lt; [apply Hall; exact Hx|]. intros ->. contradiction.
Qed.

Lemma sorted_paths_sorted parent root cs : StronglySorted ble (sorted_paths parent root cs).
Proof. unfold sorted_paths, sort_strings. apply (sort_by_sorted (fun p : bytes => p)). Qed.

Lemma sorted_paths_shape parent root cs q :
  In q (sorted_paths parent root cs) ->
  q = join_path (working_dir parent root) (rel (working_dir parent root) q).
Proof. intros H. apply sorted_paths_in in H. apply paths_shape in H. exact H. Qed.

Lemma discover_sorted parent root cs : StronglySorted ble (discover parent root cs).
Proof.
  unfold discover. apply sorted_map_rel; [apply sorted_paths_shape | apply sorted_paths_sorted].
Qed.

Lemma sorted_paths_nodup parent root cs :
  wf_children cs = true -> NoDup (sorted_paths parent root cs).
Proof.
  intros Hwf. eapply Permutation_NoDup; [apply Permutation_sym, sort_by_perm | apply paths_nodup; exact Hwf].
Qed.

Lemma discover_nodup parent root cs : wf_children cs = true -> NoDup (discover parent root cs).
Proof.
  intros Hwf. unfold discover. apply NoDup_map_rel; [apply sorted_paths_shape | apply sorted_paths_nodup; exact Hwf].
Qed.

Lemma discover_sorted_nodup parent root cs :
  wf_children cs = true ->
  StronglySorted blt (discover parent root cs) /\ NoDup (discover parent root cs).
Proof.
  intros Hwf. split; [apply sorted_strict; [apply discover_sorted | apply discover_nodup; exact Hwf] | apply discover_nodup; exact Hwf].
Qed.

(* ------------------------------------------------------------------ *)
(* I. the --config round                                               *)
(* ------------------------------------------------------------------ *)

Lemma load_all_ok wd beh paths : forall aa na,
  (forall p, In p paths -> beh (rel wd p) = BOk) ->
  load_all wd beh paths aa na = mkInitOut (aa ++ paths) InitOk (na ++ map (rel wd) paths).
Proof.
  induction paths as [|a paths IH]; intros aa na Hok; cbn [load_all map].
  - rewrite !app_nil_r. reflexivity.
  - rewrite (Hok a (or_introl eq_refl)). rewrite IH by (intros p Hp; apply Hok; right; exact Hp).
    rewrite <- !app_assoc. reflexivity.
Qed.

Definition fail_result (wd : bytes) (beh : bytes -> behaviour) (h : bytes) : init_result :=
  match beh (rel wd h) with
  | BFail => ErrGetConfig h
  | BInvalid => ErrCreating (rel wd h)
  | BOk => InitOk
  end.

Lemma load_all_fail wd beh pre : forall h post aa na,
  (forall p, In p pre -> beh (rel wd p) = BOk) -> beh (rel wd h) <> BOk ->
  load_all wd beh (pre ++ h :: post) aa na
  = mkInitOut (aa ++ pre ++ [h]) (fail_result wd beh h) (na ++ map (rel wd) pre).
Proof.
  induction pre as [|a pre IH]; intros h post aa na Hok Hbad; cbn [app load_all map].
  - unfold fail_result. rewrite app_nil_r. destruct (beh (rel wd h)); [contradiction | reflexivity | reflexivity].
  - rewrite (Hok a (or_introl eq_refl)). rewrite IH; [| intros p Hp; apply Hok; right; exact Hp | exact Hbad].
    rewrite <- !app_assoc. reflexivity.
Qed.

Lemma first_bad_decomp {A} (f : A -> bool) (l : list A) :
  (forall p, In p l -> f p = false) \/
  exists pre h post, l = pre ++ h :: post /\ (forall p, In p pre -> f p = false) /\ f h = true.
Proof.
  induction l as [|a l IH].
  - left. intros p [].
  - destruct (f a) eqn:Ha.
    + right. exists [], a, l. split; [reflexivity | split; [intros p [] | exact Ha]].
    + destruct IH as [IH|[pre [h [post [-> [Hpre Hh]]]]]].
      * left. intros p [<-|Hp]; [exact Ha | apply IH; exact Hp].
      * right. exists (a :: pre), h, post. split; [reflexivity | split; [|exact Hh]].
        intros p [<-|Hp]; [exact Ha | apply Hpre; exact Hp].
Qed.

(* the asked hooks are always an initial segment of the sorted paths *)
Lemma init_asked_prefix parent root cs beh :
  exists rest, sorted_paths parent root cs = asked (init parent root cs beh) ++ rest.
Proof.
  unfold init. set (wd := working_dir parent root). set (sp := sorted_paths parent root cs).
  destruct (first_bad_decomp (fun p => match beh (rel wd p) with BOk => false | _ => true end) sp)
    as [Hok|[pre [h [post [E [Hpre Hh]]]]]].
  - rewrite load_all_ok.
    + exists []. cbn [asked app]. rewrite app_nil_r. reflexivity.
    + intros p Hp. specialize (Hok p Hp). cbn beta in Hok. destruct (beh (rel wd p)); [reflexivity | discriminate | discriminate].
  - rewrite E, load_all_fail.
    + exists post. cbn [asked app]. rewrite <- app_assoc. reflexivity.
    + intros p Hp. specialize (Hpre p Hp). cbn beta in Hpre. destruct (beh (rel wd p)); [reflexivity | discriminate | discriminate].
    + intros Hb. rewrite Hb in Hh. discriminate.
Qed.

Lemma init_ok_all parent root cs beh :
  result (init parent root cs beh) = InitOk ->
  asked (init parent root cs beh) = sorted_paths parent root cs
  /\ names (init parent root cs beh) = discover parent root cs
  /\ (forall n, In n (discover parent root cs) -> beh n = BOk).
Proof.
  unfold init, discover. set (wd := working_dir parent root). set (sp := sorted_paths parent root cs).
  destruct (first_bad_decomp (fun p => match beh (rel wd p) with BOk => false | _ => true end) sp)
    as [Hok|[pre [h [post [E [Hpre Hh]]]]]].
  - assert (Hok' : forall p, In p sp -> beh (rel wd p) = BOk).
    { intros p Hp. specialize (Hok p Hp). cbn beta in Hok. destruct (beh (rel wd p)); [reflexivity | discriminate | discriminate]. }
    rewrite load_all_ok by exact Hok'. intros _. cbn [asked names app]. split; [reflexivity | split; [reflexivity|]].
    intros n Hn. apply in_map_iff in Hn as [p [<- Hp]]. apply Hok'. exact Hp.
  - rewrite E, load_all_fail.
    + cbn [result]. unfold fail_result. destruct (beh (rel wd h)); [discriminate Hh | discriminate | discriminate].
    + intros p Hp. specialize (Hpre p Hp). cbn beta in Hpre. destruct (beh (rel wd p)); [reflexivity | discriminate | discriminate].
    + intros Hb. rewrite Hb in Hh. discriminate.
Qed.

Lemma init_first_failure parent root cs beh pre h post :
  sorted_paths parent root cs = pre ++ h :: post ->
  (forall p, In p pre -> beh (rel (working_dir parent root) p) = BOk) ->
  beh (rel (working_dir parent root) h) <> BOk ->
  asked (init parent root cs beh) = pre ++ [h]
  /\ names (init parent root cs beh) = map (rel (working_dir parent root)) pre
  /\ result (init parent root cs beh) <> InitOk
  /\ (result (init parent root cs beh) = ErrGetConfig h
      \/ result (init parent root cs beh) = ErrCreating (rel (working_dir parent root) h)).
Proof.
  intros E Hpre Hh. unfold init. rewrite E, load_all_fail by assumption.
  cbn [asked names result app]. split; [reflexivity | split; [reflexivity|]].
  unfold fail_result. destruct (beh (rel (working_dir parent root) h)); [contradiction | |].
  - split; [discriminate | left; reflexivity].
  - split; [discriminate | right; reflexivity].
Qed.

(* ------------------------------------------------------------------ *)
(* J. the model satisfies P                                            *)
(* ------------------------------------------------------------------ *)

Lemma strip_wd_shape wd r : strip_wd wd (join_path wd r) = Some r.
Proof.
  unfold strip_wd.
  assert (H : is_prefix (wd ++ [47]) (join_path wd r) = true).
  { apply is_prefix_spec. exists r. unfold join_path, slash. rewrite <- app_assoc. reflexivity. }
  rewrite H. f_equal. unfold join_path. induction wd as [|x wd IH]; cbn; [reflexivity | apply IH].
  apply is_prefix_spec. exists r. unfold slash. rewrite <- app_assoc. reflexivity.
Qed.

Lemma strip_all_shape wd l :
  (forall q, In q l -> q = join_path wd (rel wd q)) -> strip_all wd l = Some (map (rel wd) l).
Proof.
  induction l as [|a l IH]; intros Hs; cbn [strip_all map]; [reflexivity|].
  rewrite (Hs a (or_introl eq_refl)) at 1. rewrite strip_wd_shape.
  rewrite IH by (intros q Hq; apply Hs; right; exact Hq). reflexivity.
Qed.

Lemma SS_app_l {A} (R : A -> A -> Prop) a : forall b, StronglySorted R (a ++ b) -> StronglySorted R a.
Proof.
  induction a as [|x a IH]; intros b H; [constructor|].
  cbn [app] in H. inversion H as [|? ? Hs Hall]; subst. constructor; [eapply IH; exact Hs|].
  apply Forall_app in Hall as [Ha _]. exact Ha.
Qed.

Lemma SS_app_mid {A} (R : A -> A -> Prop) a : forall h b, StronglySorted R (a ++ h :: b) -> Forall (R h) b.
Proof.
  induction a as [|x a IH]; intros h b H; cbn [app] in H; inversion H as [|? ? Hs Hall]; subst.
  - exact Hall.
  - eapply IH; exact Hs.
Qed.

Lemma strictly_sorted_of_SS l : StronglySorted blt l -> strictly_sorted l = true.
Proof.
  induction l as [|x l IH]; intros H; [reflexivity|].
  inversion H as [|? ? Hs Hall]; subst. destruct l as [|y r]; [reflexivity|].
  cbn [strictly_sorted]. apply andb_true_iff. split.
  - inversion Hall; subst. assumption.
  - apply IH. exact Hs.
Qed.

Lemma beh_of_ok i name : beh_of i name = BOk <-> misbehaves i name = false.
Proof.
  unfold beh_of, misbehaves.
  destruct (beh_code i name) as [|[[p|p|]|[p|p|]|]]; cbn; split; intros H; congruence.
Qed.

Lemma split_first_bad_none i l :
  (forall x, In x l -> misbehaves i x = false) -> split_first_bad i l = None.
Proof.
  induction l as [|a l IH]; intros H; cbn [split_first_bad]; [reflexivity|].
  rewrite (H a (or_introl eq_refl)). apply IH. intros x Hx. apply H. right; exact Hx.
Qed.

Lemma split_first_bad_some i pre : forall h post,
  (forall x, In x pre -> misbehaves i x = false) -> misbehaves i h = true ->
  split_first_bad i (pre ++ h :: post) = Some (h, post).
Proof.
  induction pre as [|a pre IH]; intros h post Hpre Hh; cbn [app split_first_bad].
  - rewrite Hh. reflexivity.
  - rewrite (Hpre a (or_introl eq_refl)). apply IH; [|exact Hh]. intros x Hx. apply Hpre. right; exact Hx.
Qed.

Lemma list_eqb_bytes_refl l : list_eqb bytes_eqb l l = true.
Proof. apply list_eqb_refl. intros x. apply bytes_eqb_eq. reflexivity. Qed.

Lemma wd_of_eq i : wd_of i = working_dir (i_parent i) (i_root i).
Proof. reflexivity. Qed.

Lemma P_paths_model i :
  wf_children (i_children i) = true -> P_paths i (model_of i) = true.
Proof.
  intros Hwf. unfold P_paths, model_of. cbn [o_paths]. rewrite wd_of_eq.
  rewrite strip_all_shape by apply paths_shape.
  rewrite !andb_true_iff. split; [split|].
  - apply nodupb_NoDup. apply NoDup_map_rel; [apply paths_shape | apply paths_nodup; exact Hwf].
  - apply subset_spec. intros x Hx. apply spec_hooks_iff. apply rel_paths_iff in Hx. exact Hx.
  - apply subset_spec. intros x Hx. apply spec_hooks_iff in Hx. apply rel_paths_iff. exact Hx.
Qed.

Lemma P_init_model i :
  wf_children (i_children i) = true ->
  P_init i (init_obs_of (init (i_parent i) (i_root i) (i_children i) (beh_of i))) = true.
Proof.
  intros Hwf.
  set (parent := i_parent i). set (root := i_root i). set (cs := i_children i).
  set (wd := working_dir parent root).
  pose proof (discover_sorted_nodup parent root cs Hwf) as [Hss Hnd].
  assert (Hexp : forall x, In x (discover parent root cs) <-> In x (spec_hooks cs)).
  { intros x. rewrite discover_iff, spec_hooks_iff. reflexivity. }
  unfold init. fold wd.
  destruct (first_bad_decomp (fun p => misbehaves i (rel wd p)) (sorted_paths parent root cs))
    as [Hok|[pre [h [post [E [Hpre Hh]]]]]].
  - (* nobody misbehaves *)
    rewrite load_all_ok by (intros p Hp; apply beh_of_ok, Hok, Hp).
    cbn [app init_obs_of result asked names]. unfold P_init. cbn [io_asked io_status io_named io_names].
    rewrite wd_of_eq. fold parent root wd.
    rewrite strip_all_shape by apply sorted_paths_shape.
    fold (discover parent root cs). fold cs.
    rewrite split_first_bad_none.
    + rewrite !andb_true_iff. repeat split.
      * apply strictly_sorted_of_SS. exact Hss.
      * apply subset_spec. intros x Hx. apply Hexp. exact Hx.
      * apply subset_spec. intros x Hx. apply Hexp. exact Hx.
      * apply list_eqb_bytes_refl.
    + intros x Hx. unfold discover in Hx. apply in_map_iff in Hx as [p [<- Hp]]. apply Hok. exact Hp.
  - (* h is the first misbehaving hook *)
    assert (Hbad : beh_of i (rel wd h) <> BOk).
    { intros Hb. apply beh_of_ok in Hb. cbn beta in Hh. congruence. }
    rewrite E, load_all_fail; [| intros p Hp; apply beh_of_ok, Hpre, Hp | exact Hbad].
    assert (HD : discover parent root cs = map (rel wd) pre ++ rel wd h :: map (rel wd) post).
    { unfold discover. fold wd. rewrite E, map_app. reflexivity. }
    assert (Hshape : forall q, In q (pre ++ [h]) -> q = join_path wd (rel wd q)).
    { intros q Hq. apply (sorted_paths_shape parent root cs). rewrite E.
      apply in_app_or in Hq as [Hq|[<-|[]]]; apply in_or_app; [left; exact Hq | right; left; reflexivity]. }
    assert (Hres : exists st nm, init_obs_of (mkInitOut ([] ++ pre ++ [h]) (fail_result wd (beh_of i) h) ([] ++ map (rel wd) pre))
                   = mkInitObs (pre ++ [h]) st nm (map (rel wd) pre) /\ st <> 0 /\ names_hook (rel wd h) nm = true).
    { unfold fail_result. destruct (beh_of i (rel wd h)); [contradiction | |]; cbn [init_obs_of result asked names app].
      - exists 1, h. split; [reflexivity | split; [discriminate|]].
        unfold names_hook. apply orb_true_iff. right. apply ends_with_spec. exists wd.
        rewrite (Hshape h) at 1 by (apply in_or_app; right; left; reflexivity). reflexivity.
      - exists 2, (rel wd h). split; [reflexivity | split; [discriminate|]].
        unfold names_hook. apply orb_true_iff. left. apply bytes_eqb_eq. reflexivity. }
    destruct Hres as [st [nm [-> [Hst Hnm]]]].
    unfold P_init. cbn [io_asked io_status io_named io_names].
    rewrite wd_of_eq. fold parent root wd.
    rewrite strip_all_shape by exact Hshape.
    rewrite map_app. cbn [map]. fold cs.
    rewrite split_first_bad_some; [| intros x Hx; apply in_map_iff in Hx as [p [<- Hp]]; apply Hpre; exact Hp | exact Hh].
    rewrite HD in Hss.
    rewrite !andb_true_iff. repeat split.
    + apply strictly_sorted_of_SS. apply (SS_app_l blt _ (map (rel wd) post)).
      rewrite <- app_assoc. exact Hss.
    + apply subset_spec. intros x Hx. apply Hexp. rewrite HD.
      apply in_app_or in Hx as [Hx|[<-|[]]]; apply in_or_app; [left; exact Hx | right; left; reflexivity].
    + apply negb_true_iff. apply N.eqb_neq. exact Hst.
    + exact Hnm.
    + apply forallb_forall. intros e He. apply Hexp in He. rewrite HD in He.
      destruct (bytes_ltb e (rel wd h)) eqn:Hlt; [|reflexivity].
      apply mem_bytes_In. apply in_app_or in He as [He|[<-|He]].
      * apply in_or_app. left; exact He.
      * rewrite bytes_ltb_irrefl in Hlt. discriminate.
      * pose proof (SS_app_mid blt _ _ _ Hss) as Hall. rewrite Forall_forall in Hall.
        specialize (Hall e He). apply bytes_ltb_asym in Hall. congruence.
Qed.

(* ------------------------------------------------------------------ *)
(* K. names and the by-name index                                      *)
(* ------------------------------------------------------------------ *)

(* the name determines the file: two discovered files with the same name are the same file *)
Lemma name_determines_file parent root cs p q :
  In p (get_executable_paths parent root cs) -> In q (get_executable_paths parent root cs) ->
  rel (working_dir parent root) p = rel (working_dir parent root) q -> p = q.
Proof.
  intros Hp Hq E. rewrite (paths_shape parent root cs p Hp), (paths_shape parent root cs q Hq), E. reflexivity.
Qed.

(* ... and it is the path of the file relative to the hooks directory *)
Lemma name_is_relative_path parent root cs p :
  In p (get_executable_paths parent root cs) ->
  p = working_dir parent root ++ slash :: rel (working_dir parent root) p
  /\ exists e, In e (all_files cs) /\ entry_is_hook e = true /\ rel (working_dir parent root) p = entry_path e.
Proof.
  intros Hp. split; [exact (paths_shape parent root cs p Hp)|].
  apply root_walk_spec in Hp as [e [He [Hh ->]]]. exists e. rewrite rel_join. auto.
Qed.

Lemma index_get_in m n p : index_get m n = Some p -> In (n, p) m.
Proof.
  unfold index_get. destruct (find (fun kv => bytes_eqb (fst kv) n) m) as [[k v]|] eqn:F; [|discriminate].
  intros [= <-]. apply find_some in F as [Hin E]. cbn [fst] in E. apply bytes_eqb_eq in E. subst k. exact Hin.
Qed.

Lemma index_get_some m n p : In (n, p) m -> exists p', index_get m n = Some p'.
Proof.
  intros Hin. unfold index_get. destruct (find (fun kv => bytes_eqb (fst kv) n) m) as [kv|] eqn:F.
  - exists (snd kv). reflexivity.
  - exfalso. pose proof (find_none _ _ F _ Hin) as Hn. cbn [fst] in Hn. rewrite bytes_eqb_refl in Hn. discriminate.
Qed.

Definition idx_ok (wd : bytes) (m : by_name) : Prop := forall n p, In (n, p) m -> p = join_path wd n.

Lemma load_index_ok wd beh paths : forall idx,
  (forall q, In q paths -> q = join_path wd (rel wd q)) -> idx_ok wd idx -> idx_ok wd (load_index wd beh paths idx).
Proof.
  induction paths as [|a paths IH]; intros idx Hs Hok; cbn [load_index]; [exact Hok|].
  destruct (beh (rel wd a)); [|exact Hok|exact Hok].
  apply IH; [intros q Hq; apply Hs; right; exact Hq|].
  intros n p [E|H]; [|apply Hok; exact H].
  injection E as <- <-. apply Hs. left; reflexivity.
Qed.

Lemma load_index_names wd beh paths : forall aa na idx,
  (forall n, In n na -> exists p, In (n, p) idx) ->
  forall n, In n (names (load_all wd beh paths aa na)) -> exists p, In (n, p) (load_index wd beh paths idx).
Proof.
  induction paths as [|a paths IH]; intros aa na idx H n Hn; cbn [load_all load_index] in *.
  - cbn [names] in Hn. apply H; exact Hn.
  - destruct (beh (rel wd a)); cbn [names] in Hn; [|apply H; exact Hn|apply H; exact Hn].
    eapply IH; [|exact Hn]. intros n' Hn'. apply in_app_or in Hn' as [Hn'|[<-|[]]].
    + destruct (H n' Hn') as [p Hp]. exists p. right; exact Hp.
    + exists a. left; reflexivity.
Qed.

Lemma hooks_by_name_ok parent root cs beh :
  idx_ok (working_dir parent root) (hooks_by_name parent root cs beh).
Proof.
  unfold hooks_by_name. apply load_index_ok; [apply sorted_paths_shape | intros n p []].
Qed.

(* a look-up never leads to another file than the one at that relative path *)
Lemma index_sound parent root cs beh n p :
  index_get (hooks_by_name parent root cs beh) n = Some p -> p = working_dir parent root ++ slash :: n.
Proof. intros H. apply index_get_in in H. exact (hooks_by_name_ok parent root cs beh n p H). Qed.

(* every loaded hook is found under its name, bound to its own file *)
Lemma index_holds_loaded parent root cs beh n :
  In n (names (init parent root cs beh)) ->
  index_get (hooks_by_name parent root cs beh) n = Some (working_dir parent root ++ slash :: n).
Proof.
  intros Hn. unfold init in Hn.
  destruct (load_index_names (working_dir parent root) beh (sorted_paths parent root cs) [] [] []
              (fun n' (H : In n' []) => match H with end) n Hn) as [p Hp].
  fold (hooks_by_name parent root cs beh) in Hp.
  destruct (index_get_some _ _ _ Hp) as [p' E]. rewrite E. f_equal. exact (index_sound _ _ _ _ _ _ E).
Qed.

(* when Init succeeds the index holds every discovered file under its relative path *)
Lemma index_complete parent root cs beh :
  result (init parent root cs beh) = InitOk ->
  forall p, In p (get_executable_paths parent root cs) ->
  index_get (hooks_by_name parent root cs beh) (rel (working_dir parent root) p) = Some p.
Proof.
  intros Hok p Hp. destruct (init_ok_all parent root cs beh Hok) as [_ [Hn _]].
  rewrite (paths_shape parent root cs p Hp) at 2. apply index_holds_loaded. rewrite Hn.
  unfold discover. apply in_map. apply sorted_paths_in. exact Hp.
Qed.

Lemma index_holds_every_hook parent root cs beh :
  (forall n p, index_get (hooks_by_name parent root cs beh) n = Some p -> p = working_dir parent root ++ slash :: n)
  /\ (forall n, In n (names (init parent root cs beh)) ->
        index_get (hooks_by_name parent root cs beh) n = Some (working_dir parent root ++ slash :: n))
  /\ (result (init parent root cs beh) = InitOk ->
        forall p, In p (get_executable_paths parent root cs) ->
        index_get (hooks_by_name parent root cs beh) (rel (working_dir parent root) p) = Some p).
Proof.
  exact (conj (index_sound parent root cs beh)
        (conj (index_holds_loaded parent root cs beh) (index_complete parent root cs beh))).
Qed.

Lemma io_names_init_obs_of r : io_names (init_obs_of r) = names r.
Proof. unfold init_obs_of. destruct (result r); reflexivity. Qed.

Lemma io_status_init_obs_of r : N.eqb (io_status (init_obs_of r)) 0 = true -> result r = InitOk.
Proof. unfold init_obs_of. destruct (result r); cbn [io_status]; intros H; [reflexivity | discriminate | discriminate]. Qed.

Lemma P_index_model i :
  P_index i (init_obs_of (init (i_parent i) (i_root i) (i_children i) (beh_of i))) (index_obs_of i) = true.
Proof.
  set (parent := i_parent i). set (root := i_root i). set (cs := i_children i).
  unfold P_index, index_obs_of. fold parent root cs. rewrite wd_of_eq. fold parent root.
  set (wd := working_dir parent root). set (m := hooks_by_name parent root cs (beh_of i)).
  set (r := init parent root cs (beh_of i)).
  assert (Hget : forall n, In n (names r) -> get_hook_path m n = wd ++ 47 :: n).
  { intros n Hn. unfold get_hook_path, m. rewrite (index_holds_loaded parent root cs (beh_of i) n Hn). reflexivity. }
  rewrite !andb_true_iff. split; [split|].
  - apply forallb_forall. intros [n p] Hin. apply in_map_iff in Hin as [n' [E _]]. injection E as <- <-.
    cbn [fst snd]. unfold get_hook_path. destruct (index_get m n') as [p|] eqn:G; [|reflexivity].
    apply index_sound in G. subst p. apply orb_true_iff. right. apply bytes_eqb_refl.
  - rewrite io_names_init_obs_of. apply forallb_forall. intros n Hn.
    unfold found_in. apply existsb_exists. exists (n, get_hook_path m n). split.
    + apply in_map_iff. exists n. split; [reflexivity | apply in_or_app; left; exact Hn].
    + cbn [fst snd]. rewrite bytes_eqb_refl, (Hget n Hn). destruct wd; reflexivity.
  - destruct (N.eqb (io_status (init_obs_of r)) 0) eqn:Est; [|reflexivity].
    apply io_status_init_obs_of in Est. destruct (init_ok_all parent root cs (beh_of i) Est) as [_ [Hn _]].
    apply forallb_forall. intros e He. apply spec_hooks_iff in He. apply discover_iff with (parent := parent) (root := root) in He.
    unfold bound_to. apply existsb_exists. exists (e, get_hook_path m e). split.
    + apply in_map_iff. exists e. split; [reflexivity | apply in_or_app; right; exact He].
    + cbn [fst snd]. fold r in Hn. rewrite Hget by (rewrite Hn; exact He). rewrite !bytes_eqb_refl. reflexivity.
Qed.

Lemma P_model i : wf_children (i_children i) = true -> P i (model_of i) = true.
Proof.
  intros Hwf. unfold P. rewrite (P_paths_model i Hwf). cbn [andb].
  unfold model_of. cbn [o_init o_index]. destruct (i_with_init i); [|reflexivity].
  cbn [andb]. rewrite (P_init_model i Hwf). cbn [andb]. apply P_index_model.
Qed.

Lemma NoDup_app_l {A} (a b : list A) : NoDup (a ++ b) -> NoDup a.
Proof.
  induction a as [|x a IH]; intros H; [constructor|].
  cbn [app] in H. inversion H as [|? ? Hni Hn]; subst. constructor; [|apply IH; exact Hn].
  intros Hin. apply Hni. apply in_or_app. left; exact Hin.
Qed.

Lemma config_once parent root cs beh :
  (exists rest, sorted_paths parent root cs = asked (init parent root cs beh) ++ rest)
  /\ (result (init parent root cs beh) = InitOk ->
        asked (init parent root cs beh) = sorted_paths parent root cs
        /\ names (init parent root cs beh) = discover parent root cs
        /\ (forall n, In n (discover parent root cs) -> beh n = BOk))
  /\ (wf_children cs = true -> NoDup (asked (init parent root cs beh))).
Proof.
  split; [apply init_asked_prefix | split; [apply init_ok_all|]].
  intros Hwf. destruct (init_asked_prefix parent root cs beh) as [rest E].
  pose proof (sorted_paths_nodup parent root cs Hwf) as Hn. rewrite E in Hn.
  exact (NoDup_app_l _ _ Hn).
Qed.
