From Verif Require Import Common C02_Model C02_Spec C02_Comp C02_CompSpec C02_Win C02_WinSpec C02_Hook C02_HookSpec C02_Relist C02_RelistSpec.
Open Scope N_scope.

Inductive case :=
| CSnap (i : snap_in) (snap restart : list view) (bad : bool)
| CUpd (i : upd_in) (os : list (list (N * N) * N)) (reads : list N) (bad : bool)
| CGrp (named : bool) (keys objs : N) (bad : bool)
| CDyn (i : dyn_in) (reads : list (list view)) (bad : bool)
| CDyn2 (i : dyn_in) (k : dcomp) (reads creads : list (list view)) (bad : bool)
| CWin (i : win_in) (snap : list view) (bad : bool)
| CHk (i : hk_in) (os : list (list (list (N * N) * N))) (ts : list (list btype)) (bad : bool)
| CRl (i : rl_in) (reads : list (list view)) (bad : bool).
    (* a history with watch outages: changes seen through a re-list (C02_Relist) *)
    (* a hook with bindings of several types (shared names), several executions in one process (C02_Hook) *)
    (* the same beside a second binding with static namespaces sharing the first one's shared informers (C02_Comp) *)

Inductive mo := MSnap (s r : list view) | MUpd (os : list (list (N * N) * N)) (reads : list N) | MGrp (k o : N)
  | MDyn (reads : list (list view)) | MDyn2 (reads creads : list (list view)) | MWin (s : list view)
  | MHk (os : list (list (list (N * N) * N))) (ts : list (list btype)) | MRl (reads : list (list view)).

Definition model_obs (c : case) : mo :=
  match c with
  | CSnap i _ _ _ => MSnap (snapshot_view i) (if si_restart i then restart_view i else [])
  | CUpd i _ _ _ => let (os, rs) := update i in MUpd os rs
  | CGrp n _ _ _ => let (k, o) := grp n in MGrp k o
  | CDyn i _ _ => MDyn (dyn_views i)
  | CDyn2 i k _ _ _ => MDyn2 (dyn_views i) (comp_views i k)
  | CWin i _ _ => MWin (w_views i)
  | CHk i _ _ _ => MHk (hk_run i) (hk_types i)
  | CRl i _ _ => MRl (rl_views i)
  end.

Definition views_eqb : list view -> list view -> bool := list_eqb view_eqb.
Definition kv_eqb (a b : N * N) : bool := N.eqb (fst a) (fst b) && N.eqb (snd a) (snd b).
Definition ctxo_eqb (a b : list (N * N) * N) : bool := list_eqb kv_eqb (fst a) (fst b) && N.eqb (snd a) (snd b).

Definition agrees (c : case) : bool :=
  match c with
  | CSnap i s r bad => negb bad && views_eqb (snapshot_view i) s
                       && (if si_restart i then views_eqb (restart_view i) r else true)
  | CUpd i os rs bad => let (mos, mrs) := update i in
                        negb bad && list_eqb ctxo_eqb mos os && list_eqb N.eqb mrs rs
  | CGrp n k o bad => let (mk, mo) := grp n in negb bad && N.eqb mk k && N.eqb mo o
  | CDyn i rs bad => negb bad && list_eqb views_eqb (dyn_views i) rs
  | CDyn2 i k rs crs bad => negb bad && list_eqb views_eqb (dyn_views i) rs && list_eqb views_eqb (comp_views i k) crs
  | CWin i s bad => negb bad && views_eqb (w_views i) s
  | CHk i os ts bad => negb bad && list_eqb (list_eqb ctxo_eqb) (hk_run i) os && list_eqb (list_eqb btype_eqb) (hk_types i) ts
  | CRl i rs bad => negb bad && list_eqb views_eqb (rl_views i) rs
  end.

Definition spec_ok (c : case) : bool :=
  match c with
  | CSnap i s r bad => P_view i s r bad
  | CUpd i os rs bad => P_upd i os rs bad
  | CGrp _ k o bad => P_grp k o bad
  | CDyn i rs bad => P_dyn i rs bad
  | CDyn2 i k rs crs bad => P_dyn2 i k rs crs bad
  | CWin i s bad => P_win i s bad
  | CHk i os ts bad => P_hk i os ts bad
  | CRl i rs bad => P_rl i rs bad
  end.

Definition mismatches (cs : list case) : list N := indices_where (fun c => negb (agrees c)) cs.
Definition spec_violations (cs : list case) : list N := indices_where (fun c => negb (spec_ok c)) cs.
Definition trigger_F25 (cs : list case) : list N :=
  indices_where (fun c => match c with CGrp n _ _ _ => T_grp n | _ => false end) cs.
Definition trigger_F26 (cs : list case) : list N :=
  indices_where (fun c => match c with CSnap i _ _ _ => T_ghost i | CWin i _ _ => T_wghost i | _ => false end) cs.
(* the namespace-level ghost (reported, not yet a recorded finding: no case of it is generated) *)
Definition trigger_F32 (cs : list case) : list N :=
  indices_where (fun c => match c with CDyn i _ _ => T_nsghost i | CDyn2 i _ _ _ _ => T_nsghost i | _ => false end) cs.
(* a validating and a mutating binding of one name: the recorded finding F31 (of C09; not yet listed for C02:
   no case of it is generated) *)
Definition trigger_F31 (cs : list case) : list N :=
  indices_where (fun c => match c with CHk i _ _ _ => T_vm i | _ => false end) cs.
