(* C09_Spec.v — property C09 as a decidable predicate over what a hook reads from its
   binding-context file.  Written from the property text and the documented field table
   (docs/src/HOOKS.md "Binding context", BINDING_VALIDATING.md, BINDING_CONVERSION.md):

     binding        always
     type           "Schedule" | "Synchronization" | "Event" | "Group" | "Validating" | "Mutating" | "Conversion"
                    (absent for onStartup)
     Synchronization   objects : one element per object, each with `object` (iff full objects
                       are kept) and `filterResult` (iff jqFilter is set)
     Event             watchEvent, object (iff full objects are kept), filterResult (iff
                       jqFilter is set) = the jq result for that very object
     Group             groupName, snapshots  — and nothing else
     Validating/Mutating   review (the AdmissionReview)
     Conversion        fromVersion, toVersion, review (the ConversionReview)
     snapshots         present exactly when the binding includes snapshots; one array per
                       included binding name, elements as in `objects`

   The predicate talks about the INPUT (the context: binding kind, options, objects with
   the jq oracle's answer) and the OBSERVED JSON only; it never calls the model's render. *)
From Verif Require Import Common Json C09_Model.

Fixpoint forall2b {A B} (f : A -> B -> bool) (l : list A) (m : list B) : bool :=
  match l, m with
  | [], [] => true
  | x :: l', y :: m' => f x y && forall2b f l' m'
  | _, _ => false
  end.

(* keys strictly increasing (every key smaller than every later key): the canonical form
   in which the harness prints every JSON object and every Go map *)
Fixpoint sorted_strict {A} (m : list (bytes * A)) : bool :=
  match m with
  | [] => true
  | (k, _) :: r => forallb (fun p => bytes_ltb k (fst p)) r && sorted_strict r
  end.

(* ---- which contexts the documentation talks about ---- *)

Definition canon_outs (outs : list json) : bool :=
  forallb (fun v => match v with JObj m => sorted_strict m | _ => true end) outs.

(* an element produced by the informer path for a binding whose jqFilter is set/unset as
   [jq] says (None: any binding — snapshot elements come from other bindings) *)
Definition wf_item (jq : option bool) (i : item) : bool :=
  match i with
  | Stored jqf _ _ =>
      match jq with Some b => Bool.eqb (is_some jqf) b | None => true end
      && match jqf with Some outs => canon_outs outs | None => true end
  | Raw _ => false
  end.

Definition wf_snapshots (c : ctx) : bool :=
  sorted_strict (c_snapshots c)
  && forallb (fun p => forallb (wf_item None) (snd p)) (c_snapshots c).

Definition grouped (c : ctx) : bool := negb (is_nil (c_group c)).

(* contexts as the operator builds them for the documented bindings of a v1 hook *)
Definition wf1 (c : ctx) : bool :=
  wf_snapshots c &&
  match c_btype c with
  | BOnStartup => negb (includes c)             (* onStartup has no includeSnapshotsFrom *)
  | BSchedule => true
  | BKube =>
      if grouped c then true
      else match c_type c, c_wev c, c_objects c with
           | KSync, WNone, objs => forallb (wf_item (Some (c_jq c))) objs
           | KEvent, WAdded, [i] | KEvent, WModified, [i] | KEvent, WDeleted, [i] =>
               wf_item (Some (c_jq c)) i
           | _, _, _ => false
           end
  | BValidating | BMutating => is_some (c_areview c)
  | BConversion => is_some (c_creview c)
  | BOther => false
  end.

(* contexts of a v0 hook: v0 has no keepFullObjectsInMemory option, full objects are kept *)
Definition wf0 (c : ctx) : bool :=
  match c_btype c with
  | BKube => match c_objects c with
             | [] => true
             | Stored _ keep _ :: _ => keep
             | Raw _ :: _ => false
             end
  | _ => true
  end.

(* ---- the documented context kinds and their field table ---- *)

Inductive dkind := DStartup | DSchedule | DGroup | DSync | DEvent | DValidating | DMutating | DConversion | DUndoc.

Definition doc_kind (c : ctx) : dkind :=
  match c_btype c with
  | BOnStartup => DStartup
  | BValidating => DValidating
  | BMutating => DMutating
  | BConversion => DConversion
  | BSchedule => if grouped c then DGroup else DSchedule
  | BKube => if grouped c then DGroup
             else match c_type c with KSync => DSync | KEvent => DEvent | KEmpty => DUndoc end
  | BOther => DUndoc
  end.

Definition opt_key (b : bool) (k : bytes) : list bytes := if b then [k] else [].

Definition first_keep (c : ctx) : bool :=
  match c_objects c with Stored _ keep _ :: _ => keep | _ => false end.

(* the documented key set, in bytewise order *)
Definition documented_keys (c : ctx) : list bytes :=
  let snaps := opt_key (includes c) k_snapshots in
  match doc_kind c with
  | DStartup => [k_binding]
  | DSchedule => [k_binding] ++ snaps ++ [k_type]
  | DGroup => [k_binding; k_groupName] ++ snaps ++ [k_type]
  | DSync => [k_binding; k_objects] ++ snaps ++ [k_type]
  | DEvent => [k_binding] ++ opt_key (c_jq c) k_filterResult ++ opt_key (first_keep c) k_object
              ++ snaps ++ [k_type; k_watchEvent]
  | DValidating | DMutating => [k_binding; k_review] ++ snaps ++ [k_type]
  | DConversion => [k_binding; k_fromVersion; k_review] ++ snaps ++ [k_toVersion; k_type]
  | DUndoc => [k_binding]
  end.

Definition has (k : bytes) (v : json) (j : json) : bool := option_eqb json_eqb (jget k j) (Some v).

Definition single (outs : list json) : option json :=
  match outs with [v] => Some v | _ => None end.

(* `object` and `filterResult` of one watched object: the full object exactly when full
   objects are kept; filterResult exactly when jqFilter is set, and then equal to the jq
   result for that very object (when jq yields one result; several or no results: the
   text does not say which value, only presence is required) *)
Definition item_fields_ok (i : item) (j : json) : bool :=
  match i with
  | Stored jqf keep obj =>
      option_eqb json_eqb (jget k_object j) (if keep then Some obj else None)
      && match jqf with
         | None => negb (is_some (jget k_filterResult j))
         | Some outs =>
             match jget k_filterResult j, single outs with
             | Some fr, Some v => json_eqb fr v
             | Some _, None => true
             | None, _ => false
             end
         end
  | Raw _ => true
  end.

Definition item_doc_ok (i : item) (j : json) : bool :=
  item_fields_ok i j
  && forallb (fun k => bytes_eqb k k_object || bytes_eqb k k_filterResult) (jkeys j).

Definition items_doc_ok (l : list item) (j : json) : bool :=
  match j with JArr js => forall2b item_doc_ok l js | _ => false end.

Definition snapshots_doc_ok (snaps : list (bytes * list item)) (j : json) : bool :=
  match j with
  | JObj m => forall2b (fun p kv => bytes_eqb (fst p) (fst kv) && items_doc_ok (snd p) (snd kv)) snaps m
  | _ => false
  end.

Definition doc_v1 (c : ctx) (j : json) : bool :=
  list_eqb bytes_eqb (jkeys j) (documented_keys c)
  && (if includes c
      then match jget k_snapshots j with Some s => snapshots_doc_ok (c_snapshots c) s | None => false end
      else negb (is_some (jget k_snapshots j)))
  && match doc_kind c with
     | DStartup => true
     | DSchedule => has k_type (JStr s_Schedule) j
     | DGroup => has k_type (JStr s_Group) j && has k_groupName (JStr (c_group c)) j
     | DSync => has k_type (JStr s_Synchronization) j
                && match jget k_objects j with Some a => items_doc_ok (c_objects c) a | None => false end
     | DEvent => has k_type (JStr s_Event) j
                 && has k_watchEvent (JStr (wev_str (c_wev c))) j
                 && match c_objects c with i :: _ => item_fields_ok i j | [] => false end
     | DValidating => has k_type (JStr s_Validating) j && has k_review (opt_json (c_areview c)) j
     | DMutating => has k_type (JStr s_Mutating) j && has k_review (opt_json (c_areview c)) j
     | DConversion => has k_type (JStr s_Conversion) j && has k_review (opt_json (c_creview c)) j
                      && has k_fromVersion (JStr (c_from c)) j && has k_toVersion (JStr (c_to c)) j
     | DUndoc => true
     end.

(* v0 (legacy, undocumented in HOOKS.md; the shape is the one v0 hooks rely on):
   binding always; for a kubernetes binding resourceEvent (add|update|delete, "" for the
   initial run) and, when there is an object, its namespace, kind and name *)
Definition jpath (path : list bytes) (j : json) : option json :=
  fold_left (fun o k => match o with Some x => jget k x | None => None end) path (Some j).
Definition str_or_empty (o : option json) : bytes := match o with Some (JStr s) => s | _ => [] end.

Definition doc_v0 (c : ctx) (j : json) : bool :=
  match c_btype c with
  | BKube =>
      has k_resourceEvent
          (JStr (match c_wev c with WNone => [] | WAdded => s_add | WModified => s_update | WDeleted => s_delete end)) j
      && match c_objects c with
         | [] => list_eqb bytes_eqb (jkeys j) [k_binding; k_resourceEvent]
         | Stored _ _ obj :: _ =>
             list_eqb bytes_eqb (jkeys j)
                      [k_binding; k_resourceEvent; k_resourceKind; k_resourceName; k_resourceNamespace]
             && has k_resourceNamespace (JStr (str_or_empty (jpath [k_metadata; k_namespace] obj))) j
             && has k_resourceKind (JStr (str_or_empty (jpath [k_kind] obj))) j
             && has k_resourceName (JStr (str_or_empty (jpath [k_metadata; k_name] obj))) j
         | Raw _ :: _ => true
         end
  | _ => list_eqb bytes_eqb (jkeys j) [k_binding]
  end.

(* ---- P ---- *)

Definition binding_ok (c : ctx) (j : json) : bool := has k_binding (JStr (c_binding c)) j.

Definition P_item (v : version) (c : ctx) (j : json) : bool :=
  match v with
  | V1 => binding_ok c j && (if wf1 c then doc_v1 c j else true)
  | V0 => binding_ok c j && (if wf0 c then doc_v0 c j else true)
  | VOther => true      (* no hook config loads with another version: nothing is promised *)
  end.

(* the file is a JSON array with one conforming item per context; a crash (no file) never conforms *)
Definition P (v : version) (cs : list ctx) (out : option json) : bool :=
  match out with
  | Some (JArr js) => forall2b (P_item v) cs js
  | _ => false
  end.

(* ---- trigger of the recorded finding F8 (C08): the jq result of some rendered object
   is not a single JSON object (applyFilter keeps object-valued results only) ---- *)

Definition item_trigger (i : item) : bool :=
  match i with
  | Stored (Some outs) _ _ => match outs with [JObj _] => false | _ => true end
  | _ => false
  end.

Definition ctx_trigger (c : ctx) : bool :=
  existsb item_trigger (c_objects c)
  || existsb (fun p => existsb item_trigger (snd p)) (c_snapshots c).

Definition T (v : version) (cs : list ctx) : bool :=
  match v with V1 => existsb ctx_trigger cs | _ => false end.
