(* C09_Spec.v — property C09 as a decidable predicate over what a hook reads from its
   binding-context file.  Written from the property text and the documented field table
   (docs/src/HOOKS.md "Binding context", BINDING_VALIDATING.md, BINDING_CONVERSION.md):

     binding        always
     type           "Schedule" | "Synchronization" | "Event" | "Group" | "Validating" | "Mutating" | "Conversion"
                    (absent for onStartup)
     Synchronization   objects : one element per object, each with `object` (iff full objects
                       are kept) and `filterResult` (iff jqFilter is set)
     Event             watchEvent, object (iff full objects are kept), filterResult (iff
                       jqFilter is set) = the jq result for that very object
     Group             groupName, snapshots  — and nothing else
     Validating/Mutating   review (the AdmissionReview)
     Conversion        fromVersion, toVersion, review (the ConversionReview)
     snapshots         present exactly when the binding includes snapshots; one array per
                       included binding name, elements as in `objects`

   The predicate talks about the INPUT (the context: binding kind, options, objects with
   the jq oracle's answer) and the OBSERVED JSON only; it never calls the model's render. *)
From Verif Require Import Common Json C09_Model.

Fixpoint forall2b {A B} (f : A -> B -> bool) (l : list A) (m : list B) : bool :=
  match l, m with
  | [], [] => true
  | x :: l', y :: m' => f x y && forall2b f l' m'
  | _, _ => false
  end.

(* keys strictly increasing (every key smaller than every later key): the canonical form
   in which the harness prints every JSON object and every Go map *)
Fixpoint sorted_strict {A} (m : list (bytes * A)) : bool :=
  match m with
  | [] => true
  | (k, _) :: r => forallb (fun p => bytes_ltb k (fst p)) r && sorted_strict r
  end.

(* ---- which contexts the documentation talks about ---- *)

Definition canon_outs (outs : list json) : bool :=
  forallb (fun v => match v with JObj m => sorted_strict m | _ => true end) outs.

(* an element produced by the informer path for a binding whose jqFilter is set/unset as
   [jq] says (None: any binding — snapshot elements come from other bindings) *)
Definition wf_item (jq : option bool) (i : item) : bool :=
  match i with
  | Stored jqf _ _ =>
      match jq with Some b => Bool.eqb (is_some jqf) b | None => true end
      && match jqf with Some outs => canon_outs outs | None => true end
  | Raw _ => false
  end.

Definition wf_snapshots (c : ctx) : bool :=
  sorted_strict (c_snapshots c)
  && forallb (fun p => forallb (wf_item None) (snd p)) (c_snapshots c).

Definition grouped (c : ctx) : bool := negb (is_nil (c_group c)).

(* contexts as the operator builds them for the documented bindings of a v1 hook *)
Definition wf1 (c : ctx) : bool :=
  wf_snapshots c &&
  match c_btype c with
  | BOnStartup => negb (includes c)             (* onStartup has no includeSnapshotsFrom *)
  | BSchedule => true
  | BKube =>
      if grouped c then true
      else match c_type c, c_wev c, c_objects c with
           | KSync, WNone, objs => forallb (wf_item (Some (c_jq c))) objs
           | KEvent, WAdded, [i] | KEvent, WModified, [i] | KEvent, WDeleted, [i] =>
               wf_item (Some (c_jq c)) i
           | _, _, _ => false
           end
  | BValidating | BMutating => is_some (c_areview c)
  | BConversion => is_some (c_creview c)
  | BOther => false
  end.

(* contexts of a v0 hook: v0 has no keepFullObjectsInMemory option, full objects are kept *)
Definition wf0 (c : ctx) : bool :=
  match c_btype c with
  | BKube => match c_objects c with
             | [] => true
             | Stored _ keep _ :: _ => keep
             | Raw _ :: _ => false
             end
  | _ => true
  end.

(* ---- the documented context kinds and their field table ---- *)

Inductive dkind := DStartup | DSchedule | DGroup | DSync | DEvent | DValidating | DMutating | DConversion | DUndoc.

Definition doc_kind (c : ctx) : dkind :=
  match c_btype c with
  | BOnStartup => DStartup
  | BValidating => DValidating
  | BMutating => DMutating
  | BConversion => DConversion
  | BSchedule => if grouped c then DGroup else DSchedule
  | BKube => if grouped c then DGroup
             else match c_type c with KSync => DSync | KEvent => DEvent | KEmpty => DUndoc end
  | BOther => DUndoc
  end.

Definition opt_key (b : bool) (k : bytes) : list bytes := if b then [k] else [].

Definition first_keep (c : ctx) : bool :=
  match c_objects c with Stored _ keep _ :: _ => keep | _ => false end.

(* the documented key set, in bytewise order *)
Definition documented_keys (c : ctx) : list bytes :=
  let snaps := opt_key (includes c) k_snapshots in
  match doc_kind c with
  | DStartup => [k_binding]
  | DSchedule => [k_binding] ++ snaps ++ [k_type]
  | DGroup => [k_binding; k_groupName] ++ snaps ++ [k_type]
  | DSync => [k_binding; k_objects] ++ snaps ++ [k_type]
  | DEvent => [k_binding] ++ opt_key (c_jq c) k_filterResult ++ opt_key (first_keep c) k_object
              ++ snaps ++ [k_type; k_watchEvent]
  | DValidating | DMutating => [k_binding; k_review] ++ snaps ++ [k_type]
  | DConversion => [k_binding; k_fromVersion; k_review] ++ snaps ++ [k_toVersion; k_type]
  | DUndoc => [k_binding]
  end.

Definition has (k : bytes) (v : json) (j : json) : bool := option_eqb json_eqb (jget k j) (Some v).

Definition single (outs : list json) : option json :=
  match outs with [v] => Some v | _ => None end.

(* `object` and `filterResult` of one watched object: the full object exactly when full
   objects are kept; filterResult exactly when jqFilter is set, and then equal to the jq
   result for that very object (when jq yields one result; several or no results: the
   text does not say which value, only presence is required) *)
Definition item_fields_ok (i : item) (j : json) : bool :=
  match i with
  | Stored jqf keep obj =>
      option_eqb json_eqb (jget k_object j) (if keep then Some obj else None)
      && match jqf with
         | None => negb (is_some (jget k_filterResult j))
         | Some outs =>
             match jget k_filterResult j, single outs with
             | Some fr, Some v => json_eqb fr v
             | Some _, None => true
             | None, _ => false
             end
         end
  | Raw _ => true
  end.

Definition item_doc_ok (i : item) (j : json) : bool :=
  item_fields_ok i j
  && forallb (fun k => bytes_eqb k k_object || bytes_eqb k k_filterResult) (jkeys j).

Definition items_doc_ok (l : list item) (j : json) : bool :=
  match j with JArr js => forall2b item_doc_ok l js | _ => false end.

Definition snapshots_doc_ok (snaps : list (bytes * list item)) (j : json) : bool :=
  match j with
  | JObj m => forall2b (fun p kv => bytes_eqb (fst p) (fst kv) && items_doc_ok (snd p) (snd kv)) snaps m
  | _ => false
  end.

Definition doc_v1 (c : ctx) (j : json) : bool :=
  list_eqb bytes_eqb (jkeys j) (documented_keys c)
  && (if includes c
      then match jget k_snapshots j with Some s => snapshots_doc_ok (c_snapshots c) s | None => false end
      else negb (is_some (jget k_snapshots j)))
  && match doc_kind c with
     | DStartup => true
     | DSchedule => has k_type (JStr s_Schedule) j
     | DGroup => has k_type (JStr s_Group) j && has k_groupName (JStr (c_group c)) j
     | DSync => has k_type (JStr s_Synchronization) j
                && match jget k_objects j with Some a => items_doc_ok (c_objects c) a | None => false end
     | DEvent => has k_type (JStr s_Event) j
                 && has k_watchEvent (JStr (wev_str (c_wev c))) j
                 && match c_objects c with i :: _ => item_fields_ok i j | [] => false end
     | DValidating => has k_type (JStr s_Validating) j && has k_review (opt_json (c_areview c)) j
     | DMutating => has k_type (JStr s_Mutating) j && has k_review (opt_json (c_areview c)) j
     | DConversion => has k_type (JStr s_Conversion) j && has k_review (opt_json (c_creview c)) j
                      && has k_fromVersion (JStr (c_from c)) j && has k_toVersion (JStr (c_to c)) j
     | DUndoc => true
     end.

(* v0 (legacy, undocumented in HOOKS.md; the shape is the one v0 hooks rely on):
   binding always; for a kubernetes binding resourceEvent (add|update|delete, "" for the
   initial run) and, when there is an object, its namespace, kind and name *)
Definition jpath (path : list bytes) (j : json) : option json :=
  fold_left (fun o k => match o with Some x => jget k x | None => None end) path (Some j).
Definition str_or_empty (o : option json) : bytes := match o with Some (JStr s) => s | _ => [] end.

Definition doc_v0 (c : ctx) (j : json) : bool :=
  match c_btype c with
  | BKube =>
      has k_resourceEvent
          (JStr (match c_wev c with WNone => [] | WAdded => s_add | WModified => s_update | WDeleted => s_delete end)) j
      && match c_objects c with
         | [] => list_eqb bytes_eqb (jkeys j) [k_binding; k_resourceEvent]
         | Stored _ _ obj :: _ =>
             list_eqb bytes_eqb (jkeys j)
                      [k_binding; k_resourceEvent; k_resourceKind; k_resourceName; k_resourceNamespace]
             && has k_resourceNamespace (JStr (str_or_empty (jpath [k_metadata; k_namespace] obj))) j
             && has k_resourceKind (JStr (str_or_empty (jpath [k_kind] obj))) j
             && has k_resourceName (JStr (str_or_empty (jpath [k_metadata; k_name] obj))) j
         | Raw _ :: _ => true
         end
  | _ => list_eqb bytes_eqb (jkeys j) [k_binding]
  end.

(* ---- P ---- *)

Definition binding_ok (c : ctx) (j : json) : bool := has k_binding (JStr (c_binding c)) j.

Definition P_item (v : version) (c : ctx) (j : json) : bool :=
  match v with
  | V1 => binding_ok c j && (if wf1 c then doc_v1 c j else true)
  | V0 => binding_ok c j && (if wf0 c then doc_v0 c j else true)
  | VOther => true      (* no hook config loads with another version: nothing is promised *)
  end.

(* the file is a JSON array with one conforming item per context; a crash (no file) never conforms *)
Definition P (v : version) (cs : list ctx) (out : option json) : bool :=
  match out with
  | Some (JArr js) => forall2b (P_item v) cs js
  | _ => false
  end.

(* ---- trigger of the recorded finding F8 (C08): the jq result of some rendered object
   is not a single JSON object (applyFilter keeps object-valued results only) ---- *)

Definition item_trigger (i : item) : bool :=
  match i with
  | Stored (Some outs) _ _ => match outs with [JObj _] => false | _ => true end
  | _ => false
  end.

Definition ctx_trigger (c : ctx) : bool :=
  existsb item_trigger (c_objects c)
  || existsb (fun p => existsb item_trigger (snd p)) (c_snapshots c).

Definition T (v : version) (cs : list ctx) : bool :=
  match v with V1 => existsb ctx_trigger cs | _ => false end.

(* ====================================================================================
   The same contract for the files the operator produces by itself (flow cases): a hook
   with one kubernetes binding, the objects of the cluster, the watch events.

   The predicate is about the INPUT (the binding's options as documented, the objects
   with the jq oracle's answers, the order of the watch events) and the OBSERVED files.
   Which events lead to a file is C08's subject and which objects a snapshot lists is
   C02's: neither is demanded here.  Every file is judged as what it is: the file
   observed after the k-th watch event must be the documented `Event` context for that
   very event and object, the file observed before any event the documented
   `Synchronization` context; every element of `objects` and of the `snapshots` arrays
   must be the documented rendering of the object it stands for (the driver records the
   ResourceId behind every element) as that object is at that moment — with `object`
   exactly when the binding keeps full objects and `filterResult` exactly when it has a
   jqFilter.
   ==================================================================================== *)

(* the documented element for object [w] of binding [b] *)
Definition spec_item (b : binding) (w : wobj) : item :=
  Stored (if b_jq b then Some (w_outs w) else None) (b_keep b) (w_obj w).

(* the objects of the cluster, by ResourceId *)
Definition alive_step (a : list (bytes * wobj)) (op : wevent * wobj) : list (bytes * wobj) :=
  match fst op with
  | WAdded | WModified => aset (w_id (snd op)) (snd op) a
  | WDeleted => adel (w_id (snd op)) a
  | WNone => a
  end.
Definition alive_init (ws : list wobj) : list (bytes * wobj) :=
  fold_left (fun a w => aset (w_id w) w a) ws [].
Definition alive_at (f : flow) (k : nat) : list (bytes * wobj) :=
  fold_left alive_step (firstn k (f_ops f)) (alive_init (f_initial f)).

Fixpoint resolve (a : list (bytes * wobj)) (ids : list bytes) : option (list wobj) :=
  match ids with
  | [] => Some []
  | i :: r => match aget i a, resolve a r with
              | Some w, Some ws => Some (w :: ws)
              | _, _ => None
              end
  end.

Fixpoint resolve_snaps (a : list (bytes * wobj)) (l : list (bytes * list bytes)) : option (list (bytes * list wobj)) :=
  match l with
  | [] => Some []
  | (n, ids) :: r => match resolve a ids, resolve_snaps a r with
                     | Some ws, Some rs => Some ((n, ws) :: rs)
                     | _, _ => None
                     end
  end.

(* the context the documentation describes for binding [b] *)
Definition expected_ctx (b : binding) (kt : ktype) (wev : wevent) (objs : list wobj)
           (snaps : list (bytes * list wobj)) : ctx :=
  mkCtx BKube (b_jq b) (b_incl b) false (b_group b) (b_name b) kt wev
        (map (spec_item b) objs)
        (map (fun p => (fst p, map (spec_item b) (snd p))) snaps)
        None None [] [].

(* the context is one of the documented ones for its config version (and, for v0, one of a v0 hook) *)
Definition wfv (v : version) (c : ctx) : bool :=
  match v with V1 => wf1 c | V0 => wf0 c | VOther => true end.

Definition P_file (f : flow) (fo : fobs) : bool :=
  let b := f_bind f in
  let k := N.to_nat (fo_step fo) in
  let a := alive_at f k in
  (* one array per included binding name *)
  list_eqb bytes_eqb (map fst (fo_snaps fo)) (canon_names (b_incl b))
  && match resolve_snaps a (fo_snaps fo) with
     | None => false
     | Some snaps =>
         match k with
         | O =>
             match resolve a (fo_ids fo) with
             | Some objs =>
                 let c := expected_ctx b KSync WNone objs snaps in
                 wfv (f_version f) c && P (f_version f) [c] (fo_out fo)
             | None => false
             end
         | S k' =>
             match nth_error (f_ops f) k' with
             | Some (t, w) =>
                 list_eqb bytes_eqb (fo_ids fo) [w_id w]
                 && (let c := expected_ctx b KEvent t [w] snaps in
                     wfv (f_version f) c && P (f_version f) [c] (fo_out fo))
             | None => false
             end
         end
     end.

(* a crash (no observation) never conforms *)
Definition P_flow (f : flow) (obs : option (list fobs)) : bool :=
  match obs with
  | Some files => forallb (P_file f) files
  | None => false
  end.

(* trigger of F8 on a flow: a jqFilter is set and the jq result of some object is not a
   single JSON object (v1 only: the v0 shape has no filterResult) *)
Definition wobj_trigger (b : binding) (w : wobj) : bool := item_trigger (spec_item b w).

Definition T_flow (f : flow) : bool :=
  match f_version f with
  | V1 => existsb (wobj_trigger (f_bind f)) (f_initial f)
          || existsb (fun op => wobj_trigger (f_bind f) (snd op)) (f_ops f)
  | _ => false
  end.

(* ====================================================================================
   The same contract for combined arrays of a hook with several bindings (hook cases).

   INPUT: the hook's bindings — kubernetes bindings with their documented options and the
   objects of their scope, and schedule / validating / mutating / conversion bindings, each
   with its name, its includeSnapshotsFrom (own list and, for a binding with a group, the
   kubernetes bindings of that group) and its group — and the events whose contexts make up
   the array.  A binding is identified by its TYPE and its name: a schedule binding may be
   called like a kubernetes binding.  OBSERVED: the file, and for every item the event it
   stands for and the ResourceIds behind its `objects` and `snapshots` elements.

   Every item is judged as the documented context of ITS OWN binding: `snapshots` present
   exactly when that binding includes snapshots, with one array per name that binding
   includes; every array element the documented rendering of the object it stands for as
   the INCLUDED kubernetes binding renders it (its jqFilter, its keepFullObjectsInMemory),
   for the objects as they are when the hook runs; Schedule / Validating / Mutating /
   Conversion items with their documented fields.  Which events yield a context (C08),
   which objects a snapshot lists (C02) and which contexts are combined (C07) are not
   demanded here.
   ==================================================================================== *)

(* the objects in the scope of the kubernetes binding [name] when the hook runs *)
Definition hk_alive (hc : hcase) (name : bytes) : list (bytes * wobj) :=
  match kube_named name (hk_kube hc) with
  | Some (_, ws) => fold_left alive_step (watch_ops name (hk_evs hc)) (alive_init ws)
  | None => []
  end.

(* the documented elements of the `snapshots` arrays: objects of the included binding,
   rendered with the included binding's options *)
Definition hk_resolve_items (hc : hcase) (n : bytes) (ids : list bytes) : option (list item) :=
  match kube_named n (hk_kube hc) with
  | Some (b, _) => match resolve (hk_alive hc n) ids with
                   | Some ws => Some (map (spec_item b) ws)
                   | None => None
                   end
  | None => match ids with [] => Some [] | _ => None end
  end.

Fixpoint hk_resolve_snaps (hc : hcase) (l : list (bytes * list bytes)) : option (list (bytes * list item)) :=
  match l with
  | [] => Some []
  | (n, ids) :: r => match hk_resolve_items hc n ids, hk_resolve_snaps hc r with
                     | Some its, Some rs => Some ((n, its) :: rs)
                     | _, _ => None
                     end
  end.

(* the contexts the documentation describes for the event, given the objects behind the item.
   A conversion request is for a CRD and the rule the chain resolved it to: the context is the
   Conversion context of a conversion binding of that CRD that declares this rule, with
   fromVersion/toVersion of THAT rule (one candidate per such binding) *)
Definition hk_expected (hc : hcase) (ev : hevent) (ids : list bytes) (snaps : list (bytes * list item))
  : list ctx :=
  match ev with
  | HSync name =>
      match kube_named name (hk_kube hc) with
      | Some (b, _) =>
          match resolve (hk_alive hc name) ids with
          | Some objs => [mkCtx BKube (b_jq b) (b_incl b) false (b_group b) (b_name b) KSync WNone
                                (map (spec_item b) objs) snaps None None [] []]
          | None => []
          end
      | None => []
      end
  | HWatch name t w =>
      match kube_named name (hk_kube hc) with
      | Some (b, _) =>
          if list_eqb bytes_eqb ids [w_id w]
          then [mkCtx BKube (b_jq b) (b_incl b) false (b_group b) (b_name b) KEvent t
                      [spec_item b w] snaps None None [] []]
          else []
      | None => []
      end
  | HOther k review =>
      match nth_error (hk_other hc) k, ids with
      | Some o, [] =>
          match ob_type o with
          | BSchedule => [mkCtx BSchedule false (ob_incl o) false (ob_group o) (ob_name o) KEmpty WNone
                                [] snaps None None [] []]
          | BValidating | BMutating =>
              [mkCtx (ob_type o) false (ob_incl o) false (ob_group o) (ob_name o) KEmpty WNone
                     [] snaps (Some review) None [] []]
          | _ => []
          end
      | _, _ => []
      end
  | HConv crd review from to =>
      match ids with
      | [] => map (fun o => mkCtx BConversion false (ob_incl o) false (ob_group o) (ob_name o) KEmpty WNone
                                  [] snaps None (Some review) from to)
                  (filter (conv_match crd from to) (hk_other hc))
      | _ => []
      end
  end.

Definition P_hook_item (hc : hcase) (it : hitem) (j : json) : bool :=
  match nth_error (hk_evs hc) (N.to_nat (hi_ev it)), hk_resolve_snaps hc (hi_snaps it) with
  | Some ev, Some snaps =>
      existsb (fun c =>
                 (* one array per name the item's own binding includes *)
                 list_eqb bytes_eqb (map fst (hi_snaps it)) (canon_names (c_incl c))
                 && wf1 c && P_item V1 c j)
              (hk_expected hc ev (hi_ids it) snaps)
  | _, _ => false
  end.

(* the file is a JSON array with one conforming item per recorded context; a crash never conforms *)
Definition P_hook (hc : hcase) (obs : option hobs) : bool :=
  match obs with
  | Some (mkHobs items (Some (JArr js))) => forall2b (P_hook_item hc) items js
  | _ => false
  end.

(* trigger of F8 on a hook case: a kubernetes binding with a jqFilter sees an object whose jq
   result is not a single JSON object *)
Definition T_hook (hc : hcase) : bool :=
  existsb (fun p => existsb (wobj_trigger (fst p)) (snd p)) (hk_kube hc)
  || existsb (fun ev => match ev with
                        | HWatch n _ w => match kube_named n (hk_kube hc) with
                                          | Some (b, _) => wobj_trigger b w
                                          | None => false
                                          end
                        | _ => false
                        end) (hk_evs hc).

(* two bindings of ONE type that share a name cannot be told apart by (type, name): the event
   belongs to a binding whose (type, name) is carried by an earlier binding of the hook with
   another set of included names *)
Definition okey_eqb (a b : obind) : bool :=
  btype_eqb (ob_type a) (ob_type b) && bytes_eqb (ob_name a) (ob_name b).

Definition first_namesake_differs (hc : hcase) (o : obind) : bool :=
  match find (okey_eqb o) (hk_other hc) with
  | Some o' => negb (list_eqb bytes_eqb (canon_names (ob_incl o')) (canon_names (ob_incl o)))
  | None => false
  end.

Definition T_same_type_name (hc : hcase) : bool :=
  existsb (fun ev => match ev with
                     | HOther k _ =>
                         match nth_error (hk_other hc) k with
                         | Some o => first_namesake_differs hc o
                         | None => false
                         end
                     | HConv crd _ from to =>
                         existsb (fun o => conv_match crd from to o && first_namesake_differs hc o) (hk_other hc)
                     | _ => false
                     end) (hk_evs hc).

(* a validating and a mutating binding (or two mutating bindings) of one name share their webhook
   id: the admission event of one of them is answered with the link of the other *)
Definition obind_eqb (a b : obind) : bool :=
  btype_eqb (ob_type a) (ob_type b) && bytes_eqb (ob_name a) (ob_name b)
  && list_eqb bytes_eqb (ob_incl a) (ob_incl b) && bytes_eqb (ob_group a) (ob_group b)
  && bytes_eqb (ob_crd a) (ob_crd b)
  && list_eqb (pair_eqb bytes_eqb bytes_eqb) (ob_rules a) (ob_rules b).

Definition T_admission_same_name (hc : hcase) : bool :=
  existsb (fun ev => match ev with
                     | HOther k _ =>
                         match nth_error (hk_other hc) k with
                         | Some o => is_adm (ob_type o) && negb (obind_eqb (adm_link hc o) o)
                         | None => false
                         end
                     | _ => false
                     end) (hk_evs hc).

(* ====================================================================================
   "the jq result for THAT VERY object".

   The sentence is already what [item_fields_ok] demands: the object [obj] of a [Stored] element
   (of a [wobj]) is the object as it exists in the cluster - with everything an API server adds
   to it: metadata.managedFields, uid, resourceVersion, creationTimestamp, generation,
   annotations - `object` must be exactly [obj], and [jqf] / [w_outs] is the answer of the jq
   oracle for exactly [obj].  Nothing is added to P.

   What follows is only the well-formedness of such inputs: a JSON value stands for a Go
   map[string]any tree exactly when every object in it has its keys strictly increasing (one
   value per key; the harness prints every object that way). *)
Fixpoint canon_json (j : json) : bool :=
  match j with
  | JArr l => forallb canon_json l
  | JObj m => sorted_strict m && forallb (fun kv => canon_json (snd kv)) m
  | _ => true
  end.

Definition item_canon (i : item) : bool :=
  match i with Stored _ _ obj => canon_json obj | Raw _ => true end.

Definition ctx_canon (c : ctx) : bool :=
  forallb item_canon (c_objects c) && forallb (fun p => forallb item_canon (snd p)) (c_snapshots c).

Definition wobj_canon (w : wobj) : bool := canon_json (w_obj w).

Definition flow_canon (f : flow) : bool :=
  forallb wobj_canon (f_initial f) && forallb (fun op => wobj_canon (snd op)) (f_ops f).

Definition hcase_canon (hc : hcase) : bool :=
  forallb (fun p => forallb wobj_canon (snd p)) (hk_kube hc)
  && forallb (fun ev => match ev with HWatch _ _ w => wobj_canon w | _ => true end) (hk_evs hc).
