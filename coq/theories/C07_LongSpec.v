(* C07_LongSpec.v — the LENGTH of the backlog (after seeded change C07-9).

   Text: "the tasks immediately following it for the same hook are merged into it: the hook receives the
   concatenation, in queue order, of ALL their binding contexts, EXACTLY THOSE tasks disappear from the
   queue".  The sentence has no bound: however long the run of same-hook tasks behind the head is - 3, 130,
   1000 tasks (a hook that was slow, in back-off or rate limited while events kept arriving) - the whole
   run is merged by ONE execution of the head.

   Two things are here, both written with list vocabulary only (no function of the model):

   1. the count clause [P_count]: the number of tasks that disappear is the length of the maximal run of
      mergeable tasks behind the head, WHATEVER it is (counts in N, not nat).  It follows from [P]
      (C07_LongProofs.P_implies_P_count) and is evaluated beside it on every case.

   2. evaluation of the predicates of C07_Spec on long layouts.  vm_compute is call-by-value: in
      [left_out_ok] both sides of `||` and `&&` are evaluated, two recursive calls per context, 2^n steps
      for n contexts (16 contexts 0.03 s, 20 contexts 0.5 s, 130 contexts never).  [left_out_ok_lz] is
      the same function with `if` for `||` / `&&` (the second recursive call is evaluated only when the
      first one fails); [P_lz], [P_set_lz], [P_step_lz], [P_session_lz] are [P], [P_set], [P_step],
      [P_session] of C07_Spec with [left_out_ok_lz] for [left_out_ok], and nothing else changed.  They are
      EQUAL to the predicates of C07_Spec on every argument (C07_LongProofs, theorems C07_lz_...); the
      generated case files evaluate the _lz forms. *)
From Verif Require Import Common C07_Model C07_Spec.

(* ---- counts in N ---- *)
Fixpoint len_N {A} (l : list A) : N :=
  match l with [] => 0%N | _ :: r => N.succ (len_N r) end.

(* the length of the maximal run of elements satisfying [f] at the front of [l] *)
Fixpoint run_len {A} (f : A -> bool) (l : list A) : N :=
  match l with
  | [] => 0%N
  | x :: r => if f x then N.succ (run_len f r) else 0%N
  end.

(* how many tasks follow the head [h] immediately that are of its hook and type (and not stopped at) *)
Definition followers (stopfn : task -> bool) (h : task) (rest : list task) : N :=
  run_len (mergeable stopfn h) rest.

(* "exactly those tasks disappear from the queue": the queue (with what arrived meanwhile) is shorter by
   exactly the number of followers - no bound on that number *)
Definition P_count (i : input) (o : obs) : bool :=
  if wf i then
    N.eqb (len_N (o_queue o) + followers (stop_of (i_stop i)) (i_t i) (tl (i_q i)))
          (len_N (i_q i) + len_N (i_app i))
  else true.

(* the same for the queue the executed task names in a set *)
Definition P_set_count (i : sinput) (o : sobs) : bool :=
  if wf_set i then
    match queue_named (t_qn (s_t i)) (s_qs i), named (t_qn (s_t i)) (so_queues o) with
    | Some q, Some ids =>
        P_count (mkIn (s_t i) (s_stop i) q (arrived (t_qn (s_t i)) (s_app i))) (mkObs (so_res o) ids)
    | _, _ => true
    end
  else true.

(* ---- the predicates of C07_Spec in a form that vm_compute evaluates in linear time ---- *)
Fixpoint left_out_ok_lz (l d : list ctx) : bool :=
  match l with
  | [] => match d with [] => true | _ :: _ => false end
  | c :: r =>
      if match d with
         | c' :: d' => if ctx_eqb c c' then left_out_ok_lz r d' else false
         | [] => false
         end
      then true
      else if may_leave_out c r then left_out_ok_lz r d else false
  end.

Definition P_lz (i : input) (o : obs) : bool :=
  if wf i then
    let t := i_t i in
    let rest := tl (i_q i) in
    let b := block (stop_of (i_stop i)) t rest in
    let C := t_ctxs t ++ flat_map t_ctxs b in
    left_out_ok_lz C (obs_ctxs t o)
    && (is_nil b || ctxs_eqb (obs_ctxs t o) (spec_compact C))
    && ns_eqb (o_queue o)
              (map t_id (firstn 1 (i_q i) ++ after_block (stop_of (i_stop i)) t rest ++ i_app i))
    && ns_eqb (obs_mids t o) (t_mids t ++ flat_map t_mids b)
  else true.

Definition P_set_lz (i : sinput) (o : sobs) : bool :=
  if wf_set i then
    let t := s_t i in
    let names := map fst (s_qs i) in
    ns_eqb (map fst (so_queues o)) names
    && match queue_named (t_qn t) (s_qs i) with
       | None =>
           if mem_N (t_id t) (all_ids (s_qs i)) then true
           else is_none (so_res o) && forallb (untouched i o) names
       | Some q =>
           forallb (fun n => N.eqb n (t_qn t) || untouched i o n) names
           && match named (t_qn t) (so_queues o) with
              | Some ids =>
                  P_lz (mkIn t (s_stop i) q (arrived (t_qn t) (s_app i))) (mkObs (so_res o) ids)
              | None => false
              end
       end
  else true.

Definition executed_with_lz (sp : task -> bool) (t : task) (rest : list task) (qn : N) (o : ostepobs) : bool :=
  let b := block sp t rest in
  let C := t_ctxs t ++ flat_map t_ctxs b in
  match st_runs o, queue_named qn (st_state o) with
  | [r], Some q' =>
      N.eqb (ru_hook r) (t_hook t)
      && left_out_ok_lz C (ru_ctxs r)
      && (is_nil b || ctxs_eqb (ru_ctxs r) (spec_compact C))
      && tasks_eqb q'
           ((if st_success o then []
             else [mkTaskK (t_id t) (t_hook t) (t_ty t) true (ru_ctxs r)
                           (t_mids t ++ flat_map t_mids b) (t_qn t) (t_kube t) (t_group t) (t_exec t)
                           (stored_policy q')])
            ++ after_block sp t rest)
  | _, _ => false
  end.

Definition P_step_lz (v0s : list N) (qs : qset) (st : ostep) (o : ostepobs) : bool :=
  if wf_state qs then
    let names := map fst qs in
    let after := st_state o in
    ns_eqb (map fst after) names
    && match st with
       | SHead qn ok =>
           match queue_named qn qs with
           | Some (t :: rest) =>
               forallb (fun n => N.eqb n qn || N.eqb n (t_qn t) || same_queue qs after n) names
               && (if N.eqb (t_ty t) 0 && N.eqb (t_qn t) qn then
                     let v0 := mem_N (t_hook t) v0s in
                     if not_executed v0 t then
                       is_nil (st_runs o) && st_success o
                       && match queue_named qn after with
                          | Some q' => tasks_eqb q' rest
                          | None => false
                          end
                     else if v0 then
                       executed_with_lz stop_all t rest qn o || executed_with_lz nostop t rest qn o
                     else
                       executed_with_lz (stop_rule t) t rest qn o
                   else true)
           | _ =>
               is_nil (st_runs o) && forallb (same_queue qs after) names
           end
       | SLoose t ok =>
           if t_meta t && has_ctx t && negb (mem_N (t_id t) (all_ids qs)) then
             forallb (fun n => N.eqb n (t_qn t) || same_queue qs after n) names
             && match queue_named (t_qn t) qs with
                | None =>
                    if not_executed (mem_N (t_hook t) v0s) t then is_nil (st_runs o)
                    else
                      match st_runs o with
                      | [r] => N.eqb (ru_hook r) (t_hook t) && ctxs_eqb (ru_ctxs r) (t_ctxs t)
                      | _ => false
                      end
                | Some _ => true
                end
           else true
       end
  else true.

Fixpoint P_session_lz (v0s : list N) (qs : qset) (steps : list ostep) (obs : list ostepobs) : bool :=
  match steps, obs with
  | [], [] => true
  | st :: r, o :: ro => P_step_lz v0s qs st o && P_session_lz v0s (st_state o) r ro
  | _, _ => false
  end.

(* the number of tasks a step of a session took out of the queue whose head it executed (class op):
   an executed head of a v1 hook takes in all its followers and leaves (success) or stays (failure) *)
Definition P_step_count (v0s : list N) (qs : qset) (st : ostep) (o : ostepobs) : bool :=
  if wf_state qs then
    match st with
    | SHead qn ok =>
        match queue_named qn qs, queue_named qn (st_state o) with
        | Some (t :: rest), Some q' =>
            if N.eqb (t_ty t) 0 && N.eqb (t_qn t) qn
               && negb (mem_N (t_hook t) v0s) && negb (not_executed false t)
            then N.eqb (len_N q' + followers (stop_rule t) t rest + (if st_success o then 1 else 0))
                       (N.succ (len_N rest))
            else true
        | _, _ => true
        end
    | SLoose _ _ => true
    end
  else true.

Fixpoint P_session_count (v0s : list N) (qs : qset) (steps : list ostep) (obs : list ostepobs) : bool :=
  match steps, obs with
  | st :: r, o :: ro => P_step_count v0s qs st o && P_session_count v0s (st_state o) r ro
  | _, _ => true
  end.
