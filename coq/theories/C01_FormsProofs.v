(* C01_FormsProofs.v — on everything client-go produces, the head of handleWatchEvent reads a
   handler call as what it means: the form of a Deleted callback is invisible from there on, and
   the theorems of C01_Proofs carry over to deliveries in any mixture of forms. *)
From Verif Require Import Common C01_Model C01_Spec C01_Corr C01_Proofs C01_Forms C01_FormsSpec.
Open Scope N_scope.

Lemma wkind_eqb_eq a b : wkind_eqb a b = true -> a = b.
Proof. destruct a, b; cbn; intros H; try discriminate; reflexivity. Qed.

Lemma wf_meant_head d : clientgo_wf d = true -> meant d = head d.
Proof.
  destruct d as [k [o p|key o p]]; unfold clientgo_wf, meant, head; cbn [dl_arg dl_kind]; intros H; [reflexivity|].
  apply andb_true_iff in H as [H1 H2]. apply N.eqb_eq in H1. apply wkind_eqb_eq in H2. now subst.
Qed.

Lemma spec_is_model fi : forallb clientgo_wf (f_dels fi) = true -> spec_input fi = model_input fi.
Proof.
  intros H. unfold spec_input, model_input. f_equal. apply map_ext_in. intros d Hd.
  apply wf_meant_head. rewrite forallb_forall in H. now apply H.
Qed.

Theorem forms_no_loss fi : forallb clientgo_wf (f_dels fi) = true -> T (model_input fi) = false ->
  PF fi (k_of (model_input fi)) (obs_of (run_forms fi)) = true.
Proof.
  intros Hwf HT. unfold PF, run_forms. rewrite (spec_is_model fi Hwf). now apply no_loss.
Qed.

(* the seeded change's reading of a tombstone (skip the call) is refuted by the predicate: the
   smallest history - an object appears, a relist finds it gone - with the deletion dropped *)
Example forms_dropped_tombstone_violates :
  let fi := mkFIn [Added; Modified; Deleted] [mkDl Added (AObj 1 1); mkDl Deleted (ATomb 1 1 1)]
                  [StartS 0; E; StartW; StepW; StartW; StepW] in
  forallb clientgo_wf (f_dels fi) = true /\
  PF fi 0 (mkOb [(1, Added, 1)] [(0, [])] [(1, 1)] true 0 0 2 false) = false /\
  PF fi 0 (obs_of (run_forms fi)) = true.
Proof. vm_compute. repeat split. Qed.
